(* ReadLemmas.v -- the reader model on the layout produced by the writer model. *)
From Geff Require Import Base Dtype DtypeLemmas Vlen VlenLemmas Tree TreeLemmas Validate Write Read RoundTrip WriteLemmas.
From Geff.Gen Require Import Consts.
Open Scope string_scope.
Open Scope list_scope.

Lemma filter_all {A} (f : A -> bool) l : (forall x, In x l -> f x = true) -> filter f l = l.
Proof. induction l as [|x r IH]; intros H; cbn; [reflexivity|].
  rewrite (H x (or_introl eq_refl)), IH; auto. intros y Hy. apply H. right. exact Hy. Qed.

Lemma mapM_ok {A B} (f : A -> res B) (g : A -> B) l : (forall x, In x l -> f x = Ok (g x)) -> mapM f l = Ok (map g l).
Proof. induction l as [|x r IH]; intros H; cbn; [reflexivity|].
  rewrite (H x (or_introl eq_refl)), IH; auto. intros y Hy. apply H. right. exact Hy. Qed.

Lemma dict_of_go (ps acc : props) :
  NoDup (akeys ps) -> (forall k, In k (akeys ps) -> alookup k acc = None) ->
  fold_left (fun acc kv => aset (fst kv) (snd kv) acc) ps acc = acc ++ ps.
Proof. revert acc. induction ps as [|[k v] r IH]; intros acc Hnd Hf; cbn; [rewrite app_nil_r; reflexivity|].
  inversion Hnd as [|? ? Hnotin Hnd']; subst.
  rewrite (aset_fresh _ _ _ (Hf k (or_introl eq_refl))). rewrite IH; auto.
  - rewrite <- app_assoc. reflexivity.
  - intros k' Hk'. rewrite alookup_app, (Hf k' (or_intror Hk')). cbn.
    rewrite seqb_neq; [reflexivity|]. intro; subst; contradiction. Qed.
Lemma dict_of_nodup ps : NoDup (akeys ps) -> dict_of ps = ps.
Proof. intros H. unfold dict_of. rewrite dict_of_go; auto. Qed.

(* ---------- the stored form of a property is read back as its three arrays ---------- *)
Lemma read_prop_group (v : arr) m d :
  let pg := prop_group v m d in
  expect_array pg path_VALUES = Ok v /\
  ahas path_MISSING (children pg) = (match m with Some _ => true | None => false end) /\
  ahas path_DATA (children pg) = (match d with Some _ => true | None => false end) /\
  (forall x, m = Some x -> expect_array pg path_MISSING = Ok x) /\
  (forall x, d = Some x -> expect_array pg path_DATA = Ok x).
Proof. cbn zeta. unfold prop_group, prop_members, expect_array, get. cbn [children].
  destruct m, d; cbn; repeat split; intros; try discriminate; try congruence;
    match goal with H : Some _ = Some _ |- _ => inversion H; subst; reflexivity end. Qed.

Lemma read_prop_stored root grp name v m d :
  get_path root [grp; path_PROPS; name] = Some (prop_group v m d) ->
  read_prop root grp name = Ok (mkzprop v m d).
Proof. intros H. unfold read_prop. rewrite H. unfold prop_group at 1.
  change (ZG [] (prop_members v m d)) with (prop_group v m d).
  destruct (read_prop_group v m d) as [Hv [Hm [Hd [Hm' Hd']]]]. cbn zeta in *.
  rewrite Hv. cbn [rbind]. cbn [children prop_group] in Hm, Hd. rewrite Hm, Hd.
  destruct m as [x|]; [rewrite (Hm' x eq_refl)|]; destruct d as [y|]; [rewrite (Hd' y eq_refl)| |rewrite (Hd' y eq_refl)|]; reflexivity. Qed.

(* load_prop looks at the dtype and the varlength flag of the metadata entry only *)
Lemma load_prop_ext zp mask pm pm' :
  pm_dtype pm = pm_dtype pm' -> pm_varlength pm = pm_varlength pm' -> load_prop zp mask pm = load_prop zp mask pm'.
Proof. intros H1 H2. unfold load_prop. rewrite H1, H2. reflexivity. Qed.

(* ---------- metadata entries after add_or_update ---------- *)
Lemma upd_pm_lookup existing name pm k :
  alookup k (upd_pm existing (name, pm)) =
  if String.eqb k name then
    Some (match alookup name existing with
          | Some old => mkpm (pm_dtype pm) (pm_varlength pm) (pm_unit old) (pm_name old) (pm_descr old)
          | None => pm end)
  else alookup k existing.
Proof. unfold upd_pm. destruct (alookup name existing) as [old|] eqn:E.
  - destruct (String.eqb k name) eqn:Ek.
    + apply String.eqb_eq in Ek. subst. rewrite alookup_aset_same. reflexivity.
    + rewrite alookup_aset_other; [reflexivity|]. intro; subst. rewrite seqb_refl in Ek. discriminate.
  - rewrite alookup_app. cbn.
    destruct (String.eqb k name) eqn:Ek.
    + apply String.eqb_eq in Ek. subst. rewrite E. reflexivity.
    + destruct (alookup k existing); reflexivity. Qed.

Lemma add_or_update_lookup new : forall existing name pm,
  NoDup (akeys new) -> In (name, pm) new ->
  exists pm', alookup name (add_or_update existing new) = Some pm' /\
              pm_dtype pm' = pm_dtype pm /\ pm_varlength pm' = pm_varlength pm.
Proof. unfold add_or_update. induction new as [|[k v] r IH]; intros existing name pm Hnd Hin; [destruct Hin|].
  inversion Hnd as [|? ? Hnotin Hnd']; subst. cbn [fold_left]. destruct Hin as [Heq|Hin].
  - inversion Heq; subst k v; clear Heq.
    (* later updates do not touch this key *)
    assert (Hkeep : forall l ex, ~ In name (akeys l) -> alookup name (fold_left upd_pm l ex) = alookup name ex).
    { induction l as [|[k2 v2] l IHl]; intros ex Hn; cbn [fold_left]; [reflexivity|].
      rewrite IHl by (intro; apply Hn; right; assumption). rewrite upd_pm_lookup.
      rewrite seqb_neq; [reflexivity|]. intro; subst. apply Hn. left. reflexivity. }
    rewrite Hkeep by exact Hnotin. rewrite upd_pm_lookup, seqb_refl.
    destruct (alookup name existing); eexists; split; try reflexivity; cbn; auto.
  - apply IH; auto. Qed.

Lemma add_or_update_keys new : forall existing k,
  In k (akeys (add_or_update existing new)) <-> In k (akeys existing) \/ In k (akeys new).
Proof. unfold add_or_update. induction new as [|[n v] r IH]; intros existing k; cbn [fold_left]; [cbn; tauto|].
  rewrite IH. change (akeys ((n, v) :: r)) with (n :: akeys r).
  assert (H : In k (akeys (upd_pm existing (n, v))) <-> In k (akeys existing) \/ k = n).
  { rewrite <- !ahas_in. unfold ahas. rewrite upd_pm_lookup. destruct (String.eqb k n) eqn:E.
    - apply String.eqb_eq in E. split; auto.
    - destruct (alookup k existing); split; auto; intros [H|H]; auto; try discriminate.
      subst. rewrite seqb_refl in E. discriminate. }
  rewrite H. cbn [In]. split; [intros [[H1|H1]|H1]; auto | intros [H1|[H1|H1]]; auto]. Qed.

(* ---------- props_meta under encodability ---------- *)
Lemma props_meta_keys ps : Forall encodable ps -> akeys (props_meta ps) = akeys ps.
Proof. induction ps as [|[k p] r IH]; intros H; [reflexivity|].
  apply Forall_cons_iff in H. destruct H as [[pm [enc [Hpm _]]] Hr]. cbn [fst snd] in Hpm.
  unfold props_meta. cbn [flat_map fst snd]. rewrite Hpm. cbn. f_equal. apply IH. exact Hr. Qed.

Lemma props_meta_in ps name p pm : In (name, p) ps -> create_props_metadata name p = Ok pm -> In (name, pm) (props_meta ps).
Proof. induction ps as [|[k q] r IH]; intros Hin Hpm; [destruct Hin|].
  unfold props_meta. cbn [flat_map]. apply in_or_app. destruct Hin as [Heq|Hin].
  - inversion Heq; subst. left. cbn [fst snd]. rewrite Hpm. left. reflexivity.
  - right. apply IH; auto. Qed.

(* ---------- reading the layout ---------- *)
Definition wf_props (n : nat) (ops : option props) : Prop :=
  forall ps, ops = Some ps -> NoDup (akeys ps) /\ Forall (fun kv => encodable kv /\ wf_prop n (snd kv)) ps.
Definition up_props (ops : option props) : props :=
  match ops with Some ps => map (fun kv => (fst kv, upcast_prop (snd kv))) ps | None => [] end.
Definition names_of (ops : option props) : list string := match ops with Some ps => akeys ps | None => [] end.
Definition metas_of (ops : option props) : list (string * pmeta) := match ops with Some ps => props_meta ps | None => [] end.

Lemma wf_props_ok n ops : wf_props n ops -> props_ok ops.
Proof. intros H ps Hps. destruct (H ps Hps) as [Hnd HF]. split; [exact Hnd|].
  eapply Forall_impl; [|exact HF]. cbn. tauto. Qed.

(* node or edge group of the layout: names listed and each property loaded *)
Lemma prop_names_layout root grp ids ops :
  get root grp = Some (grp_node ids ops) -> prop_names root grp = Ok (names_of ops).
Proof. intros Hg. unfold prop_names, expect_group. rewrite Hg. unfold grp_node at 1. cbn [rbind].
  unfold get, grp_node. cbn [children]. destruct ops as [ps|]; cbn.
  - f_equal. rewrite filter_all.
    + unfold akeys. rewrite map_map. reflexivity.
    + intros [k nd] Hin. apply in_map_iff in Hin. destruct Hin as [[k' p'] [Heq _]]. unfold stored in Heq.
      inversion Heq; subst. cbn. destruct (encode_prop p') as [[[v m] d]|]; reflexivity.
  - reflexivity. Qed.

Lemma load_props_layout root grp ids ops pmd n :
  get root grp = Some (grp_node ids ops) -> wf_props n ops ->
  (forall name p pm, In (name, p) (match ops with Some ps => ps | None => [] end) ->
      create_props_metadata name p = Ok pm ->
      exists pm', alookup name pmd = Some pm' /\ pm_dtype pm' = pm_dtype pm /\ pm_varlength pm' = pm_varlength pm) ->
  load_props root grp (names_of ops) pmd None = Ok (up_props ops) /\
  mapM (read_prop root grp) (names_of ops) =
    Ok (map (fun kv => match encode_prop (snd kv) with Ok (v, m, d) => mkzprop v m d | Err _ => mkzprop (mkarr DBool [] []) None None end)
            (match ops with Some ps => ps | None => [] end)).
Proof.
  intros Hg Hwf Hmd. destruct ops as [ps|]; [|split; reflexivity].
  destruct (Hwf ps eq_refl) as [Hnd HF]. cbn [names_of up_props].
  assert (Hget : forall name p v m d, In (name, p) ps -> encode_prop p = Ok (v, m, d) ->
                 get_path root [grp; path_PROPS; name] = Some (prop_group v m d)).
  { intros name p v m d Hin He. cbn [get_path]. rewrite Hg. unfold grp_node. unfold get at 1. cbn [children alookup].
    change (String.eqb path_PROPS path_IDS) with false. cbn [alookup]. rewrite seqb_refl.
    unfold get. cbn [children].
    rewrite (alookup_in_nodup name (prop_group v m d) (map stored ps)).
    - reflexivity.
    - rewrite akeys_stored. exact Hnd.
    - apply in_map_iff. exists (name, p). split; [|exact Hin]. unfold stored. cbn [fst snd]. rewrite He. reflexivity. }
  split.
  - unfold load_props, akeys.
    assert (Hgen : forall l, incl l ps ->
       mapM (fun name => (let! zp := read_prop root grp name in
                          match alookup name pmd with
                          | Some pm => let! p := load_prop zp None pm in Ok (name, p)
                          | None => Err KeyError end)%res) (map fst l)
       = Ok (map (fun kv => (fst kv, upcast_prop (snd kv))) l)).
    { induction l as [|[name p] l IHl]; intros Hincl; [reflexivity|].
      assert (Hin : In (name, p) ps) by (apply Hincl; left; reflexivity).
      rewrite Forall_forall in HF. destruct (HF _ Hin) as [[pm [[[v m] d] [Hpm He]]] Hwfp]. cbn [fst snd] in *.
      cbn [map mapM fst snd]. rewrite (read_prop_stored _ _ _ _ _ _ (Hget _ _ _ _ _ Hin He)). cbn [rbind].
      destruct (Hmd name p pm Hin Hpm) as [pm' [Hl [Hd Hv]]]. rewrite Hl.
      rewrite (load_prop_ext _ None pm' pm Hd Hv).
      rewrite (prop_roundtrip name n p pm v m d Hwfp Hpm He). cbn [rbind].
      rewrite IHl; [reflexivity|]. intros x Hx. apply Hincl. right. exact Hx. }
    apply Hgen. apply incl_refl.
  - unfold akeys.
    assert (Hgen : forall l, incl l ps ->
       mapM (read_prop root grp) (map fst l) =
       Ok (map (fun kv => match encode_prop (snd kv) with Ok (v, m, d) => mkzprop v m d | Err _ => mkzprop (mkarr DBool [] []) None None end) l)).
    { induction l as [|[name p] l IHl]; intros Hincl; [reflexivity|].
      assert (Hin : In (name, p) ps) by (apply Hincl; left; reflexivity).
      rewrite Forall_forall in HF. destruct (HF _ Hin) as [[pm [[[v m] d] [Hpm He]]] Hwfp]. cbn [fst snd] in *.
      cbn [map mapM fst snd]. rewrite (read_prop_stored _ _ _ _ _ _ (Hget _ _ _ _ _ Hin He)), He.
      rewrite IHl; [reflexivity|]. intros x Hx. apply Hincl. right. exact Hx. }
    apply Hgen. apply incl_refl.
Qed.

Lemma prune_all pmd names : (forall k, In k (akeys pmd) -> In k names) -> prune pmd names = pmd.
Proof. intros H. unfold prune. apply filter_all. intros [k v] Hin. apply smem_In. apply H.
  apply (in_map fst) in Hin. exact Hin. Qed.

Lemma akeys_up_props ops : akeys (up_props ops) = names_of ops.
Proof. destruct ops as [ps|]; [|reflexivity]. unfold up_props, names_of, akeys. rewrite map_map. reflexivity. Qed.

Lemma meta_lookup_ok existing ops n :
  wf_props n ops ->
  forall name p pm, In (name, p) (match ops with Some ps => ps | None => [] end) ->
    create_props_metadata name p = Ok pm ->
    exists pm', alookup name (add_or_update existing (metas_of ops)) = Some pm' /\
                pm_dtype pm' = pm_dtype pm /\ pm_varlength pm' = pm_varlength pm.
Proof. intros Hwf name p pm Hin Hpm. destruct ops as [ps|]; [|destruct Hin].
  destruct (Hwf ps eq_refl) as [Hnd HF]. cbn [metas_of].
  apply add_or_update_lookup.
  - rewrite props_meta_keys; [exact Hnd|]. eapply Forall_impl; [|exact HF]. cbn; tauto.
  - apply (props_meta_in _ _ p); auto. Qed.

Theorem read_layout k pre g nps md md' n e :
  alookup path_NODES (base_children pre) = None -> alookup path_EDGES (base_children pre) = None ->
  wf_props n nps -> wf_props e (w_eprops g) ->
  md_nprops md' = add_or_update (md_nprops md) (metas_of nps) ->
  md_eprops md' = add_or_update (md_eprops md) (metas_of (w_eprops g)) ->
  (forall k0, In k0 (akeys (md_nprops md)) -> In k0 (names_of nps)) ->
  (forall k0, In k0 (akeys (md_eprops md)) -> In k0 (names_of (w_eprops g))) ->
  read_to_memory k (Some (layout pre g nps md')) false None None
  = Ok (mkmg md' (w_nids g) (w_eids g) (up_props nps) (up_props (w_eprops g))).
Proof.
  intros Hn He Hwn Hwe Hmn Hme Hsn Hse.
  set (root := layout pre g nps md').
  assert (Hgn : get root path_NODES = Some (grp_node (w_nids g) nps)).
  { unfold root, layout, get. cbn [children]. rewrite alookup_app, Hn. reflexivity. }
  assert (Hge : get root path_EDGES = Some (grp_node (w_eids g) (w_eprops g))).
  { unfold root, layout, get. cbn [children]. rewrite alookup_app, He. reflexivity. }
  unfold read_to_memory, reader_init. cbn [rbind open_storelike].
  fold root.
  assert (Hmd : read_metadata root = Ok md').
  { unfold read_metadata, geff_attr, root, layout. cbn [attrs_of]. rewrite alookup_aset_same. reflexivity. }
  unfold root at 1. unfold layout at 1. cbn [open_storelike rbind]. fold (layout pre g nps md'). fold root.
  rewrite Hmd. cbn [rbind].
  assert (Hni : get_path root [path_NODES; path_IDS] = Some (ZA (w_nids g))).
  { cbn [get_path]. rewrite Hgn. reflexivity. }
  assert (Hei : get_path root [path_EDGES; path_IDS] = Some (ZA (w_eids g))).
  { cbn [get_path]. rewrite Hge. reflexivity. }
  rewrite Hni, Hei. cbn [rbind].
  rewrite (prop_names_layout _ _ _ _ Hgn), (prop_names_layout _ _ _ _ Hge). cbn [rbind].
  unfold build. cbn [rd_nnames rd_enames rd_root rd_md rd_nids rd_eids mask_rows].
  destruct (load_props_layout root path_NODES (w_nids g) nps (md_nprops md') n Hgn Hwn) as [Hln Hrn].
  { rewrite Hmn. apply (meta_lookup_ok _ _ n). exact Hwn. }
  destruct (load_props_layout root path_EDGES (w_eids g) (w_eprops g) (md_eprops md') e Hge Hwe) as [Hle Hre].
  { rewrite Hme. apply (meta_lookup_ok _ _ e). exact Hwe. }
  rewrite Hrn, Hre. cbn [rbind]. rewrite Hln. cbn [rbind]. rewrite Hle. cbn [rbind].
  f_equal.
  assert (Hkn : forall k0, In k0 (akeys (md_nprops md')) -> In k0 (names_of nps)).
  { intros k0. rewrite Hmn, add_or_update_keys. intros [H|H]; [auto|].
    destruct nps as [ps|]; [|destruct H]. cbn [metas_of names_of] in *.
    rewrite props_meta_keys in H; [exact H|]. destruct (Hwn ps eq_refl) as [_ HF]. eapply Forall_impl; [|exact HF]. cbn; tauto. }
  assert (Hke : forall k0, In k0 (akeys (md_eprops md')) -> In k0 (names_of (w_eprops g))).
  { intros k0. rewrite Hme, add_or_update_keys. intros [H|H]; [auto|].
    destruct (w_eprops g) as [ps|] eqn:Eps; [|destruct H]. cbn [metas_of names_of] in *.
    rewrite props_meta_keys in H; [exact H|]. destruct (Hwe ps eq_refl) as [_ HF]. eapply Forall_impl; [|exact HF]. cbn; tauto. }
  rewrite (prune_all _ _ Hkn), (prune_all _ _ Hke).
  rewrite !dict_of_nodup.
  - destruct md'; reflexivity.
  - rewrite akeys_up_props. destruct (w_eprops g) as [ps|]; [apply (Hwe ps eq_refl) | constructor].
  - rewrite akeys_up_props. destruct nps as [ps|]; [apply (Hwn ps eq_refl) | constructor].
Qed.
