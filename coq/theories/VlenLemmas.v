(* VlenLemmas.v -- proofs about Vlen.v used by props/C11.v (and C01/C02). *)
From Coq Require Import Permutation.
From Geff Require Import Base Dtype DtypeLemmas Vlen.
Open Scope nat_scope.
Open Scope list_scope.

(* ---------- list helpers ---------- *)
Lemma firstn_length_app {A} (l l' : list A) : firstn (length l) (l ++ l') = l.
Proof. induction l as [|x r IH]; cbn; [destruct l'; reflexivity | rewrite IH; reflexivity]. Qed.

Lemma skipn_length_app {A} (l l' : list A) : skipn (length l) (l ++ l') = l'.
Proof. induction l as [|x r IH]; cbn; [reflexivity | exact IH]. Qed.

(* ---------- serialize / deserialize round trip ---------- *)
Definition elem_view (a : varr) : list nat * list Z := (v_shape a, v_flat a).

Lemma ser_go_deser vals : forall nd dt off rows data,
  Forall wf_varr vals -> ser_go nd dt off vals = Ok (rows, data) ->
  forall pre, length pre = off ->
  mapM (deser_one (pre ++ data)) rows = Ok (map elem_view vals).
Proof.
  induction vals as [|a r IH]; intros nd dt off rows data Hwf H pre Hpre; cbn in H.
  - inversion H; subst. reflexivity.
  - destruct (match nd with None => true | Some n => Nat.eqb n (length (v_shape a)) end); [|discriminate].
    destruct (match dt with None => true | Some d => dtype_eqb d (v_dt a) end); [|discriminate].
    destruct (ser_go (Some (length (v_shape a))) (Some (v_dt a)) (off + size (v_shape a)) r)
      as [[rows' data']|e] eqn:Er; [|discriminate].
    inversion H; subst rows data; clear H.
    apply Forall_cons_iff in Hwf; destruct Hwf as [Ha Hr].
    cbn [mapM map]. unfold deser_one at 1.
    subst off. rewrite skipn_length_app.
    unfold wf_varr in Ha. rewrite <- Ha. rewrite firstn_length_app. rewrite Nat.eqb_refl.
    specialize (IH _ _ _ _ _ Hr Er (pre ++ v_flat a)).
    rewrite app_length, Ha in IH. specialize (IH eq_refl).
    rewrite <- app_assoc in IH. rewrite IH. reflexivity.
Qed.

Theorem serialize_deserialize vals rows data :
  Forall wf_varr vals -> serialize vals = Ok (rows, data) ->
  deserialize rows data = Ok (map elem_view vals).
Proof.
  intros Hwf H. unfold deserialize. apply (ser_go_deser vals _ _ _ _ _ Hwf H []). reflexivity.
Qed.

(* ---------- layout: contiguity and bounds ---------- *)
Fixpoint prefix_from (off : nat) (sizes : list nat) : list nat :=
  match sizes with [] => [] | s :: r => off :: prefix_from (off + s) r end.

Definition elem_size (a : varr) : nat := size (v_shape a).

Lemma ser_go_rows vals : forall nd dt off rows data,
  ser_go nd dt off vals = Ok (rows, data) ->
  map (hd 0) rows = prefix_from off (map elem_size vals) /\ map (@tl nat) rows = map v_shape vals.
Proof.
  induction vals as [|a r IH]; intros nd dt off rows data H; cbn in H.
  - inversion H; subst. split; reflexivity.
  - destruct (match nd with None => true | Some n => Nat.eqb n (length (v_shape a)) end); [|discriminate].
    destruct (match dt with None => true | Some d => dtype_eqb d (v_dt a) end); [|discriminate].
    destruct (ser_go (Some (length (v_shape a))) (Some (v_dt a)) (off + size (v_shape a)) r)
      as [[rows' data']|e] eqn:Er; [|discriminate].
    inversion H; subst rows data; clear H.
    destruct (IH _ _ _ _ _ Er) as [H1 H2]. cbn. rewrite H1, H2. split; reflexivity.
Qed.

Lemma ser_go_data vals : forall nd dt off rows data,
  ser_go nd dt off vals = Ok (rows, data) -> data = concat (map v_flat vals).
Proof.
  induction vals as [|a r IH]; intros nd dt off rows data H; cbn in H.
  - inversion H; reflexivity.
  - destruct (match nd with None => true | Some n => Nat.eqb n (length (v_shape a)) end); [|discriminate].
    destruct (match dt with None => true | Some d => dtype_eqb d (v_dt a) end); [|discriminate].
    destruct (ser_go (Some (length (v_shape a))) (Some (v_dt a)) (off + size (v_shape a)) r)
      as [[rows' data']|e] eqn:Er; [|discriminate].
    inversion H; subst rows data; clear H. cbn. rewrite (IH _ _ _ _ _ Er). reflexivity.
Qed.

Lemma ser_go_bounds vals : forall nd dt off rows data,
  Forall wf_varr vals -> ser_go nd dt off vals = Ok (rows, data) ->
  Forall (fun row => off <= hd 0 row /\ hd 0 row + size (tl row) <= off + length data) rows.
Proof.
  induction vals as [|a r IH]; intros nd dt off rows data Hwf H; cbn in H.
  - inversion H; subst. constructor.
  - destruct (match nd with None => true | Some n => Nat.eqb n (length (v_shape a)) end); [|discriminate].
    destruct (match dt with None => true | Some d => dtype_eqb d (v_dt a) end); [|discriminate].
    destruct (ser_go (Some (length (v_shape a))) (Some (v_dt a)) (off + size (v_shape a)) r)
      as [[rows' data']|e] eqn:Er; [|discriminate].
    inversion H; subst rows data; clear H.
    apply Forall_cons_iff in Hwf; destruct Hwf as [Ha Hr]. unfold wf_varr in Ha.
    constructor.
    + cbn [hd tl]. rewrite app_length, Ha. lia.
    + specialize (IH _ _ _ _ _ Hr Er). eapply Forall_impl; [|exact IH].
      intros row [H1 H2]. rewrite app_length, Ha. lia.
Qed.

(* ---------- serialisation succeeds exactly on uniform sequences ---------- *)
Definition uniform_with (n : nat) (d : dtype) (vals : list varr) : Prop :=
  Forall (fun a => length (v_shape a) = n /\ v_dt a = d) vals.

Lemma ser_go_some_ok vals : forall n d off,
  (exists r, ser_go (Some n) (Some d) off vals = Ok r) <-> uniform_with n d vals.
Proof.
  induction vals as [|a r IH]; intros n d off; cbn.
  - split; [constructor | eexists; reflexivity].
  - split.
    + intros [res H].
      destruct (Nat.eqb n (length (v_shape a))) eqn:En; [|discriminate].
      destruct (dtype_eqb d (v_dt a)) eqn:Ed; [|discriminate].
      apply Nat.eqb_eq in En. apply dtype_eqb_eq in Ed.
      destruct (ser_go (Some (length (v_shape a))) (Some (v_dt a)) (off + size (v_shape a)) r)
        as [[rows' data']|e] eqn:Er; [|discriminate].
      constructor; [split; congruence|].
      rewrite <- En, <- Ed in Er. apply (IH n d (off + size (v_shape a))). eexists; exact Er.
    + intros Hu. inversion Hu as [|? ? [Hn Hd] Hr]; subst.
      rewrite Nat.eqb_refl, dtype_eqb_refl.
      destruct (proj2 (IH (length (v_shape a)) (v_dt a) (off + size (v_shape a))) Hr) as [[rows' data'] Hx].
      rewrite Hx. eexists; reflexivity.
Qed.

Definition uniform (vals : list varr) : Prop :=
  match vals with [] => True | a :: _ => uniform_with (length (v_shape a)) (v_dt a) vals end.

Theorem serialize_ok_iff vals : (exists r, serialize vals = Ok r) <-> uniform vals.
Proof.
  unfold serialize, uniform. destruct vals as [|a r].
  - cbn. split; [trivial | intros _; eexists; reflexivity].
  - cbn [ser_go]. split.
    + intros [res H].
      destruct (ser_go (Some (length (v_shape a))) (Some (v_dt a)) (0 + size (v_shape a)) r)
        as [[rows' data']|e] eqn:Er; [|discriminate].
      constructor; [split; reflexivity|].
      apply (ser_go_some_ok r _ _ (0 + size (v_shape a))). eexists; exact Er.
    + intros Hu. inversion Hu as [|? ? _ Hr]; subst.
      destruct (proj2 (ser_go_some_ok r _ _ (0 + size (v_shape a))) Hr) as [[rows' data'] Hx].
      rewrite Hx. eexists; reflexivity.
Qed.

(* ---------- normalisation (construct_var_len_props) ---------- *)
Lemma size_repeat1 n sh : size (repeat 1 n ++ sh) = size sh.
Proof. induction n as [|n IH]; [reflexivity|]. cbn [repeat app size fold_right]. fold (size (repeat 1 n ++ sh)). rewrite IH. lia. Qed.

Lemma size_pad nd sh : size (pad_shape nd sh) = size sh.
Proof. unfold pad_shape. apply size_repeat1. Qed.

Lemma length_pad nd sh : length sh <= nd -> length (pad_shape nd sh) = nd.
Proof. intros H. unfold pad_shape. rewrite app_length, repeat_length. lia. Qed.

Lemma max_rank_ge elems a : In a elems -> length (v_shape a) <= max_rank elems.
Proof.
  induction elems as [|x r IH]; intros Hin; [destruct Hin|].
  change (max_rank (x :: r)) with (Nat.max (length (v_shape x)) (max_rank r)).
  destruct Hin as [<-|Hin]; [lia | specialize (IH Hin); lia].
Qed.

Lemma somes_In {A} (l : list (option A)) a : In (Some a) l <-> In a (somes l).
Proof.
  induction l as [|[x|] r IH]; cbn; [tauto| |].
  - rewrite <- IH. split; intros [H|H]; auto; left; congruence.
  - rewrite <- IH. split; [intros [H|H]; [discriminate|exact H] | auto].
Qed.

Lemma common_type_dims_spec l dt nd :
  common_type_dims l = Ok (dt, nd) ->
  (forall a, In (Some a) l -> can_cast_safe (v_dt a) dt = true /\ length (v_shape a) <= nd).
Proof.
  unfold common_type_dims. intros H a Ha. apply somes_In in Ha.
  destruct (somes l) as [|e es] eqn:Es; [destruct Ha|].
  destruct (result_type (map v_dt (e :: es))) as [d|]; [|discriminate].
  destruct (forallb (fun a0 => can_cast_safe (v_dt a0) d) (e :: es)) eqn:Ef; [|discriminate].
  inversion H; subst. split.
  - rewrite forallb_forall in Ef. apply Ef. exact Ha.
  - apply (max_rank_ge (e :: es)). exact Ha.
Qed.

Theorem construct_spec l vals miss :
  construct l = Ok (vals, miss) ->
  exists dt nd,
    common_type_dims l = Ok (dt, nd) /\
    vals = map (normalise_one dt nd) l /\
    miss = (if existsb (fun b => b) (map is_none l) then Some (map is_none l) else None) /\
    Forall (fun v => v_dt v = dt /\ length (v_shape v) = nd) vals /\
    (forall i a, nth_error l i = Some (Some a) ->
       can_cast_safe (v_dt a) dt = true /\
       nth_error vals i = Some {| v_dt := dt; v_shape := pad_shape nd (v_shape a);
                                  v_flat := map (cast_payload (v_dt a) dt) (v_flat a) |} /\
       size (pad_shape nd (v_shape a)) = size (v_shape a)).
Proof.
  unfold construct. intros H.
  destruct (common_type_dims l) as [[dt nd]|e] eqn:Ec; [|discriminate].
  inversion H; subst vals miss; clear H.
  exists dt, nd. split; [reflexivity|]. split; [reflexivity|]. split; [reflexivity|].
  pose proof (common_type_dims_spec l dt nd Ec) as Hs.
  split.
  - apply Forall_forall. intros v Hv. apply in_map_iff in Hv. destruct Hv as [o [<- Ho]].
    destruct o as [a|]; cbn.
    + split; [reflexivity|]. apply length_pad. apply (Hs a Ho).
    + split; [reflexivity | apply repeat_length].
  - intros i a Hi. split; [apply (Hs a); eapply nth_error_In; exact Hi|]. split.
    + rewrite nth_error_map, Hi. reflexivity.
    + apply size_pad.
Qed.

Lemma normalise_wf dt nd o : (forall a, o = Some a -> wf_varr a) -> wf_varr (normalise_one dt nd o).
Proof.
  intros H. destruct o as [a|]; unfold wf_varr; cbn.
  - rewrite map_length, size_pad. apply H. reflexivity.
  - apply repeat_length.
Qed.

(* the normalised sequence is accepted by the serialiser *)
Theorem construct_serializable l vals miss :
  construct l = Ok (vals, miss) -> exists r, serialize vals = Ok r.
Proof.
  intros H. destruct (construct_spec _ _ _ H) as [dt [nd [_ [_ [_ [Hu _]]]]]].
  apply serialize_ok_iff. unfold uniform. destruct vals as [|v r]; [trivial|].
  inversion Hu as [|? ? [Hd Hn] Hr]; subst.
  constructor; [split; reflexivity |]. eapply Forall_impl; [|exact Hr]. intros x [Hx1 Hx2]. split; assumption.
Qed.

(* ---------- order independence ---------- *)
Lemma somes_perm {A} (l l' : list (option A)) : Permutation l l' -> Permutation (somes l) (somes l').
Proof.
  induction 1 as [|x l l' _ IH|x y l|l l' l'' _ IH1 _ IH2]; cbn.
  - constructor.
  - destruct x; [constructor|]; exact IH.
  - destruct x, y; try apply Permutation_refl. apply perm_swap.
  - eapply Permutation_trans; eauto.
Qed.

Lemma max_bits_perm p ds ds' : Permutation ds ds' -> max_bits p ds = max_bits p ds'.
Proof.
  induction 1 as [|x l l' _ IH|x y l|l l' l'' _ IH1 _ IH2]; cbn.
  - reflexivity.
  - rewrite IH. reflexivity.
  - destruct (p x), (p y); lia.
  - congruence.
Qed.

Lemma max_rank_perm l l' : Permutation l l' -> max_rank l = max_rank l'.
Proof.
  induction 1 as [|x l l' _ IH|x y l|l l' l'' _ IH1 _ IH2]; cbn.
  - reflexivity.
  - rewrite IH. reflexivity.
  - lia.
  - congruence.
Qed.

Lemma forallb_perm {A} (f : A -> bool) l l' : Permutation l l' -> forallb f l = forallb f l'.
Proof.
  induction 1 as [|x l l' _ IH|x y l|l l' l'' _ IH1 _ IH2]; cbn.
  - reflexivity.
  - rewrite IH. reflexivity.
  - destruct (f x), (f y); reflexivity.
  - congruence.
Qed.

Lemma existsb_perm {A} (f : A -> bool) l l' : Permutation l l' -> existsb f l = existsb f l'.
Proof.
  induction 1 as [|x l l' _ IH|x y l|l l' l'' _ IH1 _ IH2]; cbn.
  - reflexivity.
  - rewrite IH. reflexivity.
  - destruct (f x), (f y); reflexivity.
  - congruence.
Qed.

Lemma result_type_num_perm ds ds' : Permutation ds ds' -> result_type_num ds = result_type_num ds'.
Proof.
  intros H. unfold result_type_num.
  rewrite (max_bits_perm is_float _ _ H), (max_bits_perm is_signed _ _ H),
          (max_bits_perm is_unsigned _ _ H). reflexivity.
Qed.

Lemma forallb_eqb_head d ds : forallb (dtype_eqb d) ds = true -> forall x, In x ds -> x = d.
Proof.
  intros H x Hx. rewrite forallb_forall in H. specialize (H x Hx).
  apply dtype_eqb_eq in H. congruence.
Qed.

Lemma result_type_perm ds ds' : Permutation ds ds' -> result_type ds = result_type ds'.
Proof.
  intros H. unfold result_type.
  destruct ds as [|d r]; destruct ds' as [|d' r'].
  - reflexivity.
  - apply Permutation_nil in H. discriminate.
  - apply Permutation_sym, Permutation_nil in H. discriminate.
  - rewrite (forallb_perm is_numeric _ _ H).
    destruct (forallb is_numeric (d' :: r')); [rewrite (result_type_num_perm _ _ H); reflexivity|].
    destruct (forallb (dtype_eqb d) (d :: r)) eqn:E1.
    + assert (Hd : d' = d).
      { apply (forallb_eqb_head d (d :: r) E1). eapply Permutation_in; [apply Permutation_sym; exact H|left; reflexivity]. }
      subst d'. rewrite <- (forallb_perm (dtype_eqb d) _ _ H), E1. reflexivity.
    + destruct (forallb (dtype_eqb d') (d' :: r')) eqn:E2; [|reflexivity].
      assert (Hd : d = d').
      { apply (forallb_eqb_head d' (d' :: r') E2). eapply Permutation_in; [exact H|left; reflexivity]. }
      subst d'. rewrite (forallb_perm (dtype_eqb d) _ _ H), E2 in E1. discriminate.
Qed.

Theorem common_type_dims_perm l l' : Permutation l l' -> common_type_dims l = common_type_dims l'.
Proof.
  intros H. unfold common_type_dims.
  pose proof (somes_perm _ _ H) as Hs.
  destruct (somes l) as [|e es] eqn:E1; destruct (somes l') as [|e' es'] eqn:E2.
  - reflexivity.
  - apply Permutation_nil in Hs. discriminate.
  - apply Permutation_sym, Permutation_nil in Hs. discriminate.
  - rewrite (result_type_perm _ _ (Permutation_map v_dt Hs)).
    destruct (result_type (map v_dt (e' :: es'))) as [d|]; [|reflexivity].
    rewrite (forallb_perm _ _ _ Hs), (max_rank_perm _ _ Hs). reflexivity.
Qed.

Theorem construct_perm l l' : Permutation l l' ->
  match construct l, construct l' with
  | Ok (vals, _), Ok (vals', _) => Permutation vals vals'
  | Err e, Err e' => e = e'
  | _, _ => False
  end.
Proof.
  intros H. unfold construct. rewrite <- (common_type_dims_perm _ _ H).
  destruct (common_type_dims l) as [[dt nd]|e]; [|reflexivity].
  apply Permutation_map. exact H.
Qed.

(* ---------- statements in the exact shape used by props/C11.v ---------- *)
Lemma serialize_dtype vals a :
  In a vals -> (exists r, serialize vals = Ok r) -> v_dt a = ser_dtype vals.
Proof.
  intros Hin Hok. apply serialize_ok_iff in Hok. destruct vals as [|b r]; [destruct Hin|].
  unfold uniform, uniform_with in Hok. rewrite Forall_forall in Hok. cbn [ser_dtype].
  apply (Hok a Hin).
Qed.

Lemma serialize_contiguous vals rows data :
  serialize vals = Ok (rows, data) ->
  map (hd 0) rows = prefix_from 0 (map elem_size vals) /\
  map (@tl nat) rows = map v_shape vals /\ data = concat (map v_flat vals).
Proof.
  intros H. destruct (ser_go_rows _ _ _ _ _ _ H) as [H1 H2].
  split; [exact H1|]. split; [exact H2|]. exact (ser_go_data _ _ _ _ _ _ H).
Qed.

Lemma serialize_in_bounds vals rows data :
  Forall wf_varr vals -> serialize vals = Ok (rows, data) ->
  Forall (fun row => hd 0 row + size (tl row) <= length data) rows.
Proof.
  intros Hwf H. pose proof (ser_go_bounds _ _ _ _ _ _ Hwf H) as Hb.
  eapply Forall_impl; [|exact Hb]. cbn. intros row [_ Hr]. exact Hr.
Qed.

Lemma order_free l l' : Permutation l l' ->
  common_type_dims l = common_type_dims l' /\
  match construct l, construct l' with
  | Ok (vals, _), Ok (vals', _) => Permutation vals vals'
  | Err e, Err e' => e = e'
  | _, _ => False
  end.
Proof. intros H. split; [exact (common_type_dims_perm _ _ H) | exact (construct_perm _ _ H)]. Qed.
