(* TrackMateOverwrite.v -- from_trackmate_xml_to_geff(..., overwrite=True) on an occupied target (C16).

   Every statement of props/C16.v goes through `converted d ds dt back x` (conversion onto a FREE target).  Here the
   occupied target: when the directory holds exactly a geff, the conversion with overwrite=True leaves the very tree that the
   conversion onto a free target leaves (nothing of the old geff survives, not even its zarr format: the directory is removed
   before anything is written), so `back` and `x` are the same and every C16 statement applies to it; when the directory holds
   other members too, the old geff is deleted and the write is refused (C06 finding, path case). *)
From Geff Require Import Base Dtype DtypeLemmas Vlen VlenLemmas Tree TreeLemmas Validate Write Read GraphVal
  WriteLemmas ReadLemmas RoundTrip ValidateLayout C01Lemmas CrashLemmas OverwriteLemmas ConvOverwrite
  TrackMate TrackMateLemmas TrackMateCols TrackMateValid TrackMateProps.
From Geff.Gen Require Import Consts.
Open Scope string_scope.
Open Scope list_scope.

(* the run of the converter up to write_arrays, on an occupied target with overwrite=True *)
Lemma from_trackmate_overwrite_eq d ds dt a ch : wf_tm d -> ahas "geff" a = true ->
  exists tr0, from_trackmate d ds dt true (init (Some (ZG a ch)))
              = write_arrays KPath (wgraph_final d ds dt) (md_final d ds dt) true false (mkst (cleaned KPath a ch) tr0).
Proof.
  intros W Hg. unfold from_trackmate. rewrite (wf_exists d W). cbn [negb].
  destruct (delete_geff_root KPath (init (Some (ZG a ch))) a ch eq_refl Hg) as [tr0 Hd]. exists tr0.
  unfold bind at 1. rewrite check_for_geff_spec. cbn [s_root init exists_geff].
  unfold bind at 1. rewrite Hd. unfold bind at 1. unfold lift at 1. rewrite (convert_wf d ds dt W). cbn [fst snd]. reflexivity.
Qed.

Lemma from_trackmate_free_eq d ds dt : wf_tm d ->
  from_trackmate d ds dt false (init None)
  = write_arrays KPath (wgraph_final d ds dt) (md_final d ds dt) true false (init None).
Proof.
  intros W. unfold from_trackmate. rewrite (wf_exists d W). cbn [negb]. unfold bind.
  rewrite (check_for_geff_clean KPath None I). unfold ret, lift. rewrite (convert_wf d ds dt W). reflexivity.
Qed.

Theorem c16_overwrite d ds dt a ch back x : wf_tm d -> only_geff a ch -> converted d ds dt back x ->
  exists tr post,
    from_trackmate d ds dt true (init (Some (ZG a ch))) = (mkst (Some post) tr, Ok tt) /\
    (exists tr', from_trackmate d ds dt false (init None) = (mkst (Some post) tr', Ok tt)) /\
    validate_structure KPath (Some post) = Ok tt /\
    read_to_memory KPath (Some post) true None None = Ok back.
Proof.
  intros W Ho [tr' [post [Hrun [Hv [Hr _]]]]].
  destruct (final_metadata_ok d ds dt W) as [md' Hmd]. pose proof (final_wf_input d ds dt W) as Hwf.
  assert (Hpost : post = layout None (wgraph_final d ds dt)
                           (backfill (w_nids (wgraph_final d ds dt)) (md_final d ds dt) (w_nprops (wgraph_final d ds dt))) md').
  { rewrite (from_trackmate_free_eq d ds dt W) in Hrun. apply (write_free_post _ _ _ _ _ _ _ Hwf Hmd Hrun). }
  destruct (from_trackmate_overwrite_eq d ds dt a ch W (proj1 Ho)) as [tr0 Heq].
  rewrite (cleaned_only_geff a ch Ho) in Heq.
  destruct (write_onto_empty _ _ md' _ _ tr0 Hwf Hmd) as [[tr Hw] _].
  exists tr, post. split; [rewrite Heq, Hpost; exact Hw|]. split; [exists tr'; exact Hrun|]. split; [exact Hv | exact Hr].
Qed.

(* other members beside the geff: the geff is deleted, the conversion fails, the other members are what is left *)
Theorem c16_overwrite_beside d ds dt a ch : wf_tm d -> ahas "geff" a = true ->
  adel path_EDGES (adel path_NODES ch) <> [] ->
  exists tr, from_trackmate d ds dt true (init (Some (ZG a ch)))
             = (mkst (Some (ZG (adel "geff" a) (adel path_EDGES (adel path_NODES ch)))) tr, Err FileExistsError).
Proof.
  intros W Hg Hne. destruct (from_trackmate_overwrite_eq d ds dt a ch W Hg) as [tr0 Heq]. exists tr0.
  rewrite Heq, (write_beside_refused a ch _ _ tr0 Hne). unfold cleaned.
  destruct (adel path_EDGES (adel path_NODES ch)) as [|kv r]; [contradiction | reflexivity].
Qed.
