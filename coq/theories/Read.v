(* Read.v -- model of geff.core_io._base_read: GeffReader (__init__, read_node_props,
   read_edge_props, _read_prop, _load_prop_to_memory, build with node/edge masks) and
   read_to_memory, on the abstract tree.  Reading is a pure function of the tree: the
   model performs no mutation (this is what C18 states about the read side).
   Model only; proofs in ReadLemmas.v. *)
From Geff Require Import Base Dtype Vlen Tree Validate Write.
From Geff.Gen Require Import Consts.
Open Scope string_scope.
Open Scope list_scope.
Open Scope res_scope.

(* names of the property groups below <grp>/props (group_keys: arrays are not listed) *)
Definition prop_names (root : znode) (grp : string) : res (list string) :=
  let! g := expect_group root grp in
  match get g path_PROPS with
  | None => Ok []
  | Some (ZA _) => Err ValueError
  | Some pg => Ok (map fst (filter (fun kv => is_group (snd kv)) (children pg)))
  end.

(* the reader object after __init__ *)
Record reader := mkreader { rd_root : znode; rd_md : smeta; rd_nids : arr; rd_eids : arr;
                            rd_nnames : list string; rd_enames : list string }.

Definition reader_init (k : skind) (s : option znode) (validate : bool) : res reader :=
  let! _ := (if validate then validate_structure k s else Ok tt) in
  let! root := open_storelike k s in
  let! md := read_metadata root in
  let! ng0 := (match get_path root [path_NODES; path_IDS] with Some (ZA a) => Ok a | _ => Err ValueError end) in
  let! eg0 := (match get_path root [path_EDGES; path_IDS] with Some (ZA a) => Ok a | _ => Err ValueError end) in
  let! nn := prop_names root path_NODES in
  let! en := prop_names root path_EDGES in
  Ok (mkreader root md ng0 eg0 nn en).

(* _read_prop: the zarr arrays of one property *)
Record zprop := mkzprop { zp_values : arr; zp_missing : option arr; zp_data : option arr }.
Definition read_prop (root : znode) (grp name : string) : res zprop :=
  match get_path root [grp; path_PROPS; name] with
  | Some (ZG a ch) =>
      let pg := ZG a ch in
      let! v := expect_array pg path_VALUES in
      let! m := (if ahas path_MISSING ch then rmap Some (expect_array pg path_MISSING) else Ok None) in
      let! d := (if ahas path_DATA ch then rmap Some (expect_array pg path_DATA) else Ok None) in
      Ok (mkzprop v m d)
  | _ => Err ValueError
  end.

(* boolean-mask selection along axis 0 *)
Definition mask_rows (mask : option (list bool)) (a : arr) : arr :=
  match mask with
  | None => a
  | Some keep =>
      let n := hd 0%nat (a_shape a) in
      let rows := select keep (chunks (row_size a) n (a_flat a)) in
      mkarr (a_dt a) (length rows :: tl (a_shape a)) (List.concat rows)
  end.


(* rows of the values table back as nat lists *)
Definition table_rows (v : arr) : list (list nat) :=
  chunks (row_size v) (hd 0%nat (a_shape v)) (map Z.to_nat (a_flat v)).

(* _load_prop_to_memory; casts between different dtypes (unvalidated, inconsistent stores) are outside the model *)
Definition load_prop (zp : zprop) (mask : option (list bool)) (pm : pmeta) : res prop :=
  let vdt := if pm_varlength pm then DU64 else pm_dtype pm in
  if negb (dtype_eqb (a_dt (zp_values zp)) vdt) then Err OtherExn else
  let values := mask_rows mask (zp_values zp) in
  let! missing := (match zp_missing zp with
                   | None => Ok None
                   | Some m => if dtype_eqb (a_dt m) DBool then Ok (Some (mask_rows mask m)) else Err OtherExn
                   end) in
  if pm_varlength pm then
    match zp_data zp with
    | None => Err ValueError
    | Some d =>
        if negb (dtype_eqb (a_dt d) (pm_dtype pm)) then Err OtherExn else
        match deserialize (table_rows values) (a_flat d) with
        | Ok elems => Ok (mkprop (PVlen (map (fun e => Build_varr (a_dt d) (fst e) (snd e)) elems)) missing)
        | Err e => Err e
        end
    end
  else Ok (mkprop (PFixed values) missing).

(* np.isin(edges, nodes).all(axis=1) *)
Definition edges_kept (eids : arr) (kept_nodes : list Z) : list bool :=
  map (fun row => forallb (fun x => zmem x kept_nodes) row)
      (chunks (row_size eids) (hd 0%nat (a_shape eids)) (a_flat eids)).

Fixpoint and_masks (a b : list bool) : list bool :=
  match a, b with x :: ar, y :: br => (x && y) :: and_masks ar br | _, _ => [] end.

Definition load_props (root : znode) (grp : string) (names : list string) (pmd : list (string * pmeta))
           (mask : option (list bool)) : res props :=
  mapM (fun name =>
          let! zp := read_prop root grp name in
          match alookup name pmd with
          | None => Err KeyError
          | Some pm => let! p := load_prop zp mask pm in Ok (name, p)
          end) names.

(* Python dict built by successive insertion: a repeated name overwrites in place *)
Definition dict_of (ps : props) : props := fold_left (fun acc kv => aset (fst kv) (snd kv) acc) ps [].

Definition prune (pmd : list (string * pmeta)) (loaded : list string) : list (string * pmeta) :=
  filter (fun kv => smem (fst kv) loaded) pmd.

(* read_node_props(names) ; read_edge_props(names) ; build(node_mask, edge_mask) *)
Definition build (rd : reader) (nnames enames : option (list string))
           (nmask emask : option (list bool)) : res mgraph :=
  let nn := match nnames with Some l => l | None => rd_nnames rd end in
  let en := match enames with Some l => l | None => rd_enames rd end in
  (* _read_prop runs at read_*_props time, before build *)
  let! _ := mapM (read_prop (rd_root rd) path_NODES) nn in
  let! _ := mapM (read_prop (rd_root rd) path_EDGES) en in
  let nodes := mask_rows nmask (rd_nids rd) in
  let! nprops := load_props (rd_root rd) path_NODES nn (md_nprops (rd_md rd)) nmask in
  let emask' := match nmask with
                | None => emask
                | Some _ => let k := edges_kept (rd_eids rd) (a_flat nodes) in
                            match emask with Some em => Some (and_masks em k) | None => Some k end
                end in
  let edges := mask_rows emask' (rd_eids rd) in
  let! eprops := load_props (rd_root rd) path_EDGES en (md_eprops (rd_md rd)) emask' in
  let md := rd_md rd in
  let md' := mkmd (md_directed md) (md_axes md) (prune (md_nprops md) nn) (prune (md_eprops md) en) (md_tok md) in
  Ok (mkmg md' nodes edges (dict_of nprops) (dict_of eprops)).

Definition read_to_memory (k : skind) (s : option znode) (validate : bool)
           (nnames enames : option (list string)) : res mgraph :=
  let! rd := reader_init k s validate in
  build rd nnames enames None None.
