(* MockTree.v -- the zarr hierarchy that create_mock_geff's store holds, as far as the structural rules of
   the format look at it: groups, arrays with their dtype and shape (array contents are zero-filled: no rule
   of docs/specification.md and no check of validate_structure reads them).  It maps the store model of
   Mock.v (C20) into the tree of Tree.v, on which Validate.v states the declarative predicate `conformant`
   (C04: C04_sound / C04_complete tie it to the validator model).  The layout is compared, member by member
   (path, dtype, shape), with the real store by the correspondence of C20 (tree_listing).  Model only;
   proofs in MockTreeLemmas.v. *)
From Geff Require Import Base Dtype Vlen Mock.
From Geff Require Tree Validate.
From Geff.Gen Require Import Consts.
Open Scope string_scope.
Open Scope list_scope.

Definition zeros (dt : dtype) (shape : list nat) : Tree.arr := Tree.mkarr dt shape (repeat 0%Z (size shape)).

(* nodes/props/<name> or edges/props/<name>: values, then missing and data when present *)
Definition prop_node (sp : sprop) : Tree.znode :=
  Tree.ZG []
    ([(path_VALUES, Tree.ZA (zeros (sp_dt sp) (sp_len sp :: sp_tail sp)))]
     ++ match sp_missing sp with Some ms => [(path_MISSING, Tree.ZA (zeros DBool [length ms]))] | None => [] end
     ++ match sp_data sp with Some (ddt, data) => [(path_DATA, Tree.ZA (zeros ddt [length data]))] | None => [] end).
Definition props_node (ps : sprops) : Tree.znode :=
  Tree.ZG [] (map (fun kv => (fst kv, prop_node (snd kv))) ps).

(* the metadata under attrs["geff"]; units, bounds and everything else the structural rules do not read are dropped *)
Definition tree_pmeta (m : pmeta) : Tree.pmeta := Tree.mkpm (pm_dt m) (pm_varlen m) None None None.
Definition tree_axis (a : axis) : Tree.axis := Tree.mkax (ax_name a) None None 0%Z.
Definition tree_meta (m : meta) : Tree.smeta :=
  Tree.mkmd (m_directed m) (Some (map tree_axis (m_axes m)))
            (map (fun x => (pm_name x, tree_pmeta x)) (m_nprops m))
            (map (fun x => (pm_name x, tree_pmeta x)) (m_eprops m)) 0%Z.

Definition store_tree (s : store) : Tree.znode :=
  Tree.ZG [("geff", Tree.AGeff (Some (tree_meta (s_meta s))))]
    [(path_NODES, Tree.ZG [] [(path_IDS, Tree.ZA (zeros (s_iddt s) [length (s_ids s)]));
                               (path_PROPS, props_node (s_nprops s))]);
     (path_EDGES, Tree.ZG [] [(path_IDS, Tree.ZA (zeros (s_edt s) [length (s_edges s); 2%nat]));
                               (path_PROPS, props_node (s_eprops s))])].

(* every member below the root: path, and dtype + shape for an array (None for a group) *)
Fixpoint tree_listing (fuel : nat) (prefix : string) (n : Tree.znode) : list (string * option (dtype * list nat)) :=
  match fuel with
  | O => []
  | S f =>
      flat_map (fun kv =>
                  let path := String.append prefix (fst kv) in
                  match snd kv with
                  | Tree.ZA a => [(path, Some (Tree.a_dt a, Tree.a_shape a))]
                  | Tree.ZG _ _ => (path, None) :: tree_listing f (String.append path "/") (snd kv)
                  end) (Tree.children n)
  end.
Definition store_listing (s : store) : list (string * option (dtype * list nat)) := tree_listing 6 "" (store_tree s).
