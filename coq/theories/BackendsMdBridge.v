(* BackendsMdBridge.v -- the reduced update_metadata_axes / create_or_update_metadata of BackendsMd.v (axis = name + ONE token) against
   the full pydantic model of Meta.v (C07 / C10) through the abstraction MetaBridge.abs: when Meta.update_metadata_axes succeeds on
   the caller's full object, the reduced upd_axes succeeds on its abstraction with, for axis k, the token
   i_axis I (type_k, unit_k, scale_k, scaled_unit_k, offset_k) of the axis Meta.axes_from_lists builds from entry k of every list
   (C10_axes_from_lists), no min / max -- and gives the abstraction of the full result. *)
From Geff Require Import Base Dtype Vlen Tree Validate Write Read Dicts Backends BackendsMd DictsLemmas BackendsMdLemmas SgWriteLemmas.
From Geff Require Meta MetaLemmas MetaAxesLemmas MetaBridge.
From Coq Require Import Lia.
Open Scope string_scope.
Open Scope list_scope.

Definition axis_tok (I : MetaBridge.interp) (a : Meta.axis) : Z :=
  MetaBridge.i_axis I (Meta.ax_type a) (Meta.ax_unit a) (Meta.ax_scale a) (Meta.ax_scaled_unit a) (Meta.ax_offset a).

Definition no_roi (ls : Meta.axlists) : Meta.axlists :=
  Meta.mkAL (Meta.al_names ls) (Meta.al_units ls) (Meta.al_types ls) (Meta.al_scales ls) (Meta.al_scaled_units ls) (Meta.al_offset ls) None None.

Lemma no_roi_axes ls l : Meta.axes_from_lists (no_roi ls) = Ok l -> Forall (fun a => Meta.ax_min a = None /\ Meta.ax_max a = None) l.
Proof.
  intro H. pose proof (MetaAxesLemmas.axes_from_lists_faithful _ _ H) as F. unfold no_roi in F. cbn [Meta.al_names Meta.al_roi_min Meta.al_roi_max] in F.
  destruct (Meta.al_names ls) as [names|]; [|subst l; constructor]. destruct F as [_ F].
  apply Forall_forall. intros a Ha. apply In_nth_error in Ha. destruct Ha as [k Hk].
  destruct (F k a Hk) as [nm [src [_ [_ [_ [_ [_ [_ [Hlo [Hhi Hb]]]]]]]]]]. cbn [Meta.pick] in Hlo, Hhi.
  inversion Hlo as [Hlo']. inversion Hhi as [Hhi']. destruct Hb as [_ [_ [_ [Hmin [Hmax _]]]]]. rewrite <- Hlo' in Hmin. rewrite <- Hhi' in Hmax.
  cbn in Hmin, Hmax. inversion Hmin. inversion Hmax. split; reflexivity.
Qed.

Theorem upd_axes_refines I m ls m' : Meta.update_metadata_axes m ls = Ok m' ->
  exists l, Meta.axes_from_lists (no_roi ls) = Ok l /\
            upd_axes (MetaBridge.abs I m) (map (fun a => (Meta.ax_name a, axis_tok I a)) l) = Ok (MetaBridge.abs I m').
Proof.
  unfold Meta.update_metadata_axes. fold (no_roi ls). destruct (Meta.axes_from_lists (no_roi ls)) as [l|] eqn:El; [|discriminate].
  cbn [rbind]. intro H. apply MetaLemmas.md_after_iff in H. destruct H as [-> Ht]. exists l. split; [reflexivity|].
  apply MetaLemmas.md_after_ok_iff in Ht. unfold Meta.md_after_ok in Ht. apply andb_true_iff in Ht. destruct Ht as [Ht _].
  apply andb_true_iff in Ht. destruct Ht as [Ht _]. apply andb_true_iff in Ht. destruct Ht as [Hnd _].
  apply MetaLemmas.nodupb_NoDup in Hnd. unfold Meta.axis_names, Meta.set_axes_objs in Hnd. cbn [Meta.md_axes] in Hnd.
  unfold upd_axes. rewrite map_map. cbn [fst].
  assert (E : has_dup (map Meta.ax_name l) = false).
  { unfold has_dup. apply negb_false_iff, Nat.eqb_eq. f_equal. apply dedup_id. exact Hnd. }
  change (map (fun x : Meta.axis => Meta.ax_name x) l) with (map Meta.ax_name l). rewrite E. f_equal. unfold MetaBridge.abs, Meta.set_axes_objs. cbn. f_equal. f_equal. rewrite map_map.
  apply map_ext_in. intros a Ha. pose proof (no_roi_axes ls l El) as Hr. eapply Forall_forall in Hr; eauto. destruct Hr as [H1 H2].
  unfold MetaBridge.abs_axis, axis_tok. cbn [fst snd]. rewrite H1, H2. reflexivity.
Qed.

(* create_or_update_metadata(metadata, directed) on a caller object that already carries the version the helper stamps on it
   (GEFF_VERSION, the default of every GeffMetadata built by this library version): the reduced cu_metadata on the abstraction *)
Theorem cu_metadata_refines I gv m0 d m2 mdtok :
  Meta.create_or_update_metadata gv (Some m0) (Meta.JBool d) Meta.JNull = Ok m2 ->
  Meta.md_version m2 = Meta.md_version m0 ->
  MetaBridge.abs I m2 = cu_metadata (Some (MetaBridge.abs I m0)) d mdtok.
Proof.
  unfold Meta.create_or_update_metadata. intros H Hv.
  destruct (Meta.assign_res m0 Meta.FVersion (Meta.JStr gv)) as [m1|] eqn:E1; [|discriminate]. cbn [rbind] in H.
  destruct (Meta.assign_res m1 Meta.FDirected (Meta.JBool d)) as [m2'|] eqn:E2; [|discriminate]. cbn [rbind] in H. inversion H; subst m2'; clear H.
  unfold Meta.assign_res, Meta.assign in E1, E2. cbn [Meta.set_field] in E1, E2.
  destruct (Meta.v_version (Meta.JStr gv)) as [x|]; [|discriminate]. cbn [rmap] in E1.
  match type of E1 with context [Meta.md_after ?t] => destruct (Meta.md_after t); cbn in E1; [|discriminate] end.
  inversion E1; subst m1; clear E1. cbn [Meta.v_bool rmap] in E2.
  match type of E2 with context [Meta.md_after ?t] => destruct (Meta.md_after t); cbn in E2; [|discriminate] end.
  inversion E2; subst m2; clear E2. cbn in Hv. subst x. reflexivity.
Qed.
