(* ValidateLemmas.v -- the validator model decides the declarative predicate `conformant`
   (soundness and completeness), and only ever raises ValueError / FileNotFoundError.  Used by C04. *)
From Geff Require Import Base Dtype DtypeLemmas Vlen Tree TreeLemmas Validate.
From Geff.Gen Require Import Consts.
Open Scope string_scope.
Open Scope list_scope.

Lemma rbind_ok {A B} (m : res A) (f : A -> res B) y :
  rbind m f = Ok y <-> exists x, m = Ok x /\ f x = Ok y.
Proof. destruct m as [x|e]; cbn; split.
  - intros H. exists x. auto.
  - intros [x' [H1 H2]]. inversion H1; subst. exact H2.
  - discriminate.
  - intros [x' [H1 _]]. discriminate. Qed.
Lemma guard_ok b : guard b = Ok tt <-> b = true.
Proof. destruct b; cbn; split; auto; discriminate. Qed.
Lemma guard_ok' b u : guard b = Ok u <-> b = true.
Proof. destruct u. apply guard_ok. Qed.

Lemma expect_array_ok a ch k v : expect_array (ZG a ch) k = Ok v <-> alookup k ch = Some (ZA v).
Proof. unfold expect_array, get. cbn [children]. destruct (alookup k ch) as [[x|a' c']|]; split; intros H; inversion H; auto. Qed.
Lemma expect_group_ok n k g : expect_group n k = Ok g <-> exists a c, g = ZG a c /\ get n k = Some (ZG a c).
Proof. unfold expect_group. destruct (get n k) as [[x|a' c']|]; split; intros H; try discriminate.
  - destruct H as [a [c [_ H]]]. discriminate.
  - inversion H; subst. eauto.
  - destruct H as [a [c [-> H]]]. inversion H; subst. reflexivity.
  - destruct H as [a [c [_ H]]]. discriminate. Qed.

Lemma forM__iff {A} (f : A -> res unit) l : forM_ f l = Ok tt <-> forall x, In x l -> f x = Ok tt.
Proof. induction l as [|x r IH]; cbn; split; intros H.
  - intros y [].
  - reflexivity.
  - destruct (f x) as [[]|e] eqn:E; [|discriminate]. intros y [<-|Hy]; [exact E | apply IH; auto].
  - rewrite (H x (or_introl eq_refl)). apply IH. intros y Hy. apply H. right. exact Hy. Qed.

Lemma dtype_eqb_true a b : dtype_eqb a b = true <-> a = b. Proof. apply dtype_eqb_eq. Qed.

Lemma shape_first a n : (Nat.leb 1 (ndim a) = true /\ option_eqb Nat.eqb (len0 a) (Some n) = true)
                        <-> exists n0 rest, a_shape a = n0 :: rest /\ n0 = n.
Proof. unfold ndim, len0. destruct (a_shape a) as [|n0 rest]; cbn.
  - split; [intros [H _]; discriminate | intros [? [? [H _]]]; discriminate].
  - split.
    + intros [_ H]. apply Nat.eqb_eq in H. eauto.
    + intros [n1 [r1 [H ->]]]. inversion H; subst. split; [reflexivity | apply Nat.eqb_refl]. Qed.

(* one property subgroup *)
Lemma validate_prop_iff len pmd name node :
  validate_prop len pmd (name, node) = Ok tt <->
  exists pm, alookup name pmd = Some pm /\ prop_conformant len pm node.
Proof.
  unfold validate_prop. destruct (alookup name pmd) as [pm|]; [|split; [discriminate | intros [pm [H _]]; discriminate]].
  destruct node as [x|a ch].
  { split; [discriminate|]. intros [pm' [_ [a [ch [H _]]]]]. discriminate. }
  split.
  - intros H.
    apply rbind_ok in H. destruct H as [[] [Hhas H]]. apply guard_ok in Hhas.
    apply rbind_ok in H. destruct H as [v [Hv H]]. apply expect_array_ok in Hv.
    apply rbind_ok in H. destruct H as [[] [Hnd H]]. apply guard_ok in Hnd.
    apply rbind_ok in H. destruct H as [[] [Hvl H]].
    apply rbind_ok in H. destruct H as [[] [Hlen H]]. apply guard_ok in Hlen.
    exists pm. split; [reflexivity|]. exists a, ch. split; [reflexivity|]. split.
    + exists v. split; [exact Hv|]. split; [apply shape_first; auto|].
      destruct (pm_varlength pm).
      * apply rbind_ok in Hvl. destruct Hvl as [d [Hd Hvl]]. apply expect_array_ok in Hd.
        apply rbind_ok in Hvl. destruct Hvl as [[] [H1 Hvl]]. apply guard_ok in H1.
        apply rbind_ok in Hvl. destruct Hvl as [[] [Hn2 Hvl]]. apply guard_ok in Hn2.
        apply rbind_ok in Hvl. destruct Hvl as [[] [Hn1 H2]]. apply guard_ok in Hn1, H2.
        apply dtype_eqb_true in H1, H2. split; [exact H1|]. split.
        -- unfold ndim in Hn2. destruct (a_shape v) as [|n0 [|w0 [|? ?]]]; try discriminate. eauto.
        -- exists d. split; [exact Hd|]. split; [exact H2|].
           unfold ndim in Hn1. destruct (a_shape d) as [|k0 [|? ?]]; try discriminate. eauto.
      * apply rbind_ok in Hvl. destruct Hvl as [[] [H1 H2]]. apply guard_ok in H1, H2.
        apply dtype_eqb_true in H1. split; [exact H1|]. apply negb_true_iff in H2. apply ahas_false. exact H2.
    + destruct (ahas path_MISSING ch) eqn:Em.
      * right. apply rbind_ok in H. destruct H as [m [Hm H]]. apply expect_array_ok in Hm.
        apply rbind_ok in H. destruct H as [[] [H1 H]]. apply guard_ok in H1.
        apply rbind_ok in H. destruct H as [[] [H2 H3]]. apply guard_ok in H2, H3.
        exists m. split; [exact Hm|]. apply dtype_eqb_true in H3. split; [|exact H3].
        unfold ndim in H1. unfold len0 in H2. destruct (a_shape m) as [|n0 [|? ?]]; try discriminate.
        cbn in H2. apply Nat.eqb_eq in H2. subst. reflexivity.
      * left. apply ahas_false. exact Em.
  - intros [pm' [Hpm [a' [ch' [Heq [[v [Hv [Hsh Hvl]]] Hm]]]]]]. inversion Hpm; subst pm'. inversion Heq; subst a' ch'. clear Hpm Heq.
    apply shape_first in Hsh. destruct Hsh as [Hnd Hlen].
    apply rbind_ok. exists tt. split; [apply guard_ok; apply ahas_true; eauto|].
    apply rbind_ok. exists v. split; [apply expect_array_ok; exact Hv|].
    apply rbind_ok. exists tt. split; [apply guard_ok; exact Hnd|].
    apply rbind_ok. exists tt. split.
    + destruct (pm_varlength pm).
      * destruct Hvl as [H1 [[n2 [w2 Hs2]] [d [Hd [H2 [k1 Hs1]]]]]]. apply rbind_ok. exists d. split; [apply expect_array_ok; exact Hd|].
        apply rbind_ok. exists tt. split; [apply guard_ok; apply dtype_eqb_true; exact H1|].
        apply rbind_ok. exists tt. split; [apply guard_ok; unfold ndim; rewrite Hs2; reflexivity|].
        apply rbind_ok. exists tt. split; [apply guard_ok; unfold ndim; rewrite Hs1; reflexivity|].
        apply guard_ok. apply dtype_eqb_true. exact H2.
      * destruct Hvl as [H1 H2]. apply rbind_ok. exists tt. split; apply guard_ok; [apply dtype_eqb_true; auto|].
        apply negb_true_iff. apply ahas_false. exact H2.
    + apply rbind_ok. exists tt. split; [apply guard_ok; exact Hlen|].
      destruct Hm as [Hm|[m [Hm [Hs Hd]]]].
      * apply ahas_false in Hm. rewrite Hm. reflexivity.
      * assert (Hh : ahas path_MISSING ch = true) by (apply ahas_true; eauto). rewrite Hh.
        apply rbind_ok. exists m. split; [apply expect_array_ok; exact Hm|].
        apply rbind_ok. exists tt. split; [apply guard_ok; unfold ndim; rewrite Hs; reflexivity|].
        apply rbind_ok. exists tt. split; apply guard_ok; [unfold len0; rewrite Hs; cbn; apply Nat.eqb_refl | apply dtype_eqb_true; exact Hd].
Qed.

Lemma validate_props_group_iff pg len pmd :
  validate_props_group pg len pmd = Ok tt <-> props_conformant len pmd pg.
Proof.
  unfold validate_props_group, props_conformant. split.
  - intros H. apply rbind_ok in H. destruct H as [[] [Hg H]]. apply guard_ok in Hg.
    rewrite forallb_forall in Hg. rewrite forM__iff in H.
    assert (Hall : forall name node, In (name, node) (children pg) -> exists pm, alookup name pmd = Some pm /\ prop_conformant len pm node).
    { intros name node Hin. apply validate_prop_iff. apply H. exact Hin. }
    split; [|exact Hall].
    intros name. split.
    + intros Hin. unfold akeys in Hin. apply in_map_iff in Hin. destruct Hin as [[k v] [<- Hin]].
      apply ahas_in. apply (Hg _ Hin).
    + intros Hin. unfold akeys in Hin. apply in_map_iff in Hin. destruct Hin as [[k v] [<- Hin]].
      destruct (Hall _ _ Hin) as [pm [Hl _]]. apply alookup_some_in in Hl. apply (in_map fst) in Hl. exact Hl.
  - intros [Hkeys Hall]. apply rbind_ok. exists tt. split.
    + apply guard_ok. apply forallb_forall. intros [k v] Hin. cbn [fst]. apply ahas_in. apply Hkeys.
      apply (in_map fst) in Hin. exact Hin.
    + apply forM__iff. intros [name node] Hin. apply validate_prop_iff. apply Hall. exact Hin.
Qed.

Lemma validate_axis_iff npg ax : validate_axis npg ax = Ok tt <-> axis_conformant npg ax.
Proof.
  unfold validate_axis, axis_conformant. destruct (get npg (ax_name ax)) as [pgp|]; [|split; [discriminate | intros [? [? [? [H _]]]]; discriminate]].
  destruct pgp as [x|a ch].
  { split; [cbn; discriminate | intros [? [? [? [H _]]]]; discriminate]. }
  unfold get. cbn [children]. split.
  - intros H. apply rbind_ok in H. destruct H as [[] [H1 H]]. apply guard_ok in H1.
    apply rbind_ok in H. destruct H as [[] [H2 H]]. apply guard_ok in H2.
    apply rbind_ok in H. destruct H as [v [Hv H]]. apply expect_array_ok in Hv. apply guard_ok in H.
    exists a, ch, v. split; [reflexivity|]. split; [exact Hv|]. split.
    + unfold ndim in H. destruct (a_shape v) as [|n [|? ?]]; try discriminate. eauto.
    + destruct (alookup path_MISSING ch); [discriminate | reflexivity].
  - intros [a' [ch' [v [Heq [Hv [[n Hs] Hm]]]]]]. inversion Heq; subst a' ch'.
    apply rbind_ok. exists tt. split; [apply guard_ok; rewrite Hv; reflexivity|].
    apply rbind_ok. exists tt. split; [apply guard_ok; rewrite Hm; reflexivity|].
    apply rbind_ok. exists v. split; [apply expect_array_ok; exact Hv|].
    apply guard_ok. unfold ndim. rewrite Hs. reflexivity.
Qed.

Theorem validate_iff k root :
  validate_structure k (Some root) = Ok tt <-> conformant root.
Proof.
  unfold validate_structure, conformant. destruct root as [x|ra rch].
  { cbn. split; [discriminate|]. intros [md [H _]]. cbn in H. discriminate. }
  cbn [open_storelike rbind]. unfold read_metadata.
  destruct (geff_attr (ZG ra rch)) as [[md|]|] eqn:Eg;
    [| split; [discriminate | intros [md [H _]]; discriminate] | split; [discriminate | intros [md [H _]]; discriminate]].
  cbn [rbind]. split.
  - intros H. exists md. split; [reflexivity|].
    apply rbind_ok in H. destruct H as [ng [Hng H]]. apply expect_group_ok in Hng. destruct Hng as [na [nch [-> Hng]]].
    apply rbind_ok in H. destruct H as [[] [Hvn H]].
    apply rbind_ok in H. destruct H as [eg [Heg H]]. apply expect_group_ok in Heg. destruct Heg as [ea [ech [-> Heg]]].
    apply rbind_ok in H. destruct H as [[] [Hve H]].
    apply rbind_ok in H. destruct H as [nids [Hni H]]. apply expect_array_ok in Hni.
    apply rbind_ok in H. destruct H as [eids [Hei H]]. apply expect_array_ok in Hei.
    apply rbind_ok in H. destruct H as [[] [Hdt Hax]]. apply guard_ok in Hdt. apply dtype_eqb_true in Hdt.
    exists na, nch, ea, ech, nids, eids.
    (* nodes group *)
    unfold validate_nodes_group in Hvn. apply rbind_ok in Hvn. destruct Hvn as [nids' [Hni' Hvn]].
    apply expect_array_ok in Hni'. rewrite Hni in Hni'. inversion Hni'; subst nids'; clear Hni'.
    apply rbind_ok in Hvn. destruct Hvn as [[] [Hint Hvn]]. apply guard_ok in Hint.
    apply rbind_ok in Hvn. destruct Hvn as [[] [Hnd Hvn]]. apply guard_ok in Hnd.
    assert (Hsn : exists n, a_shape nids = [n]).
    { unfold ndim in Hnd. destruct (a_shape nids) as [|n [|? ?]]; try discriminate. eauto. }
    (* edges group *)
    unfold validate_edges_group in Hve. apply rbind_ok in Hve. destruct Hve as [eids' [Hei' Hve]].
    apply expect_array_ok in Hei'. rewrite Hei in Hei'. inversion Hei'; subst eids'; clear Hei'.
    apply rbind_ok in Hve. destruct Hve as [[] [Hes Hve]]. apply guard_ok in Hes.
    apply rbind_ok in Hve. destruct Hve as [[] [_ Hve]].
    assert (Hse : exists e, a_shape eids = [e; 2%nat]).
    { destruct (a_shape eids) as [|e0 l1]; [discriminate|]. destruct l1 as [|t l2]; [discriminate|].
      destruct t as [|[|[|t]]]; try discriminate. destruct l2; [eauto | discriminate]. }
    repeat (split; [first [exact Hng | exact Heg | exact Hni | exact Hei | exact Hint | exact Hsn | exact Hse | symmetry; exact Hdt]|]).
    split; [|split].
    + unfold get in Hvn. cbn [children] in Hvn. destruct (alookup path_PROPS nch) as [pg|] eqn:Ep.
      * assert (Hx : (let! pg0 := expect_group (ZG na nch) path_PROPS in
                      validate_props_group pg0 (hd 0%nat (a_shape nids)) (md_nprops md))%res = Ok tt).
        { destruct (md_nprops md); exact Hvn. }
        apply rbind_ok in Hx. destruct Hx as [pg0 [Hpg0 Hx]]. apply expect_group_ok in Hpg0.
        destruct Hpg0 as [pa [pc [-> Hget]]]. unfold get in Hget. cbn [children] in Hget. rewrite Ep in Hget.
        inversion Hget; subst pg. split; [reflexivity|]. apply validate_props_group_iff. exact Hx.
      * destruct (md_nprops md) as [|kv r]; [reflexivity|]. exfalso.
        apply rbind_ok in Hvn. destruct Hvn as [pg0 [Hpg0 _]]. apply expect_group_ok in Hpg0.
        destruct Hpg0 as [pa [pc [_ Hget]]]. unfold get in Hget. cbn [children] in Hget. rewrite Ep in Hget. discriminate.
    + unfold get in Hve. cbn [children] in Hve. destruct (alookup path_PROPS ech) as [pg|] eqn:Ep.
      * destruct pg as [x|pa pc]; [discriminate|]. split; [reflexivity|]. apply validate_props_group_iff. exact Hve.
      * apply guard_ok' in Hve. destruct (md_eprops md); [reflexivity | discriminate].
    + unfold validate_axes in Hax. destruct (md_axes md) as [axes|]; [|exact I].
      destruct axes as [|ax0 axr]; [left; reflexivity|]. right. set (axes := ax0 :: axr) in *.
      apply rbind_ok in Hax. destruct Hax as [ng' [Hng' Hax]]. apply expect_group_ok in Hng'.
      destruct Hng' as [na' [nch' [-> Hng']]]. rewrite Hng in Hng'. inversion Hng'; subst na' nch'; clear Hng'.
      apply rbind_ok in Hax. destruct Hax as [npg [Hnpg Hax]]. apply expect_group_ok in Hnpg.
      destruct Hnpg as [pa [pc [-> Hget]]]. unfold get in Hget. cbn [children] in Hget.
      exists (ZG pa pc). split; [exact Hget|]. split; [reflexivity|].
      intros ax Hin. apply validate_axis_iff. rewrite forM__iff in Hax. apply Hax. exact Hin.
  - intros (md' & Hmd & na & nch & ea & ech & nids & eids & Hng & Heg & Hni & Hei & Hint & (n & Hsn) & (e & Hse) & Hdt & Hnp & Hep & Hax).
    inversion Hmd; subst md'; clear Hmd.
    apply rbind_ok. exists (ZG na nch). split; [apply expect_group_ok; eauto|].
    apply rbind_ok. exists tt. split.
    { unfold validate_nodes_group. apply rbind_ok. exists nids. split; [apply expect_array_ok; exact Hni|].
      apply rbind_ok. exists tt. split; [apply guard_ok; exact Hint|].
      apply rbind_ok. exists tt. split; [apply guard_ok; unfold ndim; rewrite Hsn; reflexivity|].
      unfold get. cbn [children]. destruct (alookup path_PROPS nch) as [pg|] eqn:Ep.
      - destruct Hnp as [Hgrp Hpc]. destruct pg as [x|pa pc]; [discriminate|].
        assert (Hx : (let! pg0 := expect_group (ZG na nch) path_PROPS in
                      validate_props_group pg0 (hd 0%nat (a_shape nids)) (md_nprops md))%res = Ok tt).
        { apply rbind_ok. exists (ZG pa pc). split; [apply expect_group_ok; exists pa, pc; split; [reflexivity|]; unfold get; cbn [children]; exact Ep|].
          apply validate_props_group_iff. exact Hpc. }
        destruct (md_nprops md); exact Hx.
      - rewrite Hnp. reflexivity. }
    apply rbind_ok. exists (ZG ea ech). split; [apply expect_group_ok; eauto|].
    apply rbind_ok. exists tt. split.
    { unfold validate_edges_group. apply rbind_ok. exists eids. split; [apply expect_array_ok; exact Hei|].
      apply rbind_ok. exists tt. split; [apply guard_ok; rewrite Hse; reflexivity|].
      apply rbind_ok. exists tt. split; [apply guard_ok; rewrite Hdt; exact Hint|].
      unfold get. cbn [children]. destruct (alookup path_PROPS ech) as [pg|] eqn:Ep.
      - destruct Hep as [Hgrp Hpc]. destruct pg as [x|pa pc]; [discriminate|]. apply validate_props_group_iff. exact Hpc.
      - rewrite Hep. reflexivity. }
    apply rbind_ok. exists nids. split; [apply expect_array_ok; exact Hni|].
    apply rbind_ok. exists eids. split; [apply expect_array_ok; exact Hei|].
    apply rbind_ok. exists tt. split; [apply guard_ok; apply dtype_eqb_true; symmetry; exact Hdt|].
    unfold validate_axes. destruct (md_axes md) as [axes|]; [|reflexivity].
    destruct axes as [|ax0 axr]; [reflexivity|]. set (axes := ax0 :: axr) in *.
    destruct Hax as [Hnil | [pg [Hpg [Hgrp Hall]]]]; [discriminate|]. destruct pg as [x|pa pc]; [discriminate|].
    apply rbind_ok. exists (ZG na nch). split; [apply expect_group_ok; eauto|].
    apply rbind_ok. exists (ZG pa pc). split; [apply expect_group_ok; exists pa, pc; split; [reflexivity|]; unfold get; cbn [children]; exact Hpg|].
    apply forM__iff. intros ax Hin. apply validate_axis_iff. apply Hall. exact Hin.
Qed.

(* a rejection is always ValueError, except FileNotFoundError for a path that does not exist *)
Lemma rbind_err {A B} (m : res A) (f : A -> res B) e :
  rbind m f = Err e -> m = Err e \/ exists x, m = Ok x /\ f x = Err e.
Proof. destruct m as [x|e']; cbn; intros H; [right; exists x; split; [reflexivity | exact H] | left; inversion H; reflexivity]. Qed.

Definition only_value_error {A} (r : res A) : Prop := forall e, r = Err e -> e = ValueError.

Lemma ove_guard b : only_value_error (guard b). Proof. intros e. destruct b; cbn; intro H; inversion H; reflexivity. Qed.
Lemma ove_expect_array n k : only_value_error (expect_array n k).
Proof. intros e. unfold expect_array. destruct (get n k) as [[]|]; intro H; inversion H; reflexivity. Qed.
Lemma ove_expect_group n k : only_value_error (expect_group n k).
Proof. intros e. unfold expect_group. destruct (get n k) as [[]|]; intro H; inversion H; reflexivity. Qed.
Lemma ove_bind {A B} (m : res A) (f : A -> res B) :
  only_value_error m -> (forall x, only_value_error (f x)) -> only_value_error (rbind m f).
Proof. intros Hm Hf e H. apply rbind_err in H. destruct H as [H|[x [_ H]]]; [apply Hm; exact H | eapply Hf; exact H]. Qed.
Lemma ove_forM_ {A} (f : A -> res unit) l : (forall x, only_value_error (f x)) -> only_value_error (forM_ f l).
Proof. intros Hf. induction l as [|x r IH]; intros e H; cbn in H; [discriminate|].
  destruct (f x) eqn:E; [apply IH; exact H | inversion H; subst; eapply Hf; exact E]. Qed.
Lemma ove_ok {A} (x : A) : only_value_error (Ok x). Proof. intros e H. discriminate. Qed.
Lemma ove_err {A} : only_value_error (@Err A ValueError). Proof. intros e H. inversion H. reflexivity. Qed.

Ltac ove := repeat first
  [ apply ove_ok | apply ove_err | apply ove_guard | apply ove_expect_array | apply ove_expect_group
  | apply ove_bind; [|intros ?] | apply ove_forM_; intros ?
  | match goal with |- only_value_error (if ?b then _ else _) => destruct b end
  | match goal with |- only_value_error (match ?x with _ => _ end) => destruct x end ].

Theorem validate_exn k s e :
  validate_structure k s = Err e -> e = ValueError \/ (e = FileNotFoundError /\ s = None /\ k = KPath).
Proof.
  destruct s as [root|].
  - intros H. left. revert e H. change (only_value_error (validate_structure k (Some root))).
    unfold validate_structure, open_storelike, read_metadata, validate_nodes_group, validate_edges_group,
      validate_axes, validate_props_group, validate_axis. ove.
    all: unfold validate_prop; ove.
  - destruct k; cbn; intros H; inversion H; auto.
Qed.
