(* MetaLemmas.v -- specification of the format's invariants on the metadata objects of
   Meta.v and the proofs that every reachable object satisfies them, that a failed
   operation changes nothing, and that an assignment is rejected exactly when the object
   it would produce breaks an invariant. *)
From Geff Require Import Base Meta.
From Geff.Gen Require Import Consts.
Open Scope string_scope.
Open Scope Z_scope.
Open Scope list_scope.

(* ================================================================== strings *)
Lemma sapp_assoc (a b c : string) : ((a ++ b) ++ c = a ++ (b ++ c))%string.
Proof. induction a as [|x a IH]; cbn; [reflexivity | rewrite IH; reflexivity]. Qed.
Lemma sapp_nil_r (a : string) : (a ++ "" = a)%string.
Proof. induction a as [|x a IH]; cbn; [reflexivity | rewrite IH; reflexivity]. Qed.

(* ================================================================== the version pattern *)
(* the fragment of regular expressions the pattern uses, with its textbook semantics *)
Inductive cclass := CDigit | CAlnum | CLit (a : ascii).
Definition cc_ok (c : cclass) (a : ascii) : bool :=
  match c with CDigit => is_digit a | CAlnum => is_alnum a | CLit b => Ascii.eqb a b end.

Inductive re := RChr (c : cclass) | RSeq (a b : re) | ROpt (a : re) | RPlus (a : re).

Inductive lang : re -> string -> Prop :=
| LChr c a : cc_ok c a = true -> lang (RChr c) (String a "")
| LSeq r1 r2 s1 s2 : lang r1 s1 -> lang r2 s2 -> lang (RSeq r1 r2) (s1 ++ s2)%string
| LOptNone r : lang (ROpt r) ""
| LOptSome r s : lang r s -> lang (ROpt r) s
| LPlus1 r s : lang r s -> lang (RPlus r) s
| LPlusS r s1 s2 : lang r s1 -> lang (RPlus r) s2 -> lang (RPlus r) (s1 ++ s2)%string.

Definition digits : re := RPlus (RChr CDigit).
Definition lit (a : ascii) : re := RChr (CLit a).

(*  \d+ \. \d+ (?:\.\d+)? (?:\.dev\d+)? (?:\+[a-zA-Z0-9]+)?   (the leading ^ anchors the match at position 0) *)
Definition version_re : re :=
  RSeq digits (RSeq (lit ".") (RSeq digits
    (RSeq (ROpt (RSeq (lit ".") digits))
    (RSeq (ROpt (RSeq (lit ".") (RSeq (lit "d") (RSeq (lit "e") (RSeq (lit "v") digits)))))
          (ROpt (RSeq (lit "+") (RPlus (RChr CAlnum)))))))).

(* pydantic / JSON-Schema `pattern`: the regular expression matches somewhere; with the ^ anchor:
   some prefix of the string is in the language *)
Definition version_matches (s : string) : Prop :=
  exists pre rest, s = (pre ++ rest)%string /\ lang version_re pre.

Fixpoint all_digits (s : string) : bool :=
  match s with EmptyString => true | String c r => is_digit c && all_digits r end.

Lemma skip_digits_split r : exists ds, r = (ds ++ skip_digits r)%string /\ all_digits ds = true.
Proof.
  induction r as [|c r IH]; cbn.
  - exists ""%string. split; reflexivity.
  - destruct (is_digit c) eqn:E.
    + destruct IH as [ds [H1 H2]]. exists (String c ds). cbn. rewrite E, H2. split; [f_equal; exact H1 | reflexivity].
    + exists ""%string. split; reflexivity.
Qed.

Lemma skip_digits_app ds t :
  all_digits ds = true ->
  match t with String c _ => is_digit c = false | EmptyString => True end ->
  skip_digits (ds ++ t) = t.
Proof.
  intros Hd Ht. induction ds as [|c ds IH]; cbn in *.
  - destruct t as [|c t]; cbn; [reflexivity | rewrite Ht; reflexivity].
  - apply andb_true_iff in Hd. destruct Hd as [Hc Hd]. rewrite Hc. apply IH. exact Hd.
Qed.

Lemma plus_digits_intro ds : forall c, is_digit c = true -> all_digits ds = true -> lang digits (String c ds).
Proof.
  induction ds as [|d ds IH]; intros c Hc Hd.
  - apply LPlus1. apply LChr. exact Hc.
  - cbn in Hd. apply andb_true_iff in Hd. destruct Hd as [Hd1 Hd2].
    change (String c (String d ds)) with (String c "" ++ String d ds)%string.
    apply LPlusS; [apply LChr; exact Hc | apply IH; assumption].
Qed.

Lemma all_digits_app a b : all_digits (a ++ b) = all_digits a && all_digits b.
Proof. induction a as [|c a IH]; cbn; [reflexivity | rewrite IH, andb_assoc; reflexivity]. Qed.

Lemma plus_digits_elim w : lang digits w -> exists c ds, w = String c ds /\ is_digit c = true /\ all_digits ds = true.
Proof.
  unfold digits. intros H. remember (RPlus (RChr CDigit)) as r eqn:Er.
  induction H as [| | | |r s H _|r s1 s2 H1 _ H2 IH2]; try discriminate; inversion Er; subst.
  - inversion H; subst. eexists _, _. split; [reflexivity|]. split; [assumption | reflexivity].
  - inversion H1; subst. destruct (IH2 eq_refl) as [c [ds [E [Hc Hd]]]]. subst s2.
    eexists _, _. cbn. split; [reflexivity|]. split; [assumption|]. cbn. rewrite Hc, Hd. reflexivity.
Qed.

Lemma dot_not_digit : is_digit "." = false.
Proof. reflexivity. Qed.

Lemma version_ok_iff s : version_ok s = true <-> version_matches s.
Proof.
  split.
  - destruct s as [|c r]; cbn; [discriminate|]. intros H. apply andb_true_iff in H. destruct H as [Hc H].
    destruct (skip_digits_split r) as [ds [Er Hd]].
    destruct (skip_digits r) as [|dot [|d rest]] eqn:Es; try discriminate.
    apply andb_true_iff in H. destruct H as [Hdot Hd2]. apply Ascii.eqb_eq in Hdot. subst dot.
    exists (String c ds ++ String "." (String d ""))%string, rest. split.
    + cbn. f_equal. rewrite Er at 1. rewrite sapp_assoc. reflexivity.
    + unfold version_re. apply LSeq; [apply plus_digits_intro; assumption|].
      change (String "." (String d "")) with (String "." "" ++ (String d "" ++ ("" ++ ("" ++ ""))))%string.
      apply LSeq; [apply LChr; reflexivity|].
      apply LSeq; [apply LPlus1, LChr; exact Hd2|].
      apply LSeq; [apply LOptNone|]. apply LSeq; apply LOptNone.
  - intros [pre [rest [Es H]]]. subst s. unfold version_re in H.
    inversion H as [| r1 r2 s1 s2 Hd1 H2 | | | |]; subst. clear H.
    inversion H2 as [| r1 r2 s3 s4 Hdot H3 | | | |]; subst. clear H2.
    inversion H3 as [| r1 r2 s5 s6 Hd2 H4 | | | |]; subst. clear H3 H4.
    inversion Hdot as [c a Ha | | | | |]; subst. cbn in Ha. apply Ascii.eqb_eq in Ha. subst a.
    apply plus_digits_elim in Hd1. destruct Hd1 as [c1 [ds1 [E1 [Hc1 Hds1]]]]. subst s1.
    apply plus_digits_elim in Hd2. destruct Hd2 as [c2 [ds2 [E2 [Hc2 Hds2]]]]. subst s5.
    cbn. rewrite Hc1. cbn. rewrite sapp_assoc. rewrite skip_digits_app; [|exact Hds1|cbn; reflexivity].
    cbn. rewrite Hc2. reflexivity.
Qed.

(* ================================================================== the invariants (specification) *)
(* order on floats: IEEE <=, false as soon as one side is NaN *)
Definition fle (a b : fl) : Prop :=
  match a, b with
  | NaN, _ | _, NaN => False
  | Fin x, Fin y => x <= y
  | NInf, _ => True
  | _, PInf => True
  | _, _ => False
  end.
(* what the code tests instead: not (a > b) *)
Definition not_gt (a b : fl) : Prop := fl_gt a b = false.

Lemma fl_le_spec a b : fl_le a b = true <-> fle a b.
Proof. destruct a, b; cbn; try (split; intros; try discriminate; try contradiction; reflexivity); apply Z.leb_le. Qed.

Lemma fle_not_gt a b : fle a b -> not_gt a b.
Proof. unfold not_gt. destruct a, b; cbn; intros H; try reflexivity; try contradiction. apply Z.ltb_ge. exact H. Qed.

Lemma not_gt_fle a b : not_gt a b -> a <> NaN -> b <> NaN -> fle a b.
Proof.
  unfold not_gt. destruct a, b; cbn; intros H Ha Hb; try exact I; try discriminate; try congruence.
  apply Z.ltb_ge. exact H.
Qed.

Definition has_unit (o : option string) : Prop := exists s, o = Some s /\ s <> "".

Lemma truthy_spec o : truthy o = true <-> has_unit o.
Proof.
  unfold truthy, has_unit. destruct o as [s|].
  - split.
    + intros H. exists s. split; [reflexivity|]. intros ->. discriminate.
    + intros [s' [E Hn]]. inversion E; subst. destruct (String.eqb s' "") eqn:Eq; [apply String.eqb_eq in Eq; contradiction | reflexivity].
  - split; [discriminate | intros [s [E _]]; discriminate].
Qed.

(* an axis has min and max both or neither, with min `ord` max; a scaled unit comes with a scale *)
Definition axis_inv_gen (ord : fl -> fl -> Prop) (a : axis) : Prop :=
  (ax_min a = None <-> ax_max a = None) /\
  (forall lo hi, ax_min a = Some lo -> ax_max a = Some hi -> ord lo hi) /\
  (has_unit (ax_scaled_unit a) -> ax_scale a <> None).

(* a label property appears only on 'labels' objects *)
Definition related_inv (r : related) : Prop := ro_label_prop r <> None -> ro_type r = "labels".

(* each property-metadata key equals its identifier and its dtype is one of the allowed names *)
Definition dtype_ok (kv : string * prop_meta) : Prop := In (pm_dtype (snd kv)) valid_dtypes.
Definition key_ok (kv : string * prop_meta) : Prop := fst kv = pm_identifier (snd kv).

Definition olist {A} (o : option (list A)) : list A := match o with Some l => l | None => [] end.

Lemma axis_names_olist m : axis_names m = map ax_name (olist (md_axes m)).
Proof. unfold axis_names, olist. destruct (md_axes m); reflexivity. Qed.

(* the invariants established by the validators of the nested objects and of single fields *)
Definition nested_inv (ord : fl -> fl -> Prop) (m : metadata) : Prop :=
  version_matches (md_version m) /\
  Forall (axis_inv_gen ord) (olist (md_axes m)) /\
  Forall dtype_ok (md_node_props m) /\ Forall dtype_ok (md_edge_props m) /\
  Forall related_inv (olist (md_related m)).

(* the invariants that relate several fields (GeffMetadata._validate_model_after) *)
Definition top_inv (m : metadata) : Prop :=
  NoDup (axis_names m) /\
  (forall h, md_hints m = Some h -> forall n, In n (hint_names h) -> In n (axis_names m)) /\
  Forall key_ok (md_node_props m) /\ Forall key_ok (md_edge_props m).

Definition Inv_gen (ord : fl -> fl -> Prop) (m : metadata) : Prop := nested_inv ord m /\ top_inv m.

(* the format's invariants as the property lists them *)
Definition Inv : metadata -> Prop := Inv_gen fle.
(* the same with "not (min > max)" in place of "min <= max": identical unless a bound is NaN *)
Definition InvW : metadata -> Prop := Inv_gen not_gt.

Definition nan_free_axis (a : axis) : Prop := ax_min a <> Some NaN /\ ax_max a <> Some NaN.
Definition nan_free (m : metadata) : Prop := Forall nan_free_axis (olist (md_axes m)).

Lemma axis_inv_weaken a : axis_inv_gen fle a -> axis_inv_gen not_gt a.
Proof. intros [H1 [H2 H3]]. repeat split; try apply H1; auto. intros lo hi Hl Hh. apply fle_not_gt. eauto. Qed.

Lemma axis_inv_strengthen a : nan_free_axis a -> axis_inv_gen not_gt a -> axis_inv_gen fle a.
Proof.
  intros [N1 N2] [H1 [H2 H3]]. repeat split; try apply H1; auto. intros lo hi Hl Hh.
  apply not_gt_fle; [eauto | intros -> ; congruence | intros ->; congruence].
Qed.

Lemma Inv_InvW m : Inv m -> InvW m.
Proof.
  intros [[Hv [Ha Hr]] Ht]. split; [|exact Ht]. split; [exact Hv|]. split; [|exact Hr].
  eapply Forall_impl; [|exact Ha]. intros a. apply axis_inv_weaken.
Qed.

Lemma InvW_nan_free_Inv m : nan_free m -> InvW m -> Inv m.
Proof.
  intros Hn [[Hv [Ha Hr]] Ht]. split; [|exact Ht]. split; [exact Hv|]. split; [|exact Hr].
  unfold nan_free in Hn. rewrite Forall_forall in *. intros a Hin. apply axis_inv_strengthen; auto.
Qed.

(* ================================================================== generic helpers *)
Ltac bind_inv H :=
  repeat match type of H with
  | rbind ?e _ = Ok _ =>
      let x := fresh "x" in let E := fresh "E" in
      destruct e as [x|?] eqn:E; cbn [rbind] in H; [cbn beta in H | discriminate H]
  end.

Lemma mapM_Forall {A B} (f : A -> res B) (P : B -> Prop) :
  (forall x y, f x = Ok y -> P y) -> forall l l', mapM f l = Ok l' -> Forall P l'.
Proof.
  intros Hf l. induction l as [|x r IH]; intros l' H; cbn in H.
  - inversion H. constructor.
  - destruct (f x) as [y|] eqn:E; [|discriminate]. destruct (mapM f r) as [ys|] eqn:Er; [|discriminate].
    inversion H; subst. constructor; [eapply Hf; eassumption | apply IH; reflexivity].
Qed.

Lemma v_opt_list_Forall {A} (f : jv -> res A) (P : A -> Prop) :
  (forall x y, f x = Ok y -> P y) ->
  forall v o, v_opt (v_list f) v = Ok o -> Forall P (olist o).
Proof.
  intros Hf v o H. unfold v_opt in H. destruct v as [x|]; [|inversion H; constructor].
  destruct x; try (inversion H; constructor; fail); cbn in H; try discriminate.
  destruct (mapM f l) as [ys|] eqn:E; [|discriminate]. inversion H; subst. cbn. eapply mapM_Forall; eassumption.
Qed.

Lemma nodupb_NoDup l : nodupb l = true <-> NoDup l.
Proof.
  induction l as [|x r IH]; cbn.
  - split; [constructor | reflexivity].
  - rewrite andb_true_iff, negb_true_iff, IH. split.
    + intros [H1 H2]. constructor; [|exact H2]. intros Hin. apply smem_In in Hin. congruence.
    + intros H. inversion H; subst. split; [|assumption].
      destruct (smem x r) eqn:E; [apply smem_In in E; contradiction | reflexivity].
Qed.

Lemma keys_match_spec d : keys_match d = true <-> Forall key_ok d.
Proof.
  unfold keys_match. rewrite forallb_forall, Forall_forall. unfold key_ok.
  split; intros H kv Hin; [apply String.eqb_eq | apply String.eqb_eq]; auto.
Qed.

(* ================================================================== nested validators establish the nested invariants *)
Lemma axis_after_iff a a' : axis_after a = Ok a' <-> a' = a /\ axis_inv_gen not_gt a.
Proof.
  unfold axis_after, axis_inv_gen, not_gt.
  pose proof (truthy_spec (ax_scaled_unit a)) as Ht.
  destruct (ax_min a) as [lo|], (ax_max a) as [hi|]; cbn [is_none Bool.eqb negb].
  - destruct (fl_gt lo hi) eqn:Eg.
    + split; [discriminate|]. intros [_ [_ [H _]]]. specialize (H lo hi eq_refl eq_refl). congruence.
    + destruct (truthy (ax_scaled_unit a)), (ax_scale a); cbn [is_none andb].
      * split; [intros H; inversion H; subst | intros [-> _]; reflexivity].
        split; [reflexivity|]. split; [split; discriminate|].
        split; [intros ? ? H1 H2; inversion H1; inversion H2; subst; exact Eg | intros _; discriminate].
      * split; [discriminate|]. intros [_ [_ [_ H]]]. exfalso. apply H; [apply Ht; reflexivity | reflexivity].
      * split; [intros H; inversion H; subst | intros [-> _]; reflexivity].
        split; [reflexivity|]. split; [split; discriminate|].
        split; [intros ? ? H1 H2; inversion H1; inversion H2; subst; exact Eg | intros _; discriminate].
      * split; [intros H; inversion H; subst | intros [-> _]; reflexivity].
        split; [reflexivity|]. split; [split; discriminate|].
        split; [intros ? ? H1 H2; inversion H1; inversion H2; subst; exact Eg | intros Hu; apply Ht in Hu; discriminate].
  - split; [discriminate|]. intros [_ [[_ H] _]]. specialize (H eq_refl). discriminate.
  - split; [discriminate|]. intros [_ [[H _] _]]. specialize (H eq_refl). discriminate.
  - destruct (truthy (ax_scaled_unit a)), (ax_scale a); cbn [is_none andb].
    + split; [intros H; inversion H; subst | intros [-> _]; reflexivity].
      split; [reflexivity|]. split; [split; reflexivity|]. split; [intros ? ? H1; discriminate | intros _; discriminate].
    + split; [discriminate|]. intros [_ [_ [_ H]]]. exfalso. apply H; [apply Ht; reflexivity | reflexivity].
    + split; [intros H; inversion H; subst | intros [-> _]; reflexivity].
      split; [reflexivity|]. split; [split; reflexivity|]. split; [intros ? ? H1; discriminate | intros _; discriminate].
    + split; [intros H; inversion H; subst | intros [-> _]; reflexivity].
      split; [reflexivity|]. split; [split; reflexivity|].
      split; [intros ? ? H1; discriminate | intros Hu; apply Ht in Hu; discriminate].
Qed.

Lemma axis_of_jv_inv v a : axis_of_jv v = Ok a -> axis_inv_gen not_gt a.
Proof.
  unfold axis_of_jv. destruct v; try discriminate. intros H.
  destruct (axis_fields kvs) as [a0|] eqn:E; cbn in H; [|discriminate].
  apply axis_after_iff in H. destruct H as [-> H]. exact H.
Qed.

Lemma related_after_iff r r' : related_after r = Ok r' <-> r' = r /\ related_inv r.
Proof.
  unfold related_after, related_inv.
  destruct (String.eqb (ro_type r) "labels") eqn:Et; cbn.
  - apply String.eqb_eq in Et. split; [intros H; inversion H; subst; split; [reflexivity | intros _; exact Et] | intros [-> _]; reflexivity].
  - destruct (ro_label_prop r) eqn:El; cbn.
    + split; [discriminate|]. intros [_ H]. assert (ro_type r = "labels") by (apply H; discriminate).
      apply String.eqb_neq in Et. contradiction.
    + split; [intros H; inversion H; split; [reflexivity | intros C; contradiction C; reflexivity] | intros [-> _]; reflexivity].
Qed.

Lemma related_of_jv_inv v r : related_of_jv v = Ok r -> related_inv r.
Proof.
  unfold related_of_jv. destruct v; try discriminate. intros H. bind_inv H.
  apply related_after_iff in H. destruct H as [-> H]. exact H.
Qed.

Lemma convert_dtype_valid v n : convert_dtype v = Ok n -> In n valid_dtypes.
Proof.
  unfold convert_dtype. intros H.
  assert (G : forall name, (if smem name valid_dtypes then v_str_min1 (JStr name) else verr) = Ok n -> In n valid_dtypes).
  { intros name. destruct (smem name valid_dtypes) eqn:E; [|discriminate]. unfold v_str_min1.
    destruct (String.eqb name ""); [discriminate|]. intros H'. inversion H'; subst. apply (proj1 (smem_In _ _)). exact E. }
  destruct v; try discriminate; destruct (np_dtype_name _) eqn:En; try discriminate; eapply G; exact H.
Qed.

Lemma propmeta_of_jv_dtype v p : propmeta_of_jv v = Ok p -> In (pm_dtype p) valid_dtypes.
Proof.
  unfold propmeta_of_jv. destruct v; try discriminate. intros H. bind_inv H. inversion H; subst. cbn.
  unfold v_req in E0. destruct (jget "dtype" kvs); [|discriminate]. eapply convert_dtype_valid. exact E0.
Qed.

Lemma v_pmdict_dtype v d : v_pmdict v = Ok d -> Forall dtype_ok d.
Proof.
  unfold v_pmdict, v_dict. destruct v; try discriminate. intros H.
  eapply mapM_Forall; [|exact H]. intros kv y Hy. cbn in Hy.
  destruct (propmeta_of_jv (snd kv)) as [p|] eqn:Ep; [|discriminate]. inversion Hy; subst.
  unfold dtype_ok. cbn. eapply propmeta_of_jv_dtype. exact Ep.
Qed.

Lemma v_version_matches v s : v_version v = Ok s -> version_matches s.
Proof.
  unfold v_version. destruct v; try discriminate. destruct (version_ok s0) eqn:E; [|discriminate].
  intros H. inversion H; subst. apply version_ok_iff. exact E.
Qed.

(* ================================================================== the model-level validator decides top_inv *)
Lemma md_after_ok_iff m : md_after_ok m = true <-> top_inv m.
Proof.
  unfold md_after_ok, top_inv. rewrite !andb_true_iff, nodupb_NoDup, !keys_match_spec.
  assert (Hh : match md_hints m with
               | Some h => forallb (fun n => smem n (axis_names m)) (hint_names h)
               | None => true
               end = true <->
               (forall h, md_hints m = Some h -> forall n, In n (hint_names h) -> In n (axis_names m))).
  { destruct (md_hints m) as [h|].
    - rewrite forallb_forall. split.
      + intros H h' E n Hn. inversion E; subst. apply smem_In. apply H. exact Hn.
      + intros H n Hn. apply smem_In. eapply H; [reflexivity | exact Hn].
    - split; [intros _ h E; discriminate | reflexivity]. }
  rewrite Hh. tauto.
Qed.

Lemma md_after_iff m m' : md_after m = Ok m' <-> m' = m /\ top_inv m.
Proof.
  unfold md_after. destruct (md_after_ok m) eqn:E.
  - apply md_after_ok_iff in E. split; [intros H; inversion H; subst; split; [reflexivity | exact E] | intros [-> _]; reflexivity].
  - split; [discriminate|]. intros [_ H]. apply md_after_ok_iff in H. congruence.
Qed.

(* ================================================================== construction *)
Lemma v_default_version gv v s : version_ok gv = true -> v_default gv v_version v = Ok s -> version_matches s.
Proof.
  intros Hg. unfold v_default. destruct v as [x|].
  - apply v_version_matches.
  - intros H. inversion H; subst. apply version_ok_iff. exact Hg.
Qed.

Lemma v_req_pmdict v d : v_req v_pmdict v = Ok d -> Forall dtype_ok d.
Proof. unfold v_req. destruct v; [apply v_pmdict_dtype | discriminate]. Qed.

Lemma md_fields_nested gv kvs m : version_ok gv = true -> md_fields gv kvs = Ok m -> nested_inv not_gt m.
Proof.
  intros Hg H. unfold md_fields in H. bind_inv H. inversion H; subst. clear H. unfold nested_inv. cbn.
  split; [eapply v_default_version; eassumption|].
  split; [eapply (v_opt_list_Forall axis_of_jv); [apply axis_of_jv_inv | eassumption]|].
  split; [eapply v_req_pmdict; eassumption|].
  split; [eapply v_req_pmdict; eassumption|].
  eapply (v_opt_list_Forall related_of_jv); [apply related_of_jv_inv | eassumption].
Qed.

Lemma construct_inv gv v m : version_ok gv = true -> construct gv v = Ok m -> InvW m.
Proof.
  intros Hg H. unfold construct in H. destruct v; try discriminate.
  destruct (md_fields gv kvs) as [m0|] eqn:E; cbn in H; [|discriminate].
  apply md_after_iff in H. destruct H as [-> Ht]. split; [eapply md_fields_nested; eassumption | exact Ht].
Qed.

(* construction succeeds exactly when the fields validate and the resulting object satisfies the invariants *)
Lemma construct_iff gv kvs m : version_ok gv = true ->
  (construct gv (JObj kvs) = Ok m <-> md_fields gv kvs = Ok m /\ InvW m).
Proof.
  intros Hg. unfold construct. split.
  - intros H. destruct (md_fields gv kvs) as [m0|] eqn:E; cbn in H; [|discriminate].
    apply md_after_iff in H. destruct H as [-> Ht]. split; [reflexivity|].
    split; [eapply md_fields_nested; eassumption | exact Ht].
  - intros [E [_ Ht]]. rewrite E. cbn. apply md_after_iff. auto.
Qed.

(* ================================================================== assignment *)
Lemma set_field_nested m f v m' : nested_inv not_gt m -> set_field m f v = Ok m' -> nested_inv not_gt m'.
Proof.
  intros [Hv [Ha [Hn [He Hr]]]] H. unfold nested_inv.
  destruct f; cbn [set_field] in H;
    match type of H with
    | rmap _ ?e = Ok _ => destruct e as [x|] eqn:E; cbn [rmap] in H; [|discriminate]; inversion H; subst; clear H; cbn
    | _ => discriminate
    end; repeat split; try assumption.
  - eapply v_version_matches; eassumption.
  - eapply (v_opt_list_Forall axis_of_jv); [apply axis_of_jv_inv | eassumption].
  - eapply v_pmdict_dtype; eassumption.
  - eapply v_pmdict_dtype; eassumption.
  - eapply (v_opt_list_Forall related_of_jv); [apply related_of_jv_inv | eassumption].
Qed.

(* the statement `obj.field = value`:
   - it fails exactly when the value is rejected by the field's validator or the object it would
     produce breaks an invariant; the object is then unchanged;
   - otherwise the object becomes exactly the would-be object *)
Lemma assign_spec m f v :
  assign m f v =
  match set_field m f v with
  | Err e => (m, Err e)
  | Ok m' => if md_after_ok m' then (m', Ok tt) else (m, Err ValueError)
  end.
Proof. unfold assign, md_after. destruct (set_field m f v) as [m'|]; [|reflexivity]. destruct (md_after_ok m'); reflexivity. Qed.

Lemma assign_atomic m f v m' e : assign m f v = (m', Err e) -> m' = m.
Proof.
  rewrite assign_spec. destruct (set_field m f v) as [m1|]; [destruct (md_after_ok m1)|]; intros H; inversion H; reflexivity.
Qed.

Lemma assign_inv m f v : InvW m -> InvW (fst (assign m f v)).
Proof.
  intros Hm. rewrite assign_spec. destruct (set_field m f v) as [m1|] eqn:E; [|exact Hm].
  destruct (md_after_ok m1) eqn:Ea; [|exact Hm]. cbn. split.
  - eapply set_field_nested; [apply Hm | exact E].
  - apply md_after_ok_iff. exact Ea.
Qed.

Lemma assign_decides m f v m1 : InvW m -> set_field m f v = Ok m1 ->
  (InvW m1 -> assign m f v = (m1, Ok tt)) /\ (~ InvW m1 -> assign m f v = (m, Err ValueError)).
Proof.
  intros Hm E. rewrite assign_spec, E. destruct (md_after_ok m1) eqn:Ea.
  - split; [reflexivity|]. intros Hn. exfalso. apply Hn. split; [eapply set_field_nested; [apply Hm | exact E] | apply md_after_ok_iff; exact Ea].
  - split; [|reflexivity]. intros [_ Ht]. apply md_after_ok_iff in Ht. congruence.
Qed.

Lemma assign_res_inv m f v m' : InvW m -> assign_res m f v = Ok m' -> InvW m'.
Proof.
  unfold assign_res. intros Hm H. pose proof (assign_inv m f v Hm) as Hi.
  destruct (snd (assign m f v)); [|discriminate]. inversion H; subst. exact Hi.
Qed.

(* ================================================================== helpers of utils.py *)
Lemma axis_at_inv ls i n a : axis_at ls i n = Ok a -> axis_inv_gen not_gt a.
Proof. unfold axis_at. intros H. bind_inv H. eapply axis_of_jv_inv. exact H. Qed.

Lemma axes_loop_inv ls names : forall i l, axes_loop ls i names = Ok l -> Forall (axis_inv_gen not_gt) l.
Proof.
  induction names as [|n r IH]; intros i l H; cbn in H.
  - inversion H. constructor.
  - destruct (axis_at ls i n) as [a|] eqn:Ea; [|discriminate].
    destruct (axes_loop ls (S i) r) as [l0|] eqn:El; [|discriminate]. inversion H; subst.
    constructor; [eapply axis_at_inv; exact Ea | eapply IH; exact El].
Qed.

Lemma axes_from_lists_inv ls l : axes_from_lists ls = Ok l -> Forall (axis_inv_gen not_gt) l.
Proof.
  unfold axes_from_lists. destruct (al_names ls) as [names|]; [|intros H; inversion H; constructor].
  repeat match goal with |- (if ?c then _ else _) = _ -> _ => destruct c; [discriminate|] end.
  apply axes_loop_inv.
Qed.

Lemma update_metadata_axes_inv m ls m' : InvW m -> update_metadata_axes m ls = Ok m' -> InvW m'.
Proof.
  intros [[Hv [Ha [Hn [He Hr]]]] Ht] H. unfold update_metadata_axes in H.
  destruct (axes_from_lists _) as [l|] eqn:El; [|discriminate]. cbn in H.
  apply md_after_iff in H. destruct H as [-> Ht']. split; [|exact Ht'].
  unfold nested_inv, set_axes_objs. cbn. repeat split; try assumption.
  eapply axes_from_lists_inv. exact El.
Qed.

Lemma create_or_update_inv gv mo d a m' : version_ok gv = true ->
  (forall m, mo = Some m -> InvW m) -> create_or_update_metadata gv mo d a = Ok m' -> InvW m'.
Proof.
  intros Hg Hm H. unfold create_or_update_metadata in H. destruct mo as [m0|].
  - specialize (Hm m0 eq_refl). bind_inv H.
    assert (H1 : InvW x) by (eapply assign_res_inv; [exact Hm | exact E]).
    assert (H2 : InvW x0) by (eapply assign_res_inv; [exact H1 | exact E0]).
    destruct a; try (eapply assign_res_inv; [exact H2 | exact H]). inversion H; subst. exact H2.
  - eapply construct_inv; eassumption.
Qed.

Definition pm_ok (kv : string * prop_meta) : Prop := key_ok kv /\ dtype_ok kv.

Lemma pm_update_existing_ok d p : In (pm_dtype p) valid_dtypes -> Forall pm_ok d -> Forall pm_ok (pm_update_existing d p).
Proof.
  intros Hp Hd. unfold pm_update_existing. rewrite Forall_forall in *. intros kv Hin.
  apply in_map_iff in Hin. destruct Hin as [kv0 [E Hin0]]. specialize (Hd kv0 Hin0). destruct Hd as [Hk Hdt].
  destruct (String.eqb (fst kv0) (pm_identifier p)); subst kv; [|split; assumption].
  split; [exact Hk | exact Hp].
Qed.

Lemma pm_set_ok d k p : k = pm_identifier p -> In (pm_dtype p) valid_dtypes -> Forall pm_ok d -> Forall pm_ok (pm_set d k p).
Proof.
  intros Hk Hp Hd. induction d as [|[k' q] r IH]; cbn.
  - constructor; [split; [exact Hk | exact Hp] | constructor].
  - pose proof (Forall_inv Hd) as Hq. pose proof (Forall_inv_tail Hd) as Hr. destruct (String.eqb k k') eqn:E.
    + apply String.eqb_eq in E. constructor; [split; [unfold key_ok; cbn; rewrite <- E; exact Hk | exact Hp] | exact Hr].
    + constructor; [exact Hq | apply IH; exact Hr].
Qed.

Lemma props_loop_ok ps : forall ex fresh, Forall (fun p => In (pm_dtype p) valid_dtypes) ps ->
  Forall pm_ok ex -> Forall pm_ok fresh ->
  Forall pm_ok (fst (props_loop ex fresh ps)) /\ Forall pm_ok (snd (props_loop ex fresh ps)).
Proof.
  induction ps as [|p r IH]; intros ex fresh Hps Hex Hfr; cbn.
  - split; assumption.
  - inversion Hps; subst. destruct (pm_haskey (pm_identifier p) ex).
    + apply IH; [assumption | apply pm_update_existing_ok; assumption | assumption].
    + apply IH; [assumption | assumption | apply pm_set_ok; auto].
Qed.

Lemma props_merge_ok ex ps : Forall (fun p => In (pm_dtype p) valid_dtypes) ps -> Forall pm_ok ex -> Forall pm_ok (props_merge ex ps).
Proof.
  intros Hps Hex. unfold props_merge. destruct (props_loop_ok ps ex [] Hps Hex (Forall_nil _)) as [H1 H2].
  apply Forall_app. split; assumption.
Qed.

Lemma pm_ok_split d : Forall pm_ok d <-> Forall key_ok d /\ Forall dtype_ok d.
Proof.
  unfold pm_ok. rewrite !Forall_forall. split.
  - intros H. split; intros kv Hin; apply (H kv Hin).
  - intros [H1 H2] kv Hin. split; auto.
Qed.

Lemma add_or_update_props_inv m ps ct m' : InvW m -> add_or_update_props_metadata m ps ct = Ok m' -> InvW m'.
Proof.
  intros [[Hv [Ha [Hn [He Hr]]]] [Hd [Hh [Hkn Hke]]]] H. unfold add_or_update_props_metadata in H. bind_inv H.
  assert (Hps : Forall (fun p => In (pm_dtype p) valid_dtypes) x).
  { unfold v_list in E. destruct ps; try discriminate. eapply mapM_Forall; [|exact E]. intros. eapply propmeta_of_jv_dtype; eassumption. }
  destruct (String.eqb x0 "node"); inversion H; subst; clear H.
  - pose proof (props_merge_ok (md_node_props m) x Hps (proj2 (pm_ok_split _) (conj Hkn Hn))) as Hm.
    apply pm_ok_split in Hm. destruct Hm as [Hm1 Hm2].
    split; [unfold nested_inv; cbn; repeat split; assumption | unfold top_inv, axis_names; cbn; repeat split; assumption].
  - pose proof (props_merge_ok (md_edge_props m) x Hps (proj2 (pm_ok_split _) (conj Hke He))) as Hm.
    apply pm_ok_split in Hm. destruct Hm as [Hm1 Hm2].
    split; [unfold nested_inv; cbn; repeat split; assumption | unfold top_inv, axis_names; cbn; repeat split; assumption].
Qed.

(* ================================================================== operation sequences *)
Lemma pool_set_Forall (P : metadata -> Prop) p : forall i m, Forall P p -> P m -> Forall P (pool_set p i m).
Proof.
  induction p as [|x r IH]; intros i m Hp Hm; cbn; [constructor|].
  pose proof (Forall_inv Hp) as Hx. pose proof (Forall_inv_tail Hp) as Hr.
  destruct i; constructor; auto.
Qed.

Lemma pool_set_same p : forall i m, nth_error p i = Some m -> pool_set p i m = p.
Proof.
  induction p as [|x r IH]; intros i m H; [reflexivity|].
  destruct i; cbn in *; [inversion H; reflexivity | rewrite IH; [reflexivity | exact H]].
Qed.

Lemma pool_set_length p : forall i m, List.length (pool_set p i m) = List.length p.
Proof. induction p as [|x r IH]; intros i m; [reflexivity|]. destruct i; cbn; [reflexivity | rewrite IH; reflexivity]. Qed.

Lemma pool_set_other p : forall i j m, i <> j -> nth_error (pool_set p i m) j = nth_error p j.
Proof.
  induction p as [|x r IH]; intros i j m Hij; [reflexivity|].
  destruct i, j; cbn; try reflexivity; [contradiction Hij; reflexivity | apply IH; intros ->; apply Hij; reflexivity].
Qed.

Lemma nth_error_Forall {A} (P : A -> Prop) l i x : Forall P l -> nth_error l i = Some x -> P x.
Proof. intros H E. rewrite Forall_forall in H. apply H. eapply nth_error_In. exact E. Qed.

Lemma push_Forall (P : metadata -> Prop) p r :
  Forall P p -> (forall m, r = Ok m -> P m) -> Forall P (fst (push p r)).
Proof.
  intros Hp Hr. unfold push. destruct r as [m|]; cbn; [|exact Hp].
  apply Forall_app. split; [exact Hp | constructor; [apply Hr; reflexivity | constructor]].
Qed.

Lemma push_atomic p r p' e : push p r = (p', Err e) -> p' = p.
Proof. unfold push. destruct r; intros H; inversion H; reflexivity. Qed.

(* every operation keeps every live object valid *)
Lemma step_inv gv p o : version_ok gv = true -> Forall InvW p -> Forall InvW (fst (step gv p o)).
Proof.
  intros Hg Hp. destruct o as [kw|i f v|i|i ls|[i|] d a|i ps ct|ls]; cbn [step].
  - apply push_Forall; [exact Hp|]. intros m E. eapply construct_inv; eassumption.
  - destruct (nth_error p i) as [m|] eqn:E; [|exact Hp]. cbn.
    apply pool_set_Forall; [exact Hp|]. apply assign_inv. eapply nth_error_Forall; eassumption.
  - destruct (nth_error p i) as [m|] eqn:E; [|exact Hp].
    apply push_Forall; [exact Hp|]. intros m' E'. inversion E'; subst. eapply nth_error_Forall; eassumption.
  - destruct (nth_error p i) as [m|] eqn:E; [|exact Hp].
    apply push_Forall; [exact Hp|]. intros m' E'. eapply update_metadata_axes_inv; [|exact E']. eapply nth_error_Forall; eassumption.
  - destruct (nth_error p i) as [m|] eqn:E; [|exact Hp].
    apply push_Forall; [exact Hp|]. intros m' E'. eapply create_or_update_inv; [exact Hg | | exact E'].
    intros m0 E0. inversion E0; subst. eapply nth_error_Forall; eassumption.
  - apply push_Forall; [exact Hp|]. intros m' E'. eapply create_or_update_inv; [exact Hg | | exact E']. intros m0 E0. discriminate.
  - destruct (nth_error p i) as [m|] eqn:E; [|exact Hp].
    apply push_Forall; [exact Hp|]. intros m' E'. eapply add_or_update_props_inv; [|exact E']. eapply nth_error_Forall; eassumption.
  - destruct (axes_from_lists ls); exact Hp.
Qed.

(* an operation that raises leaves every object as it was *)
Lemma step_atomic gv p o p' e : step gv p o = (p', Err e) -> p' = p.
Proof.
  destruct o as [kw|i f v|i|i ls|[i|] d a|i ps ct|ls]; cbn [step];
    try (destruct (nth_error p i) as [m|] eqn:E; [|intros H; inversion H; reflexivity]);
    try (apply push_atomic).
  - intros H. destruct (assign m f v) as [m1 r] eqn:Ea. cbn in H. inversion H; subst.
    apply assign_atomic in Ea. subst m1. apply pool_set_same. exact E.
  - destruct (axes_from_lists ls); intros H; inversion H; reflexivity.
Qed.

(* what a successful operation may change: an assignment only its target, everything else only appends *)
Definition frame (p : pool) (o : op) (p' : pool) : Prop :=
  match o with
  | OAssign i _ _ => List.length p' = List.length p /\ forall j, j <> i -> nth_error p' j = nth_error p j
  | OAxesFromLists _ => p' = p
  | _ => exists m, p' = p ++ [m]
  end.

Lemma push_frame p r p' : push p r = (p', Ok tt) -> exists m, p' = p ++ [m].
Proof. unfold push. destruct r as [m|]; intros H; inversion H. exists m. reflexivity. Qed.

Lemma step_frame gv p o p' : step gv p o = (p', Ok tt) -> frame p o p'.
Proof.
  destruct o as [kw|i f v|i|i ls|[i|] d a|i ps ct|ls]; cbn [step frame];
    try (destruct (nth_error p i) as [m|] eqn:E; [|intros H; inversion H]);
    try (apply push_frame).
  - intros H. inversion H; subst. split; [apply pool_set_length | intros j Hj; apply pool_set_other; auto].
  - destruct (axes_from_lists ls); intros H; inversion H; reflexivity.
Qed.

Lemma run_inv gv ops : forall p, version_ok gv = true -> Forall InvW p -> Forall InvW (run gv p ops).
Proof.
  induction ops as [|o r IH]; intros p Hg Hp; cbn; [exact Hp|].
  apply IH; [exact Hg | apply step_inv; assumption].
Qed.

Lemma reachable_inv gv ops : version_ok gv = true -> Forall InvW (run gv [] ops).
Proof. intros Hg. apply run_inv; [exact Hg | constructor]. Qed.

Lemma reachable_nan_free_inv gv ops m :
  version_ok gv = true -> In m (run gv [] ops) -> nan_free m -> Inv m.
Proof.
  intros Hg Hin Hn. apply InvW_nan_free_Inv; [exact Hn|].
  pose proof (reachable_inv gv ops Hg) as H. rewrite Forall_forall in H. apply H. exact Hin.
Qed.

(* ================================================================== the full statement and its refutation *)
Definition inv_full : Prop :=
  forall gv ops, version_ok gv = true -> Forall Inv (run gv [] ops).

Definition nan_kw : jv :=
  JObj [("directed", JBool true); ("node_props_metadata", JObj []); ("edge_props_metadata", JObj []);
        ("axes", JList [JObj [("name", JStr "x"); ("min", JFlt NaN); ("max", JInt 1)]])].

Lemma inv_refuted : exists gv ops m, version_ok gv = true /\ In m (run gv [] ops) /\ ~ Inv m.
Proof.
  exists "1.3", [OConstruct nan_kw].
  eexists. split; [reflexivity|]. split.
  - vm_compute. left. reflexivity.
  - intros [[_ [Ha _]] _]. cbn in Ha. apply Forall_inv in Ha. destruct Ha as [_ [H _]].
    specialize (H NaN (Fin 1024) eq_refl eq_refl). exact H.
Qed.

Lemma inv_full_refuted : ~ inv_full.
Proof.
  intros H. destruct inv_refuted as [gv [ops [m [Hg [Hin Hn]]]]].
  specialize (H gv ops Hg). rewrite Forall_forall in H. apply Hn. apply H. exact Hin.
Qed.

(* the invariants in the order the property lists them *)
Lemma Inv_gen_unfold ord m :
  Inv_gen ord m <->
  version_matches (md_version m) /\
  NoDup (axis_names m) /\
  (forall h, md_hints m = Some h -> forall n, In n (hint_names h) -> In n (axis_names m)) /\
  (forall k p, In (k, p) (md_node_props m ++ md_edge_props m) -> k = pm_identifier p /\ In (pm_dtype p) valid_dtypes) /\
  (forall a, In a (olist (md_axes m)) -> axis_inv_gen ord a) /\
  (forall r, In r (olist (md_related m)) -> related_inv r).
Proof.
  unfold Inv_gen, nested_inv, top_inv. rewrite !Forall_forall. split.
  - intros [[Hv [Ha [Hn [He Hr]]]] [Hd [Hh [Hkn Hke]]]].
    split; [exact Hv|]. split; [exact Hd|]. split; [exact Hh|]. split; [|split; [exact Ha | exact Hr]].
    intros k p H. apply in_app_or in H. destruct H as [H|H].
    + split; [apply (Hkn _ H) | apply (Hn _ H)].
    + split; [apply (Hke _ H) | apply (He _ H)].
  - intros [Hv [Hd [Hh [Hp [Ha Hr]]]]].
    assert (Hnode : forall kv, In kv (md_node_props m) -> key_ok kv /\ dtype_ok kv).
    { intros [k q] Hin. apply (Hp k q). apply in_or_app. left. exact Hin. }
    assert (Hedge : forall kv, In kv (md_edge_props m) -> key_ok kv /\ dtype_ok kv).
    { intros [k q] Hin. apply (Hp k q). apply in_or_app. right. exact Hin. }
    split.
    + split; [exact Hv|]. split; [exact Ha|]. split; [intros kv Hin; apply (Hnode kv Hin)|].
      split; [intros kv Hin; apply (Hedge kv Hin) | exact Hr].
    + split; [exact Hd|]. split; [exact Hh|]. split; [intros kv Hin; apply (Hnode kv Hin) | intros kv Hin; apply (Hedge kv Hin)].
Qed.

Lemma assign_field_error m f v e : set_field m f v = Err e -> assign m f v = (m, Err e).
Proof. intros H. rewrite assign_spec, H. reflexivity. Qed.

Lemma nan_gap m : nan_free m -> (Inv m <-> InvW m).
Proof. intros Hn. split; [apply Inv_InvW | apply InvW_nan_free_Inv; exact Hn]. Qed.

(* ================================================================== reading the pattern literal *)
Open Scope char_scope.
(* ---- a reader for the regular-expression syntax the pattern is written in ---- *)
Definition special (c : ascii) : bool :=
  existsb (Ascii.eqb c) ["\"; "("; ")"; "["; "]"; "+"; "?"; "*"; "."; "^"; "$"; "|"; "{"; "}"].

Fixpoint seq_of (l : list re) : option re :=
  match l with
  | [] => None
  | [r] => Some r
  | r :: t => match seq_of t with Some s => Some (RSeq r s) | None => None end
  end.

Fixpoint parse_seq (fuel : nat) (s : list ascii) : option (list re * list ascii) :=
  match fuel with
  | O => None
  | S f =>
      match s with
      | [] => Some ([], [])
      | ")" :: _ => Some ([], s)
      | _ =>
          let atom :=
            match s with
            | "\" :: "d" :: r => Some (RChr CDigit, r)
            | "\" :: c :: r => if special c then Some (RChr (CLit c), r) else None
            | "(" :: "?" :: ":" :: r =>
                match parse_seq f r with
                | Some (items, ")" :: r') => match seq_of items with Some g => Some (g, r') | None => None end
                | _ => None
                end
            | "[" :: "a" :: "-" :: "z" :: "A" :: "-" :: "Z" :: "0" :: "-" :: "9" :: "]" :: r => Some (RChr CAlnum, r)
            | c :: r => if special c then None else Some (RChr (CLit c), r)
            | [] => None
            end in
          match atom with
          | None => None
          | Some (a, rest) =>
              let '(a', rest') := match rest with
                                  | "+" :: r => (RPlus a, r)
                                  | "?" :: r => (ROpt a, r)
                                  | _ => (a, rest)
                                  end in
              match parse_seq f rest' with
              | Some (items, rest'') => Some (a' :: items, rest'')
              | None => None
              end
          end
      end
  end.

(* a pattern anchored at the start:  ^ seq  *)
Definition parse_anchored (p : string) : option re :=
  match list_ascii_of_string p with
  | "^" :: r => match parse_seq 200 r with
                | Some (items, []) => seq_of items
                | _ => None
                end
  | _ => None
  end.

Lemma version_pattern_parses : parse_anchored version_pattern = Some version_re.
Proof. vm_compute. reflexivity. Qed.
Close Scope char_scope.
