(* CsvLemmas.v -- proofs about Csv.v: the CSV text written by DataFrame.to_csv and pandas.read_csv with
   default arguments. *)
From Geff Require Import Base Table TableLemmas Csv.
From Coq Require Import DecimalString DecimalPos DecimalZ DecimalNat.
Open Scope list_scope.

(* ------------------------------------------------------------------ *)
(* strings and characters                                              *)
(* ------------------------------------------------------------------ *)
Lemma sapp_assoc (a b c : string) :
  String.append (String.append a b) c = String.append a (String.append b c).
Proof. induction a as [|x a IH]; cbn; [reflexivity | rewrite IH; reflexivity]. Qed.

Lemma sapp_nil_r (a : string) : String.append a EmptyString = a.
Proof. induction a as [|x a IH]; cbn; [reflexivity | rewrite IH; reflexivity]. Qed.

Lemma all_chars_impl (p q : ascii -> bool) s :
  (forall c, p c = true -> q c = true) -> all_chars p s = true -> all_chars q s = true.
Proof.
  intro H. induction s as [|c s IH]; cbn; [reflexivity|]. intro E.
  apply andb_true_iff in E. destruct E as [E1 E2]. rewrite (H _ E1), (IH E2). reflexivity.
Qed.

Lemma all_chars_conj (p q : ascii -> bool) s :
  all_chars p s = true -> all_chars q s = true -> all_chars (fun c => p c && q c) s = true.
Proof.
  induction s as [|c s IH]; cbn; [reflexivity|]. intros E F.
  apply andb_true_iff in E. apply andb_true_iff in F. destruct E as [E1 E2], F as [F1 F2].
  rewrite E1, F1, (IH E2 F2). reflexivity.
Qed.

Lemma all_chars_app p a b : all_chars p (String.append a b) = all_chars p a && all_chars p b.
Proof. induction a as [|c a IH]; cbn; [reflexivity | rewrite IH, andb_assoc; reflexivity]. Qed.

Lemma any_char_false p s : any_char p s = false -> all_chars (fun c => negb (p c)) s = true.
Proof. unfold any_char. intro H. apply negb_false_iff in H. exact H. Qed.

(* ------------------------------------------------------------------ *)
(* quoting: one field                                                  *)
(* ------------------------------------------------------------------ *)
Lemma undq_dq s : undq (String.append (dq s) (String cQUOTE EmptyString)) = s.
Proof.
  induction s as [|c s IH]; [reflexivity|].
  cbn [dq]. destruct (Ascii.eqb c cQUOTE) eqn:E.
  - apply Ascii.eqb_eq in E. subst c.
    change (undq (String cQUOTE (String cQUOTE (String.append (dq s) (String cQUOTE EmptyString))))
            = String cQUOTE s).
    cbn [undq]. rewrite !Ascii.eqb_refl. rewrite IH. reflexivity.
  - change (undq (String c (String.append (dq s) (String cQUOTE EmptyString))) = String c s).
    cbn [undq]. rewrite E. rewrite IH. reflexivity.
Qed.

Lemma unquote_quote s : unquote (quote_min s) = s.
Proof.
  unfold quote_min. destruct (needs_quote s) eqn:Q.
  - unfold unquote. rewrite Ascii.eqb_refl. apply undq_dq.
  - destruct s as [|c s]; [reflexivity|]. unfold unquote.
    destruct (Ascii.eqb c cQUOTE) eqn:E; [|reflexivity].
    exfalso. apply any_char_false in Q. cbn in Q. unfold special in Q at 1.
    rewrite E in Q. rewrite orb_true_r in Q. discriminate Q.
Qed.

(* ------------------------------------------------------------------ *)
(* the tokenizer inverts the writer                                    *)
(* ------------------------------------------------------------------ *)
Definition pushs (p : string) (a : acc) : acc := mkAcc (a_rows a) (a_row a) (String.append (a_fld a) p).

Lemma pushs_nil a : pushs EmptyString a = a.
Proof. destruct a. unfold pushs. cbn. rewrite sapp_nil_r. reflexivity. Qed.

Lemma pushs_push c p a : pushs p (push c a) = pushs (String c p) a.
Proof. unfold pushs, push. cbn. rewrite sapp_assoc. reflexivity. Qed.

Definition plain (c : ascii) : bool :=
  negb (Ascii.eqb c cLF) && negb (Ascii.eqb c cCR) && negb (Ascii.eqb c cCOMMA) && negb (Ascii.eqb c cQUOTE).

Lemma plain_inv c : plain c = true ->
  Ascii.eqb c cLF = false /\ Ascii.eqb c cCR = false /\ Ascii.eqb c cCOMMA = false /\ Ascii.eqb c cQUOTE = false.
Proof.
  unfold plain. intro H. repeat (apply andb_true_iff in H; destruct H as [H ?]).
  repeat match goal with X : negb _ = true |- _ => apply negb_true_iff in X end. auto.
Qed.

Lemma run_FL_plain p : all_chars plain p = true -> forall a rest,
  run FL a (String.append p rest) = run FL (pushs p a) rest.
Proof.
  induction p as [|c p IH]; intros H a rest.
  - rewrite pushs_nil. reflexivity.
  - cbn [all_chars] in H. apply andb_true_iff in H. destruct H as [Hc Hp].
    destruct (plain_inv _ Hc) as (E1 & E2 & E3 & _).
    cbn [String.append run]. unfold step. rewrite E1, E2, E3.
    rewrite (IH Hp). rewrite pushs_push. reflexivity.
Qed.

Lemma run_QF_body f : forall a rest,
  run QF a (String.append (dq f) (String cQUOTE rest)) = run QQ (pushs f a) rest.
Proof.
  induction f as [|c f IH]; intros a rest.
  - cbn [dq String.append run]. unfold step. rewrite Ascii.eqb_refl. rewrite pushs_nil. reflexivity.
  - cbn [dq]. destruct (Ascii.eqb c cQUOTE) eqn:E.
    + apply Ascii.eqb_eq in E. subst c.
      cbn [String.append run]. unfold step at 1. rewrite Ascii.eqb_refl.
      cbn [run]. unfold step at 1. rewrite Ascii.eqb_refl.
      rewrite IH. rewrite pushs_push. reflexivity.
    + cbn [String.append run]. unfold step at 1. rewrite E.
      rewrite IH. rewrite pushs_push. reflexivity.
Qed.

Lemma unquoted_plain f : needs_quote f = false -> cr_ok f = true -> all_chars plain f = true.
Proof.
  intros Q C. unfold cr_ok in C. rewrite Q in C. rewrite orb_false_l in C.
  apply any_char_false in Q.
  pose proof (all_chars_conj _ _ _ Q C) as H.
  revert H. apply all_chars_impl. intros c Hc.
  apply andb_true_iff in Hc. destruct Hc as [H1 H2].
  unfold special in H1. apply negb_true_iff in H1.
  apply orb_false_iff in H1. destruct H1 as [H1 H3]. apply orb_false_iff in H1. destruct H1 as [H1 H4].
  apply negb_true_iff in H2. unfold plain. rewrite H1, H2, H3, H4. reflexivity.
Qed.

Lemma q_lf : Ascii.eqb cQUOTE cLF = false. Proof. reflexivity. Qed.
Lemma q_cr : Ascii.eqb cQUOTE cCR = false. Proof. reflexivity. Qed.
Lemma comma_lf : Ascii.eqb cCOMMA cLF = false. Proof. reflexivity. Qed.
Lemma comma_cr : Ascii.eqb cCOMMA cCR = false. Proof. reflexivity. Qed.
Lemma comma_q : Ascii.eqb cCOMMA cQUOTE = false. Proof. reflexivity. Qed.
Lemma lf_q : Ascii.eqb cLF cQUOTE = false. Proof. reflexivity. Qed.
Lemma lf_comma : Ascii.eqb cLF cCOMMA = false. Proof. reflexivity. Qed.

(* a field followed by the delimiter / by the end of the line, read from START_FIELD *)
Lemma run_field f a rest : cr_ok f = true ->
  run SF a (String.append (quote_min f) (String cCOMMA rest)) = run SF (end_field (pushs f a)) rest /\
  run SF a (String.append (quote_min f) (String cLF rest)) = run SR (end_line (end_field (pushs f a))) rest.
Proof.
  intro C. unfold quote_min. destruct (needs_quote f) eqn:Q.
  - assert (R : forall d, String.append (String cQUOTE (String.append (dq f) (String cQUOTE EmptyString))) (String d rest)
                 = String cQUOTE (String.append (dq f) (String cQUOTE (String d rest)))).
    { intro d. cbn [String.append]. rewrite sapp_assoc. reflexivity. }
    rewrite !R. split.
    + cbn [run]. unfold step at 1, step_SF. rewrite q_lf, q_cr, Ascii.eqb_refl.
      rewrite run_QF_body. cbn [run]. unfold step at 1. rewrite comma_q, Ascii.eqb_refl. reflexivity.
    + cbn [run]. unfold step at 1, step_SF. rewrite q_lf, q_cr, Ascii.eqb_refl.
      rewrite run_QF_body. cbn [run]. unfold step at 1. rewrite lf_q, lf_comma, Ascii.eqb_refl. reflexivity.
  - pose proof (unquoted_plain f Q C) as P.
    destruct f as [|c f].
    + rewrite pushs_nil. split.
      * cbn [String.append run]. unfold step at 1, step_SF. rewrite comma_lf, comma_cr, comma_q, Ascii.eqb_refl. reflexivity.
      * cbn [String.append run]. unfold step at 1, step_SF. rewrite Ascii.eqb_refl. reflexivity.
    + cbn [all_chars] in P. apply andb_true_iff in P. destruct P as [Pc Pf].
      destruct (plain_inv _ Pc) as (E1 & E2 & E3 & E4).
      split.
      * cbn [String.append run]. unfold step at 1, step_SF. rewrite E1, E2, E3, E4.
        rewrite (run_FL_plain f Pf). rewrite pushs_push.
        cbn [run]. unfold step at 1. rewrite comma_lf, comma_cr, Ascii.eqb_refl. reflexivity.
      * cbn [String.append run]. unfold step at 1, step_SF. rewrite E1, E2, E3, E4.
        rewrite (run_FL_plain f Pf). rewrite pushs_push.
        cbn [run]. unfold step at 1. rewrite Ascii.eqb_refl. reflexivity.
Qed.

Lemma join_line_cons f g r :
  join_line (f :: g :: r) = String.append (quote_min f) (String cCOMMA (join_line (g :: r))).
Proof. reflexivity. Qed.

Lemma run_row r : r <> [] -> Forall (fun f => cr_ok f = true) r -> forall rows row rest,
  run SF (mkAcc rows row EmptyString) (String.append (join_line r) (String cLF rest))
  = run SR (mkAcc (rows ++ [row ++ r]) [] EmptyString) rest.
Proof.
  induction r as [|f r IH]; intros Hne Hok rows row rest; [contradiction|].
  inversion Hok as [|? ? Hf Hr]; subst.
  destruct r as [|g r'].
  - change (join_line [f]) with (quote_min f).
    rewrite (proj2 (run_field f _ rest Hf)). reflexivity.
  - rewrite join_line_cons. rewrite sapp_assoc.
    change (String.append (String cCOMMA (join_line (g :: r'))) (String cLF rest))
      with (String cCOMMA (String.append (join_line (g :: r')) (String cLF rest))).
    rewrite (proj1 (run_field f _ _ Hf)).
    unfold end_field, pushs. cbn [a_rows a_row a_fld String.append].
    rewrite (IH ltac:(discriminate) Hr). rewrite <- app_assoc. reflexivity.
Qed.

Lemma run_rows rs : Forall row_ok rs -> forall rows,
  run SR (mkAcc rows [] EmptyString) (print_rows rs) = Some (rows ++ rs).
Proof.
  induction rs as [|r rs IH]; intros H rows.
  - cbn. rewrite app_nil_r. reflexivity.
  - inversion H as [|? ? [Hs Hc] Hrs]; subst.
    assert (Hne : r <> []). { intro E. subst r. discriminate Hs. }
    cbn [print_rows]. unfold row_start_ok in Hs.
    assert (E : run SR (mkAcc rows [] EmptyString) (String.append (join_line r) (String cLF (print_rows rs)))
              = run SF (mkAcc rows [] EmptyString) (String.append (join_line r) (String cLF (print_rows rs)))).
    { destruct (join_line r) as [|c s]; [discriminate Hs|].
      apply negb_true_iff in Hs.
      apply orb_false_iff in Hs. destruct Hs as [Hs H4]. apply orb_false_iff in Hs. destruct Hs as [Hs H3].
      apply orb_false_iff in Hs. destruct Hs as [H1 H2].
      cbn [String.append run]. unfold step. rewrite H1, H2, H3, H4. reflexivity. }
    rewrite E. rewrite (run_row r Hne Hc). cbn [app]. rewrite (IH Hrs). rewrite <- app_assoc. reflexivity.
Qed.

Lemma tokenize_print rs : Forall row_ok rs -> tokenize (print_rows rs) = Some rs.
Proof. intro H. unfold tokenize. rewrite (run_rows rs H []). reflexivity. Qed.

(* ------------------------------------------------------------------ *)
(* decimal numerals                                                    *)
(* ------------------------------------------------------------------ *)
Definition digit_or_minus (c : ascii) : bool := is_digit c || Ascii.eqb c "-"%char.

Lemma uint_digits d : all_chars is_digit (NilEmpty.string_of_uint d) = true.
Proof. induction d; cbn [NilEmpty.string_of_uint all_chars]; try rewrite IHd; reflexivity. Qed.

Lemma uint_nonempty d : d <> Decimal.Nil -> NilEmpty.string_of_uint d <> EmptyString.
Proof. destruct d; intro H; cbn; try discriminate. contradiction. Qed.

Lemma dec_z_chars z : all_chars digit_or_minus (dec_z z) = true.
Proof.
  assert (U : forall d, all_chars digit_or_minus (NilEmpty.string_of_uint d) = true).
  { intro d. apply (all_chars_impl is_digit); [|apply uint_digits].
    intros c Hc. unfold digit_or_minus. rewrite Hc. reflexivity. }
  unfold dec_z. destruct z as [|p|p]; cbn [Z.to_int NilEmpty.string_of_int].
  - reflexivity.
  - apply U.
  - cbn [all_chars]. rewrite U. reflexivity.
Qed.

(* a character of a numeral is none of the characters the CSV layer treats specially *)
Lemma dm_not c x : digit_or_minus x = false -> digit_or_minus c = true -> Ascii.eqb c x = false.
Proof.
  intros Hx Hc. destruct (Ascii.eqb c x) eqn:E; [|reflexivity].
  apply Ascii.eqb_eq in E. subst. congruence.
Qed.

Lemma dec_z_plain z : all_chars plain (dec_z z) = true.
Proof.
  apply (all_chars_impl digit_or_minus); [|apply dec_z_chars].
  intros c Hc. unfold plain.
  rewrite (dm_not c cLF), (dm_not c cCR), (dm_not c cCOMMA), (dm_not c cQUOTE); auto.
Qed.

Lemma plain_no_quote s : all_chars plain s = true -> needs_quote s = false.
Proof.
  intro H. unfold needs_quote, any_char. apply negb_false_iff.
  revert H. apply all_chars_impl. intros c Hc.
  destruct (plain_inv _ Hc) as (E1 & E2 & E3 & E4). unfold special. rewrite E1, E3, E4. reflexivity.
Qed.

Lemma plain_cr_ok s : all_chars plain s = true -> cr_ok s = true.
Proof.
  intro H. unfold cr_ok. rewrite (plain_no_quote s H). rewrite orb_false_l.
  revert H. apply all_chars_impl. intros c Hc.
  destruct (plain_inv _ Hc) as (E1 & E2 & E3 & E4). rewrite E2. reflexivity.
Qed.

Lemma dec_z_no_quote z : quote_min (dec_z z) = dec_z z.
Proof. unfold quote_min. rewrite (plain_no_quote _ (dec_z_plain z)). reflexivity. Qed.

Lemma dec_z_cr_ok z : cr_ok (dec_z z) = true.
Proof. apply plain_cr_ok, dec_z_plain. Qed.

Lemma dec_z_no_nul z : no_nul (dec_z z) = true.
Proof.
  unfold no_nul. apply (all_chars_impl digit_or_minus); [|apply dec_z_chars].
  intros c Hc. rewrite (dm_not c cNUL); auto.
Qed.

Lemma trunc_nul_id s : no_nul s = true -> trunc_nul s = s.
Proof.
  unfold no_nul. induction s as [|c s IH]; cbn [all_chars trunc_nul]; [reflexivity|].
  intro H. apply andb_true_iff in H. destruct H as [Hc Hs]. apply negb_true_iff in Hc.
  rewrite Hc, (IH Hs). reflexivity.
Qed.

Lemma span_digits_all s : all_chars is_digit s = true -> span_digits s = (s, EmptyString).
Proof.
  induction s as [|c s IH]; cbn [all_chars span_digits]; [reflexivity|].
  intro H. apply andb_true_iff in H. destruct H as [Hc Hs]. rewrite Hc, (IH Hs). reflexivity.
Qed.

Lemma digit_facts c : is_digit c = true ->
  is_ws c = false /\ Ascii.eqb c "-"%char = false /\ Ascii.eqb c "+"%char = false.
Proof.
  intro H. repeat split.
  - destruct (is_ws c) eqn:E; [|reflexivity]. exfalso.
    unfold is_digit in H. unfold is_ws in E.
    apply andb_true_iff in H. destruct H as [H1 H2]. apply Nat.leb_le in H1. apply Nat.leb_le in H2.
    apply orb_true_iff in E. destruct E as [E|E].
    + apply Nat.eqb_eq in E. lia.
    + apply andb_true_iff in E. destruct E as [_ E]. apply Nat.leb_le in E. lia.
  - destruct (Ascii.eqb c "-"%char) eqn:E; [|reflexivity]. apply Ascii.eqb_eq in E. subst. discriminate H.
  - destruct (Ascii.eqb c "+"%char) eqn:E; [|reflexivity]. apply Ascii.eqb_eq in E. subst. discriminate H.
Qed.

Lemma uint_value_to_uint p : uint_value (NilEmpty.string_of_uint (Pos.to_uint p)) = Zpos p.
Proof.
  unfold uint_value. rewrite NilEmpty.usu. unfold Z.of_uint. rewrite DecimalPos.Unsigned.of_to. reflexivity.
Qed.

(* digits, read from the start of the unsigned part *)
Lemma lex_digits p :
  let s := NilEmpty.string_of_uint (Pos.to_uint p) in
  exists c r, s = String c r /\ is_digit c = true /\ span_digits s = (s, EmptyString).
Proof.
  intro s. pose proof (uint_digits (Pos.to_uint p)) as D. fold s in D.
  pose proof (uint_nonempty _ (DecimalPos.Unsigned.to_uint_nonnil p)) as N. fold s in N.
  destruct s as [|c r] eqn:Es; [contradiction|].
  exists c, r. split; [reflexivity|]. split.
  - cbn [all_chars] in D. apply andb_true_iff in D. exact (proj1 D).
  - apply span_digits_all. exact D.
Qed.

Lemma lex_int_dec z : lex_int (dec_z z) = Some z.
Proof.
  unfold dec_z. destruct z as [|p|p]; cbn [Z.to_int NilEmpty.string_of_int].
  - reflexivity.
  - destruct (lex_digits p) as (c & r & Es & Hc & Sp). cbv zeta in *.
    pose proof (uint_value_to_uint p) as V.
    destruct (digit_facts c Hc) as (W & M & P).
    unfold lex_int. rewrite Es in *. cbn [lstrip]. rewrite W. rewrite M, P. rewrite Sp.
    cbn [is_empty all_chars]. rewrite V. reflexivity.
  - destruct (lex_digits p) as (c & r & Es & Hc & Sp). cbv zeta in *.
    pose proof (uint_value_to_uint p) as V.
    unfold lex_int. cbn [lstrip]. change (is_ws "-"%char) with false. cbv iota.
    rewrite Ascii.eqb_refl. rewrite Es in *. rewrite Sp.
    cbn [is_empty all_chars]. rewrite V. reflexivity.
Qed.

Lemma na_not_int s : is_na s = true -> lex_int s = None.
Proof.
  intro H. unfold is_na in H. apply smem_In in H. unfold na_values in H.
  repeat (destruct H as [H|H]; [subst s; vm_compute; reflexivity|]). destruct H.
Qed.

Lemma dec_z_not_na z : is_na (dec_z z) = false.
Proof.
  destruct (is_na (dec_z z)) eqn:E; [|reflexivity].
  apply na_not_int in E. rewrite lex_int_dec in E. discriminate E.
Qed.

Lemma classify_dec z : classify (dec_z z) = LInt z.
Proof. unfold classify. rewrite dec_z_not_na, lex_int_dec. reflexivity. Qed.

Lemma dec_nat_first i : exists c s, dec_z (Z.of_nat i) = String c s /\ is_digit c = true.
Proof.
  unfold dec_z. destruct (Z.of_nat i) as [|p|p] eqn:E; cbn [Z.to_int NilEmpty.string_of_int].
  - exists "0"%char, EmptyString. split; reflexivity.
  - destruct (lex_digits p) as (c & r & Es & Hc & _). cbv zeta in Es. exists c, r. split; assumption.
  - lia.
Qed.

(* ------------------------------------------------------------------ *)
(* the text layer is transparent: read_raw (to_csv_text t)             *)
(* ------------------------------------------------------------------ *)
Lemma map_nth_seq {A B} (g : A -> B) (l : list A) (d : A) :
  map (fun j => g (nth j l d)) (seq 0 (List.length l)) = map g l.
Proof.
  induction l as [|x l IH]; [reflexivity|].
  cbn [List.length seq map nth]. rewrite map_seq_shift. cbn [nth]. rewrite IH. reflexivity.
Qed.

Lemma names_from_nonempty l : forall j, Forall (fun n => is_empty n = false) l -> names_from j l = l.
Proof.
  induction l as [|n l IH]; intros j H; [reflexivity|].
  inversion H as [|? ? Hn Hl]; subst. cbn [names_from]. rewrite (IH _ Hl).
  destruct n; [discriminate Hn | reflexivity].
Qed.

Lemma text_ok_col t c : text_ok t = true -> In c t ->
  is_empty (fst c) = false /\ String.eqb (fst c) "Unnamed: 0" = false /\ cr_ok (fst c) = true /\
  forall x, In x (snd c) -> cr_ok (render x) = true.
Proof.
  unfold text_ok. intros H Hc. rewrite forallb_forall in H. specialize (H c Hc).
  apply andb_true_iff in H. destruct H as [H H4]. apply andb_true_iff in H. destruct H as [H H3].
  apply andb_true_iff in H. destruct H as [H1 H2].
  apply negb_true_iff in H1. apply negb_true_iff in H2. rewrite forallb_forall in H4. auto.
Qed.

Lemma header_row_ok t : t <> [] -> text_ok t = true -> row_ok (header_row t).
Proof.
  intros Hne Hok. split.
  - destruct t as [|c t]; [contradiction|]. reflexivity.
  - unfold header_row. constructor; [reflexivity|].
    apply Forall_forall. intros n Hn. apply in_map_iff in Hn. destruct Hn as (c & <- & Hc).
    apply (text_ok_col t c Hok Hc).
Qed.

Lemma nth_cell_cr_ok t c i : text_ok t = true -> In c t -> cr_ok (render (nth i (snd c) TNA)) = true.
Proof.
  intros Hok Hc. destruct (Nat.lt_ge_cases i (List.length (snd c))) as [L|L].
  - apply (text_ok_col t c Hok Hc). apply nth_In. exact L.
  - rewrite nth_overflow by exact L. reflexivity.
Qed.

Lemma data_row_ok t i : t <> [] -> text_ok t = true -> row_ok (data_row t i).
Proof.
  intros Hne Hok. split.
  - unfold row_start_ok, data_row. destruct t as [|c t]; [contradiction|].
    cbn [map]. rewrite join_line_cons. rewrite dec_z_no_quote.
    destruct (dec_nat_first i) as (ch & s & -> & Hd). cbn [String.append].
    destruct (digit_facts ch Hd) as (W & _ & _).
    assert (E : forall x, is_ws x = true -> Ascii.eqb ch x = false).
    { intros x Hx. destruct (Ascii.eqb ch x) eqn:E; [|reflexivity]. apply Ascii.eqb_eq in E. subst. congruence. }
    rewrite (E cLF), (E cCR), (E cSP), (E cTAB); reflexivity.
  - unfold data_row. constructor; [apply dec_z_cr_ok|].
    apply Forall_forall. intros f Hf. apply in_map_iff in Hf. destruct Hf as (c & <- & Hc).
    apply (nth_cell_cr_ok t c i Hok Hc).
Qed.

Lemma frame_rows_ok t : t <> [] -> text_ok t = true -> Forall row_ok (frame_rows t).
Proof.
  intros Hne Hok. unfold frame_rows. constructor; [apply header_row_ok; assumption|].
  apply Forall_forall. intros r Hr. apply in_map_iff in Hr. destruct Hr as (i & <- & _).
  apply data_row_ok; assumption.
Qed.

(* what the reader sees before any type inference: the row labels under "Unnamed: 0", then every column
   under its name, cell texts exactly as rendered *)
Lemma read_raw_written t : wf_frame t -> text_ok t = true ->
  read_raw (to_csv_text t) =
    Some (("Unnamed: 0"%string, label_column (nrows t)) :: map (fun c => (fst c, map render (snd c))) t).
Proof.
  intros (Hne & Hlen & Hnd) Hok.
  unfold read_raw, to_csv_text. rewrite (tokenize_print _ (frame_rows_ok t Hne Hok)).
  unfold frame_rows. set (data := map (data_row t) (seq 0 (nrows t))).
  assert (Hnames : names_from 0 (header_row t) = "Unnamed: 0"%string :: map fst t).
  { unfold header_row. cbn [names_from]. f_equal. apply names_from_nonempty.
    apply Forall_forall. intros n Hn. apply in_map_iff in Hn. destruct Hn as (c & <- & Hc).
    apply (text_ok_col t c Hok Hc). }
  rewrite Hnames.
  assert (Hlong : existsb (fun r => Nat.ltb (List.length (header_row t)) (List.length r)) data = false).
  { destruct (existsb _ data) eqn:E; [|reflexivity]. apply existsb_exists in E. destruct E as (r & Hr & Hl).
    unfold data in Hr. apply in_map_iff in Hr. destruct Hr as (i & <- & _).
    unfold header_row, data_row in Hl. cbn [List.length] in Hl. rewrite !map_length in Hl.
    apply Nat.ltb_lt in Hl. lia. }
  rewrite Hlong.
  assert (Hdup : nodupb ("Unnamed: 0"%string :: map fst t) = true).
  { apply nodupb_NoDup. constructor; [|exact Hnd]. intro Hin. apply in_map_iff in Hin.
    destruct Hin as (c & Hc1 & Hc2). destruct (text_ok_col t c Hok Hc2) as (_ & Hu & _).
    rewrite Hc1 in Hu. discriminate Hu. }
  rewrite Hdup. cbn [negb]. f_equal.
  unfold header_row. cbn [List.length seq map nth]. f_equal.
  - f_equal. unfold data, label_column. rewrite map_map. reflexivity.
  - rewrite map_length. rewrite map_seq_shift.
    rewrite <- (map_nth_seq (fun c => (fst c, map render (snd c))) t (EmptyString, [])).
    apply map_ext_in. intros j Hj. apply in_seq in Hj. cbn [nth].
    f_equal.
    + change EmptyString with (fst (EmptyString, @nil tcell)). apply map_nth.
    + unfold data. rewrite map_map. unfold data_row. cbn [nth].
      assert (Hc : In (nth j t (EmptyString, [])) t) by (apply nth_In; lia).
      rewrite <- (Hlen _ Hc).
      rewrite <- (map_nth_seq render (snd (nth j t (EmptyString, []))) TNA).
      apply map_ext. intro i.
      rewrite (nth_indep _ EmptyString ((fun c : string * list tcell => render (nth i (snd c) TNA)) (EmptyString, [])))
        by (rewrite map_length; lia).
      exact (map_nth (fun c : string * list tcell => render (nth i (snd c) TNA)) t (EmptyString, []) j).
Qed.

(* ------------------------------------------------------------------ *)
(* type inference, column by column                                    *)
(* ------------------------------------------------------------------ *)
Lemma existsb_map_false {A B} (f : B -> bool) (g : A -> B) l :
  (forall x, In x l -> f (g x) = false) -> existsb f (map g l) = false.
Proof.
  intro H. induction l as [|x l IH]; [reflexivity|]. cbn [map existsb].
  rewrite (H x (or_introl eq_refl)), IH; [reflexivity|]. intros y Hy. apply H. right. exact Hy.
Qed.

Lemma existsb_map_true {A B} (f : B -> bool) (g : A -> B) l x :
  In x l -> f (g x) = true -> existsb f (map g l) = true.
Proof.
  intros Hx Hf. apply existsb_exists. exists (g x). split; [apply in_map; exact Hx | exact Hf].
Qed.

Lemma forallb_map_true {A B} (f : B -> bool) (g : A -> B) l :
  (forall x, In x l -> f (g x) = true) -> forallb f (map g l) = true.
Proof.
  intro H. apply forallb_forall. intros y Hy. apply in_map_iff in Hy. destruct Hy as (x & <- & Hx). auto.
Qed.

Lemma forallb_map_false {A B} (f : B -> bool) (g : A -> B) l x :
  In x l -> f (g x) = false -> forallb f (map g l) = false.
Proof.
  intros Hx Hf. destruct (forallb f (map g l)) eqn:E; [|reflexivity].
  rewrite forallb_forall in E. rewrite (E (g x) (in_map g l x Hx)) in Hf. discriminate Hf.
Qed.

Lemma forallb2_map {A B} (f : A -> B -> bool) (h : A -> B) l :
  (forall x, In x l -> f x (h x) = true) -> forallb2 f l (map h l) = true.
Proof.
  induction l as [|x l IH]; intro H; [reflexivity|]. cbn [map forallb2].
  rewrite (H x (or_introl eq_refl)), IH; [reflexivity|]. intros y Hy. apply H. right. exact Hy.
Qed.

Lemma existsb_false_all {A} (f : A -> bool) l : existsb f l = false -> forall x, In x l -> f x = false.
Proof.
  intros H x Hx. destruct (f x) eqn:E; [|reflexivity].
  rewrite (proj2 (existsb_exists f l) (ex_intro _ x (conj Hx E))) in H. discriminate H.
Qed.

Lemma forallb_false_ex {A} (f : A -> bool) l : forallb f l = false -> exists x, In x l /\ f x = false.
Proof.
  induction l as [|x l IH]; cbn; [discriminate|]. intro H. destruct (f x) eqn:E.
  - destruct (IH H) as (y & Hy & Fy). exists y. split; [right; exact Hy | exact Fy].
  - exists x. split; [left; reflexivity | exact E].
Qed.

(* the class of a typed cell's text *)
Definition tc (c : tcell) : lexc := classify (render c).

Lemma tc_int z : tc (TInt z) = LInt z. Proof. apply classify_dec. Qed.
Lemma tc_na : tc TNA = LNA. Proof. reflexivity. Qed.
Lemma tc_bool b : tc (TBool b) = LBool b. Proof. destruct b; reflexivity. Qed.
Lemma tc_float l : float_ok l = true -> tc (TFloat l) = LFloat.
Proof.
  unfold float_ok, tc. cbn [render]. intro H. apply andb_true_iff in H. destruct H as [_ H].
  destruct (classify l); try discriminate H. reflexivity.
Qed.

Lemma decide_clean cells : cells <> [] -> (forall c, In c cells -> no_nul (render c) = true) ->
  decide (map render cells) = decide_body (map render cells).
Proof.
  intros Hne Hn. destruct cells as [|c cells]; [contradiction|].
  assert (E : map trunc_nul (map render (c :: cells)) = map render (c :: cells)).
  { rewrite map_map. apply map_ext_in. intros x Hx. apply trunc_nul_id. apply Hn. exact Hx. }
  unfold decide. cbn [map] in *. rewrite E. reflexivity.
Qed.

Lemma same_expect c : same_value c (expect_same c) = true.
Proof.
  destruct c as [z|b|l|s|]; cbn; try reflexivity.
  - apply Z.eqb_refl. - destruct b; reflexivity. - apply String.eqb_refl. - apply String.eqb_refl.
Qed.

Lemma render_no_nul_basic c : (match c with TFloat _ | TStr _ => false | _ => true end) = true ->
  no_nul (render c) = true.
Proof. destruct c as [z|[|]|l|s|]; intro H; try discriminate H; try reflexivity. apply dec_z_no_nul. Qed.

Lemma in_i64_not_big z : in_i64 z = true -> big (LInt z) = false.
Proof. intro H. cbn. rewrite H. reflexivity. Qed.

(* ---- every cell missing ---- *)
Lemma kind_all_na cells : cells <> [] -> forallb is_TNA cells = true ->
  decide (map render cells) = Some (DFloat64, map expect_same cells).
Proof.
  intros Hne H. rewrite forallb_forall in H.
  assert (A : forall c, In c cells -> c = TNA).
  { intros c Hc. specialize (H c Hc). destruct c; try discriminate H. reflexivity. }
  rewrite decide_clean; [|exact Hne | intros c Hc; rewrite (A c Hc); reflexivity].
  unfold decide_body. cbv zeta. rewrite !map_map.
  rewrite existsb_map_false by (intros c Hc; rewrite (A c Hc); reflexivity).
  rewrite forallb_map_true by (intros c Hc; rewrite (A c Hc); reflexivity).
  destruct cells as [|c0 cells']; [contradiction|].
  rewrite (existsb_map_true is_LNA _ (c0 :: cells') c0 (or_introl eq_refl)) by (rewrite (A c0 (or_introl eq_refl)); reflexivity).
  f_equal. f_equal. apply map_ext_in. intros c Hc. rewrite (A c Hc). reflexivity.
Qed.

(* ---- integers, no missing entry ---- *)
Lemma int_cells_inv cells : forallb int_cell cells = true -> existsb is_TNA cells = false ->
  forall c, In c cells -> exists z, c = TInt z.
Proof.
  intros H N c Hc. rewrite forallb_forall in H. specialize (H c Hc).
  pose proof (existsb_false_all _ _ N c Hc) as Hn.
  destruct c; try discriminate H; try discriminate Hn. eexists. reflexivity.
Qed.

Lemma kind_int cells : cells <> [] -> forallb int_cell cells = true -> existsb is_TNA cells = false ->
  forallb (cell_in i64_min i64_max) cells = true ->
  decide (map render cells) = Some (DInt64, map expect_same cells).
Proof.
  intros Hne H N R. pose proof (int_cells_inv cells H N) as A. rewrite forallb_forall in R.
  assert (B : forall c, In c cells -> exists z, c = TInt z /\ in_i64 z = true).
  { intros c Hc. destruct (A c Hc) as (z & ->). exists z. split; [reflexivity|]. exact (R _ Hc). }
  rewrite decide_clean; [|exact Hne | intros c Hc; destruct (A c Hc) as (z & ->); apply dec_z_no_nul].
  unfold decide_body. cbv zeta. rewrite !map_map.
  rewrite existsb_map_false
    by (intros c Hc; destruct (B c Hc) as (z & -> & Hz); fold (tc (TInt z)); rewrite tc_int; apply in_i64_not_big, Hz).
  rewrite forallb_map_true by (intros c Hc; destruct (A c Hc) as (z & ->); fold (tc (TInt z)); rewrite tc_int; reflexivity).
  rewrite existsb_map_false by (intros c Hc; destruct (A c Hc) as (z & ->); fold (tc (TInt z)); rewrite tc_int; reflexivity).
  f_equal. f_equal. apply map_ext_in. intros c Hc. destruct (A c Hc) as (z & ->).
  fold (tc (TInt z)). rewrite tc_int. reflexivity.
Qed.

Lemma dec_z_nonempty z : is_empty (dec_z z) = false.
Proof.
  pose proof (lex_int_dec z) as H. destruct (dec_z z) eqn:E; [|reflexivity]. discriminate H.
Qed.

Lemma canon_dec z : (0 <= z)%Z -> canon_nat (dec_z z) = true.
Proof.
  intro H. unfold canon_nat. rewrite lex_int_dec. rewrite String.eqb_refl.
  apply Z.leb_le in H. rewrite H. apply orb_true_r.
Qed.

(* ---- unsigned integers reaching beyond int64, no missing entry ---- *)
Lemma kind_uint cells : forallb int_cell cells = true -> existsb is_TNA cells = false ->
  forallb (cell_in 0 u64_max) cells = true -> forallb (cell_in i64_min i64_max) cells = false ->
  decide (map render cells) = Some (DUInt64, map expect_same cells).
Proof.
  intros H N R NB. pose proof (int_cells_inv cells H N) as A. rewrite forallb_forall in R.
  assert (Hne : cells <> []) by (intro E; subst; discriminate NB).
  destruct (forallb_false_ex _ _ NB) as (w & Hw & Fw).
  rewrite decide_clean; [|exact Hne | intros c Hc; destruct (A c Hc) as (z & ->); apply dec_z_no_nul].
  unfold decide_body. cbv zeta. rewrite !map_map.
  destruct (A w Hw) as (zw & ->).
  rewrite (existsb_map_true big _ _ (TInt zw) Hw)
    by (fold (tc (TInt zw)); rewrite tc_int; change (in_i64 zw = false) in Fw; cbn [big]; rewrite Fw; reflexivity).
  rewrite forallb_map_true
    by (intros c Hc; destruct (A c Hc) as (z & ->); specialize (R _ Hc); cbn in R;
        apply andb_true_iff in R; destruct R as [R _]; apply Z.leb_le in R; apply canon_dec; exact R).
  rewrite existsb_map_false
    by (intros c Hc; destruct (A c Hc) as (z & ->); specialize (R _ Hc); cbn in R;
        apply andb_true_iff in R; destruct R as [_ R]; apply Z.leb_le in R;
        fold (tc (TInt z)); rewrite tc_int; cbn; apply Z.ltb_ge; exact R).
  cbn [negb andb].
  rewrite existsb_map_false by (intros c Hc; destruct (A c Hc) as (z & ->); apply dec_z_nonempty).
  f_equal. f_equal. apply map_ext_in. intros c Hc. destruct (A c Hc) as (z & ->).
  fold (tc (TInt z)). rewrite tc_int. reflexivity.
Qed.

(* ---- integers beside a missing entry: the column becomes float64 ---- *)
Lemma int_or_na_inv cells : forallb int_cell cells = true ->
  forall c, In c cells -> c = TNA \/ exists z, c = TInt z.
Proof.
  intros H c Hc. rewrite forallb_forall in H. specialize (H c Hc).
  destruct c; try discriminate H; [right; eexists; reflexivity | left; reflexivity].
Qed.

Lemma kind_int_na cells : forallb int_cell cells = true -> existsb is_TNA cells = true ->
  forallb (cell_in i64_min i64_max) cells = true ->
  decide (map render cells) = Some (DFloat64, map int_as_float cells).
Proof.
  intros H N R. pose proof (int_or_na_inv cells H) as A. rewrite forallb_forall in R.
  apply existsb_exists in N. destruct N as (w & Hw & Nw). destruct w; try discriminate Nw.
  assert (Hne : cells <> []) by (intro E; subst; destruct Hw).
  rewrite decide_clean; [|exact Hne | intros c Hc; destruct (A c Hc) as [->|(z & ->)]; [reflexivity | apply dec_z_no_nul]].
  unfold decide_body. cbv zeta. rewrite !map_map.
  rewrite existsb_map_false
    by (intros c Hc; destruct (A c Hc) as [->|(z & ->)]; [reflexivity|];
        fold (tc (TInt z)); rewrite tc_int; apply in_i64_not_big; exact (R _ Hc)).
  rewrite forallb_map_true
    by (intros c Hc; destruct (A c Hc) as [->|(z & ->)]; [reflexivity|]; fold (tc (TInt z)); rewrite tc_int; reflexivity).
  rewrite (existsb_map_true is_LNA _ _ TNA Hw) by reflexivity.
  f_equal. f_equal. apply map_ext_in. intros c Hc. destruct (A c Hc) as [->|(z & ->)]; [reflexivity|].
  fold (tc (TInt z)). rewrite tc_int. reflexivity.
Qed.

Lemma round_small z : (- 2 ^ 53 <= z <= 2 ^ 53)%Z -> round_f64 z = z /\ Z.eqb z i64_min = false.
Proof.
  change (2 ^ 53)%Z with 9007199254740992%Z. intro H. split.
  - unfold round_f64. change (2 ^ 53)%Z with 9007199254740992%Z.
    destruct (Z.ltb (Z.abs z) 9007199254740992) eqn:E; [reflexivity|].
    apply Z.ltb_ge in E.
    assert (D : z = 9007199254740992%Z \/ z = (-9007199254740992)%Z) by lia.
    destruct D as [->| ->]; reflexivity.
  - apply Z.eqb_neq. unfold i64_min. change (2 ^ 63)%Z with 9223372036854775808%Z. lia.
Qed.

(* ---- unsigned integers reaching beyond int64 beside a missing entry: the column stays text ---- *)
Lemma kind_uint_na cells : forallb int_cell cells = true -> existsb is_TNA cells = true ->
  forallb (cell_in 0 u64_max) cells = true -> forallb (cell_in i64_min i64_max) cells = false ->
  decide (map render cells) = Some (DStr, map (fun c => RStr (render c)) cells).
Proof.
  intros H N R NB. pose proof (int_or_na_inv cells H) as A. rewrite forallb_forall in R.
  apply existsb_exists in N. destruct N as (w & Hw & Nw). destruct w; try discriminate Nw.
  assert (Hne : cells <> []) by (intro E; subst; destruct Hw).
  destruct (forallb_false_ex _ _ NB) as (v & Hv & Fv).
  rewrite decide_clean; [|exact Hne | intros c Hc; destruct (A c Hc) as [->|(z & ->)]; [reflexivity | apply dec_z_no_nul]].
  unfold decide_body. cbv zeta. rewrite !map_map.
  destruct (A v Hv) as [->|(zv & ->)]; [discriminate Fv|].
  rewrite (existsb_map_true big _ _ (TInt zv) Hv)
    by (fold (tc (TInt zv)); rewrite tc_int; change (in_i64 zv = false) in Fv; cbn [big]; rewrite Fv; reflexivity).
  rewrite forallb_map_true
    by (intros c Hc; destruct (A c Hc) as [->|(z & ->)]; [reflexivity|]; specialize (R _ Hc); cbn in R;
        apply andb_true_iff in R; destruct R as [R _]; apply Z.leb_le in R; apply canon_dec; exact R).
  rewrite existsb_map_false
    by (intros c Hc; destruct (A c Hc) as [->|(z & ->)]; [reflexivity|]; specialize (R _ Hc); cbn in R;
        apply andb_true_iff in R; destruct R as [_ R]; apply Z.leb_le in R;
        fold (tc (TInt z)); rewrite tc_int; cbn; apply Z.ltb_ge; exact R).
  cbn [negb andb].
  rewrite (existsb_map_true is_empty _ _ TNA Hw) by reflexivity.
  reflexivity.
Qed.

(* ---- booleans ---- *)
Lemma kind_bool cells : forallb bool_cell cells = true -> forallb is_TNA cells = false ->
  decide (map render cells) =
    Some (if existsb is_TNA cells then DObject else DBool, map expect_same cells).
Proof.
  intros H NA. rewrite forallb_forall in H.
  assert (A : forall c, In c cells -> c = TNA \/ exists b, c = TBool b).
  { intros c Hc. specialize (H c Hc). destruct c; try discriminate H; [right; eexists; reflexivity | left; reflexivity]. }
  destruct (forallb_false_ex _ _ NA) as (w & Hw & Fw).
  assert (Hne : cells <> []) by (intro E; subst; destruct Hw).
  destruct (A w Hw) as [->|(bw & ->)]; [discriminate Fw|].
  rewrite decide_clean; [|exact Hne | intros c Hc; destruct (A c Hc) as [->|(b & ->)]; [reflexivity | destruct b; reflexivity]].
  unfold decide_body. cbv zeta. rewrite !map_map.
  rewrite existsb_map_false
    by (intros c Hc; destruct (A c Hc) as [->|(b & ->)]; [reflexivity | fold (tc (TBool b)); rewrite tc_bool; reflexivity]).
  rewrite (forallb_map_false int_or_na _ _ (TBool bw) Hw) by (fold (tc (TBool bw)); rewrite tc_bool; reflexivity).
  rewrite (forallb_map_false num_or_na _ _ (TBool bw) Hw) by (fold (tc (TBool bw)); rewrite tc_bool; reflexivity).
  rewrite forallb_map_true
    by (intros c Hc; destruct (A c Hc) as [->|(b & ->)]; [reflexivity | fold (tc (TBool b)); rewrite tc_bool; reflexivity]).
  assert (E : existsb is_LNA (map (fun x => classify (render x)) cells) = existsb is_TNA cells).
  { clear - A. induction cells as [|c cells IH]; [reflexivity|]. cbn [map existsb].
    rewrite IH by (intros x Hx; apply A; right; exact Hx).
    destruct (A c (or_introl eq_refl)) as [->|(b & ->)]; [reflexivity|].
    fold (tc (TBool b)). rewrite tc_bool. reflexivity. }
  rewrite E.
  assert (M : map (fun x => match classify (render x) with LBool b => RBool b | _ => RNaN end) cells
              = map expect_same cells).
  { apply map_ext_in. intros c Hc. destruct (A c Hc) as [->|(b & ->)]; [reflexivity|].
    fold (tc (TBool b)). rewrite tc_bool. reflexivity. }
  rewrite M. destruct (existsb is_TNA cells); reflexivity.
Qed.

(* ---- floats ---- *)
Lemma kind_float cells : forallb float_cell cells = true -> forallb is_TNA cells = false ->
  forallb float_cell_ok cells = true ->
  decide (map render cells) = Some (DFloat64, map expect_same cells).
Proof.
  intros H NA OK. rewrite forallb_forall in H. rewrite forallb_forall in OK.
  assert (A : forall c, In c cells -> c = TNA \/ exists l, c = TFloat l /\ float_ok l = true).
  { intros c Hc. specialize (H c Hc). specialize (OK c Hc).
    destruct c; try discriminate H; [right; eexists; split; [reflexivity | exact OK] | left; reflexivity]. }
  destruct (forallb_false_ex _ _ NA) as (w & Hw & Fw).
  assert (Hne : cells <> []) by (intro E; subst; destruct Hw).
  destruct (A w Hw) as [->|(lw & -> & Okw)]; [discriminate Fw|].
  rewrite decide_clean; [|exact Hne |].
  2:{ intros c Hc. destruct (A c Hc) as [->|(l & -> & Ok)]; [reflexivity|].
      unfold float_ok in Ok. apply andb_true_iff in Ok. exact (proj1 Ok). }
  unfold decide_body. cbv zeta. rewrite !map_map.
  rewrite existsb_map_false
    by (intros c Hc; destruct (A c Hc) as [->|(l & -> & Ok)]; [reflexivity | fold (tc (TFloat l)); rewrite (tc_float l Ok); reflexivity]).
  rewrite (forallb_map_false int_or_na _ _ (TFloat lw) Hw) by (fold (tc (TFloat lw)); rewrite (tc_float lw Okw); reflexivity).
  rewrite forallb_map_true
    by (intros c Hc; destruct (A c Hc) as [->|(l & -> & Ok)]; [reflexivity | fold (tc (TFloat l)); rewrite (tc_float l Ok); reflexivity]).
  f_equal. f_equal. apply map_ext_in. intros c Hc. destruct (A c Hc) as [->|(l & -> & Ok)]; [reflexivity|].
  fold (tc (TFloat l)). rewrite (tc_float l Ok). reflexivity.
Qed.

(* ---- strings ---- *)
Lemma kind_str cells : forallb str_cell cells = true -> str_safe cells = true ->
  decide (map render cells) = Some (DStr, map expect_same cells).
Proof.
  intros H S. rewrite forallb_forall in H. unfold str_safe in S.
  apply andb_true_iff in S. destruct S as [S NB]. apply andb_true_iff in S. destruct S as [OK NN].
  rewrite forallb_forall in OK.
  assert (A : forall c, In c cells -> c = TNA \/
              exists s, c = TStr s /\ no_nul s = true /\ is_na s = false /\ big (classify s) = false).
  { intros c Hc. specialize (H c Hc). specialize (OK c Hc).
    destruct c; try discriminate H; [right | left; reflexivity].
    cbn in OK. apply andb_true_iff in OK. destruct OK as [OK O3]. apply andb_true_iff in OK. destruct OK as [O1 O2].
    apply negb_true_iff in O2. apply negb_true_iff in O3. eexists. repeat split; eassumption. }
  apply existsb_exists in NN. destruct NN as (wn & Hwn & Fwn).
  apply existsb_exists in NB. destruct NB as (wb & Hwb & Fwb).
  assert (Hne : cells <> []) by (intro E; subst; destruct Hwn).
  rewrite decide_clean; [|exact Hne | intros c Hc; destruct (A c Hc) as [->|(s & -> & N & _)]; [reflexivity | exact N]].
  unfold decide_body. cbv zeta. rewrite !map_map.
  rewrite existsb_map_false
    by (intros c Hc; destruct (A c Hc) as [->|(s & -> & _ & _ & B)]; [reflexivity | exact B]).
  rewrite (forallb_map_false int_or_na _ _ wn Hwn)
    by (destruct wn; try discriminate Fwn; cbn [render]; cbn in Fwn; destruct (classify s); try discriminate Fwn; reflexivity).
  rewrite (forallb_map_false num_or_na _ _ wn Hwn)
    by (destruct wn; try discriminate Fwn; cbn [render]; cbn in Fwn; destruct (classify s); try discriminate Fwn; reflexivity).
  rewrite (forallb_map_false bool_or_na _ _ wb Hwb)
    by (destruct wb; try discriminate Fwb; cbn [render]; cbn in Fwb; destruct (classify s); try discriminate Fwb; reflexivity).
  f_equal. f_equal. apply map_ext_in. intros c Hc. destruct (A c Hc) as [->|(s & -> & _ & Na & _)]; [reflexivity|].
  cbn [render expect_same]. unfold classify. rewrite Na.
  destruct (lex_int s); [reflexivity|]. destruct (lex_float s); [reflexivity|]. destruct (lex_bool s); reflexivity.
Qed.

(* ------------------------------------------------------------------ *)
(* columns that survive default parsing                                *)
(* ------------------------------------------------------------------ *)
Lemma col_safe_reads cells : col_safe cells = true ->
  exists d rs, decide (map render cells) = Some (d, rs) /\ forallb2 same_value cells rs = true.
Proof.
  intro H. destruct cells as [|c0 cs0].
  - exists DObject, []. split; reflexivity.
  - unfold col_safe in H. cbv iota in H. set (l := c0 :: cs0) in *.
    assert (Hne : l <> []) by discriminate.
    assert (SE : forallb2 same_value l (map expect_same l) = true)
      by (apply forallb2_map; intros; apply same_expect).
    destruct (forallb is_TNA l) eqn:E0.
    { eexists _, _. split; [apply (kind_all_na l Hne E0) | exact SE]. }
    destruct (forallb int_cell l) eqn:E1.
    { destruct (existsb is_TNA l) eqn:E2.
      - assert (R : forallb (cell_in i64_min i64_max) l = true).
        { apply forallb_forall. intros c Hc. rewrite forallb_forall in H. specialize (H c Hc).
          destruct c; try reflexivity. cbn in H |- *.
          apply andb_true_iff in H. destruct H as [H1 H2]. apply Z.leb_le in H1. apply Z.leb_le in H2.
          unfold i64_min, i64_max. change (2 ^ 63)%Z with 9223372036854775808%Z.
          apply andb_true_iff. split; apply Z.leb_le; lia. }
        eexists _, _. split; [apply (kind_int_na l E1 E2 R)|].
        apply forallb2_map. intros c Hc. rewrite forallb_forall in H. specialize (H c Hc).
        destruct (int_or_na_inv l E1 c Hc) as [->|(z & ->)]; [reflexivity|].
        cbn in H. apply andb_true_iff in H. destruct H as [H1 H2]. apply Z.leb_le in H1. apply Z.leb_le in H2.
        destruct (round_small z (conj H1 H2)) as [Rz Nz].
        cbn [int_as_float]. rewrite Nz, Rz. cbn. apply Z.eqb_refl.
      - destruct (forallb (cell_in i64_min i64_max) l) eqn:E3.
        + eexists _, _. split; [apply (kind_int l Hne E1 E2 E3) | exact SE].
        + rewrite orb_false_l in H. eexists _, _. split; [apply (kind_uint l E1 E2 H E3) | exact SE]. }
    destruct (forallb bool_cell l) eqn:E4.
    { eexists _, _. split; [apply (kind_bool l E4 E0) | exact SE]. }
    destruct (forallb float_cell l) eqn:E5.
    { eexists _, _. split; [apply (kind_float l E5 E0 H) | exact SE]. }
    destruct (forallb str_cell l) eqn:E6; [|discriminate H].
    eexists _, _. split; [apply (kind_str l E6 H) | exact SE].
Qed.

(* default read_csv on a written file: the row labels, then column by column the inference applied to
   the rendered cells *)
Lemma read_back_columns t : wf_frame t -> text_ok t = true ->
  read_csv_default (to_csv_text t) =
    Some (("Unnamed: 0"%string, decide (label_column (nrows t)))
          :: map (fun c => (fst c, decide (map render (snd c)))) t).
Proof.
  intros W T. unfold read_csv_default. rewrite (read_raw_written t W T).
  cbn [map fst snd]. rewrite map_map. reflexivity.
Qed.

Lemma csv_partial t : wf_frame t -> frame_safe t = true -> frame_reads_back t = true.
Proof.
  intros W S. unfold frame_safe in S. apply andb_true_iff in S. destruct S as [T C].
  unfold frame_reads_back. rewrite (read_back_columns t W T).
  apply forallb2_map. intros c Hc. unfold column_reads_back. cbn [fst snd].
  rewrite String.eqb_refl. cbn [andb].
  rewrite forallb_forall in C. destruct (col_safe_reads (snd c) (C c Hc)) as (d & rs & E & F).
  rewrite E. exact F.
Qed.

(* ------------------------------------------------------------------ *)
(* what does not survive: witnesses                                    *)
(* ------------------------------------------------------------------ *)
Lemma wf_two a b : fst a <> fst b -> List.length (snd b) = List.length (snd a) -> wf_frame [a; b].
Proof.
  intros N L. split; [discriminate|]. split.
  - intros c [<-|[<-|[]]]; cbn; [reflexivity | exact L].
  - constructor; [intros [E|[]]; apply N; symmetry; exact E|]. constructor; [intros []|constructor].
Qed.

Lemma w_wf name cells : name <> "id"%string -> List.length cells = 3%nat -> wf_frame [three_ids; (name, cells)].
Proof. intros N L. apply wf_two; cbn; [intro E; apply N; symmetry; exact E | exact L]. Qed.

(* int64 2^53+1 beside a missing entry: float64 column, the value is 2^53 *)
Lemma int_missing_refuted :
  wf_frame w_int_missing /\ frame_reads_back w_int_missing = false /\
  read_column (to_csv_text w_int_missing) "v" = Some (Some (DFloat64, [RFint (2 ^ 53); RNaN; RFint 7])) /\
  read_column (to_csv_text w_int_missing) "id" = Some (Some (DInt64, [RInt 1; RInt 2; RInt 3])).
Proof. split; [apply w_wf; [discriminate | reflexivity]|]. vm_compute. repeat split. Qed.

(* int64 -2^63 beside a missing entry: NaN *)
Lemma int_min_refuted :
  wf_frame w_int_min /\ frame_reads_back w_int_min = false /\
  read_column (to_csv_text w_int_min) "v" = Some (Some (DFloat64, [RNaN; RNaN; RFint 7])).
Proof. split; [apply w_wf; [discriminate | reflexivity]|]. vm_compute. repeat split. Qed.

(* uint64 2^63 beside a missing entry: a text column, the missing cell an empty string *)
Lemma uint_missing_refuted :
  wf_frame w_uint_missing /\ frame_reads_back w_uint_missing = false /\
  read_column (to_csv_text w_uint_missing) "u" =
    Some (Some (DStr, [RStr "9223372036854775808"; RStr ""; RStr "1"])).
Proof. split; [apply w_wf; [discriminate | reflexivity]|]. vm_compute. repeat split. Qed.

Lemma str_refuted :
  (wf_frame w_str_007 /\ frame_reads_back w_str_007 = false /\
   read_column (to_csv_text w_str_007) "s" = Some (Some (DInt64, [RInt 7; RInt 1; RInt 12]))) /\
  (wf_frame w_str_na /\ frame_reads_back w_str_na = false /\
   read_column (to_csv_text w_str_na) "s" = Some (Some (DStr, [RNaN; RStr "a"; RStr "b"]))) /\
  (wf_frame w_str_empty /\ frame_reads_back w_str_empty = false /\
   read_column (to_csv_text w_str_empty) "s" = Some (Some (DStr, [RNaN; RStr "a"; RStr "b"]))) /\
  (wf_frame w_str_1e3 /\ frame_reads_back w_str_1e3 = false /\
   read_column (to_csv_text w_str_1e3) "s" = Some (Some (DFloat64, [RFlit "1e3"; RFlit "2"; RFlit "1.5"]))) /\
  (wf_frame w_str_true /\ frame_reads_back w_str_true = false /\
   read_column (to_csv_text w_str_true) "s" = Some (Some (DBool, [RBool true; RBool false; RBool true]))) /\
  (wf_frame w_str_masked /\ frame_reads_back w_str_masked = false /\
   read_column (to_csv_text w_str_masked) "s" = Some (Some (DFloat64, [RFint 7; RNaN; RFint 1]))).
Proof.
  repeat split; try (apply w_wf; [discriminate | reflexivity]); vm_compute; reflexivity.
Qed.

(* a bare carriage return: one row more, and the ids are not reproduced either *)
Lemma cr_refuted :
  wf_frame w_str_cr /\ frame_reads_back w_str_cr = false /\
  to_csv_text w_str_cr =
    String.append ",id,s" (String.append (chr 10) (String.append "0,1,a" (String.append (chr 13)
      (String.append "b" (String.append (chr 10) (String.append "1,2,k" (String.append (chr 10)
      (String.append "2,3,m" (chr 10))))))))) /\
  read_column (to_csv_text w_str_cr) "id" = Some (Some (DFloat64, [RFint 1; RNaN; RFint 2; RFint 3])) /\
  read_column (to_csv_text w_str_cr) "s" = Some (Some (DStr, [RStr "a"; RNaN; RStr "k"; RStr "m"])).
Proof. split; [apply w_wf; [discriminate | reflexivity]|]. vm_compute. repeat split. Qed.

Lemma nul_refuted :
  wf_frame w_str_nul /\ frame_reads_back w_str_nul = false /\
  read_column (to_csv_text w_str_nul) "s" = Some (Some (DStr, [RStr "a"; RStr "k"; RStr "m"])).
Proof. split; [apply w_wf; [discriminate | reflexivity]|]. vm_compute. repeat split. Qed.

(* a boolean column with a missing entry keeps its values (object column of True / False / NaN) *)
Lemma bool_missing_example :
  frame_reads_back w_bool_missing = true /\
  read_column (to_csv_text w_bool_missing) "b" = Some (Some (DObject, [RBool true; RNaN; RBool true])).
Proof. vm_compute. split; reflexivity. Qed.

Lemma csv_full_refuted : ~ csv_full.
Proof.
  intro H. destruct int_missing_refuted as (W & F & _). rewrite (H _ W) in F. discriminate F.
Qed.

(* ------------------------------------------------------------------ *)
(* from the stored graph to the files (typed graph, Table.v's export)  *)
(* ------------------------------------------------------------------ *)
Lemma typed_table_names pool t : map fst (typed_table pool t) = map fst t.
Proof. unfold typed_table. rewrite map_map. reflexivity. Qed.

Lemma wf_typed pool t N : t <> [] -> (forall c, In c t -> List.length (snd c) = N) -> NoDup (map fst t) ->
  wf_frame (typed_table pool t).
Proof.
  intros Hne Hlen Hnd.
  assert (R : nrows (typed_table pool t) = N).
  { destruct t as [|c t]; [contradiction|]. cbn. rewrite map_length. apply Hlen. left. reflexivity. }
  split; [destruct t; [contradiction | discriminate]|]. split.
  - intros c Hc. rewrite R. unfold typed_table in Hc. apply in_map_iff in Hc. destruct Hc as (c0 & <- & Hc0).
    cbn. rewrite map_length. apply Hlen. exact Hc0.
  - rewrite typed_table_names. exact Hnd.
Qed.

Lemma flat_spec_names props : map fst (flat_map spec_columns props) = flat_map names_of props.
Proof.
  induction props as [|p r IH]; [reflexivity|].
  change (flat_map spec_columns (p :: r)) with (spec_columns p ++ flat_map spec_columns r).
  change (flat_map names_of (p :: r)) with (names_of p ++ flat_map names_of r).
  rewrite map_app, spec_columns_names. f_equal. exact IH.
Qed.

Lemma table_distinct idcols props : names_distinct idcols props = true ->
  fst (export idcols props) = idcols ++ flat_map spec_columns props /\
  NoDup (map fst (fst (export idcols props))).
Proof.
  intro H. unfold names_distinct in H. apply nodupb_NoDup in H.
  rewrite (export_distinct idcols props H). cbn [fst]. split; [reflexivity|].
  rewrite map_app, flat_spec_names. exact H.
Qed.

Lemma node_tframe_wf g : wf_graph (erase g) -> graph_names_distinct (erase g) = true ->
  wf_frame (node_tframe g) /\ wf_frame (edge_tframe g).
Proof.
  intros W D. unfold graph_names_distinct in D. apply andb_true_iff in D. destruct D as [Dn De].
  destruct (frames_rows_warnings _ W) as (Rn & Re & _). cbv zeta in Rn, Re.
  destruct (table_distinct _ _ Dn) as [En Nn]. destruct (table_distinct _ _ De) as [Ee Ne].
  split.
  - unfold node_tframe. apply (wf_typed _ _ (List.length (g_ids (erase g)))).
    + unfold node_frame. rewrite En. discriminate.
    + exact Rn.
    + exact Nn.
  - unfold edge_tframe. apply (wf_typed _ _ (List.length (g_edges (erase g)))).
    + unfold edge_frame. rewrite Ee. discriminate.
    + exact Re.
    + exact Ne.
Qed.

(* for ALL typed graphs with distinct column names: when both frames are safe, both files read back *)
Lemma csv_graph_partial g : wf_graph (erase g) -> graph_names_distinct (erase g) = true ->
  frame_safe (node_tframe g) = true -> frame_safe (edge_tframe g) = true ->
  frame_reads_back (node_tframe g) = true /\ frame_reads_back (edge_tframe g) = true.
Proof.
  intros W D Sn Se. destruct (node_tframe_wf g W D) as [Wn We].
  split; apply csv_partial; assumption.
Qed.

(* ---- the id columns ---- *)
Lemma map_seq_off {A} (f : nat -> A) off n : map f (seq off n) = map (fun i => f (off + i)%nat) (seq 0 n).
Proof.
  revert f. induction off as [|off IH]; intro f; [reflexivity|].
  rewrite map_seq_shift. rewrite IH. reflexivity.
Qed.

Lemma nth_range_head {A} (a b : list A) d :
  map (fun i => nth i (a ++ b) d) (seq 0 (List.length a)) = a.
Proof.
  transitivity (map (fun i => nth i a d) (seq 0 (List.length a))).
  - apply map_ext_in. intros i Hi. apply in_seq in Hi. apply app_nth1. lia.
  - rewrite (map_nth_seq (fun x => x) a d). apply map_id.
Qed.

Lemma decode_range (vs : list Z) rest off n :
  map (decode (map TInt vs ++ rest)) (map Val (zseq off n))
  = map (fun i => nth (off + i) (map TInt vs ++ rest) TNA) (seq 0 n).
Proof.
  unfold zseq. rewrite !map_map. rewrite map_seq_off. apply map_ext. intro i.
  cbn [decode]. rewrite Nat2Z.id. reflexivity.
Qed.

Lemma decode_ids ids rest :
  map (decode (map TInt ids ++ rest)) (map Val (zseq 0 (List.length ids))) = map TInt ids.
Proof.
  rewrite decode_range. cbn [Nat.add].
  pose proof (nth_range_head (map TInt ids) rest TNA) as H. rewrite map_length in H. exact H.
Qed.

(* the text of an id column and what default read_csv infers: the same integers, as int64, or as uint64
   when one lies beyond 2^63-1 *)
Lemma decide_ids ids : ids_in_range ids = true ->
  exists d, decide (map render (map TInt ids)) = Some (d, map RInt ids).
Proof.
  intro H.
  assert (M : map expect_same (map TInt ids) = map RInt ids) by (rewrite map_map; reflexivity).
  assert (I : forallb int_cell (map TInt ids) = true) by (apply forallb_map_true; reflexivity).
  assert (N : existsb is_TNA (map TInt ids) = false) by (apply existsb_map_false; reflexivity).
  destruct ids as [|z0 ids0] eqn:Eids; [exists DObject; reflexivity|]. rewrite <- Eids in *.
  assert (Hne : map TInt ids <> []) by (rewrite Eids; discriminate).
  destruct (forallb (cell_in i64_min i64_max) (map TInt ids)) eqn:E.
  - exists DInt64. rewrite (kind_int _ Hne I N E), M. reflexivity.
  - exists DUInt64. rewrite (kind_uint _ I N); [rewrite M; reflexivity | | exact E].
    unfold ids_in_range in H. apply orb_true_iff in H. destruct H as [H|H].
    + exfalso. assert (E' : forallb (cell_in i64_min i64_max) (map TInt ids) = true).
      { apply forallb_map_true. intros z Hz. rewrite forallb_forall in H. exact (H z Hz). }
      congruence.
    + apply forallb_map_true. intros z Hz. rewrite forallb_forall in H. exact (H z Hz).
Qed.

Lemma node_id_column g : graph_names_distinct (erase g) = true ->
  exists rest, node_tframe g = ("id"%string, map TInt (tg_ids g)) :: rest.
Proof.
  intro D. unfold graph_names_distinct in D. apply andb_true_iff in D. destruct D as [Dn _].
  destruct (table_distinct _ _ Dn) as [En _].
  unfold node_tframe, node_frame. rewrite En. unfold node_idcols, erase. cbn [g_ids app typed_table map fst snd].
  eexists. f_equal. f_equal. unfold node_pool, pool_of. apply decode_ids.
Qed.

Lemma csv_node_ids_read_back g : wf_graph (erase g) -> graph_names_distinct (erase g) = true ->
  text_ok (node_tframe g) = true -> ids_in_range (tg_ids g) = true ->
  exists d, read_column (fst (csv_texts g)) "id" = Some (Some (d, map RInt (tg_ids g))).
Proof.
  intros W D T R. destruct (node_tframe_wf g W D) as [Wn _].
  destruct (node_id_column g D) as (rest & E). destruct (decide_ids _ R) as (d & Hd).
  exists d. unfold csv_texts, read_column. cbn [fst]. rewrite (read_back_columns _ Wn T).
  rewrite E. cbn [map rlookup fst snd]. change (String.eqb "Unnamed: 0" "id") with false. cbv iota.
  rewrite String.eqb_refl. rewrite Hd. reflexivity.
Qed.

Lemma combine_fst_snd {A B} (a : list A) (b : list B) : List.length a = List.length b ->
  map fst (combine a b) = a /\ map snd (combine a b) = b.
Proof.
  revert b. induction a as [|x a IH]; intros [|y b] H; try discriminate H; [split; reflexivity|].
  cbn [combine map fst snd]. injection H as H. destruct (IH b H) as [E1 E2]. rewrite E1, E2. split; reflexivity.
Qed.

Lemma zseq_length off n : List.length (zseq off n) = n.
Proof. unfold zseq. rewrite map_length, seq_length. reflexivity. Qed.

Lemma edge_id_columns g : graph_names_distinct (erase g) = true ->
  exists rest, edge_tframe g =
    ("source"%string, map TInt (map fst (tg_edges g))) :: ("target"%string, map TInt (map snd (tg_edges g))) :: rest.
Proof.
  intro D. unfold graph_names_distinct in D. apply andb_true_iff in D. destruct D as [_ De].
  destruct (table_distinct _ _ De) as [Ee _].
  unfold edge_tframe, edge_frame. rewrite Ee. unfold edge_idcols, erase. cbn [g_edges app typed_table map fst snd].
  set (e := List.length (tg_edges g)).
  destruct (combine_fst_snd (zseq 0 e) (zseq e e)) as [F S]; [rewrite !zseq_length; reflexivity|].
  rewrite F, S.
  set (A := map TInt (map fst (tg_edges g))). set (B := map TInt (map snd (tg_edges g))).
  assert (LA : List.length A = e) by (unfold A, e; rewrite !map_length; reflexivity).
  assert (LB : List.length B = e) by (unfold B, e; rewrite !map_length; reflexivity).
  assert (P : edge_pool g = A ++ (B ++ flat_map tp_vals (tg_eprops g))).
  { unfold edge_pool, pool_of, A, B. rewrite map_app, <- app_assoc. reflexivity. }
  eexists. f_equal; [|f_equal]; f_equal.
  - unfold edge_pool, pool_of. rewrite decode_range. cbn [Nat.add].
    fold (pool_of (map fst (tg_edges g) ++ map snd (tg_edges g)) (tg_eprops g)). fold (edge_pool g). rewrite P.
    rewrite <- LA. apply nth_range_head.
  - unfold edge_pool, pool_of. rewrite decode_range.
    fold (pool_of (map fst (tg_edges g) ++ map snd (tg_edges g)) (tg_eprops g)). fold (edge_pool g). rewrite P.
    transitivity (map (fun i => nth i (B ++ flat_map tp_vals (tg_eprops g)) TNA) (seq 0 e)).
    + apply map_ext. intro i. rewrite <- LA. apply app_nth2_plus.
    + rewrite <- LB. apply nth_range_head.
Qed.

Lemma csv_edge_ids_read_back g : wf_graph (erase g) -> graph_names_distinct (erase g) = true ->
  text_ok (edge_tframe g) = true ->
  ids_in_range (map fst (tg_edges g)) = true -> ids_in_range (map snd (tg_edges g)) = true ->
  exists d1 d2,
    read_column (snd (csv_texts g)) "source" = Some (Some (d1, map RInt (map fst (tg_edges g)))) /\
    read_column (snd (csv_texts g)) "target" = Some (Some (d2, map RInt (map snd (tg_edges g)))).
Proof.
  intros W D T R1 R2. destruct (node_tframe_wf g W D) as [_ We].
  destruct (edge_id_columns g D) as (rest & E).
  destruct (decide_ids _ R1) as (d1 & H1). destruct (decide_ids _ R2) as (d2 & H2).
  exists d1, d2. unfold csv_texts, read_column. cbn [snd]. rewrite (read_back_columns _ We T).
  rewrite E. cbn [map rlookup fst snd].
  change (String.eqb "Unnamed: 0" "source") with false. change (String.eqb "Unnamed: 0" "target") with false.
  change (String.eqb "source" "target") with false. cbv iota.
  rewrite !String.eqb_refl. rewrite H1, H2. split; reflexivity.
Qed.

Lemma decimal_reads_back z : lex_int (dec_z z) = Some z /\ classify (dec_z z) = LInt z.
Proof. split; [apply lex_int_dec | apply classify_dec]. Qed.
