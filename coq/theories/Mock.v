(* Mock.v -- model of geff.testing.data: create_dummy_in_mem_geff, create_mock_geff (the
   write_arrays path onto a fresh MemoryStore, with the structure validation it runs), the
   create_simple_* / create_empty_geff wrappers, and the two "views" (in-memory geff, store
   read back) that the correspondence compares with the implementation.
   Statements are evaluated in the order the Python evaluates them; exceptions are `res`.
   Array payloads are kept only where they are integers (ids, edges, masks, arange-like
   values, elements of the variable-length property); float payloads (linspace) and the
   caller's arrays are opaque descriptors.  Model only; proofs are in MockLemmas.v. *)
From Geff Require Import Base Dtype GraphVal Vlen.
From Geff.Gen Require Import Consts.
Open Scope Z_scope.
Open Scope list_scope.

(* ---------- numpy dtype names accepted by np.dtype(...) that the generators document ---------- *)
Definition np_table : list (string * dtype) :=
  [("uint"%string, DU64); ("int"%string, DI64); ("double"%string, DF64);
   ("uint8"%string, DU8); ("uint16"%string, DU16); ("uint32"%string, DU32); ("uint64"%string, DU64);
   ("int8"%string, DI8); ("int16"%string, DI16); ("int32"%string, DI32); ("int64"%string, DI64);
   ("float32"%string, DF32); ("float64"%string, DF64); ("str"%string, DStr)].

Fixpoint assoc {V} (k : string) (l : list (string * V)) : option V :=
  match l with
  | [] => None
  | (k', v) :: r => if String.eqb k' k then Some v else assoc k r
  end.

(* np.dtype(name); None = TypeError("data type ... not understood") *)
Definition np_dtype (s : string) : option dtype := assoc s np_table.

(* get_args(DTypeStr) *)
Definition prop_dtype_names : list string :=
  ["double"; "int"; "int8"; "uint8"; "int16"; "uint16"; "float32"; "float64"; "str"]%string.
(* get_args(NodeIdDTypeStr): documentation only, the code never checks it *)
Definition id_dtype_names : list string := ["uint"; "uint8"; "uint16"; "uint32"; "uint64"]%string.
(* the literal list in the `elif prop_dtype in [...]` branch *)
Definition arange_dtype_names : list string := ["int"; "int8"; "uint8"; "int16"; "uint16"]%string.

(* ---------- parameters ---------- *)
Inductive pkey := KStr (s : string) | KOther.
Inductive pval :=
| VDtype (s : string)                               (* a dtype name *)
| VArray (dt : dtype) (len : nat) (tail : list nat)  (* a numpy array: dtype, len(), trailing shape *)
| VOther                                            (* anything else *)
| VObjArray (elems : list varr).                    (* a numpy object array whose elements are numpy arrays *)
Inductive extras := ENone | ENotDict | EDict (items : list (pkey * pval)).

Record params := {
  p_id : string; p_pos : string; p_time : string; p_directed : bool; p_n : Z; p_e : Z;
  p_enp : extras; p_eep : extras;
  p_t : bool; p_z : bool; p_y : bool; p_x : bool; p_varlen : bool; p_missing : bool }.

(* ---------- arrays and the in-memory geff ---------- *)
Inductive payload :=
| PArange (n : nat)                 (* np.arange(n, dtype) *)
| PLin (a b : Z) (n : nat)          (* np.linspace(a/10, b/10, n, dtype): opaque floats *)
| PTime (n : nat)                   (* [(i * 5 // n) + 1 for i in range(n)] *)
| PNames (k : string) (n : nat)     (* [f"{k}_{i}" for i in range(n)] *)
| PGiven                            (* the caller's array *)
| PVarlen (elems : list varr).      (* object array of arrays *)

Record parr := { a_dt : dtype; a_len : nat; a_tail : list nat; a_payload : payload; a_missing : option (list bool) }.

Record axis := { ax_name : string; ax_type : string; ax_unit : string; ax_bounded : bool (* min/max are not None *) }.
Record pmeta := { pm_name : string; pm_dt : dtype; pm_varlen : bool; pm_unit : option string }.
Record meta := { m_directed : bool; m_axes : list axis; m_nprops : list pmeta; m_eprops : list pmeta }.

Definition props := list (string * parr).
Record geff := { g_meta : meta; g_iddt : dtype; g_ids : list Z; g_edt : dtype; g_edges : list edge;
                 g_nprops : props; g_eprops : props }.

(* ---------- Python dict assignment d[k] = v (position of an existing key is kept) ---------- *)
Definition dict_set {V} (k : string) (v : V) (d : list (string * V)) : list (string * V) :=
  if smem k (map fst d)
  then map (fun kv => if String.eqb (fst kv) k then (k, v) else kv) d
  else d ++ [(k, v)].

(* ---------- geff_spec.utils.create_props_metadata ---------- *)
(* np.dtype(...).name of an array dtype, as PropMetadata._convert_dtype computes it: a numpy bytes array is
   called bytes8, bytes16, ... (never "bytes"), so one representative stands for every width *)
Definition arr_dtype_name (d : dtype) : string :=
  match d with
  | DBool => "bool" | DI8 => "int8" | DI16 => "int16" | DI32 => "int32" | DI64 => "int64"
  | DU8 => "uint8" | DU16 => "uint16" | DU32 => "uint32" | DU64 => "uint64"
  | DF16 => "float16" | DF32 => "float32" | DF64 => "float64"
  | DStr => "str" | DBytes => "bytes8" | DObj => "object"
  end%string.
(* PropMetadata accepts the dtype iff that name is in VALID_DTYPES (regenerated from the source) *)
Definition storable (d : dtype) : bool := smem (arr_dtype_name d) valid_dtypes.

(* "If dtype is float16, upcasts to float32": values.astype(float32) is also assigned back into the
   property dict the caller handed in, so the array kept in node_props / edge_props changes with it;
   an object array (variable-length property) is not a float16 array *)
Definition upcast_velem (e : varr) : varr :=
  if dtype_eqb (v_dt e) DF16 then Build_varr DF32 (v_shape e) (v_flat e) else e.
Definition upcast_arr (a : parr) : parr :=
  match a_payload a with
  | PVarlen elems =>
      (* an object array whose elements are all float16 arrays: every element is upcast (after the dtype check of
         create_props_metadata, which therefore still rejects float16 beside float32) and the new object array is assigned
         back into the property dict; any other object array is left alone *)
      match elems with
      | e0 :: _ =>
          if dtype_eqb (v_dt e0) DF16 && forallb (fun e => dtype_eqb (v_dt e) (v_dt e0)) elems
          then {| a_dt := a_dt a; a_len := a_len a; a_tail := a_tail a; a_payload := PVarlen (map upcast_velem elems);
                  a_missing := a_missing a |}
          else a
      | [] => a
      end
  | _ => if dtype_eqb (a_dt a) DF16
         then {| a_dt := DF32; a_len := a_len a; a_tail := a_tail a; a_payload := a_payload a; a_missing := a_missing a |}
         else a
  end.

(* the part after the upcast: dtype / varlength detection and PropMetadata(...) with its dtype whitelist
   (a pydantic ValidationError is a ValueError) *)
Definition create_props_metadata (name : string) (a : parr) (unit : option string) : res pmeta :=
  match a_payload a with
  | PVarlen elems =>
      match elems with
      | [] => Err IndexError                                            (* values[0] *)
      | e0 :: _ =>
          if forallb (fun e => dtype_eqb (v_dt e) (v_dt e0)) elems
          then if storable (v_dt e0)
               then Ok {| pm_name := name; pm_dt := v_dt e0; pm_varlen := true; pm_unit := unit |}
               else Err ValueError
          else Err ValueError
      end
  | _ => if storable (a_dt a)
         then Ok {| pm_name := name; pm_dt := a_dt a; pm_varlen := false; pm_unit := unit |}
         else Err ValueError
  end.

(* ---------- geff_spec.utils.add_or_update_props_metadata ---------- *)
Definition pm_update (p : pmeta) (m : pmeta) : pmeta :=
  if String.eqb (pm_name m) (pm_name p)
  then {| pm_name := pm_name m; pm_dt := pm_dt p; pm_varlen := pm_varlen p; pm_unit := pm_unit m |}
  else m.
Definition pm_mem (name : string) (l : list pmeta) : bool := smem name (map pm_name l).
(* md_dict[prop.identifier] = prop *)
Definition md_set (p : pmeta) (md : list pmeta) : list pmeta :=
  if pm_mem (pm_name p) md
  then map (fun m => if String.eqb (pm_name m) (pm_name p) then p else m) md
  else md ++ [p].
Definition aou_step (st : list pmeta * list pmeta) (p : pmeta) : list pmeta * list pmeta :=
  if pm_mem (pm_name p) (fst st) then (map (pm_update p) (fst st), snd st) else (fst st, md_set p (snd st)).
Definition add_or_update (existing props_md : list pmeta) : list pmeta :=
  let st := fold_left aou_step props_md (existing, []) in fst st ++ snd st.

(* ---------- create_dummy_in_mem_geff ---------- *)
Definition s_t := "t"%string.
Definition s_z := "z"%string.
Definition s_y := "y"%string.
Definition s_x := "x"%string.
Definition s_time := "time"%string.
Definition s_space := "space"%string.
Definition s_second := "second"%string.
Definition s_nanometer := "nanometer"%string.
Definition s_var_length := "var_length"%string.
Definition s_sparse_prop := "sparse_prop"%string.

Definition mk_arr (dt : dtype) (n : nat) (pl : payload) : parr :=
  {| a_dt := dt; a_len := n; a_tail := []; a_payload := pl; a_missing := None |}.

(* state threaded through the node part: node_props, node_prop_meta, axes *)
Definition nstate := (props * list pmeta * list axis)%type.

(* _add_axis + node_prop_meta.append: np.array / np.linspace in the requested dtype, values.min()
   (no ordering loop for a string dtype -> UFuncTypeError, a TypeError), Axis(...), metadata *)
Definition add_axis (n : nat) (name type unit dts : string) (pl : payload) (st : nstate) : res nstate :=
  let '(np, nm, axes) := st in
  match np_dtype dts with
  | None => Err TypeError
  | Some dt =>
      if Nat.ltb 0 n && negb (is_numeric dt) then Err TypeError
      else
        let a := mk_arr dt n pl in
        match create_props_metadata name a (Some unit) with
        | Err e => Err e
        | Ok m =>
            Ok (dict_set name a np, nm ++ [m],
                axes ++ [{| ax_name := name; ax_type := type; ax_unit := unit; ax_bounded := Nat.ltb 0 n |}])
        end
  end.

Definition add_axis_if (inc : bool) (n : nat) (name type unit dts : string) (pl : payload) (st : nstate) : res nstate :=
  if inc then add_axis n name type unit dts pl st else Ok st.

(* edges: node pairs by increasing offset, reversed pairs afterwards when directed *)
Definition pairs_off (n off : nat) : list (nat * nat) := map (fun i => (i, i + off)%nat) (seq 0 (n - off)).
Definition fwd_pairs (n : nat) : list (nat * nat) := flat_map (pairs_off n) (seq 1 (n - 1)).
Definition swap (p : nat * nat) : nat * nat := (snd p, fst p).
Definition node_pairs (directed : bool) (n : nat) : list (nat * nat) :=
  fwd_pairs n ++ (if directed then map swap (fwd_pairs n) else []).
Definition max_possible (directed : bool) (n : Z) : Z := if directed then n * (n - 1) else n * (n - 1) / 2.
Definition zpair (p : nat * nat) : edge := (Z.of_nat (fst p), Z.of_nat (snd p)).
(* the loop appends until len(edges_) >= actual_num_edges *)
Definition mock_edges (directed : bool) (n e : Z) : list edge :=
  map zpair (firstn (Z.to_nat (Z.min e (max_possible directed n))) (node_pairs directed (Z.to_nat n))).

(* extra properties *)
Definition gen_values (name dts : string) (count : nat) : res parr :=
  if negb (smem dts prop_dtype_names) then Err ValueError
  else match np_dtype dts with
       | None => Err TypeError
       | Some dt =>
           Ok (mk_arr dt count
                 (if String.eqb dts "str" then PNames name count
                  else if smem dts arange_dtype_names then PArange count
                  else PLin 1 10 count))
       end.

(* `reserved` = the names the function generates itself on that side (as repaired: a request for an
   extra property of such a name is rejected) *)
Definition extra_one (reserved : list string) (count : nat) (kv : pkey * pval) : res (string * parr) :=
  match fst kv with
  | KOther => Err ValueError
  | KStr name =>
      if smem name reserved then Err ValueError
      else
      match snd kv with
      | VDtype dts => match gen_values name dts count with Err e => Err e | Ok a => Ok (name, a) end
      | VArray dt len tail =>
          if Nat.eqb len count
          then Ok (name, {| a_dt := dt; a_len := len; a_tail := tail; a_payload := PGiven; a_missing := None |})
          else Err ValueError
      | VOther => Err ValueError
      | VObjArray elems =>
          if Nat.eqb (length elems) count
          then Ok (name, {| a_dt := DObj; a_len := length elems; a_tail := []; a_payload := PVarlen elems; a_missing := None |})
          else Err ValueError
      end
  end.

(* prop_dict = {"values": ..., "missing": None}; props[name] = prop_dict; create_props_metadata(name, prop_dict)
   (which replaces a float16 array inside prop_dict) *)
Fixpoint add_extras (reserved : list string) (count : nat) (items : list (pkey * pval)) (ps : props) (ms : list pmeta)
  : res (props * list pmeta) :=
  match items with
  | [] => Ok (ps, ms)
  | kv :: r =>
      match extra_one reserved count kv with
      | Err e => Err e
      | Ok (name, a) =>
          let a' := upcast_arr a in
          match create_props_metadata name a' None with
          | Err e => Err e
          | Ok m => add_extras reserved count r (dict_set name a' ps) (ms ++ [m])
          end
      end
  end.

Definition with_extras (ex : extras) (reserved : list string) (count : nat) (ps : props) (ms : list pmeta)
  : res (props * list pmeta) :=
  match ex with
  | ENone => Ok (ps, ms)
  | ENotDict => Err ValueError
  | EDict items => add_extras reserved count items ps ms
  end.

(* generated_node_props / generated_edge_props *)
Definition included_axes (t z y x : bool) : list string :=
  (if t then [s_t] else []) ++ (if z then [s_z] else []) ++ (if y then [s_y] else []) ++ (if x then [s_x] else []).
Definition generated_edge (missing : bool) : list string := if missing then [s_sparse_prop] else [].
Definition generated_node (t z y x varlen missing : bool) : list string :=
  included_axes t z y x ++ (if varlen then [s_var_length] else []) ++ (if missing then [s_sparse_prop] else []).

(* the variable-length property: element i is an (i, i, i) array of uint64 filled with i *)
Definition varlen_elem (i : nat) : varr :=
  {| v_dt := DU64; v_shape := [i; i; i]; v_flat := repeat (Z.of_nat i) (i * i * i) |}.
Definition varlen_prop (n : nat) : parr :=
  {| a_dt := DObj; a_len := n; a_tail := []; a_payload := PVarlen (map varlen_elem (seq 0 n));
     a_missing := Some (map (fun i => Nat.eqb i 0) (seq 0 n)) |}.
(* the sparse property: arange(k) as float64, every other entry (0, 2, ...) flagged missing *)
Definition sparse_prop (k : nat) : parr :=
  {| a_dt := DF64; a_len := k; a_tail := []; a_payload := PArange k; a_missing := Some (map Nat.even (seq 0 k)) |}.

(* the four optional axes, in the order t, z, y, x *)
Definition add_axes (p : params) (n : nat) : res nstate :=
  match add_axis_if (p_t p) n s_t s_time s_second (p_time p) (PTime n) ([], [], []) with Err e => Err e | Ok st1 =>
  match add_axis_if (p_z p) n s_z s_space s_nanometer (p_pos p) (PLin 5 1 n) st1 with Err e => Err e | Ok st2 =>
  match add_axis_if (p_y p) n s_y s_space s_nanometer (p_pos p) (PLin 1000 5000 n) st2 with Err e => Err e | Ok st3 =>
  add_axis_if (p_x p) n s_x s_space s_nanometer (p_pos p) (PLin 10 1 n) st3
  end end end.

(* if include_varlength: *)
Definition add_varlen (inc : bool) (n : nat) (ps : props) (ms : list pmeta) : res (props * list pmeta) :=
  if inc
  then match create_props_metadata s_var_length (varlen_prop n) None with
       | Err e => Err e
       | Ok m => Ok (dict_set s_var_length (varlen_prop n) ps, ms ++ [m])
       end
  else Ok (ps, ms).

(* if include_missing: one node property of node length, one edge property of edge length *)
Definition add_sparse (inc : bool) (n ne : nat) (nps : props) (nms : list pmeta) (eps : props) (ems : list pmeta)
  : res (props * list pmeta * props * list pmeta) :=
  if inc
  then match create_props_metadata s_sparse_prop (sparse_prop n) None with
       | Err e => Err e
       | Ok mn =>
           match create_props_metadata s_sparse_prop (sparse_prop ne) None with
           | Err e => Err e
           | Ok me => Ok (dict_set s_sparse_prop (sparse_prop n) nps, nms ++ [mn],
                          dict_set s_sparse_prop (sparse_prop ne) eps, ems ++ [me])
           end
       end
  else Ok (nps, nms, eps, ems).

Definition dummy (p : params) : res geff :=
  match np_dtype (p_id p) with
  | None => Err TypeError
  | Some iddt =>
      if is_integer iddt && (dt_max iddt + 1 <? p_n p) then Err ValueError
      else if negb (is_numeric iddt) then Err TypeError                 (* np.arange(n, dtype="str") *)
      else
        let n := Z.to_nat (p_n p) in
        match add_axes p n with Err e => Err e | Ok (np0, nm0, axes) =>
        let edges := mock_edges (p_directed p) (p_n p) (p_e p) in
        let ne := length edges in
        match with_extras (p_enp p) (generated_node (p_t p) (p_z p) (p_y p) (p_x p) (p_varlen p) (p_missing p)) n np0 nm0
        with Err e => Err e | Ok (np1, nm1) =>
        match with_extras (p_eep p) (generated_edge (p_missing p)) ne [] [] with Err e => Err e | Ok (ep1, em1) =>
        match add_varlen (p_varlen p) n np1 nm1 with Err e => Err e | Ok (np2, nm2) =>
        match add_sparse (p_missing p) n ne np2 nm2 ep1 em1 with Err e => Err e | Ok (np3, nm3, ep2, em2) =>
        Ok {| g_meta := {| m_directed := p_directed p; m_axes := axes;
                           m_nprops := add_or_update [] nm3; m_eprops := add_or_update [] em2 |};
              g_iddt := iddt; g_ids := map Z.of_nat (seq 0 n); g_edt := iddt; g_edges := edges;
              g_nprops := np3; g_eprops := ep2 |}
        end end end end end
  end.

(* ---------- write_arrays onto a fresh store ---------- *)
Record sprop := {
  sp_dt : dtype;                      (* dtype of the values array *)
  sp_len : nat; sp_tail : list nat;   (* its shape *)
  sp_payload : payload;               (* its content when the property is not variable-length *)
  sp_rows : list (list nat);          (* its content when it is: offset :: shape per element *)
  sp_missing : option (list bool);
  sp_data : option (dtype * list Z) (* the data array of a variable-length property *) }.
Definition sprops := list (string * sprop).
Record store := { s_meta : meta; s_iddt : dtype; s_ids : list Z; s_edt : dtype; s_edges : list edge;
                  s_nprops : sprops; s_eprops : sprops }.

(* write_props_arrays: metadata from the array, serialisation of variable-length values *)
Definition write_prop (kv : string * parr) : res (pmeta * (string * sprop)) :=
  let a := upcast_arr (snd kv) in
  match create_props_metadata (fst kv) a None with
  | Err e => Err e
  | Ok m =>
      match a_payload a with
      | PVarlen elems =>
          match serialize elems with
          | Err e => Err e
          | Ok (rows, data) =>
              Ok (m, (fst kv, {| sp_dt := DU64; sp_len := length rows;
                                 sp_tail := match rows with r :: _ => [length r] | [] => [] end;
                                 sp_payload := PGiven; sp_rows := rows; sp_missing := a_missing a;
                                 sp_data := Some (ser_dtype elems, data) |}))
          end
      | pl => Ok (m, (fst kv, {| sp_dt := a_dt a; sp_len := a_len a; sp_tail := a_tail a; sp_payload := pl;
                                 sp_rows := []; sp_missing := a_missing a; sp_data := None |}))
      end
  end.
Definition write_props (ps : props) : res (list pmeta * sprops) :=
  match mapM write_prop ps with
  | Err e => Err e
  | Ok l => Ok (map fst l, map snd l)
  end.

(* compute_and_add_axis_min_max *)
Definition axis_min_max (ps : props) (ax : axis) : res axis :=
  match assoc (ax_name ax) ps with
  | None => Err ValueError
  | Some a => Ok (if Nat.eqb (a_len a) 0 then ax
                  else {| ax_name := ax_name ax; ax_type := ax_type ax; ax_unit := ax_unit ax; ax_bounded := true |})
  end.

(* geff.validate.structure.validate_structure on what was written *)
(* (is_none comes from Vlen.v) *)
Definition find_meta (name : string) (l : list pmeta) : option pmeta :=
  find (fun m => String.eqb (pm_name m) name) l.
Definition check_prop (expected : nat) (metas : list pmeta) (kv : string * sprop) : bool :=
  match find_meta (fst kv) metas with
  | None => false                                          (* stored but not declared *)
  | Some m =>
      let sp := snd kv in
      (if pm_varlen m
       then match sp_data sp with
            | None => false
            | Some (ddt, _) => dtype_eqb (sp_dt sp) DU64 && dtype_eqb ddt (pm_dt m)
            end
       else dtype_eqb (sp_dt sp) (pm_dt m) && is_none (sp_data sp))
      && Nat.eqb (sp_len sp) expected
      && match sp_missing sp with None => true | Some ms => Nat.eqb (length ms) expected end
  end.
Definition validate_props (expected : nat) (metas : list pmeta) (ps : sprops) : bool :=
  forallb (fun m => smem (pm_name m) (map fst ps)) metas      (* declared but not stored *)
  && forallb (check_prop expected metas) ps.
Definition validate_axes (axes : list axis) (ps : sprops) : bool :=
  forallb (fun ax => match assoc (ax_name ax) ps with
                     | None => false
                     | Some sp => is_none (sp_missing sp) && match sp_tail sp with [] => true | _ => false end
                     end) axes.
Definition validate_structure (s : store) : res unit :=
  if is_integer (s_iddt s) && is_integer (s_edt s)
     && validate_props (length (s_ids s)) (m_nprops (s_meta s)) (s_nprops s)
     && validate_props (length (s_edges s)) (m_eprops (s_meta s)) (s_eprops s)
     && validate_axes (m_axes (s_meta s)) (s_nprops s)
  then Ok tt else Err ValueError.

Definition empty_axis_prop : parr := mk_arr DF64 0 (PArange 0).

(* "Create empty arrays for axis properties in an empty geff": assigns into the caller's node_props dict *)
Definition fill_empty_axes (g : geff) : props :=
  if Nat.eqb (length (g_ids g)) 0
  then fold_left (fun d ax => if smem (ax_name ax) (map fst d) then d else dict_set (ax_name ax) empty_axis_prop d)
                 (m_axes (g_meta g)) (g_nprops g)
  else g_nprops g.

Definition write_arrays (g : geff) : res store :=
  (* write_id_arrays *)
  if negb (dtype_eqb (g_iddt g) (g_edt g)) then Err TypeError
  else if negb (is_integer (g_iddt g)) then Err TypeError
  else
    let nps := fill_empty_axes g in
    match write_props nps with Err e => Err e | Ok (nmeta, nsp) =>
    match write_props (g_eprops g) with Err e => Err e | Ok (emeta, esp) =>
    match mapM (axis_min_max nps) (m_axes (g_meta g)) with Err e => Err e | Ok axes =>
    let md := {| m_directed := m_directed (g_meta g); m_axes := axes;
                 m_nprops := add_or_update (m_nprops (g_meta g)) nmeta;
                 m_eprops := add_or_update (m_eprops (g_meta g)) emeta |} in
    let st := {| s_meta := md; s_iddt := g_iddt g; s_ids := g_ids g; s_edt := g_edt g; s_edges := g_edges g;
                 s_nprops := nsp; s_eprops := esp |} in
    match validate_structure st with
    | Err e => Err e            (* "Cannot write invalid geff": the geff is deleted, ValueError re-raised *)
    | Ok _ => Ok st
    end
    end end end.

(* ---------- create_mock_geff and the wrappers ---------- *)
Definition mock (p : params) : res (store * geff) :=
  match dummy p with
  | Err e => Err e
  | Ok g =>
      match write_arrays g with
      | Err e => Err e
      | Ok st => Ok (st, {| g_meta := g_meta g; g_iddt := g_iddt g; g_ids := g_ids g; g_edt := g_edt g;
                            g_edges := g_edges g; g_nprops := fill_empty_axes g; g_eprops := g_eprops g |})
      end
  end.

Definition s_f64 := "float64"%string.
Definition simple_params (n e : Z) (directed z y x : bool) : params :=
  {| p_id := "uint"; p_pos := s_f64; p_time := s_f64; p_directed := directed; p_n := n; p_e := e;
     p_enp := ENone;
     p_eep := EDict [(KStr "score", VDtype s_f64); (KStr "color", VDtype "int")];
     p_t := true; p_z := z; p_y := y; p_x := x; p_varlen := false; p_missing := false |}.
Definition simple_2d (n e : Z) (directed : bool) := mock (simple_params n e directed false true true).
Definition simple_3d (n e : Z) (directed : bool) := mock (simple_params n e directed true true true).
Definition simple_temporal (n e : Z) (directed : bool) := mock (simple_params n e directed false false false).
Definition empty_params (directed : bool) : params :=
  {| p_id := "uint"; p_pos := s_f64; p_time := s_f64; p_directed := directed; p_n := 0; p_e := 0;
     p_enp := ENone; p_eep := ENone;
     p_t := false; p_z := false; p_y := false; p_x := false; p_varlen := false; p_missing := false |}.
Definition empty_geff (directed : bool) := mock (empty_params directed).

(* ---------- views: what a reader sees in the in-memory geff and in the store ---------- *)
Record pview := {
  pv_name : string; pv_dt : dtype; pv_varlen : bool; pv_len : nat; pv_tail : list nat;
  pv_missing : option (list bool);
  pv_vl : list (list nat * list Z);       (* decoded elements of a variable-length property *)
  pv_ints : option (list Z) }.            (* the values, where the model knows them exactly *)
Record gview := {
  gv_directed : bool; gv_axes : list axis; gv_nmeta : list pmeta; gv_emeta : list pmeta;
  gv_iddt : dtype; gv_ids : list Z; gv_edt : dtype; gv_edges : list edge;
  gv_nprops : list pview; gv_eprops : list pview }.

(* np.arange in a small integer dtype wraps around *)
Definition wrap (dt : dtype) (z : Z) : Z :=
  if is_integer dt then (z - dt_min dt) mod (dt_max dt - dt_min dt + 1) + dt_min dt else z.
Definition payload_ints (dt : dtype) (pl : payload) : option (list Z) :=
  match pl with
  | PArange n => Some (map (fun i => wrap dt (Z.of_nat i)) (seq 0 n))
  | PTime n => if is_numeric dt then Some (map (fun i => Z.of_nat i * 5 / Z.of_nat n + 1) (seq 0 n)) else None
  | _ => None
  end.

Definition parr_view (kv : string * parr) : pview :=
  let a := snd kv in
  match a_payload a with
  | PVarlen elems =>
      {| pv_name := fst kv; pv_dt := match elems with e :: _ => v_dt e | [] => DObj end; pv_varlen := true;
         pv_len := a_len a; pv_tail := a_tail a; pv_missing := a_missing a;
         pv_vl := map (fun e => (v_shape e, v_flat e)) elems; pv_ints := None |}
  | pl =>
      {| pv_name := fst kv; pv_dt := a_dt a; pv_varlen := false; pv_len := a_len a; pv_tail := a_tail a;
         pv_missing := a_missing a; pv_vl := []; pv_ints := payload_ints (a_dt a) pl |}
  end.

Definition sprop_view (kv : string * sprop) : pview :=
  let sp := snd kv in
  match sp_data sp with
  | Some (ddt, data) =>
      {| pv_name := fst kv; pv_dt := ddt; pv_varlen := true; pv_len := sp_len sp; pv_tail := [];
         pv_missing := sp_missing sp;
         pv_vl := match deserialize (sp_rows sp) data with Ok l => l | Err _ => [] end; pv_ints := None |}
  | None =>
      {| pv_name := fst kv; pv_dt := sp_dt sp; pv_varlen := false; pv_len := sp_len sp; pv_tail := sp_tail sp;
         pv_missing := sp_missing sp; pv_vl := []; pv_ints := payload_ints (sp_dt sp) (sp_payload sp) |}
  end.

Definition mem_view (g : geff) : gview :=
  {| gv_directed := m_directed (g_meta g); gv_axes := m_axes (g_meta g);
     gv_nmeta := m_nprops (g_meta g); gv_emeta := m_eprops (g_meta g);
     gv_iddt := g_iddt g; gv_ids := g_ids g; gv_edt := g_edt g; gv_edges := g_edges g;
     gv_nprops := map parr_view (g_nprops g); gv_eprops := map parr_view (g_eprops g) |}.

Definition store_view (s : store) : gview :=
  {| gv_directed := m_directed (s_meta s); gv_axes := m_axes (s_meta s);
     gv_nmeta := m_nprops (s_meta s); gv_emeta := m_eprops (s_meta s);
     gv_iddt := s_iddt s; gv_ids := s_ids s; gv_edt := s_edt s; gv_edges := s_edges s;
     gv_nprops := map sprop_view (s_nprops s); gv_eprops := map sprop_view (s_eprops s) |}.

(* the verdict of validate_data(graph=True) on a view (GraphVal.graph_check, C12) *)
Definition graph_valid (v : gview) : res unit :=
  match graph_check (gv_directed v) (gv_ids v) (gv_edges v) with None => Ok tt | Some _ => Err ValueError end.
