(* SylvesterLemmas.v -- the two booleans of the ellipsoid validator (GraphVal.symmetric,
   GraphVal.pos_def) against DECLARATIVE notions that do not mention determinants:

     sym_spec n m  :=  m[i][j] = m[j][i] for all i, j < n
     pd_spec  n m  :=  x^T m x > 0 for every non-zero integer vector x of length n

   The model works over exact integers (the covariance entries times one common scale;
   symmetry and positivity of the quadratic form are invariant under a positive scale).
   Positive definiteness over the INTEGER vectors is the same notion as over the rational
   and the real ones for an integer (rational) symmetric matrix:
     - integer <-> rational: x^T M x is homogeneous of degree 2; a rational vector times the
       common denominator d of its entries is an integer vector, and q(d x) = d^2 q(x);
     - rational <-> real: the LDL^T decomposition of a rational symmetric matrix is rational
       (it is what the proofs below use, multiplied through by the pivots), so q is a sum of
       squares with the pivots as coefficients over Q and over R alike.
   Only the integer statement is proved here (no Reals, no axioms).

   Proved: symmetric <-> sym_spec for every side n;  for a symmetric matrix,
   pos_def <-> pd_spec (Sylvester's criterion, both directions) for n = 0, 1, 2, 3.
   NOT proved: Sylvester's criterion for n >= 4 (GraphVal.det is a cofactor expansion; the
   general statement needs the LDL^T / Schur-complement induction over determinants, which is
   not developed here).  The matrices are `list (list Z)` read with `nth .. 0`, so a short or
   ragged matrix is read as if padded with zeros; the lemmas `det*_leading` show that det and
   leading read exactly the entries mat_get m i j (i, j < n), hence no well-shapedness
   hypothesis is needed. *)
From Coq Require Import ZArith Lia.
From Geff Require Import Base GraphVal.
Open Scope Z_scope.
Open Scope list_scope.

(* ---------- the declarative notions ---------- *)
Definition sym_spec (n : nat) (m : matrix) : Prop :=
  forall i j, (i < n)%nat -> (j < n)%nat -> mat_get m i j = mat_get m j i.

(* sum_{k<n} f k *)
Fixpoint zsum (f : nat -> Z) (n : nat) : Z :=
  match n with O => 0 | S k => zsum f k + f k end.

(* the quadratic form x^T m x = sum_{i<n} sum_{j<n} x_i * m_ij * x_j *)
Definition qform (n : nat) (m : matrix) (x : list Z) : Z :=
  zsum (fun i => zsum (fun j => nth i x 0 * mat_get m i j * nth j x 0) n) n.

Definition pd_spec (n : nat) (m : matrix) : Prop :=
  forall x, length x = n -> (exists i, nth i x 0 <> 0) -> 0 < qform n m x.

(* ---------- symmetric, every n ---------- *)
Lemma symmetric_iff n m : symmetric n m = true <-> sym_spec n m.
Proof.
  unfold symmetric, sym_spec. rewrite forallb_forall. split.
  - intros H i j Hi Hj.
    assert (Hr := H i). rewrite forallb_forall in Hr.
    apply Z.eqb_eq. apply Hr; apply in_seq; lia.
  - intros H i Hi. apply forallb_forall. intros j Hj.
    apply in_seq in Hi. apply in_seq in Hj. apply Z.eqb_eq. apply H; lia.
Qed.

(* ---------- det / leading read only the entries mat_get m i j, i, j < n ---------- *)
Lemma det1_leading m : det 1 (leading 1 m) = mat_get m 0 0.
Proof.
  unfold leading, mat_get.
  destruct m as [|[|a r0] m']; cbn [det map firstn nth seq alt_sum remove_nth]; ring.
Qed.

Lemma det2_leading m :
  det 2 (leading 2 m) = mat_get m 0 0 * mat_get m 1 1 - mat_get m 0 1 * mat_get m 1 0.
Proof.
  unfold leading, mat_get.
  destruct m as [|[|a [|b r0]] [|[|c [|d r1]] m']]; cbn [det map firstn nth seq alt_sum remove_nth]; ring.
Qed.

Lemma det3_leading m :
  det 3 (leading 3 m) =
    mat_get m 0 0 * (mat_get m 1 1 * mat_get m 2 2 - mat_get m 1 2 * mat_get m 2 1)
  - mat_get m 0 1 * (mat_get m 1 0 * mat_get m 2 2 - mat_get m 1 2 * mat_get m 2 0)
  + mat_get m 0 2 * (mat_get m 1 0 * mat_get m 2 1 - mat_get m 1 1 * mat_get m 2 0).
Proof.
  unfold leading, mat_get.
  destruct m as [|[|a [|b [|c r0]]] [|[|d [|e [|f r1]]] [|[|g [|h [|i r2]]] m']]]; cbn [det map firstn nth seq alt_sum remove_nth]; ring.
Qed.

(* pos_def as inequalities between the entries *)
Lemma pos_def_0 m : pos_def 0 m = true.
Proof. reflexivity. Qed.

Lemma pos_def_1_minors m : pos_def 1 m = true <-> 0 < mat_get m 0 0.
Proof.
  unfold pos_def. cbn [seq forallb]. rewrite andb_true_r, Z.ltb_lt, det1_leading. reflexivity.
Qed.

Lemma pos_def_2_minors m :
  pos_def 2 m = true <->
  0 < mat_get m 0 0 /\ 0 < mat_get m 0 0 * mat_get m 1 1 - mat_get m 0 1 * mat_get m 1 0.
Proof.
  unfold pos_def. cbn [seq forallb]. rewrite andb_true_r, andb_true_iff, !Z.ltb_lt, det1_leading, det2_leading.
  reflexivity.
Qed.

Lemma pos_def_3_minors m :
  pos_def 3 m = true <->
  0 < mat_get m 0 0 /\
  0 < mat_get m 0 0 * mat_get m 1 1 - mat_get m 0 1 * mat_get m 1 0 /\
  0 < mat_get m 0 0 * (mat_get m 1 1 * mat_get m 2 2 - mat_get m 1 2 * mat_get m 2 1)
    - mat_get m 0 1 * (mat_get m 1 0 * mat_get m 2 2 - mat_get m 1 2 * mat_get m 2 0)
    + mat_get m 0 2 * (mat_get m 1 0 * mat_get m 2 1 - mat_get m 1 1 * mat_get m 2 0).
Proof.
  unfold pos_def. cbn [seq forallb].
  rewrite andb_true_r, !andb_true_iff, !Z.ltb_lt, det1_leading, det2_leading, det3_leading.
  reflexivity.
Qed.

(* the quadratic form on explicit vectors *)
Lemma qform_1 m x1 : qform 1 m [x1] = x1 * mat_get m 0 0 * x1.
Proof. unfold qform. cbn [zsum nth]. ring. Qed.

Lemma qform_2 m x1 x2 :
  qform 2 m [x1; x2] =
  x1 * mat_get m 0 0 * x1 + x1 * mat_get m 0 1 * x2 + x2 * mat_get m 1 0 * x1 + x2 * mat_get m 1 1 * x2.
Proof. unfold qform. cbn [zsum nth]. ring. Qed.

Lemma qform_3 m x1 x2 x3 :
  qform 3 m [x1; x2; x3] =
    x1 * mat_get m 0 0 * x1 + x1 * mat_get m 0 1 * x2 + x1 * mat_get m 0 2 * x3
  + x2 * mat_get m 1 0 * x1 + x2 * mat_get m 1 1 * x2 + x2 * mat_get m 1 2 * x3
  + x3 * mat_get m 2 0 * x1 + x3 * mat_get m 2 1 * x2 + x3 * mat_get m 2 2 * x3.
Proof. unfold qform. cbn [zsum nth]. ring. Qed.

(* small facts about squares and signs, by hand (no search) *)
Lemma sq_nonneg z : 0 <= z * z.
Proof. apply Z.square_nonneg. Qed.
Lemma sq_pos z : z <> 0 -> 0 < z * z.
Proof. intros H. assert (H0 := Z.square_nonneg z). assert (z * z <> 0) by (intro E; apply Z.mul_eq_0 in E; tauto). lia. Qed.
Lemma pos_of_mul_pos a q : 0 < a -> 0 < a * q -> 0 < q.
Proof. intros Ha H. apply Z.mul_pos_cancel_l in H; assumption. Qed.

Lemma nonzero_vec_1 (x1 : Z) : (exists i, nth i [x1] 0 <> 0) -> x1 <> 0.
Proof. intros [[|[|i]] H]; cbn in H; congruence. Qed.
Lemma nonzero_vec_2 (x1 x2 : Z) : (exists i, nth i [x1; x2] 0 <> 0) -> x1 <> 0 \/ x2 <> 0.
Proof. intros [[|[|[|i]]] H]; cbn in H; auto; congruence. Qed.
Lemma nonzero_vec_3 (x1 x2 x3 : Z) : (exists i, nth i [x1; x2; x3] 0 <> 0) -> x1 <> 0 \/ x2 <> 0 \/ x3 <> 0.
Proof. intros [[|[|[|[|i]]]] H]; cbn in H; auto; congruence. Qed.

(* ---------- n = 0 ---------- *)
Lemma pd_spec_0 m : pd_spec 0 m.
Proof.
  intros x Hx [i Hi]. destruct x; [|discriminate]. destruct i; cbn in Hi; congruence.
Qed.

(* ---------- n = 1 ---------- *)
Lemma sylvester_1 m : pos_def 1 m = true <-> pd_spec 1 m.
Proof.
  rewrite pos_def_1_minors. split.
  - intros Ha x Hx Hnz. destruct x as [|x1 [|? ?]]; try discriminate.
    apply nonzero_vec_1 in Hnz. rewrite qform_1.
    assert (H := sq_pos x1 Hnz).
    replace (x1 * mat_get m 0 0 * x1) with (mat_get m 0 0 * (x1 * x1)) by ring.
    apply Z.mul_pos_pos; assumption.
  - intros H. specialize (H [1] eq_refl). rewrite qform_1 in H.
    assert (Hnz : exists i, nth i [1] 0 <> 0) by (exists 0%nat; cbn; lia).
    specialize (H Hnz). lia.
Qed.

(* ---------- n = 2: completing the square ---------- *)
(* a * (a x^2 + 2 b x y + c y^2) = (a x + b y)^2 + (a c - b^2) y^2 *)
Lemma square_2 a b c x y :
  a * (x * a * x + x * b * y + y * b * x + y * c * y) =
  (a * x + b * y) * (a * x + b * y) + (a * c - b * b) * (y * y).
Proof. ring. Qed.

Lemma sylvester_2 m : sym_spec 2 m -> (pos_def 2 m = true <-> pd_spec 2 m).
Proof.
  intros Hs. assert (Hb : mat_get m 1 0 = mat_get m 0 1) by (apply Hs; lia).
  rewrite pos_def_2_minors, Hb.
  set (a := mat_get m 0 0). set (b := mat_get m 0 1). set (c := mat_get m 1 1).
  split.
  - intros [Ha Hd] v Hv Hnz. destruct v as [|x [|y [|? ?]]]; try discriminate.
    apply nonzero_vec_2 in Hnz. rewrite qform_2, Hb. fold a b c.
    apply (pos_of_mul_pos a); [exact Ha|]. rewrite square_2.
    assert (H1 := sq_nonneg (a * x + b * y)).
    destruct (Z.eq_dec y 0) as [Hy|Hy].
    + subst y. destruct Hnz as [Hx|Hx]; [|congruence].
      assert (Hax : a * x + b * 0 <> 0).
      { intro E. replace (a * x + b * 0) with (a * x) in E by ring. apply Z.mul_eq_0 in E. lia. }
      assert (H2 := sq_pos _ Hax). lia.
    + assert (H2 := sq_pos y Hy).
      assert (H3 : 0 < (a * c - b * b) * (y * y)) by (apply Z.mul_pos_pos; assumption). lia.
  - intros H.
    assert (Ha : 0 < a).
    { assert (H1 := H [1; 0] eq_refl). rewrite qform_2, Hb in H1. fold a b c in H1.
      assert (Hnz : exists i, nth i [1; 0] 0 <> 0) by (exists 0%nat; cbn; lia).
      specialize (H1 Hnz). lia. }
    split; [exact Ha|].
    (* the vector (-b, a): q = a * (a c - b^2) *)
    assert (H2 := H [- b; a] eq_refl). rewrite qform_2, Hb in H2. fold a b c in H2.
    assert (Hnz : exists i, nth i [- b; a] 0 <> 0) by (exists 1%nat; cbn; lia).
    specialize (H2 Hnz).
    replace (- b * a * - b + - b * b * a + a * b * - b + a * c * a) with (a * (a * c - b * b)) in H2 by ring.
    apply (pos_of_mul_pos a); assumption.
Qed.

(* ---------- n = 3: LDL^T multiplied through by the pivots ---------- *)
(* with D2 = a d - b^2 and D3 = det [[a b c] [b d e] [c e f]]:
   a * D2 * q(x) = D2 * (a x1 + b x2 + c x3)^2 + (D2 x2 + (a e - b c) x3)^2 + a * D3 * x3^2 *)
Definition D2of (a b d : Z) : Z := a * d - b * b.
Definition D3of (a b c d e f : Z) : Z :=
  a * (d * f - e * e) - b * (b * f - e * c) + c * (b * e - d * c).
Definition q3 (a b c d e f x1 x2 x3 : Z) : Z :=
    x1 * a * x1 + x1 * b * x2 + x1 * c * x3
  + x2 * b * x1 + x2 * d * x2 + x2 * e * x3
  + x3 * c * x1 + x3 * e * x2 + x3 * f * x3.

Lemma square_3 a b c d e f x1 x2 x3 :
  a * D2of a b d * q3 a b c d e f x1 x2 x3 =
    D2of a b d * ((a * x1 + b * x2 + c * x3) * (a * x1 + b * x2 + c * x3))
  + (D2of a b d * x2 + (a * e - b * c) * x3) * (D2of a b d * x2 + (a * e - b * c) * x3)
  + a * D3of a b c d e f * (x3 * x3).
Proof. unfold D2of, D3of, q3. ring. Qed.

(* the third column of the adjugate, v = (b e - c d, b c - a e, a d - b^2): M v = (0, 0, D3) *)
Lemma adjugate_3 a b c d e f :
  q3 a b c d e f (b * e - c * d) (b * c - a * e) (D2of a b d) = D2of a b d * D3of a b c d e f.
Proof. unfold D2of, D3of, q3. ring. Qed.

Lemma q3_sound a b c d e f x1 x2 x3 :
  0 < a -> 0 < D2of a b d -> 0 < D3of a b c d e f ->
  x1 <> 0 \/ x2 <> 0 \/ x3 <> 0 -> 0 < q3 a b c d e f x1 x2 x3.
Proof.
  intros Ha H2 H3 Hnz.
  apply (pos_of_mul_pos (a * D2of a b d)); [apply Z.mul_pos_pos; assumption|].
  rewrite square_3.
  set (D2 := D2of a b d) in *. set (D3 := D3of a b c d e f) in *.
  set (s1 := a * x1 + b * x2 + c * x3). set (s2 := D2 * x2 + (a * e - b * c) * x3).
  assert (T1 : 0 <= D2 * (s1 * s1)) by (apply Z.mul_nonneg_nonneg; [lia | apply sq_nonneg]).
  assert (T2 : 0 <= s2 * s2) by apply sq_nonneg.
  assert (HaD3 : 0 < a * D3) by (apply Z.mul_pos_pos; assumption).
  assert (T3 : 0 <= a * D3 * (x3 * x3)) by (apply Z.mul_nonneg_nonneg; [lia | apply sq_nonneg]).
  destruct (Z.eq_dec x3 0) as [E3|E3].
  - destruct (Z.eq_dec x2 0) as [E2|E2].
    + (* x = (x1, 0, 0): the first square is a^2 x1^2 *)
      assert (E1 : x1 <> 0) by (destruct Hnz as [?|[?|?]]; congruence).
      assert (Hs1 : s1 <> 0).
      { unfold s1. rewrite E2, E3. replace (a * x1 + b * 0 + c * 0) with (a * x1) by ring.
        intro E. apply Z.mul_eq_0 in E. lia. }
      assert (0 < D2 * (s1 * s1)) by (apply Z.mul_pos_pos; [assumption | apply sq_pos; assumption]). lia.
    + (* x = (x1, x2, 0): the second square is D2^2 x2^2 *)
      assert (Hs2 : s2 <> 0).
      { unfold s2. rewrite E3. replace (D2 * x2 + (a * e - b * c) * 0) with (D2 * x2) by ring.
        intro E. apply Z.mul_eq_0 in E. lia. }
      assert (0 < s2 * s2) by (apply sq_pos; assumption). lia.
  - assert (0 < a * D3 * (x3 * x3)) by (apply Z.mul_pos_pos; [assumption | apply sq_pos; assumption]). lia.
Qed.

Lemma q3_complete a b c d e f :
  (forall x1 x2 x3, x1 <> 0 \/ x2 <> 0 \/ x3 <> 0 -> 0 < q3 a b c d e f x1 x2 x3) ->
  0 < a /\ 0 < D2of a b d /\ 0 < D3of a b c d e f.
Proof.
  intros H.
  assert (Ha : 0 < a).
  { assert (H1 := H 1 0 0). unfold q3 in H1. lia. }
  assert (H2 : 0 < D2of a b d).
  { assert (H1 := H (- b) a 0).
    assert (E : q3 a b c d e f (- b) a 0 = a * D2of a b d) by (unfold q3, D2of; ring).
    rewrite E in H1. apply (pos_of_mul_pos a); [assumption | apply H1; lia]. }
  repeat split; try assumption.
  assert (H1 := H (b * e - c * d) (b * c - a * e) (D2of a b d)).
  rewrite adjugate_3 in H1. apply (pos_of_mul_pos (D2of a b d)); [assumption | apply H1; lia].
Qed.

Lemma sylvester_3 m : sym_spec 3 m -> (pos_def 3 m = true <-> pd_spec 3 m).
Proof.
  intros Hs.
  assert (Hb : mat_get m 1 0 = mat_get m 0 1) by (apply Hs; lia).
  assert (Hc : mat_get m 2 0 = mat_get m 0 2) by (apply Hs; lia).
  assert (He : mat_get m 2 1 = mat_get m 1 2) by (apply Hs; lia).
  rewrite pos_def_3_minors, Hb, Hc, He.
  set (a := mat_get m 0 0). set (b := mat_get m 0 1). set (c := mat_get m 0 2).
  set (d := mat_get m 1 1). set (e := mat_get m 1 2). set (f := mat_get m 2 2).
  assert (Hq : forall x1 x2 x3, qform 3 m [x1; x2; x3] = q3 a b c d e f x1 x2 x3).
  { intros. rewrite qform_3, Hb, Hc, He. reflexivity. }
  assert (E2 : a * d - b * b = D2of a b d) by reflexivity.
  assert (E3 : a * (d * f - e * e) - b * (b * f - e * c) + c * (b * e - d * c) = D3of a b c d e f) by reflexivity.
  rewrite E2, E3. split.
  - intros [Ha [H2 H3]] v Hv Hnz. destruct v as [|x1 [|x2 [|x3 [|? ?]]]]; try discriminate.
    apply nonzero_vec_3 in Hnz. rewrite Hq. apply q3_sound; assumption.
  - intros H. apply q3_complete. intros x1 x2 x3 Hnz. rewrite <- Hq. apply H; [reflexivity|].
    destruct Hnz as [Hn|[Hn|Hn]]; [exists 0%nat | exists 1%nat | exists 2%nat]; exact Hn.
Qed.

(* ---------- n <= 3 together ---------- *)
Lemma sylvester_le3 n m : (n <= 3)%nat -> sym_spec n m -> (pos_def n m = true <-> pd_spec n m).
Proof.
  intros Hn Hs. destruct n as [|[|[|[|n]]]]; try lia.
  - split; [intros _; apply pd_spec_0 | intros _; apply pos_def_0].
  - apply sylvester_1.
  - apply sylvester_2; assumption.
  - apply sylvester_3; assumption.
Qed.

Lemma sym_pd_iff_le3 n m : (n <= 3)%nat ->
  (symmetric n m = true /\ pos_def n m = true <-> sym_spec n m /\ pd_spec n m).
Proof.
  intros Hn. rewrite symmetric_iff. split; intros [Hs Hp]; split; try assumption;
    apply (sylvester_le3 n m Hn Hs); assumption.
Qed.

(* the ellipsoid validator against the declarative notions, side <= 3 *)
Lemma ellipsoid_ok_spec spatial ndim r c mats miss : (r <= 3)%nat ->
  (ellipsoid_ok spatial ndim r c mats miss = true <->
   (0 < spatial)%nat /\ ndim = 3%nat /\ r = c /\ r = spatial /\
   Forall (fun m => sym_spec r m /\ pd_spec r m) (present miss mats)).
Proof.
  intros Hr. unfold ellipsoid_ok.
  rewrite !andb_true_iff, !Nat.eqb_eq, Nat.ltb_lt, forallb_forall, Forall_forall.
  split.
  - intros [[[[H1 H2] H3] H4] H5]. repeat split; auto;
      specialize (H5 x H); apply andb_true_iff in H5; apply (sym_pd_iff_le3 r x Hr) in H5; tauto.
  - intros [H1 [H2 [H3 [H4 H5]]]]. repeat split; auto. intros x Hx. apply andb_true_iff.
    apply (sym_pd_iff_le3 r x Hr). apply H5. exact Hx.
Qed.

(* ---------- the rows selected by the missing mask (audit finding 6) ----------
   values[~missing] in numpy needs one flag per row and raises IndexError otherwise; the model's
   keep_present is total and truncates to the shorter of the two lists (example below).  With one
   flag per row -- the only situation the harness generates and the only one a geff that passed
   structure validation can be in -- it is exactly "the rows whose flag is false, in order". *)
(* keep_present with one flag per row: exactly the rows whose flag is false, in order *)
Lemma keep_present_spec {A} (miss : list bool) (rows : list A) :
  length miss = length rows ->
  keep_present miss rows = map snd (filter (fun p => negb (fst p)) (combine miss rows)).
Proof.
  revert rows. induction miss as [|b ms IH]; intros [|r rs] H; try discriminate; [reflexivity|].
  cbn in H. injection H as H. cbn [keep_present combine filter fst]. destruct b; cbn [negb map snd]; rewrite IH by exact H; reflexivity.
Qed.
Lemma keep_present_In {A} (miss : list bool) (rows : list A) r :
  length miss = length rows ->
  (In r (keep_present miss rows) <-> exists i, nth_error miss i = Some false /\ nth_error rows i = Some r).
Proof.
  revert rows. induction miss as [|b ms IH]; intros [|x rs] H; try discriminate.
  - cbn. split; [tauto | intros [i [Hi _]]; destruct i; discriminate].
  - cbn in H. injection H as H. cbn [keep_present]. destruct b.
    + rewrite IH by exact H. split.
      * intros [i Hi]. exists (S i). exact Hi.
      * intros [[|i] [H1 H2]]; [cbn in H1; discriminate | exists i; split; assumption].
    + cbn [In]. rewrite IH by exact H. split.
      * intros [E|[i Hi]]; [exists 0%nat; subst; split; reflexivity | exists (S i); exact Hi].
      * intros [[|i] [H1 H2]]; [left; cbn in H2; congruence | right; exists i; split; assumption].
Qed.
(* the totalisation: a mask shorter than the rows silently drops the tail (numpy raises IndexError there) *)
Example keep_present_short : keep_present [false] [1%Z; 2%Z; 3%Z] = [1%Z].
Proof. reflexivity. Qed.
