(* C01Lemmas.v -- the full write-then-read statement assembled from the layout lemma (WriteLemmas),
   the reader on the layout (ReadLemmas) and the validator on the layout (ValidateLayout). *)
From Geff Require Import Base Dtype DtypeLemmas Vlen VlenLemmas Tree TreeLemmas Validate Write Read RoundTrip WriteLemmas ReadLemmas ValidateLayout.
From Geff.Gen Require Import Consts.
Open Scope string_scope.
Open Scope list_scope.

(* ---------- what final_metadata does to the fields the reader and the validator use ---------- *)
Lemma mapM_minmax_names nprops axes : forall axes',
  mapM (minmax_axis nprops) axes = Ok axes' -> map ax_name axes' = map ax_name axes.
Proof. induction axes as [|ax r IH]; intros axes' H; cbn in H.
  - inversion H. reflexivity.
  - destruct (minmax_axis nprops ax) as [ax'|] eqn:E; [|discriminate].
    destruct (mapM (minmax_axis nprops) r) as [r'|] eqn:Er; [|discriminate]. inversion H; subst. cbn.
    rewrite (IH r' eq_refl). f_equal.
    unfold minmax_axis in E. destruct (alookup (ax_name ax) nprops) as [p|]; [|discriminate].
    destruct (p_vals p) as [a|]; [|discriminate]. destruct (len0 a) as [[|n]|]; try discriminate.
    + inversion E; reflexivity.
    + destruct (axis_values p); [|discriminate]. destruct (zmin_list l), (zmax_list l); try discriminate.
      inversion E; reflexivity. Qed.

Lemma compute_minmax_fields md nprops md' :
  compute_minmax md nprops = Ok md' ->
  md_nprops md' = md_nprops md /\ md_eprops md' = md_eprops md /\ md_directed md' = md_directed md /\ md_tok md' = md_tok md /\
  option_map (map ax_name) (md_axes md') = option_map (map ax_name) (md_axes md).
Proof. unfold compute_minmax. destruct (md_axes md) as [axes|] eqn:Ea.
  - destruct (mapM (minmax_axis nprops) axes) as [axes'|] eqn:Em; [|discriminate]. intros H. inversion H; subst. cbn.
    rewrite (mapM_minmax_names _ _ _ Em). repeat split; reflexivity.
  - intros H. inversion H; subst. rewrite Ea. repeat split; reflexivity. Qed.

Lemma final_metadata_fields g md md' :
  final_metadata g md = Ok md' ->
  let nps := backfill (w_nids g) md (w_nprops g) in
  md_nprops md' = add_or_update (md_nprops md) (metas_of nps) /\
  md_eprops md' = add_or_update (md_eprops md) (metas_of (w_eprops g)) /\
  md_directed md' = md_directed md /\ md_tok md' = md_tok md /\
  option_map (map ax_name) (md_axes md') = option_map (map ax_name) (md_axes md).
Proof. unfold final_metadata. cbn zeta. intros H.
  destruct (backfill (w_nids g) md (w_nprops g)) as [ps|] eqn:Eb.
  - apply compute_minmax_fields in H. cbn in H. cbn [metas_of]. destruct (w_eprops g); exact H.
  - inversion H; subst. cbn. destruct (w_eprops g); repeat split; reflexivity. Qed.

(* ---------- well-formed writer input (the premise of C01) ---------- *)
Record wf_input (g : wgraph) (md : smeta) (n e : nat) : Prop := {
  wi_nshape : a_shape (w_nids g) = [n];
  wi_eshape : a_shape (w_eids g) = [e; 2%nat];
  wi_dtype  : a_dt (w_nids g) = a_dt (w_eids g);
  wi_int    : is_integer (a_dt (w_nids g)) = true;
  wi_nprops : wf_props n (backfill (w_nids g) md (w_nprops g));
  wi_eprops : wf_props e (w_eprops g);
  (* the caller's metadata names no property that is not written *)
  wi_nstale : forall k0, In k0 (akeys (md_nprops md)) -> In k0 (names_of (backfill (w_nids g) md (w_nprops g)));
  wi_estale : forall k0, In k0 (akeys (md_eprops md)) -> In k0 (names_of (w_eprops g));
  (* every declared axis names a 1-D node property without missing values *)
  wi_axes   : forall axes, md_axes md = Some axes ->
              exists ps, backfill (w_nids g) md (w_nprops g) = Some ps /\
              forall ax, In ax axes -> exists a n0, In (ax_name ax, mkprop (PFixed a) None) ps /\ a_shape a = [n0]
}.

Lemma axes_ok_of g md md' n e : wf_input g md n e -> final_metadata g md = Ok md' ->
  axes_ok md' (backfill (w_nids g) md (w_nprops g)).
Proof. intros Hwf Hfm axes' Hax'. destruct (final_metadata_fields _ _ _ Hfm) as [_ [_ [_ [_ Hnames]]]].
  rewrite Hax' in Hnames. destruct (md_axes md) as [axes|] eqn:Ea; [|discriminate]. cbn in Hnames.
  destruct (wi_axes _ _ _ _ Hwf axes Ea) as [ps [Hps Hall]]. exists ps. split; [exact Hps|].
  intros ax' Hin'. inversion Hnames as [Hn].
  assert (Hin : In (ax_name ax') (map ax_name axes)) by (rewrite <- Hn; apply in_map; exact Hin').
  apply in_map_iff in Hin. destruct Hin as [ax [Heq Hin]]. rewrite <- Heq. apply Hall. exact Hin. Qed.

(* ---------- the statement ---------- *)
Theorem write_then_read_layout k pre g md md' n e ov :
  clean k pre -> wf_input g md n e -> final_metadata g md = Ok md' ->
  let post := layout pre g (backfill (w_nids g) md (w_nprops g)) md' in
  (exists tr, write_arrays k g md true ov (init pre) = (mkst (Some post) tr, Ok tt)) /\
  validate_structure k (Some post) = Ok tt /\
  read_to_memory k (Some post) true None None
  = Ok (mkmg md' (w_nids g) (w_eids g)
             (up_props (backfill (w_nids g) md (w_nprops g))) (up_props (w_eprops g))).
Proof.
  intros Hc Hwf Hfm. cbn zeta. destruct (final_metadata_fields _ _ _ Hfm) as [Hmn [Hme _]].
  set (nps := backfill (w_nids g) md (w_nprops g)) in *.
  assert (Hcn : alookup path_NODES (base_children pre) = None /\ alookup path_EDGES (base_children pre) = None).
  { destruct pre as [[x|a0 ch0]|]; cbn [clean] in Hc; cbn; [contradiction | tauto | auto]. }
  destruct Hcn as [Hcn Hce].
  assert (Hval : validate_structure k (Some (layout pre g nps md')) = Ok tt).
  { eapply (validate_layout k pre g nps md md' n e); eauto using wi_nshape, wi_eshape, wi_dtype, wi_int, wi_nprops, wi_eprops, wi_nstale, wi_estale.
    eapply axes_ok_of; eauto. }
  split; [|split; [exact Hval|]].
  - apply (write_arrays_layout k pre g md md' true ov n Hc (wi_dtype _ _ _ _ Hwf) (wi_int _ _ _ _ Hwf)).
    + unfold len0. rewrite (wi_nshape _ _ _ _ Hwf). reflexivity.
    + apply (wf_props_ok n). exact (wi_nprops _ _ _ _ Hwf).
    + apply (wf_props_ok e). exact (wi_eprops _ _ _ _ Hwf).
    + exact Hfm.
    + intros _. exact Hval.
  - unfold read_to_memory, reader_init. rewrite Hval. cbn [rbind].
    pose proof (read_layout k pre g nps md md' n e Hcn Hce (wi_nprops _ _ _ _ Hwf) (wi_eprops _ _ _ _ Hwf) Hmn Hme
                  (wi_nstale _ _ _ _ Hwf) (wi_estale _ _ _ _ Hwf)) as Hr.
    unfold read_to_memory, reader_init in Hr. cbn [rbind] in Hr. exact Hr.
Qed.

Theorem write_then_read k pre g md md' n e ov :
  clean k pre -> wf_input g md n e -> final_metadata g md = Ok md' ->
  exists tr post,
    write_arrays k g md true ov (init pre) = (mkst (Some post) tr, Ok tt) /\
    validate_structure k (Some post) = Ok tt /\
    read_to_memory k (Some post) true None None
    = Ok (mkmg md' (w_nids g) (w_eids g)
               (up_props (backfill (w_nids g) md (w_nprops g))) (up_props (w_eprops g))).
Proof.
  intros Hc Hwf Hfm. destruct (write_then_read_layout k pre g md md' n e ov Hc Hwf Hfm) as [[tr Hw] [Hv Hr]].
  eexists. eexists. split; [exact Hw|]. split; [exact Hv | exact Hr].
Qed.
