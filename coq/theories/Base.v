(* Base.v -- shared vocabulary of every model: Python exceptions as an error
   monad, boolean equality helpers, and the mismatch counter used by the
   correspondence shards.  No property statements here. *)
From Coq Require Export List ZArith Bool String Ascii Lia.
Export ListNotations.
(* String is exported after List: make the unqualified names mean the list ones *)
Notation length := List.length (only parsing).
Notation concat := List.concat (only parsing).

Inductive exn := ValueError | FileExistsError | FileNotFoundError | TypeError
               | KeyError | IndexError | OSError | AssertionError | OtherExn.

Definition exn_eqb (a b : exn) : bool :=
  match a, b with
  | ValueError, ValueError | FileExistsError, FileExistsError
  | FileNotFoundError, FileNotFoundError | TypeError, TypeError
  | KeyError, KeyError | IndexError, IndexError | OSError, OSError
  | AssertionError, AssertionError | OtherExn, OtherExn => true
  | _, _ => false
  end.

Lemma exn_eqb_eq a b : exn_eqb a b = true <-> a = b.
Proof. destruct a, b; cbn; split; intro H; try reflexivity; try discriminate. Qed.

Inductive res (A : Type) := Ok (a : A) | Err (e : exn).
Arguments Ok {A} a.
Arguments Err {A} e.

Definition rbind {A B} (m : res A) (f : A -> res B) : res B :=
  match m with Ok a => f a | Err e => Err e end.
Definition rmap {A B} (f : A -> B) (m : res A) : res B :=
  match m with Ok a => Ok (f a) | Err e => Err e end.

Declare Scope res_scope.
Delimit Scope res_scope with res.
Notation "'let!' x ':=' m 'in' k" := (rbind m (fun x => k))
  (at level 200, x pattern, m at level 100, k at level 200) : res_scope.

Definition res_eqb {A} (eqb : A -> A -> bool) (a b : res A) : bool :=
  match a, b with
  | Ok x, Ok y => eqb x y
  | Err e, Err f => exn_eqb e f
  | _, _ => false
  end.

Definition is_ok {A} (r : res A) : bool := match r with Ok _ => true | Err _ => false end.

(* traverse a list with a fallible function, left to right, first error wins *)
Fixpoint mapM {A B} (f : A -> res B) (l : list A) : res (list B) :=
  match l with
  | [] => Ok []
  | x :: r => match f x with
              | Err e => Err e
              | Ok y => match mapM f r with Err e => Err e | Ok ys => Ok (y :: ys) end
              end
  end.

(* ---------- boolean equalities ---------- *)
Fixpoint list_eqb {A} (eqb : A -> A -> bool) (l1 l2 : list A) : bool :=
  match l1, l2 with
  | [], [] => true
  | x :: r1, y :: r2 => eqb x y && list_eqb eqb r1 r2
  | _, _ => false
  end.

Lemma list_eqb_eq {A} (eqb : A -> A -> bool) :
  (forall x y, eqb x y = true <-> x = y) ->
  forall l1 l2, list_eqb eqb l1 l2 = true <-> l1 = l2.
Proof.
  intros H l1. induction l1 as [|x r IH]; intros [|y r2]; cbn; split; intro E;
    try reflexivity; try discriminate.
  - apply andb_true_iff in E. destruct E as [E1 E2]. apply H in E1. apply IH in E2. subst. reflexivity.
  - inversion E; subst. apply andb_true_iff. split; [apply H; reflexivity | apply IH; reflexivity].
Qed.

Definition option_eqb {A} (eqb : A -> A -> bool) (a b : option A) : bool :=
  match a, b with
  | None, None => true
  | Some x, Some y => eqb x y
  | _, _ => false
  end.

Definition prod_eqb {A B} (ea : A -> A -> bool) (eb : B -> B -> bool) (a b : A * B) : bool :=
  ea (fst a) (fst b) && eb (snd a) (snd b).

Definition zlist_eqb := list_eqb Z.eqb.
Definition natlist_eqb := list_eqb Nat.eqb.
Definition boollist_eqb := list_eqb Bool.eqb.
Definition strlist_eqb := list_eqb String.eqb.

Lemma zlist_eqb_eq l1 l2 : zlist_eqb l1 l2 = true <-> l1 = l2.
Proof. apply list_eqb_eq. intros; apply Z.eqb_eq. Qed.
Lemma natlist_eqb_eq l1 l2 : natlist_eqb l1 l2 = true <-> l1 = l2.
Proof. apply list_eqb_eq. intros; apply Nat.eqb_eq. Qed.

(* membership *)
Definition zmem (x : Z) (l : list Z) : bool := existsb (Z.eqb x) l.
Lemma zmem_In x l : zmem x l = true <-> In x l.
Proof. unfold zmem. rewrite existsb_exists. split.
  - intros [y [Hy He]]. apply Z.eqb_eq in He. subst. exact Hy.
  - intros H. exists x. split; [exact H | apply Z.eqb_refl]. Qed.

Definition smem (x : string) (l : list string) : bool := existsb (String.eqb x) l.
Lemma smem_In x l : smem x l = true <-> In x l.
Proof. unfold smem. rewrite existsb_exists. split.
  - intros [y [Hy He]]. apply String.eqb_eq in He. subst. exact Hy.
  - intros H. exists x. split; [exact H | apply String.eqb_refl]. Qed.

(* ---------- correspondence support ---------- *)
(* indices (from i) of the cases on which chk is false *)
Fixpoint mism_from {A} (chk : A -> bool) (i : nat) (l : list A) : list nat :=
  match l with
  | [] => []
  | c :: r => if chk c then mism_from chk (S i) r else i :: mism_from chk (S i) r
  end.
Definition mism {A} (chk : A -> bool) (l : list A) : list nat := mism_from chk 0 l.

Lemma mism_nil_all {A} (chk : A -> bool) l : mism chk l = [] -> forall c, In c l -> chk c = true.
Proof.
  unfold mism. generalize 0. induction l as [|x r IH]; intros i H c Hc; [destruct Hc|].
  cbn in H. destruct (chk x) eqn:E; [|discriminate].
  destruct Hc as [<-|Hc]; [exact E | eapply IH; eauto].
Qed.
