(* BackendsMd.v -- NxBackend.write / RxBackend.write with EVERY call shape of their metadata arguments:
   a caller GeffMetadata (or None) and axis_names with the per-axis lists axis_units / axis_types /
   axis_scales / scaled_units / axis_offset (or None).  Backends.v models the shape metadata=None with
   bare axis names (fresh_md); this file adds geff_spec.utils.create_or_update_metadata and
   update_metadata_axes on the reduced metadata of the store models (Tree.smeta):

     create_or_update_metadata(metadata, directed)   deep copy with `directed` (and geff_version) overridden,
                                                     or a fresh object; the caller's axes / property entries /
                                                     everything else (one token) are kept
     update_metadata_axes(metadata, names, ...)      axes REPLACED by [Axis(name, type, unit, scale, scaled_unit,
                                                     offset)] without min / max; entry k of every list travels in
                                                     the opaque token of axis k (MetaBridge.abs_axis: i_axis);
                                                     the assignment is validated: duplicate names -> ValueError

   The full-object versions of the two helpers are Meta.create_or_update_metadata / Meta.update_metadata_axes
   (C07 / C10); BackendsMdLemmas.upd_axes_refines relates them through MetaBridge.abs.
   Model only; proofs in BackendsMdLemmas.v. *)
From Geff Require Import Base Dtype Vlen Tree Validate Write Read Dicts Backends.
Open Scope string_scope.
Open Scope list_scope.

(* create_or_update_metadata(metadata, is_directed)   (axes=None: both dict-based backends call it that way) *)
Definition cu_metadata (md : option smeta) (directed : bool) (mdtok : Z) : smeta :=
  match md with
  | Some m => mkmd directed (md_axes m) (md_nprops m) (md_eprops m) (md_tok m)
  | None => mkmd directed None [] [] mdtok
  end.

(* update_metadata_axes: one axis per (name, token of type/unit/scale/scaled_unit/offset), no min / max *)
Definition upd_axes (md : smeta) (axes : list (string * Z)) : res smeta :=
  if has_dup (map fst axes) then Err ValueError
  else Ok (mkmd (md_directed md) (Some (map (fun nt => mkax (fst nt) None None (snd nt)) axes))
                (md_nprops md) (md_eprops md) (md_tok md)).

(* the metadata a dict-based backend hands to write_dicts *)
Definition dict_md (md : option smeta) (directed : bool) (axes : option (list (string * Z))) (mdtok : Z) : res smeta :=
  let m := cu_metadata md directed mdtok in
  match axes with
  | None => Ok m
  | Some l => upd_axes m l
  end.

(* NxBackend.write(graph, store, metadata, axis_names, axis_units, axis_types, axis_scales, scaled_units, axis_offset) *)
Definition nx_write_md (k : skind) (directed : bool) (g : dgraph) (md : option smeta)
           (axes : option (list (string * Z))) (mdtok : Z) : M unit :=
  bind (lift (dict_md md directed axes mdtok)) (fun m =>
  write_dicts k g (keys_of (map snd (d_nodes g))) (keys_of (map snd (d_edges g))) m).

(* RxBackend.write(..., node_id_dict) *)
Definition rx_write_md (k : skind) (directed : bool) (g : dgraph) (idmap : option (list (Z * Z)))
           (md : option smeta) (axes : option (list (string * Z))) (mdtok : Z) : M unit :=
  bind (lift (dict_md md directed axes mdtok)) (fun m =>
  bind (lift (rx_target idmap g)) (fun g' =>
  write_dicts k g' (keys_of (map snd (d_nodes g'))) (keys_of (map snd (d_edges g'))) m)).

(* the axis list of Backends.fresh_md: bare names, every axis with the token of an axis without further fields *)
Definition bare_axes (axes : option (list string)) (axtok : Z) : option (list (string * Z)) :=
  option_map (map (fun n => (n, axtok))) axes.
