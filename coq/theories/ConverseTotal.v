(* ConverseTotal.v -- totality of the converse direction of C02: a conformant store whose variable-length offset rows point
   inside their data arrays IS READ (the reader returns a graph), and nothing else can make the read of a conformant store
   fail.  `offsets_in_range` is declarative: it mentions neither the reader nor the specification decoder. *)
From Coq Require Import Lia.
From Geff Require Import Base Dtype DtypeLemmas Vlen VlenLemmas Tree TreeLemmas Validate ValidateLemmas Write Read RoundTrip
     ReadMaskLemmas SpecDecode SpecLemmas SpecRange.
From Geff.Gen Require Import Consts.
Open Scope string_scope.
Open Scope list_scope.

(* ---------- one row ---------- *)
Lemma slice_elem_some data row : (exists x, slice_elem data row = Some x) <-> row_in_range (length data) row.
Proof.
  destruct row as [|off sh]; cbn [slice_elem row_in_range].
  - split; [intros [x H]; discriminate | intros []].
  - set (p := product (map Z.to_nat sh)). set (o := Z.to_nat off).
    assert (Hl : length (firstn p (skipn o data)) = Nat.min p (length data - o)) by (rewrite firstn_length, skipn_length; reflexivity).
    destruct (Nat.eqb (length (firstn p (skipn o data))) p) eqn:E.
    + apply Nat.eqb_eq in E. split; [intros _; lia | intros _; eexists; reflexivity].
    + apply Nat.eqb_neq in E. split; [intros [x H]; discriminate | intros H; exfalso; lia].
Qed.

Lemma all_some_forall {A B} (f : A -> option B) l :
  (exists r, all_some (map f l) = Some r) <-> Forall (fun x => exists y, f x = Some y) l.
Proof.
  induction l as [|x l IH]; cbn [map all_some].
  - split; [intros _; constructor | intros _; eexists; reflexivity].
  - destruct (f x) as [y|] eqn:Ef.
    + destruct (all_some (map f l)) as [ys|] eqn:Ea.
      * split; [intros _; constructor; [eexists; exact Ef | apply IH; eexists; reflexivity] | intros _; eexists; reflexivity].
      * split; [intros [r H]; discriminate|]. intros H. inversion H as [|? ? _ Hl]; subst.
        apply IH in Hl. destruct Hl as [r Hr]. discriminate.
    + split; [intros [r H]; discriminate|]. intros H. inversion H as [|? ? [y Hy] _]; subst. rewrite Ef in Hy. discriminate.
Qed.

(* ---------- one property group ---------- *)
Lemma decode_prop_some_iff len pm a ch :
  prop_conformant len pm (ZG a ch) ->
  (exists sp, decode_prop (ZG a ch) = Some sp) <-> prop_in_range (ZG a ch).
Proof.
  intros (a' & ch' & Heq & (v & Hv & (n & rest & Hsh & _) & Hvl) & Hm). inversion Heq; subst a' ch'; clear Heq.
  assert (Hmo : exists mo, alookup path_MISSING ch = option_map ZA mo).
  { destruct Hm as [Hn|[m0 [Hm0 _]]]; [exists None | exists (Some m0)]; assumption. }
  destruct Hmo as [mo Hmo].
  unfold prop_in_range, member. change "values" with path_VALUES. change "data" with path_DATA. rewrite Hv.
  destruct (pm_varlength pm).
  - destruct Hvl as (_ & _ & d & Hd & _). rewrite Hd.
    rewrite (decode_prop_eq a ch v mo (Some d) Hv Hmo Hd). unfold decode_from. rewrite Hsh.
    pose proof (all_some_forall (slice_elem (a_flat d)) (split_rows (product rest) n (a_flat v))) as Ha.
    split.
    + intros [sp Hsp].
      destruct (all_some (map (slice_elem (a_flat d)) (split_rows (product rest) n (a_flat v)))) as [els|] eqn:Ea; [|discriminate].
      assert (HF : Forall (fun x => exists y, slice_elem (a_flat d) x = Some y) (split_rows (product rest) n (a_flat v)))
        by (apply Ha; eexists; reflexivity).
      eapply Forall_impl; [|exact HF]. intros row Hrow. apply slice_elem_some. exact Hrow.
    + intros HF.
      assert (HF' : Forall (fun x => exists y, slice_elem (a_flat d) x = Some y) (split_rows (product rest) n (a_flat v))).
      { eapply Forall_impl; [|exact HF]. intros row Hrow. apply slice_elem_some. exact Hrow. }
      apply Ha in HF'. destruct HF' as [els Hels]. rewrite Hels. eexists; reflexivity.
  - destruct Hvl as [_ Hnd]. rewrite Hnd.
    rewrite (decode_prop_eq a ch v mo None Hv Hmo Hnd). unfold decode_from.
    split; [intros _; exact I | intros _; eexists; reflexivity].
Qed.

Lemma load_prop_total root grp name len pm a ch :
  get_path root [grp; path_PROPS; name] = Some (ZG a ch) -> prop_conformant len pm (ZG a ch) ->
  exists zp, read_prop root grp name = Ok zp /\
             ((exists p, load_prop zp None pm = Ok p) <-> prop_in_range (ZG a ch)).
Proof.
  intros Hget Hconf.
  destruct (prop_agree root grp name len pm a ch Hget Hconf) as [zp [Hr Hmatch]].
  exists zp. split; [exact Hr|].
  rewrite <- (decode_prop_some_iff len pm a ch Hconf).
  destruct (load_prop zp None pm) as [p|e]; destruct (decode_prop (ZG a ch)) as [sp|]; try contradiction.
  - split; intros _; eexists; reflexivity.
  - split; intros [x Hx]; discriminate.
Qed.

(* ---------- all property groups of one nodes / edges group ---------- *)
Lemma load_props_total root grp len pmd : forall pc,
  (forall name node, In (name, node) pc -> exists pm, alookup name pmd = Some pm /\ prop_conformant len pm node) ->
  (forall name node, In (name, node) pc -> get_path root [grp; path_PROPS; name] = Some node) ->
  (exists zs, mapM (read_prop root grp) (akeys pc) = Ok zs) /\
  ((exists ps, load_props root grp (akeys pc) pmd None = Ok ps) <-> (forall name node, In (name, node) pc -> prop_in_range node)).
Proof.
  unfold load_props. induction pc as [|[name node] pc IH]; intros Hconf Hget; cbn [akeys map mapM].
  - split; [eexists; reflexivity|]. split; [intros _ ? ? [] | intros _; eexists; reflexivity].
  - destruct (Hconf name node (or_introl eq_refl)) as [pm [Hl Hc]].
    pose proof Hc as Hc'. destruct Hc' as (a & ch & -> & _).
    destruct (load_prop_total root grp name len pm a ch (Hget name _ (or_introl eq_refl)) Hc) as [zp [Hr Hiff]].
    destruct IH as [[zs Hzs] IHl].
    { intros n0 nd0 Hin. apply Hconf. right. exact Hin. }
    { intros n0 nd0 Hin. apply Hget. right. exact Hin. }
    cbn [fst]. rewrite Hr. cbn [rbind]. split.
    + fold (akeys pc). rewrite Hzs. eexists; reflexivity.
    + rewrite Hl. fold (akeys pc) in *. split.
      * intros [ps Hps] n0 nd0 [E|Hin].
        -- inversion E; subst n0 nd0. apply Hiff.
           destruct (load_prop zp None pm) as [p|e]; [eexists; reflexivity | discriminate].
        -- refine (proj1 IHl _ n0 nd0 Hin).
           destruct (load_prop zp None pm) as [p|e]; [|discriminate]. cbn [rbind] in Hps.
           match type of Hps with match ?m with _ => _ end = _ => destruct m as [ps'|e] eqn:Em; [|discriminate] end.
           eexists; reflexivity.
      * intros Hall.
        destruct (proj2 Hiff (Hall name _ (or_introl eq_refl))) as [p Hp]. rewrite Hp. cbn [rbind].
        destruct (proj2 IHl (fun n0 nd0 Hin => Hall n0 nd0 (or_intror Hin))) as [ps' Hps']. rewrite Hps'.
        eexists; reflexivity.
Qed.

Lemma group_total root grp (md_props : list (string * pmeta)) len ga gch :
  unique_members root -> grp = path_NODES \/ grp = path_EDGES -> get root grp = Some (ZG ga gch) ->
  match alookup path_PROPS gch with
  | None => md_props = []
  | Some pg => is_group pg = true /\ props_conformant len md_props pg
  end ->
  exists names, prop_names root grp = Ok names /\
    (exists zs, mapM (read_prop root grp) names = Ok zs) /\
    ((exists ps, load_props root grp names md_props None = Ok ps) <-> group_in_range (ZG ga gch)).
Proof.
  intros Huniq Hgrp0 Hg Hconf.
  unfold prop_names, expect_group. rewrite Hg. cbn [rbind].
  unfold group_in_range, member. change "props" with path_PROPS.
  unfold get. cbn [children].
  destruct (alookup path_PROPS gch) as [pg|] eqn:Ep.
  - destruct Hconf as [Hgrp [Hkeys Hall]]. destruct pg as [x|pa pc]; [discriminate|].
    assert (Hallg : forall kv, In kv pc -> is_group (snd kv) = true).
    { intros [n0 nd0] Hin. destruct (Hall n0 nd0 Hin) as [pm [_ (a & ch & -> & _)]]. reflexivity. }
    cbn [children]. rewrite (ReadLemmas.filter_all _ pc Hallg).
    assert (Hnd : NoDup (akeys pc)).
    { apply (Huniq grp (ZG ga gch) (ZG pa pc) Hgrp0 Hg). unfold get. cbn [children]. exact Ep. }
    destruct (load_props_total root grp len md_props pc) as [Hz Hiff].
    + intros n0 nd0 Hin. apply Hall. exact Hin.
    + intros n0 nd0 Hin. cbn [get_path]. rewrite Hg. unfold get at 1. cbn [children]. rewrite Ep.
      unfold get. cbn [children]. rewrite (alookup_in_nodup n0 nd0 pc Hnd Hin). reflexivity.
    + eexists. split; [reflexivity|]. split; [exact Hz|].
      fold (akeys pc). rewrite Hiff. cbn [children]. split.
      * intros H pg name node E Hin. inversion E; subst pg. cbn [children] in Hin. eapply H; exact Hin.
      * intros H name node Hin. eapply (H (ZG pa pc)); [reflexivity | exact Hin].
  - eexists. split; [reflexivity|]. split; [eexists; reflexivity|].
    split; [intros _ pg name node E; discriminate | intros _; eexists; reflexivity].
Qed.

(* ---------- the whole store ---------- *)
Theorem read_total_iff k root :
  unique_members root -> conformant root ->
  ((exists g, read_to_memory k (Some root) true None None = Ok g) <-> offsets_in_range root).
Proof.
  intros Huniq Hc.
  pose proof (proj2 (validate_iff k root) Hc) as Ev.
  destruct Hc as (md & Hmd & na & nch & ea & ech & nids & eids & Hng & Heg & Hni & Hei & _ & _ & _ & _ & Hnp & Hep & _).
  unfold read_to_memory, reader_init. rewrite Ev. cbn [rbind].
  destruct root as [x|ra rch]; [cbn in Hng; discriminate|]. cbn [open_storelike rbind].
  unfold read_metadata. rewrite Hmd. cbn [rbind].
  cbn [get_path]. rewrite Hng, Heg. unfold get at 1 2. cbn [children]. rewrite Hni, Hei. cbn [rbind].
  destruct (group_total _ path_NODES (md_nprops md) (hd 0%nat (a_shape nids)) na nch Huniq (or_introl eq_refl) Hng Hnp)
    as (nn & Hnn & [zn Hzn] & Hnl).
  destruct (group_total _ path_EDGES (md_eprops md) (hd 0%nat (a_shape eids)) ea ech Huniq (or_intror eq_refl) Heg Hep)
    as (en & Hen & [ze Hze] & Hel).
  rewrite Hnn, Hen. cbn [rbind].
  unfold build. cbn [rd_nnames rd_enames rd_root rd_md rd_nids rd_eids mask_rows].
  rewrite Hzn, Hze. cbn [rbind].
  unfold offsets_in_range. split.
  - intros [g Hg] grp g0 [->| ->] Hget.
    + rewrite Hng in Hget. inversion Hget; subst g0. apply Hnl.
      destruct (load_props (ZG ra rch) path_NODES nn (md_nprops md) None) as [nps|e]; [eexists; reflexivity | discriminate].
    + rewrite Heg in Hget. inversion Hget; subst g0. apply Hel.
      destruct (load_props (ZG ra rch) path_NODES nn (md_nprops md) None) as [nps|e]; [|discriminate]. cbn [rbind] in Hg.
      destruct (load_props (ZG ra rch) path_EDGES en (md_eprops md) None) as [eps|e]; [eexists; reflexivity | discriminate].
  - intros H.
    destruct (proj2 Hnl (H path_NODES _ (or_introl eq_refl) Hng)) as [nps Hnps].
    destruct (proj2 Hel (H path_EDGES _ (or_intror eq_refl) Heg)) as [eps Heps].
    rewrite Hnps. cbn [rbind]. rewrite Heps. cbn [rbind]. eexists; reflexivity.
Qed.

(* conformant + offsets in range: the store is read, and what is read is the graph the specification says it denotes *)
Theorem conformant_is_read k root :
  unique_members root -> conformant root -> offsets_in_range root ->
  exists g sg, read_to_memory k (Some root) true None None = Ok g /\
               spec_decode root = Some sg /\ sgraph_eqb sg (of_mgraph g) = true.
Proof.
  intros Hu Hc Hr. destruct (proj2 (read_total_iff k root Hu Hc) Hr) as [g Hg].
  destruct (read_is_spec_decode k root g Hu Hg) as [sg [Hs He]].
  exists g, sg. repeat split; assumption.
Qed.

(* ---------- the boolean reading evaluated by the correspondence check ---------- *)
Lemma row_in_range_b_iff len row : row_in_range_b len row = true <-> row_in_range len row.
Proof.
  destruct row as [|off sh]; cbn [row_in_range_b row_in_range]; [split; [discriminate | intros []]|].
  rewrite Bool.orb_true_iff, Nat.eqb_eq, Nat.leb_le. reflexivity.
Qed.

Lemma prop_in_range_b_iff pg : prop_in_range_b pg = true <-> prop_in_range pg.
Proof.
  unfold prop_in_range_b, prop_in_range.
  destruct (member pg "values") as [[v|? ?]|]; try (split; auto; fail).
  destruct (member pg "data") as [[d|? ?]|]; try (split; auto; fail).
  destruct (a_shape v) as [|n rest]; [split; auto|].
  rewrite forallb_forall, Forall_forall. split; intros H x Hx; apply row_in_range_b_iff; apply H; exact Hx.
Qed.

Lemma group_in_range_b_iff g : group_in_range_b g = true <-> group_in_range g.
Proof.
  unfold group_in_range_b, group_in_range.
  destruct (member g "props") as [pg|].
  - rewrite forallb_forall. split.
    + intros H pg' name node E Hin. inversion E; subst pg'. apply prop_in_range_b_iff. exact (H (name, node) Hin).
    + intros H [name node] Hin. apply prop_in_range_b_iff. exact (H pg name node eq_refl Hin).
  - split; [intros _ pg name node E; discriminate | reflexivity].
Qed.

Theorem offsets_in_range_b_iff root : offsets_in_range_b root = true <-> offsets_in_range root.
Proof.
  unfold offsets_in_range_b, offsets_in_range. cbn [forallb]. rewrite !Bool.andb_true_iff. split.
  - intros [Hn [He _]] grp g [->| ->] Hget; rewrite Hget in *; apply group_in_range_b_iff; assumption.
  - intros H. repeat split.
    + destruct (get root path_NODES) as [g|] eqn:E; [|reflexivity]. apply group_in_range_b_iff. exact (H _ g (or_introl eq_refl) E).
    + destruct (get root path_EDGES) as [g|] eqn:E; [|reflexivity]. apply group_in_range_b_iff. exact (H _ g (or_intror eq_refl) E).
Qed.

(* ---------- the forward direction with no success premise (WriteTotal.final_metadata_total) ---------- *)
From Geff Require Import WriteLemmas ReadLemmas C01Lemmas WriteTotal.
Theorem forward_total k pre g md n e ov :
  clean k pre -> wf_input g md n e -> axes_have_data g md ->
  exists md' tr post sg,
    final_metadata g md = Ok md' /\
    write_arrays k g md true ov (init pre) = (mkst (Some post) tr, Ok tt) /\
    validate_structure k (Some post) = Ok tt /\
    spec_decode post = Some sg /\
    sgraph_eqb sg (mksg (w_nids g) (w_eids g)
                        (of_props (up_props (backfill (w_nids g) md (w_nprops g))))
                        (of_props (up_props (w_eprops g)))) = true.
Proof.
  intros Hc Hwf Hd. destruct (final_metadata_total g md n e Hwf Hd) as [md' Hfm].
  destruct (write_then_spec_decode k pre g md md' n e ov Hc Hwf Hfm) as (tr & post & sg & H1 & H2 & H3 & H4).
  exists md', tr, post, sg. repeat split; assumption.
Qed.
