(* MetaDomainLemmas.v -- the boolean validity domain of C08 (MetaJson.inv_md) is closed under every
   operation of C07 (Meta.step): an object reached by ANY sequence of constructions, assignments, copies
   and utils.py helper calls is in inv_md as soon as it holds no non-finite float.
     inv_struct m     inv_md without its two finiteness conjuncts (axis numbers, `extra`)
     inv_md m = inv_struct m && md_finite m
     step preserves inv_struct (every operation, every pool)
   (audit C08 G1 / overall finding 25: C08_domain_complete covered direct outputs of `construct` only.) *)
From Geff Require Import Base Meta MetaLemmas Json Schema MetaJson MetaJsonLemmas.
From Geff.Gen Require Import Consts.
Open Scope string_scope.
Open Scope Z_scope.
Open Scope list_scope.

Definition axis_okS (a : axis) : bool :=
  match ax_type a with Some t => smem t valid_axis_types | None => true end && is_ok (axis_after a).

Definition pms_ok (d : pmdict) : bool := forallb (fun kv => pm_okb (snd kv)) d.

Definition inv_struct (m : metadata) : bool :=
  version_ok (md_version m)
  && forallb axis_okS (olistb (md_axes m))
  && pms_ok (md_node_props m)
  && pms_ok (md_edge_props m)
  && forallb (fun kv => smem (fst kv) track_keys) (olistb (md_track m))
  && forallb related_okb (olistb (md_related m))
  && md_after_ok m.

Lemma axis_ok_split a : axis_ok a = axis_okS a && axis_finite a.
Proof.
  unfold axis_ok, axis_okS, axis_finite.
  destruct (match ax_type a with Some t => smem t valid_axis_types | None => true end), (is_ok (axis_after a)),
    (optfl_finite (ax_min a)), (optfl_finite (ax_max a)), (optfl_finite (ax_scale a)), (optfl_finite (ax_offset a)); reflexivity.
Qed.

Lemma forallb_andb {A} (f g : A -> bool) l : forallb (fun x => f x && g x) l = forallb f l && forallb g l.
Proof.
  induction l as [|x r IH]; cbn; [reflexivity|]. rewrite IH.
  destruct (f x), (g x), (forallb f r), (forallb g r); reflexivity.
Qed.

Lemma forallb_ext' {A} (f g : A -> bool) l : (forall x, f x = g x) -> forallb f l = forallb g l.
Proof. intros H. induction l as [|x r IH]; cbn; [reflexivity|]. rewrite H, IH. reflexivity. Qed.

(* the domain of C08 = the structural part (closed under the operations) and finiteness *)
Lemma inv_md_split m : inv_md m = inv_struct m && md_finite m.
Proof.
  unfold inv_md, inv_struct, md_finite, pms_ok.
  rewrite (forallb_ext' axis_ok (fun a => axis_okS a && axis_finite a) _ axis_ok_split), forallb_andb.
  destruct (version_ok (md_version m)), (forallb axis_okS (olistb (md_axes m))), (forallb axis_finite (olistb (md_axes m))),
    (forallb (fun kv => pm_okb (snd kv)) (md_node_props m)), (forallb (fun kv => pm_okb (snd kv)) (md_edge_props m)),
    (forallb (fun kv => smem (fst kv) track_keys) (olistb (md_track m))), (forallb related_okb (olistb (md_related m))),
    (md_after_ok m), (jfinite (JObj (md_extra m))); reflexivity.
Qed.

Lemma inv_md_iff m : inv_md m = true <-> inv_struct m = true /\ md_finite m = true.
Proof. rewrite inv_md_split. apply andb_true_iff. Qed.

Ltac split_struct H :=
  unfold inv_struct in H;
  repeat (apply andb_true_iff in H; let K := fresh "K" in destruct H as [H K]).

(* ------------------------------------------------------------------ the structural part implies the invariants of C07 *)
Lemma inv_struct_InvW m : inv_struct m = true -> InvW m.
Proof.
  intros H. split_struct H. split.
  - split; [apply version_ok_iff; exact H|].
    split.
    { destruct (md_axes m) as [l|]; [|constructor]. cbn [olist olistb] in *. apply Forall_forall. intros a Ha.
      pose proof (forallb_In _ _ _ K4 Ha) as Hk. unfold axis_okS in Hk.
      apply andb_true_iff in Hk. destruct Hk as [_ Hk].
      destruct (axis_after a) as [a'|] eqn:E; [|discriminate]. apply axis_after_iff in E. apply E. }
    split.
    { apply Forall_forall. intros kv Hin. pose proof (forallb_In _ _ _ K3 Hin) as Hk. unfold pm_okb in Hk.
      apply andb_true_iff in Hk. destruct Hk as [_ Hk]. apply smem_In. exact Hk. }
    split.
    { apply Forall_forall. intros kv Hin. pose proof (forallb_In _ _ _ K2 Hin) as Hk. unfold pm_okb in Hk.
      apply andb_true_iff in Hk. destruct Hk as [_ Hk]. apply smem_In. exact Hk. }
    destruct (md_related m) as [l|]; [|constructor]. cbn [olist olistb] in *. apply Forall_forall. intros r Hr.
    pose proof (forallb_In _ _ _ K0 Hr) as Hk. unfold related_okb in Hk.
    destruct (related_after r) as [r'|] eqn:E; [|discriminate]. apply related_after_iff in E. apply E.
  - apply md_after_ok_iff. exact K.
Qed.

(* ------------------------------------------------------------------ what the field validators establish *)
Lemma axis_of_jv_okS v a : axis_of_jv v = Ok a -> axis_okS a = true.
Proof.
  unfold axis_of_jv. destruct v; try discriminate. intros H.
  destruct (axis_fields kvs) as [a0|] eqn:E; cbn [rbind] in H; [|discriminate].
  pose proof H as H'. apply axis_after_iff in H'. destruct H' as [-> _].
  unfold axis_fields in E. bind_inv E. inversion E; subst. clear E.
  unfold axis_okS. cbn [ax_type]. rewrite (v_opt_literal_ok _ _ _ E1), H. reflexivity.
Qed.

Lemma v_opt_axes_okS x o : v_opt (v_list axis_of_jv) x = Ok o -> forallb axis_okS (olistb o) = true.
Proof. apply v_opt_list_ok. apply axis_of_jv_okS. Qed.

Lemma v_version_ok v s : v_version v = Ok s -> version_ok s = true.
Proof.
  unfold v_version. destruct v; try discriminate. destruct (version_ok s0) eqn:E; [|discriminate].
  intros H. inversion H; subst. exact E.
Qed.

Lemma v_pmdict_pms v d : v_pmdict v = Ok d -> pms_ok d = true.
Proof. apply v_pmdict_ok. Qed.

(* construction / parsing *)
Lemma construct_struct gv v m : version_ok gv = true -> construct gv v = Ok m -> inv_struct m = true.
Proof.
  intros Hg H. unfold construct in H. destruct v; try discriminate.
  destruct (md_fields gv kvs) as [m0|] eqn:E; cbn [rbind] in H; [|discriminate].
  pose proof H as H'. apply md_after_iff in H'. destruct H' as [-> _].
  unfold md_after in H. destruct (md_after_ok m0) eqn:Ea; [|discriminate]. clear H.
  unfold md_fields in E. bind_inv E. inversion E; subst. clear E.
  unfold inv_struct, pms_ok. cbn [md_version md_axes md_node_props md_edge_props md_track md_related].
  rewrite Ea.
  assert (Hv : version_ok x = true).
  { unfold v_default in E0. destruct (jget "geff_version" kvs) as [vv|]; [|inversion E0; subst; exact Hg].
    eapply v_version_ok. exact E0. }
  rewrite Hv, (v_req_pmdict_ok _ _ E3), (v_req_pmdict_ok _ _ E4), (v_opt_track_ok _ _ E7).
  rewrite (v_opt_list_ok related_of_jv related_okb _ _ related_of_jv_ok E8).
  rewrite (v_opt_axes_okS _ _ E2). reflexivity.
Qed.

(* one field replaced by a validated value; the cross-field check is md_after_ok of the result *)
Lemma set_field_struct m f v m1 :
  inv_struct m = true -> set_field m f v = Ok m1 -> md_after_ok m1 = true -> inv_struct m1 = true.
Proof.
  intros Hm H Ha. split_struct Hm.
  destruct f; cbn [set_field] in H;
    match type of H with
    | rmap _ ?e = Ok _ => destruct e as [x|] eqn:E; cbn [rmap] in H; [|discriminate]; inversion H; subst; clear H
    | _ => discriminate
    end;
    unfold inv_struct; cbn [md_version md_axes md_node_props md_edge_props md_track md_related] in *;
    rewrite Ha; repeat (apply and_split); try assumption; try reflexivity.
  - eapply v_version_ok. exact E.
  - eapply v_opt_axes_okS. exact E.
  - eapply v_pmdict_pms. exact E.
  - eapply v_pmdict_pms. exact E.
  - eapply v_opt_track_ok. exact E.
  - eapply (v_opt_list_ok related_of_jv related_okb); [apply related_of_jv_ok | exact E].
Qed.

Lemma assign_struct m f v : inv_struct m = true -> inv_struct (fst (assign m f v)) = true.
Proof.
  intros Hm. rewrite assign_spec. destruct (set_field m f v) as [m1|] eqn:E; [|exact Hm].
  destruct (md_after_ok m1) eqn:Ea; [|exact Hm]. cbn [fst]. eapply set_field_struct; eassumption.
Qed.

Lemma assign_res_struct m f v m' : inv_struct m = true -> assign_res m f v = Ok m' -> inv_struct m' = true.
Proof.
  unfold assign_res. intros Hm H. pose proof (assign_struct m f v Hm) as Hi.
  destruct (snd (assign m f v)); [|discriminate]. inversion H; subst. exact Hi.
Qed.

(* ------------------------------------------------------------------ helpers of utils.py *)
Lemma axis_at_okS ls i n a : axis_at ls i n = Ok a -> axis_okS a = true.
Proof. unfold axis_at. intros H. bind_inv H. eapply axis_of_jv_okS. exact H. Qed.

Lemma axes_loop_okS ls names : forall i l, axes_loop ls i names = Ok l -> forallb axis_okS l = true.
Proof.
  induction names as [|n r IH]; intros i l H; cbn in H.
  - inversion H. reflexivity.
  - destruct (axis_at ls i n) as [a|] eqn:Ea; [|discriminate].
    destruct (axes_loop ls (S i) r) as [l0|] eqn:El; [|discriminate]. inversion H; subst.
    cbn. rewrite (axis_at_okS _ _ _ _ Ea), (IH _ _ El). reflexivity.
Qed.

Lemma axes_from_lists_okS ls l : axes_from_lists ls = Ok l -> forallb axis_okS l = true.
Proof.
  unfold axes_from_lists. destruct (al_names ls) as [names|]; [|intros H; inversion H; reflexivity].
  repeat match goal with |- (if ?c then _ else _) = _ -> _ => destruct c; [discriminate|] end.
  apply axes_loop_okS.
Qed.

Lemma update_metadata_axes_struct m ls m' : inv_struct m = true -> update_metadata_axes m ls = Ok m' -> inv_struct m' = true.
Proof.
  intros Hm H. unfold update_metadata_axes in H.
  destruct (axes_from_lists _) as [l|] eqn:El; [|discriminate]. cbn [rbind] in H.
  unfold md_after in H. destruct (md_after_ok (set_axes_objs m l)) eqn:Ea; [|discriminate]. inversion H; subst. clear H.
  split_struct Hm. unfold inv_struct, set_axes_objs in *. cbn [md_version md_axes md_node_props md_edge_props md_track md_related olistb] in *.
  rewrite Ea, (axes_from_lists_okS _ _ El). repeat (apply and_split); try assumption; reflexivity.
Qed.

Lemma create_or_update_struct gv mo d a m' : version_ok gv = true ->
  (forall m, mo = Some m -> inv_struct m = true) -> create_or_update_metadata gv mo d a = Ok m' -> inv_struct m' = true.
Proof.
  intros Hg Hm H. unfold create_or_update_metadata in H. destruct mo as [m0|].
  - specialize (Hm m0 eq_refl). bind_inv H.
    assert (H1 : inv_struct x = true) by (eapply assign_res_struct; [exact Hm | exact E]).
    assert (H2 : inv_struct x0 = true) by (eapply assign_res_struct; [exact H1 | exact E0]).
    destruct a; try (eapply assign_res_struct; [exact H2 | exact H]). inversion H; subst. exact H2.
  - eapply construct_struct; eassumption.
Qed.

(* add_or_update_props_metadata: an updated entry keeps its identifier and takes a validated dtype,
   a new entry is a validated PropMetadata *)
Lemma pm_update_existing_pms d p : pm_okb p = true -> pms_ok d = true -> pms_ok (pm_update_existing d p) = true.
Proof.
  intros Hp Hd. unfold pms_ok, pm_update_existing in *. rewrite forallb_forall in *. intros kv Hin.
  apply in_map_iff in Hin. destruct Hin as [kv0 [E Hin0]]. specialize (Hd kv0 Hin0).
  destruct (String.eqb (fst kv0) (pm_identifier p)); subst kv; [|exact Hd].
  unfold pm_okb in *. cbn [snd pm_identifier pm_dtype]. apply andb_true_iff in Hd. destruct Hd as [Hi _].
  apply andb_true_iff in Hp. destruct Hp as [_ Hdt]. rewrite Hi, Hdt. reflexivity.
Qed.

Lemma pm_set_pms d k p : pm_okb p = true -> pms_ok d = true -> pms_ok (pm_set d k p) = true.
Proof.
  intros Hp Hd. unfold pms_ok in *. induction d as [|[k' q] r IH]; cbn.
  - rewrite Hp. reflexivity.
  - cbn in Hd. apply andb_true_iff in Hd. destruct Hd as [Hq Hr]. destruct (String.eqb k k').
    + cbn. rewrite Hp, Hr. reflexivity.
    + cbn. rewrite Hq, (IH Hr). reflexivity.
Qed.

Lemma props_loop_pms ps : forall ex fresh, forallb pm_okb ps = true -> pms_ok ex = true -> pms_ok fresh = true ->
  pms_ok (fst (props_loop ex fresh ps)) = true /\ pms_ok (snd (props_loop ex fresh ps)) = true.
Proof.
  induction ps as [|p r IH]; intros ex fresh Hps Hex Hfr; cbn.
  - split; assumption.
  - cbn in Hps. apply andb_true_iff in Hps. destruct Hps as [Hp Hr]. destruct (pm_haskey (pm_identifier p) ex).
    + apply IH; [assumption | apply pm_update_existing_pms; assumption | assumption].
    + apply IH; [assumption | assumption | apply pm_set_pms; assumption].
Qed.

Lemma props_merge_pms ex ps : forallb pm_okb ps = true -> pms_ok ex = true -> pms_ok (props_merge ex ps) = true.
Proof.
  intros Hps Hex. unfold props_merge. destruct (props_loop_pms ps ex [] Hps Hex eq_refl) as [H1 H2].
  unfold pms_ok in *. rewrite forallb_app, H1, H2. reflexivity.
Qed.

Lemma add_or_update_props_struct m ps ct m' :
  inv_struct m = true -> add_or_update_props_metadata m ps ct = Ok m' -> inv_struct m' = true.
Proof.
  intros Hm H.
  pose proof (add_or_update_props_inv m ps ct m' (inv_struct_InvW m Hm) H) as [_ Ht].
  apply md_after_ok_iff in Ht.
  unfold add_or_update_props_metadata in H. bind_inv H.
  assert (Hps : forallb pm_okb x = true).
  { unfold v_list in E. destruct ps; try discriminate. eapply mapM_forallb; [|exact E]. apply propmeta_of_jv_ok. }
  split_struct Hm.
  destruct (String.eqb x0 "node"); inversion H; subst; clear H;
    unfold inv_struct in *; cbn [md_version md_axes md_node_props md_edge_props md_track md_related] in *;
    rewrite Ht; repeat (apply and_split); try assumption; try reflexivity;
    apply props_merge_pms; assumption.
Qed.

(* ------------------------------------------------------------------ operation sequences *)
Definition structP (m : metadata) : Prop := inv_struct m = true.

Lemma step_struct gv p o : version_ok gv = true -> Forall structP p -> Forall structP (fst (step gv p o)).
Proof.
  intros Hg Hp. destruct o as [kw|i f v|i|i ls|[i|] d a|i ps ct|ls]; cbn [step].
  - apply push_Forall; [exact Hp|]. intros m E. eapply construct_struct; eassumption.
  - destruct (nth_error p i) as [m|] eqn:E; [|exact Hp]. cbn.
    apply pool_set_Forall; [exact Hp|]. apply assign_struct. exact (nth_error_Forall structP p i m Hp E).
  - destruct (nth_error p i) as [m|] eqn:E; [|exact Hp].
    apply push_Forall; [exact Hp|]. intros m' E'. inversion E'; subst. exact (nth_error_Forall structP p i m' Hp E).
  - destruct (nth_error p i) as [m|] eqn:E; [|exact Hp].
    apply push_Forall; [exact Hp|]. intros m' E'. eapply update_metadata_axes_struct; [|exact E'].
    exact (nth_error_Forall structP p i m Hp E).
  - destruct (nth_error p i) as [m|] eqn:E; [|exact Hp].
    apply push_Forall; [exact Hp|]. intros m' E'. eapply create_or_update_struct; [exact Hg | | exact E'].
    intros m0 E0. inversion E0; subst. exact (nth_error_Forall structP p i m0 Hp E).
  - apply push_Forall; [exact Hp|]. intros m' E'. eapply create_or_update_struct; [exact Hg | | exact E']. intros m0 E0. discriminate.
  - destruct (nth_error p i) as [m|] eqn:E; [|exact Hp].
    apply push_Forall; [exact Hp|]. intros m' E'. eapply add_or_update_props_struct; [|exact E'].
    exact (nth_error_Forall structP p i m Hp E).
  - destruct (axes_from_lists ls); exact Hp.
Qed.

Lemma run_struct gv ops : forall p, version_ok gv = true -> Forall structP p -> Forall structP (run gv p ops).
Proof.
  induction ops as [|o r IH]; intros p Hg Hp; cbn; [exact Hp|].
  apply IH; [exact Hg | apply step_struct; assumption].
Qed.

(* every object reachable by C07's operations satisfies the structural part of C08's domain ... *)
Lemma reachable_struct gv ops m : version_ok gv = true -> In m (run gv [] ops) -> inv_struct m = true.
Proof.
  intros Hg Hin. pose proof (run_struct gv ops [] Hg (Forall_nil _)) as H. rewrite Forall_forall in H. apply H. exact Hin.
Qed.

(* ... hence lies in the domain as soon as it holds no non-finite float *)
Lemma reachable_in_domain gv ops m :
  version_ok gv = true -> In m (run gv [] ops) -> md_finite m = true -> inv_md m = true.
Proof.
  intros Hg Hin Hf. apply inv_md_iff. split; [eapply reachable_struct; eassumption | exact Hf].
Qed.

(* the domain is exactly "reachable and finite": every object of the domain is reached by one construction *)
Lemma domain_reachable gv m : inv_md m = true -> In m (run gv [] [OConstruct (to_json m)]).
Proof.
  intros H. cbn [run step]. pose proof (roundtrip gv m H) as R. unfold of_json in R. rewrite R. cbn. left. reflexivity.
Qed.

(* the theorems of C08 restated over reachable objects *)
Lemma reachable_roundtrip gv ops m :
  version_ok gv = true -> In m (run gv [] ops) -> md_finite m = true ->
  of_json gv (to_json m) = Ok m /\ to_json_text m = to_json m /\
  (forall st, md_read gv (md_write m st) = Ok m) /\
  validates Geff.Gen.Schema.schema_published (wrap (to_json m)) = true.
Proof.
  intros Hg Hin Hf. pose proof (reachable_in_domain gv ops m Hg Hin Hf) as H.
  split; [apply roundtrip; exact H|]. split; [apply to_json_text_finite; exact H|].
  split; [intros st; apply attrs_roundtrip; exact H | apply valid_published; exact H].
Qed.
