(* GraphValLemmas.v -- proofs about GraphVal.v used by props/C12.v. *)
From Coq Require Import Permutation.
From Geff Require Import Base GraphVal.
Open Scope Z_scope.
Open Scope list_scope.

(* ---------- equality tests ---------- *)
Lemma pair_eqb_eq (a b : edge) : pair_eqb a b = true <-> a = b.
Proof.
  destruct a as [a1 a2], b as [b1 b2]. unfold pair_eqb. cbn. rewrite andb_true_iff, !Z.eqb_eq.
  split; [intros [-> ->]; reflexivity | intros H; inversion H; auto].
Qed.

(* ---------- sorting is a permutation ---------- *)
Lemma insert_perm {A} (leb : A -> A -> bool) x l : Permutation (insert leb x l) (x :: l).
Proof.
  induction l as [|y r IH]; cbn; [apply Permutation_refl|].
  destruct (leb x y); [apply Permutation_refl|].
  eapply Permutation_trans; [apply perm_skip; exact IH | apply perm_swap].
Qed.

Lemma isort_perm {A} (leb : A -> A -> bool) l : Permutation (isort leb l) l.
Proof.
  induction l as [|x r IH]; cbn; [constructor|].
  eapply Permutation_trans; [apply insert_perm | apply perm_skip; exact IH].
Qed.

(* ---------- dedup ---------- *)
Lemma existsb_eqb_In {A} (eqb : A -> A -> bool) (H : forall x y, eqb x y = true <-> x = y) x l :
  existsb (eqb x) l = true <-> In x l.
Proof.
  rewrite existsb_exists. split.
  - intros [y [Hy He]]. apply H in He. subst. exact Hy.
  - intros Hx. exists x. split; [exact Hx | apply H; reflexivity].
Qed.

Lemma dedup_In {A} (eqb : A -> A -> bool) (H : forall x y, eqb x y = true <-> x = y) l x :
  In x (dedup eqb l) <-> In x l.
Proof.
  induction l as [|y r IH]; cbn; [tauto|].
  destruct (existsb (eqb y) r) eqn:E.
  - rewrite IH. split; [auto|]. intros [<-|Hx]; [|exact Hx]. apply (existsb_eqb_In eqb H). exact E.
  - cbn. rewrite IH. tauto.
Qed.

Lemma dedup_NoDup {A} (eqb : A -> A -> bool) (H : forall x y, eqb x y = true <-> x = y) l :
  NoDup (dedup eqb l).
Proof.
  induction l as [|y r IH]; cbn; [constructor|].
  destruct (existsb (eqb y) r) eqn:E; [exact IH|].
  constructor; [|exact IH]. rewrite (dedup_In eqb H). intro Hy.
  apply (existsb_eqb_In eqb H) in Hy. congruence.
Qed.

(* ---------- count ---------- *)
Lemma count_cons {A} (eqb : A -> A -> bool) x y r :
  count eqb x (y :: r) = if eqb x y then S (count eqb x r) else count eqb x r.
Proof. unfold count. cbn. destruct (eqb x y); reflexivity. Qed.

Lemma count_zero {A} (eqb : A -> A -> bool) (H : forall x y, eqb x y = true <-> x = y) x l :
  count eqb x l = 0%nat <-> ~ In x l.
Proof.
  induction l as [|y r IH]; [cbn; tauto|].
  rewrite count_cons. destruct (eqb x y) eqn:E.
  - apply H in E. subst. split; [discriminate | intros Hn; exfalso; apply Hn; left; reflexivity].
  - rewrite IH. split.
    + intros Hn [Hy|Hy]; [|auto]. subst. assert (eqb x x = true) by (apply H; reflexivity). congruence.
    + intros Hn Hx. apply Hn. right. exact Hx.
Qed.

Lemma NoDup_count {A} (eqb : A -> A -> bool) (H : forall x y, eqb x y = true <-> x = y) l :
  NoDup l <-> forall x, (count eqb x l <= 1)%nat.
Proof.
  induction l as [|y r IH].
  - split; [intros _ x; cbn; lia | constructor].
  - split.
    + intros Hn x. inversion Hn as [|? ? Hy Hr]; subst. rewrite count_cons.
      destruct (eqb x y) eqn:E.
      * apply H in E. subst. apply (count_zero eqb H) in Hy. lia.
      * apply IH; exact Hr.
    + intros Hc. constructor.
      * apply (count_zero eqb H). specialize (Hc y). rewrite count_cons in Hc.
        assert (E : eqb y y = true) by (apply H; reflexivity). rewrite E in Hc. lia.
      * apply IH. intros x. specialize (Hc x). rewrite count_cons in Hc.
        destruct (eqb x y); lia.
Qed.

Lemma count_pos_In {A} (eqb : A -> A -> bool) (H : forall x y, eqb x y = true <-> x = y) x l :
  (0 < count eqb x l)%nat -> In x l.
Proof.
  induction l as [|y r IH]; [cbn; lia|].
  rewrite count_cons. destruct (eqb x y) eqn:E.
  - intros _. apply H in E. subst. left; reflexivity.
  - intros Hc. right. apply IH. exact Hc.
Qed.

(* ---------- np.unique ---------- *)
Lemma unique_z_In l x : In x (unique_z l) <-> In x l.
Proof.
  unfold unique_z. rewrite <- (dedup_In Z.eqb Z.eqb_eq l x).
  split; apply Permutation_in; [apply isort_perm | apply Permutation_sym, isort_perm].
Qed.
Lemma unique_z_NoDup l : NoDup (unique_z l).
Proof.
  unfold unique_z. eapply Permutation_NoDup; [apply Permutation_sym, isort_perm|].
  apply (dedup_NoDup Z.eqb Z.eqb_eq).
Qed.
Lemma unique_e_In l x : In x (unique_e l) <-> In x l.
Proof.
  unfold unique_e. rewrite <- (dedup_In pair_eqb pair_eqb_eq l x).
  split; apply Permutation_in; [apply isort_perm | apply Permutation_sym, isort_perm].
Qed.
Lemma unique_e_NoDup l : NoDup (unique_e l).
Proof.
  unfold unique_e. eapply Permutation_NoDup; [apply Permutation_sym, isort_perm|].
  apply (dedup_NoDup pair_eqb pair_eqb_eq).
Qed.

Lemma filter_nil_iff {A} (f : A -> bool) l : filter f l = [] <-> forall x, In x l -> f x = false.
Proof.
  induction l as [|y r IH]; cbn; [split; [intros _ x []|reflexivity]|].
  destruct (f y) eqn:E.
  - split; [discriminate|]. intros H. specialize (H y (or_introl eq_refl)). congruence.
  - rewrite IH. split; [intros H x [<-|Hx]; auto | intros H x Hx; apply H; right; exact Hx].
Qed.

(* ---------- offender lists are exactly the offenders ---------- *)
Lemma nonunique_ids_spec ids x : In x (nonunique_ids ids) <-> (1 < count Z.eqb x ids)%nat.
Proof.
  unfold nonunique_ids. rewrite filter_In, unique_z_In, Nat.ltb_lt. split; [tauto|].
  intros H. split; [|exact H]. apply (count_pos_In Z.eqb Z.eqb_eq). lia.
Qed.
Lemma nonunique_ids_NoDup ids : NoDup (nonunique_ids ids).
Proof. unfold nonunique_ids. apply NoDup_filter, unique_z_NoDup. Qed.

Lemma nonunique_nil_iff ids : nonunique_ids ids = [] <-> NoDup ids.
Proof.
  rewrite (NoDup_count Z.eqb Z.eqb_eq). unfold nonunique_ids. rewrite filter_nil_iff. split.
  - intros H x. destruct (Nat.ltb 1 (count Z.eqb x ids)) eqn:E; [|apply Nat.ltb_ge in E; exact E].
    apply Nat.ltb_lt in E. assert (Hx : In x ids) by (apply (count_pos_In Z.eqb Z.eqb_eq); lia).
    apply unique_z_In in Hx. specialize (H x Hx). apply Nat.ltb_ge in H. exact H.
  - intros H x _. apply Nat.ltb_ge. apply H.
Qed.

Lemma validate_unique_iff ids : fst (validate_unique_node_ids ids) = true <-> NoDup ids.
Proof.
  unfold validate_unique_node_ids. rewrite <- nonunique_nil_iff.
  destruct (nonunique_ids ids); cbn; split; intro H; try reflexivity; try discriminate.
Qed.
Lemma validate_unique_offenders ids : snd (validate_unique_node_ids ids) = nonunique_ids ids.
Proof. unfold validate_unique_node_ids. destruct (nonunique_ids ids); reflexivity. Qed.

Lemma edge_has_nodes_iff ids e : edge_has_nodes ids e = true <-> In (fst e) ids /\ In (snd e) ids.
Proof. unfold edge_has_nodes. rewrite andb_true_iff, !zmem_In. tauto. Qed.

Lemma invalid_edges_spec ids edges e :
  In e (invalid_edges ids edges) <-> In e edges /\ ~ (In (fst e) ids /\ In (snd e) ids).
Proof.
  unfold invalid_edges. rewrite filter_In, negb_true_iff, <- edge_has_nodes_iff.
  destruct (edge_has_nodes ids e); split; intros [H1 H2]; split; auto; try discriminate.
  exfalso. apply H2. reflexivity.
Qed.

Lemma validate_nodes_for_edges_iff ids edges :
  fst (validate_nodes_for_edges ids edges) = true <->
  forall e, In e edges -> In (fst e) ids /\ In (snd e) ids.
Proof.
  unfold validate_nodes_for_edges. cbn [fst].
  assert (H : invalid_edges ids edges = [] <-> forall e, In e edges -> In (fst e) ids /\ In (snd e) ids).
  { unfold invalid_edges. rewrite filter_nil_iff. split; intros H e He; specialize (H e He).
    - apply negb_false_iff in H. apply edge_has_nodes_iff. exact H.
    - apply negb_false_iff. apply edge_has_nodes_iff. exact H. }
  rewrite <- H. destruct (invalid_edges ids edges); split; intro; try reflexivity; try discriminate.
Qed.

Lemma self_nodes_spec edges x : In x (self_nodes edges) <-> In (x, x) edges.
Proof.
  unfold self_nodes. rewrite unique_z_In, in_map_iff. split.
  - intros [[a b] [Hx He]]. cbn in Hx. subst a. apply filter_In in He. destruct He as [He Hab].
    cbn in Hab. apply Z.eqb_eq in Hab. subst b. exact He.
  - intros H. exists (x, x). split; [reflexivity|]. apply filter_In. split; [exact H|]. cbn. apply Z.eqb_refl.
Qed.

Lemma validate_no_self_edges_iff edges :
  fst (validate_no_self_edges edges) = true <-> forall e, In e edges -> fst e <> snd e.
Proof.
  unfold validate_no_self_edges. cbn [fst]. split.
  - intros H [a b] He Hab. cbn in Hab. subst b.
    apply self_nodes_spec in He. destruct (self_nodes edges); [destruct He | discriminate].
  - intros H. destruct (self_nodes edges) as [|x r] eqn:E; [reflexivity|]. exfalso.
    assert (Hx : In x (self_nodes edges)) by (rewrite E; left; reflexivity).
    apply self_nodes_spec in Hx. apply (H (x, x) Hx). reflexivity.
Qed.

Lemma repeated_edges_spec edges e : In e (repeated_edges edges) <-> (1 < count pair_eqb e edges)%nat.
Proof.
  unfold repeated_edges. rewrite filter_In, unique_e_In, Nat.ltb_lt. split; [tauto|].
  intros H. split; [|exact H]. apply (count_pos_In pair_eqb pair_eqb_eq). lia.
Qed.
Lemma repeated_edges_NoDup edges : NoDup (repeated_edges edges).
Proof. unfold repeated_edges. apply NoDup_filter, unique_e_NoDup. Qed.

Lemma repeated_nil_iff edges : repeated_edges edges = [] <-> NoDup edges.
Proof.
  rewrite (NoDup_count pair_eqb pair_eqb_eq). unfold repeated_edges. rewrite filter_nil_iff. split.
  - intros H x. destruct (Nat.ltb 1 (count pair_eqb x edges)) eqn:E; [|apply Nat.ltb_ge in E; exact E].
    apply Nat.ltb_lt in E. assert (Hx : In x edges) by (apply (count_pos_In pair_eqb pair_eqb_eq); lia).
    apply unique_e_In in Hx. specialize (H x Hx). apply Nat.ltb_ge in H. exact H.
  - intros H x _. apply Nat.ltb_ge. apply H.
Qed.

Lemma validate_no_repeated_iff edges : fst (validate_no_repeated_edges edges) = true <-> NoDup edges.
Proof.
  unfold validate_no_repeated_edges. cbn [fst]. rewrite <- repeated_nil_iff.
  destruct (repeated_edges edges); split; intro; try reflexivity; try discriminate.
Qed.

(* ---------- the graph part of validate_data decides graph validity ---------- *)
Definition graph_valid (directed : bool) (ids : list Z) (edges : list edge) : Prop :=
  NoDup ids /\
  (forall e, In e edges -> In (fst e) ids /\ In (snd e) ids) /\
  (forall e, In e edges -> fst e <> snd e) /\
  NoDup (if directed then edges else map norm_edge edges).

Lemma graph_check_none_iff directed ids edges :
  graph_check directed ids edges = None <-> graph_valid directed ids edges.
Proof.
  unfold graph_check, graph_valid.
  rewrite <- validate_unique_iff, <- validate_nodes_for_edges_iff, <- validate_no_self_edges_iff,
          <- validate_no_repeated_iff.
  destruct (fst (validate_unique_node_ids ids)); cbn [negb].
  2:{ split; [discriminate | intros [H _]; discriminate]. }
  destruct (fst (validate_nodes_for_edges ids edges)); cbn [negb].
  2:{ split; [discriminate | intros [_ [H _]]; discriminate]. }
  destruct (fst (validate_no_self_edges edges)); cbn [negb].
  2:{ split; [discriminate | intros [_ [_ [H _]]]; discriminate]. }
  destruct (fst (validate_no_repeated_edges (if directed then edges else map norm_edge edges))); cbn [negb].
  - split; auto.
  - split; [discriminate | intros [_ [_ [_ H]]]; discriminate].
Qed.

(* two undirected edges are the same unordered pair iff their normal forms coincide *)
Lemma norm_edge_eq a b c d :
  norm_edge (a, b) = norm_edge (c, d) <-> (a = c /\ b = d) \/ (a = d /\ b = c).
Proof.
  unfold norm_edge. cbn. split.
  - intros H. inversion H as [[H1 H2]]. lia.
  - intros [[-> ->]|[-> ->]]; [reflexivity|]. rewrite Z.min_comm, Z.max_comm. reflexivity.
Qed.

(* ---------- shapes ---------- *)
Lemma sphere_ok_iff ndim radii miss :
  sphere_ok ndim radii miss = true <-> ndim = 1%nat /\ Forall (fun r => 0 <= r) (present miss radii).
Proof.
  unfold sphere_ok. rewrite andb_true_iff, Nat.eqb_eq, forallb_forall, Forall_forall.
  split; intros [H1 H2]; split; auto; intros x Hx; specialize (H2 x Hx); lia.
Qed.

Lemma ellipsoid_ok_iff spatial ndim r c mats miss :
  ellipsoid_ok spatial ndim r c mats miss = true <->
  (0 < spatial)%nat /\ ndim = 3%nat /\ r = c /\ r = spatial /\
  Forall (fun m => symmetric r m = true /\ pos_def r m = true) (present miss mats).
Proof.
  unfold ellipsoid_ok. rewrite !andb_true_iff, !Nat.eqb_eq, Nat.ltb_lt, forallb_forall, Forall_forall.
  split.
  - intros [[[[H1 H2] H3] H4] H5]. repeat split; auto; specialize (H5 x H); apply andb_true_iff in H5; tauto.
  - intros [H1 [H2 [H3 [H4 H5]]]]. repeat split; auto. intros x Hx. apply andb_true_iff. apply H5. exact Hx.
Qed.

(* ---------- dispatch ---------- *)
Lemma validate_data_disabled d :
  validate_data {| c_graph := false; c_sphere := false; c_ellipsoid := false |} d = Ok tt.
Proof. reflexivity. Qed.

Lemma validate_data_ok_iff cfg d :
  validate_data cfg d = Ok tt <->
  (c_graph cfg = true -> graph_valid (d_directed d) (d_ids d) (d_edges d)) /\
  (c_sphere cfg = true -> forall nd rs ms, d_sphere d = Some (nd, rs, ms) -> sphere_ok nd rs ms = true) /\
  (c_ellipsoid cfg = true -> forall nd r c ms mi, d_ellipsoid d = Some (nd, r, c, ms, mi) ->
      ellipsoid_ok (d_spatial d) nd r c ms mi = true).
Proof.
  unfold validate_data. rewrite <- graph_check_none_iff.
  assert (Hg : (c_graph cfg && match graph_check (d_directed d) (d_ids d) (d_edges d) with Some _ => true | None => false end) = false
               <-> (c_graph cfg = true -> graph_check (d_directed d) (d_ids d) (d_edges d) = None)).
  { destruct (c_graph cfg); cbn [andb].
    - destruct (graph_check (d_directed d) (d_ids d) (d_edges d)); split; auto; try discriminate.
      intros H. specialize (H eq_refl). discriminate.
    - split; [discriminate | reflexivity]. }
  assert (Hs : (c_sphere cfg && match d_sphere d with Some (nd, rs, ms) => negb (sphere_ok nd rs ms) | None => false end) = false
               <-> (c_sphere cfg = true -> forall nd rs ms, d_sphere d = Some (nd, rs, ms) -> sphere_ok nd rs ms = true)).
  { destruct (c_sphere cfg); cbn [andb].
    - destruct (d_sphere d) as [[[nd rs] ms]|].
      + rewrite negb_false_iff. split.
        * intros H _ ? ? ? E. inversion E; subst. exact H.
        * intros H. apply (H eq_refl _ _ _ eq_refl).
      + split; [intros _ _ ? ? ? E; discriminate | reflexivity].
    - split; [discriminate | reflexivity]. }
  assert (He : (c_ellipsoid cfg && match d_ellipsoid d with
                  | Some (nd, r, c, ms, mi) => negb (ellipsoid_ok (d_spatial d) nd r c ms mi) | None => false end) = false
               <-> (c_ellipsoid cfg = true -> forall nd r c ms mi, d_ellipsoid d = Some (nd, r, c, ms, mi) ->
                      ellipsoid_ok (d_spatial d) nd r c ms mi = true)).
  { destruct (c_ellipsoid cfg); cbn [andb].
    - destruct (d_ellipsoid d) as [[[[[nd r] c] ms] mi]|].
      + rewrite negb_false_iff. split.
        * intros H _ ? ? ? ? ? E. inversion E; subst. exact H.
        * intros H. apply (H eq_refl _ _ _ _ _ eq_refl).
      + split; [intros _ _ ? ? ? ? ? E; discriminate | reflexivity].
    - split; [discriminate | reflexivity]. }
  rewrite <- Hg, <- Hs, <- He.
  destruct (c_graph cfg && _); [split; [discriminate | intros [H _]; discriminate]|].
  destruct (c_sphere cfg && _); [split; [discriminate | intros [_ [H _]]; discriminate]|].
  destruct (c_ellipsoid cfg && _); [split; [discriminate | intros [_ [_ H]]; discriminate]|].
  split; auto.
Qed.
