(* Dtype.v -- finite model of the numpy dtypes geff handles: safe casting
   (np.can_cast), promotion (np.promote_types), integer ranges and the payload
   encoding shared by all array models.  Model only; lemmas are in DtypeLemmas.v. *)
From Geff Require Import Base.
Open Scope Z_scope.

Inductive dtype := DBool | DI8 | DI16 | DI32 | DI64 | DU8 | DU16 | DU32 | DU64
                 | DF16 | DF32 | DF64 | DStr | DBytes | DObj.

Definition dtype_eqb (a b : dtype) : bool :=
  match a, b with
  | DBool, DBool | DI8, DI8 | DI16, DI16 | DI32, DI32 | DI64, DI64
  | DU8, DU8 | DU16, DU16 | DU32, DU32 | DU64, DU64
  | DF16, DF16 | DF32, DF32 | DF64, DF64 | DStr, DStr | DBytes, DBytes | DObj, DObj => true
  | _, _ => false
  end.

Inductive kind := KBool | KInt | KUint | KFloat | KOther.

Definition kind_of (d : dtype) : kind :=
  match d with
  | DBool => KBool
  | DI8 | DI16 | DI32 | DI64 => KInt
  | DU8 | DU16 | DU32 | DU64 => KUint
  | DF16 | DF32 | DF64 => KFloat
  | _ => KOther
  end.

Definition bits (d : dtype) : nat :=
  match d with
  | DBool => 1
  | DI8 | DU8 => 8
  | DI16 | DU16 | DF16 => 16
  | DI32 | DU32 | DF32 => 32
  | DI64 | DU64 | DF64 => 64
  | _ => 0
  end%nat.

Definition is_numeric (d : dtype) : bool :=
  match kind_of d with KOther => false | _ => true end.
Definition is_integer (d : dtype) : bool :=
  match kind_of d with KInt | KUint => true | _ => false end.
Definition is_float (d : dtype) : bool :=
  match kind_of d with KFloat => true | _ => false end.

Definition all_numeric : list dtype :=
  [DBool; DI8; DI16; DI32; DI64; DU8; DU16; DU32; DU64; DF16; DF32; DF64].

Definition sint (b : nat) : dtype :=
  match b with 8 => DI8 | 16 => DI16 | 32 => DI32 | _ => DI64 end%nat.
Definition uint (b : nat) : dtype :=
  match b with 8 => DU8 | 16 => DU16 | 32 => DU32 | _ => DU64 end%nat.
Definition flt (b : nat) : dtype :=
  match b with 16 => DF16 | 32 => DF32 | _ => DF64 end%nat.

(* smallest float width that holds every integer of the given width exactly
   in numpy's casting table (64-bit integers are deemed safe for float64) *)
Definition min_float_bits (int_bits : nat) : nat :=
  match int_bits with 8 => 16 | 16 => 32 | _ => 64 end%nat.

(* np.can_cast(a, b, casting="safe") on the numeric dtypes *)
Definition can_cast_safe (a b : dtype) : bool :=
  match kind_of a, kind_of b with
  | KOther, _ | _, KOther => dtype_eqb a b
  | KBool, _ => true
  | _, KBool => false
  | KInt, KInt => Nat.leb (bits a) (bits b)
  | KInt, KUint => false
  | KInt, KFloat => Nat.leb (min_float_bits (bits a)) (bits b)
  | KUint, KUint => Nat.leb (bits a) (bits b)
  | KUint, KInt => Nat.ltb (bits a) (bits b)
  | KUint, KFloat => Nat.leb (min_float_bits (bits a)) (bits b)
  | KFloat, KFloat => Nat.leb (bits a) (bits b)
  | KFloat, _ => false
  end.

(* np.promote_types(a, b) on the numeric dtypes; None = DTypePromotionError *)
Definition promote (a b : dtype) : option dtype :=
  match kind_of a, kind_of b with
  | KOther, _ | _, KOther => if dtype_eqb a b then Some a else None
  | KBool, _ => Some b
  | _, KBool => Some a
  | KInt, KInt => Some (sint (Nat.max (bits a) (bits b)))
  | KUint, KUint => Some (uint (Nat.max (bits a) (bits b)))
  | KInt, KUint =>
      if Nat.ltb (bits b) (bits a) then Some a
      else if Nat.eqb (bits b) 64 then Some DF64 else Some (sint (2 * bits b))
  | KUint, KInt =>
      if Nat.ltb (bits a) (bits b) then Some b
      else if Nat.eqb (bits a) 64 then Some DF64 else Some (sint (2 * bits a))
  | KFloat, KFloat => Some (flt (Nat.max (bits a) (bits b)))
  | KFloat, _ => Some (flt (Nat.max (bits a) (min_float_bits (bits b))))
  | _, KFloat => Some (flt (Nat.max (bits b) (min_float_bits (bits a))))
  end.

(* integer / bool value ranges *)
Definition dt_min (d : dtype) : Z :=
  match d with
  | DI8 => -(2^7) | DI16 => -(2^15) | DI32 => -(2^31) | DI64 => -(2^63)
  | _ => 0
  end.
Definition dt_max (d : dtype) : Z :=
  match d with
  | DBool => 1
  | DI8 => 2^7 - 1 | DI16 => 2^15 - 1 | DI32 => 2^31 - 1 | DI64 => 2^63 - 1
  | DU8 => 2^8 - 1 | DU16 => 2^16 - 1 | DU32 => 2^32 - 1 | DU64 => 2^64 - 1
  | _ => 0
  end.
Definition in_range (d : dtype) (z : Z) : bool :=
  match kind_of d with
  | KBool | KInt | KUint => (dt_min d <=? z) && (z <=? dt_max d)
  | _ => true
  end.

(* ---- payload encoding -------------------------------------------------
   Every array element is a Z.  bool: 0/1, integers: themselves, floats: the
   value times 2^10 (the correspondence only generates floats that are exact
   multiples of 2^-10, so the encoding is exact), strings: opaque tokens. *)
Definition fscale : Z := 1024.

(* round-to-nearest-even of an integer to p significant bits *)
Definition round_bits (p : Z) (z : Z) : Z :=
  let a := Z.abs z in
  if a <? 2 ^ p then z
  else
    let e := Z.log2 a + 1 - p in
    let q := a / 2 ^ e in
    let r := a mod 2 ^ e in
    let half := 2 ^ (e - 1) in
    let q' := if (half <? r) || ((r =? half) && Z.odd q) then q + 1 else q in
    Z.sgn z * (q' * 2 ^ e).

Definition mant_bits (d : dtype) : Z :=
  match d with DF16 => 11 | DF32 => 24 | _ => 53 end.

(* value-preserving cast as numpy performs it for a *safe* cast a -> b *)
Definition cast_payload (a b : dtype) (z : Z) : Z :=
  if is_float b && negb (is_float a) then round_bits (mant_bits b) z * fscale else z.
