(* SgWriteLemmas.v -- spatial-graph, the write side: SgBackend.write (position unsquished into one property per axis,
   write_arrays, read_to_memory) followed by SgBackend.construct gives a graph with the same SgGraphAdapter view. *)
From Geff Require Import Base Dtype DtypeLemmas Vlen VlenLemmas Tree TreeLemmas Validate Write Read RoundTrip WriteLemmas ReadLemmas
     ValidateLayout C01Lemmas Dicts Backends BackendsLemmas DictsLemmas SgLemmas Names.
From Coq Require Import Lia.
Open Scope string_scope.
Open Scope list_scope.

Lemma NoDup_app_intro' {A} (l l' : list A) :
  NoDup l -> NoDup l' -> (forall x, In x l -> In x l' -> False) -> NoDup (l ++ l').
Proof. induction l as [|a l IH]; intros Hl Hl' Hd; cbn; auto.
  apply NoDup_cons_iff in Hl. destruct Hl as [Hna Hnd]. constructor.
  - rewrite in_app_iff. intros [H|H]; [contradiction|]. apply (Hd a); cbn; auto.
  - apply IH; auto. intros x Hx. apply Hd. cbn; auto. Qed.

(* ---------- dict plumbing ---------- *)
Lemma aset_fold_fresh {V} (cols : list (string * V)) : forall acc,
  NoDup (akeys acc ++ akeys cols) ->
  fold_left (fun a kv => aset (fst kv) (snd kv) a) cols acc = acc ++ cols.
Proof.
  induction cols as [|[k v] cols IH]; intros acc Hnd; cbn [fold_left fst snd]; [rewrite app_nil_r; reflexivity|].
  assert (Hfresh : alookup k acc = None).
  { apply alookup_none_notin. intro Hin. cbn [akeys map fst] in Hnd. apply NoDup_remove_2 in Hnd. apply Hnd. apply in_or_app. left. exact Hin. }
  rewrite (aset_fresh _ _ _ Hfresh). rewrite IH.
  - rewrite <- app_assoc. reflexivity.
  - rewrite akeys_app. cbn [akeys map fst]. rewrite <- app_assoc. exact Hnd.
Qed.

Lemma adel_app {V} k (l l' : list (string * V)) : adel k (l ++ l') = adel k l ++ adel k l'.
Proof. induction l as [|[k' v] l IH]; cbn; [reflexivity|]. destruct (String.eqb k k'); [exact IH | cbn; rewrite IH; reflexivity]. Qed.

Lemma adel_notin {V} k (l : list (string * V)) : ~ In k (akeys l) -> adel k l = l.
Proof. induction l as [|[k' v] l IH]; cbn; intro H; [reflexivity|].
  destruct (String.eqb k k') eqn:E; [apply String.eqb_eq in E; subst; exfalso; apply H; left; reflexivity|].
  rewrite IH; [reflexivity|]. intro Hc. apply H. right. exact Hc. Qed.

Lemma adel_keys_notin {V} k (l : list (string * V)) : ~ In k (akeys (adel k l)).
Proof. induction l as [|[k' v] l IH]; cbn; [tauto|]. destruct (String.eqb k k') eqn:E; [exact IH|].
  cbn. intros [H|H]; [subst; rewrite String.eqb_refl in E; discriminate | exact (IH H)]. Qed.

Lemma adel_nodup {V} k (l : list (string * V)) : NoDup (akeys l) -> NoDup (akeys (adel k l)).
Proof. induction l as [|[k' v] l IH]; cbn; intro H; [constructor|]. apply NoDup_cons_iff in H. destruct H as [H1 H2].
  destruct (String.eqb k k'); [apply IH; exact H2|]. cbn. constructor; [|apply IH; exact H2].
  intro Hc. apply H1. eapply adel_keys_incl. exact Hc. Qed.

Lemma in_adel {V} k (l : list (string * V)) kv : In kv (adel k l) -> In kv l /\ fst kv <> k.
Proof. induction l as [|[k' v] l IH]; cbn; [tauto|]. destruct (String.eqb k k') eqn:E.
  - intro H. destruct (IH H). split; [right; assumption | assumption].
  - cbn. intros [<-|H]; [split; [left; reflexivity|]; cbn; intro Hc; subst; rewrite String.eqb_refl in E; discriminate|].
    destruct (IH H). split; [right; assumption | assumption]. Qed.

Definition mkp (kv : string * arr) : string * prop := (fst kv, mkprop (PFixed (snd kv)) None).
Lemma akeys_mkp l : akeys (map mkp l) = akeys l.
Proof. unfold akeys. rewrite map_map. reflexivity. Qed.
Lemma alookup_mkp l k : alookup k (map mkp l) = option_map (fun a => mkprop (PFixed a) None) (alookup k l).
Proof. induction l as [|[k' a] l IH]; cbn; [reflexivity|]. destruct (String.eqb k k'); [reflexivity | exact IH]. Qed.

(* ---------- columns of a 2-D array ---------- *)
Lemma chunks_length {A} k : forall n (l : list A), length (chunks k n l) = n.
Proof. induction n as [|n IH]; intro l; cbn; [reflexivity | rewrite IH; reflexivity]. Qed.

Lemma col_of_facts P n k ix : a_shape P = [n; k] ->
  a_shape (col_of P ix) = [n] /\ a_dt (col_of P ix) = a_dt P /\ length (a_flat (col_of P ix)) = n.
Proof. intro Hs. unfold col_of. rewrite Hs. cbn [hd a_shape a_dt a_flat]. rewrite map_length, chunks_length. auto. Qed.

(* the per-axis properties unsquish creates *)
Definition axis_cols (P : arr) (names : list string) : props :=
  map (fun ix : nat * string => (snd ix, mkprop (PFixed (col_of P (fst ix))) None)) (combine (seq 0 (length names)) names).

Lemma akeys_axis_cols P names : akeys (axis_cols P names) = names.
Proof. unfold axis_cols, akeys. rewrite map_map. cbn [fst].
  exact (map_snd_combine (seq 0 (length names)) names ltac:(rewrite seq_length; reflexivity)). Qed.

Lemma alookup_axis_cols P names nm ix : NoDup names -> ix < length names -> nth ix names "" = nm ->
  alookup nm (axis_cols P names) = Some (mkprop (PFixed (col_of P ix)) None).
Proof.
  intros Hnd Hix Hnm. apply alookup_in_nodup; [rewrite akeys_axis_cols; exact Hnd|].
  unfold axis_cols. apply in_map_iff. exists (ix, nm). split; [reflexivity|].
  assert (Heq : (ix, nm) = nth ix (combine (seq 0 (length names)) names) (0%nat, "")).
  { rewrite combine_nth by (rewrite seq_length; reflexivity). rewrite seq_nth by exact Hix. rewrite Hnm. reflexivity. }
  rewrite Heq. apply nth_In. rewrite combine_length, seq_length, Nat.min_id. exact Hix.
Qed.

Lemma in_axis_cols P names kv : In kv (axis_cols P names) ->
  exists ix, ix < length names /\ nth ix names "" = fst kv /\ snd kv = mkprop (PFixed (col_of P ix)) None.
Proof. unfold axis_cols. intro H. apply in_map_iff in H. destruct H as [[ix nm] [<- Hin]]. cbn [fst snd].
  destruct (in_combine_nth _ _ _ 0%nat "" Hin) as [j [Hj1 [Hj2 Heq]]]. rewrite seq_length in Hj1.
  rewrite seq_nth in Heq by exact Hj1. cbn [Nat.add] in Heq. injection Heq as -> ->. exists j. auto. Qed.

(* ---------- unsquish ---------- *)
Lemma unsquish_ok pos names (nattrs : list (string * arr)) P n :
  alookup pos nattrs = Some P -> a_shape P = [n; length names] ->
  NoDup (akeys nattrs) -> NoDup names -> (forall nm, In nm names -> ~ In nm (akeys nattrs)) ->
  unsquish pos names (map mkp nattrs) = Ok (adel pos (map mkp nattrs) ++ axis_cols P names).
Proof.
  intros Hl Hs Hnd Hnn Hfresh. unfold unsquish. rewrite alookup_mkp, Hl. cbn [option_map p_vals p_missing]. rewrite Hs.
  rewrite Nat.leb_refl. cbn [negb]. fold (axis_cols P names). f_equal.
  rewrite aset_fold_fresh.
  - rewrite adel_app. f_equal. apply adel_notin. rewrite akeys_axis_cols. intro Hin.
    apply (Hfresh pos Hin). apply alookup_some_in in Hl. apply in_map_iff. exists (pos, P). split; [reflexivity | exact Hl].
  - rewrite akeys_mkp, akeys_axis_cols. apply NoDup_app_intro'; auto.
    intros x Hx Hx'. exact (Hfresh x Hx' Hx).
Qed.

(* ---------- write_arrays with node_props_unsquish = write_arrays of the unsquished properties ---------- *)
Lemma backfill_nonempty nids md ps m : len0 nids = Some (S m) -> backfill nids md (Some ps) = Some ps.
Proof. intro H. unfold backfill. destruct (md_axes md); [|reflexivity]. rewrite H. reflexivity. Qed.

Lemma backfill_nonempty' nids md (ps : list (string * prop)) m :
  len0 nids = Some (S m) -> backfill nids md (@Some (list (string * prop)) ps) = @Some (list (string * prop)) ps.
Proof. apply backfill_nonempty. Qed.

Lemma write_arrays_u_unsquish k nids eids nps0 nps1 eps md pos names v o st m :
  len0 nids = Some (S m) -> unsquish pos names nps0 = Ok nps1 ->
  write_arrays_u k (mkwg nids eids (Some nps0) eps) md (Some (pos, names)) v o st
  = write_arrays k (mkwg nids eids (Some nps1) eps) md v o st.
Proof.
  intros Hlen Hu. unfold write_arrays_u, write_arrays, final_metadata, final_metadata_of.
  cbn [w_nids w_eids w_nprops w_eprops].
  rewrite (backfill_nonempty nids md nps0 m Hlen), (backfill_nonempty nids md nps1 m Hlen), Hu.
  reflexivity.
Qed.

(* ---------- the adapter view, row by row ---------- *)
Definition rows_of_props (ps : props) (n : nat) : list (list (string * cval)) :=
  map (fun i => map (fun kv : string * prop => (fst kv, val_at (snd kv) i)) ps) (seq 0 n).

Lemma nth_rows_of_props ps n i : i < n -> nth i (rows_of_props ps n) [] = map (fun kv : string * prop => (fst kv, val_at (snd kv) i)) ps.
Proof. intro Hi. unfold rows_of_props.
  rewrite (nth_map_d (fun i => map (fun kv : string * prop => (fst kv, val_at (snd kv) i)) ps) (seq 0 n) i 0%nat []) by (rewrite seq_length; exact Hi).
  rewrite seq_nth by exact Hi. reflexivity. Qed.

Lemma rows_of_props_length ps n : length (rows_of_props ps n) = n.
Proof. unfold rows_of_props. rewrite map_length, seq_length. reflexivity. Qed.

Lemma canon_sg_rows s names nps eps ids es :
  node_list (sc_nodes s) = Ok ids -> edge_rows (sc_edges s) = Ok es ->
  (forall i nm p, i < length ids -> In (nm, p) nps -> sg_node_prop s names i nm = Ok (val_at p i)) ->
  (forall j nm p, j < length es -> In (nm, p) eps ->
     exists a, alookup nm (sc_eattrs s) = Some a /\ row_cval a j = Ok (val_at p j)) ->
  canon_sg s names (akeys nps) (akeys eps)
  = Ok (mkcg (sc_directed s) (combine ids (rows_of_props nps (length ids))) (combine es (rows_of_props eps (length es)))).
Proof.
  intros Hn He Hnp Hep. unfold canon_sg. rewrite Hn, He. cbn [rbind].
  assert (Hnrows : mapM (fun ii : nat * Z =>
             match mapM (fun nm => match sg_node_prop s names (fst ii) nm with Ok v => Ok (nm, v) | Err e => Err e end) (akeys nps) with
             | Ok at_ => Ok (snd ii, at_) | Err e => Err e end) (combine (seq 0 (length ids)) ids)
           = Ok (combine ids (rows_of_props nps (length ids)))).
  { apply mapM_ext_ok; [rewrite !combine_length, seq_length, rows_of_props_length; lia|].
    intros i da db Hi. rewrite combine_length, seq_length, Nat.min_id in Hi.
    rewrite (nth_indep _ da (0%nat, 0%Z)) by (rewrite combine_length, seq_length, Nat.min_id; exact Hi).
    rewrite (nth_indep _ db (0%Z, [])) by (rewrite combine_length, rows_of_props_length; lia).
    rewrite !combine_nth by (try rewrite seq_length; try rewrite rows_of_props_length; lia). rewrite seq_nth by exact Hi. cbn [fst snd Nat.add].
    rewrite (nth_rows_of_props nps (length ids) i Hi).
    assert (Hm : mapM (fun nm => match sg_node_prop s names i nm with Ok v => Ok (nm, v) | Err e => Err e end) (akeys nps)
                 = Ok (map (fun kv : string * prop => (fst kv, val_at (snd kv) i)) nps)).
    { unfold akeys. apply mapM_ext_ok; [rewrite !map_length; reflexivity|].
      intros j dj dk Hj. rewrite map_length in Hj.
      rewrite (nth_map_d fst nps j ("", mkprop (PVlen []) None) dj Hj).
      rewrite (nth_map_d (fun kv : string * prop => (fst kv, val_at (snd kv) i)) nps j ("", mkprop (PVlen []) None) dk Hj).
      destruct (nth j nps ("", mkprop (PVlen []) None)) as [nm p] eqn:Ej. cbn [fst snd].
      rewrite (Hnp i nm p Hi); [reflexivity|]. rewrite <- Ej. apply nth_In. exact Hj. }
    rewrite Hm. reflexivity. }
  unfold rbind. rewrite Hnrows.
  assert (Herows : mapM (fun ie : nat * (Z * Z) =>
             match mapM (fun nm => match alookup nm (sc_eattrs s) with
                                   | None => Err OtherExn
                                   | Some a => match row_cval a (fst ie) with Ok v => Ok (nm, v) | Err e => Err e end
                                   end) (akeys eps) with
             | Ok at_ => Ok (snd ie, at_) | Err e => Err e end) (combine (seq 0 (length es)) es)
           = Ok (combine es (rows_of_props eps (length es)))).
  { apply mapM_ext_ok; [rewrite !combine_length, seq_length, rows_of_props_length; lia|].
    intros j da db Hj. rewrite combine_length, seq_length, Nat.min_id in Hj.
    rewrite (nth_indep _ da (0%nat, (0%Z, 0%Z))) by (rewrite combine_length, seq_length, Nat.min_id; exact Hj).
    rewrite (nth_indep _ db ((0%Z, 0%Z), [])) by (rewrite combine_length, rows_of_props_length; lia).
    rewrite !combine_nth by (try rewrite seq_length; try rewrite rows_of_props_length; lia). rewrite seq_nth by exact Hj. cbn [fst snd Nat.add].
    rewrite (nth_rows_of_props eps (length es) j Hj).
    assert (Hm : mapM (fun nm => match alookup nm (sc_eattrs s) with
                                 | None => Err OtherExn
                                 | Some a => match row_cval a j with Ok v => Ok (nm, v) | Err e => Err e end
                                 end) (akeys eps)
                 = Ok (map (fun kv : string * prop => (fst kv, val_at (snd kv) j)) eps)).
    { unfold akeys. apply mapM_ext_ok; [rewrite !map_length; reflexivity|].
      intros q dj dk Hq. rewrite map_length in Hq.
      rewrite (nth_map_d fst eps q ("", mkprop (PVlen []) None) dj Hq).
      rewrite (nth_map_d (fun kv : string * prop => (fst kv, val_at (snd kv) j)) eps q ("", mkprop (PVlen []) None) dk Hq).
      destruct (nth q eps ("", mkprop (PVlen []) None)) as [nm p] eqn:Eq. cbn [fst snd].
      destruct (Hep j nm p Hj) as [a [Ha Hr]]; [rewrite <- Eq; apply nth_In; exact Hq|].
      rewrite Ha, Hr. reflexivity. }
    rewrite Hm. reflexivity. }
  rewrite Herows. reflexivity.
Qed.

(* canon_geff of a geff without missing values, row by row *)
Lemma canon_geff_rows g ids es :
  node_list (g_nids g) = Ok ids -> edge_rows (g_eids g) = Ok es ->
  NoDup (akeys (g_nprops g)) -> NoDup (akeys (g_eprops g)) ->
  (forall i kv, i < length ids -> In kv (g_nprops g) -> p_missing (snd kv) = None /\ exists v, elem_val (snd kv) i = Ok v) ->
  (forall j kv, j < length es -> In kv (g_eprops g) -> p_missing (snd kv) = None /\ exists v, elem_val (snd kv) j = Ok v) ->
  canon_geff g = Ok (mkcg (md_directed (g_md g)) (combine ids (rows_of_props (g_nprops g) (length ids)))
                          (combine es (rows_of_props (g_eprops g) (length es)))).
Proof.
  intros Hn He Hnk Hek Hnp Hep. unfold canon_geff. rewrite Hn, He. cbn [rbind].
  assert (H1 : mapM (fun ii : nat * Z => match attrs_at (g_nprops g) (fst ii) with Ok a => Ok (snd ii, a) | Err e => Err e end)
                    (combine (seq 0 (length ids)) ids) = Ok (combine ids (rows_of_props (g_nprops g) (length ids)))).
  { apply mapM_ext_ok; [rewrite !combine_length, seq_length, rows_of_props_length; lia|].
    intros i da db Hi. rewrite combine_length, seq_length, Nat.min_id in Hi.
    rewrite (nth_indep _ da (0%nat, 0%Z)) by (rewrite combine_length, seq_length, Nat.min_id; exact Hi).
    rewrite (nth_indep _ db (0%Z, [])) by (rewrite combine_length, rows_of_props_length; lia).
    rewrite !combine_nth by (try rewrite seq_length; try rewrite rows_of_props_length; lia). rewrite seq_nth by exact Hi. cbn [fst snd Nat.add].
    rewrite (attrs_at_nomissing (g_nprops g) i Hnk) by (intros kv Hin; apply (Hnp i kv Hi Hin)).
    rewrite (nth_rows_of_props _ _ i Hi). reflexivity. }
  assert (H2 : mapM (fun ie : nat * (Z * Z) => match attrs_at (g_eprops g) (fst ie) with Ok a => Ok (snd ie, a) | Err e => Err e end)
                    (combine (seq 0 (length es)) es) = Ok (combine es (rows_of_props (g_eprops g) (length es)))).
  { apply mapM_ext_ok; [rewrite !combine_length, seq_length, rows_of_props_length; lia|].
    intros j da db Hj. rewrite combine_length, seq_length, Nat.min_id in Hj.
    rewrite (nth_indep _ da (0%nat, (0%Z, 0%Z))) by (rewrite combine_length, seq_length, Nat.min_id; exact Hj).
    rewrite (nth_indep _ db ((0%Z, 0%Z), [])) by (rewrite combine_length, rows_of_props_length; lia).
    rewrite !combine_nth by (try rewrite seq_length; try rewrite rows_of_props_length; lia). rewrite seq_nth by exact Hj. cbn [fst snd Nat.add].
    rewrite (attrs_at_nomissing (g_eprops g) j Hek) by (intros kv Hin; apply (Hep j kv Hj Hin)).
    rewrite (nth_rows_of_props _ _ j Hj). reflexivity. }
  unfold rbind. rewrite H1, H2. reflexivity.
Qed.

(* ---------- the domain: a non-empty spatial graph written with its axis names ---------- *)
Record sgc_dom (s : sgc) (names : list string) (ids : list Z) (es : list (Z * Z)) (P : arr) : Prop := {
  sgd_nshape : a_shape (sc_nodes s) = [length ids];
  sgd_nflat : a_flat (sc_nodes s) = ids;
  sgd_nonempty : ids <> [];
  sgd_iddt : sg_dtype_ok (a_dt (sc_nodes s)) = true;
  sgd_idint : is_integer (a_dt (sc_nodes s)) = true;
  sgd_eshape : a_shape (sc_edges s) = [length es; 2%nat];
  sgd_eflat : a_flat (sc_edges s) = flat_pairs es;
  sgd_edt : a_dt (sc_nodes s) = a_dt (sc_edges s);
  sgd_distinct : distinctb Z.eqb ids = true;
  sgd_edistinct : distinctb (ekey_eqb (sc_directed s)) es = true;
  sgd_endpoints : forall e, In e es -> In (fst e) ids /\ In (snd e) ids;
  sgd_ndims : sc_ndims s = length names;
  sgd_names_nodup : NoDup names;
  sgd_names_ne : names <> [];
  sgd_names_fresh : forall nm, In nm names -> name_ok nm = true /\ ~ In nm (akeys (sc_nattrs s));
  sgd_nkeys : NoDup (akeys (sc_nattrs s));
  sgd_nkeys_ne : forall nm, In nm (akeys (sc_nattrs s)) -> name_ok nm = true;
  sgd_ekeys : NoDup (akeys (sc_eattrs s));
  sgd_ekeys_ne : forall nm, In nm (akeys (sc_eattrs s)) -> name_ok nm = true;
  sgd_pos : alookup (sc_pos s) (sc_nattrs s) = Some P;
  sgd_pshape : a_shape P = [length ids; length names];
  sgd_nattrs : Forall (fun kv => sg_arr_ok (length ids) (snd kv)) (sc_nattrs s);
  sgd_eattrs : Forall (fun kv => sg_arr_ok (length es) (snd kv)) (sc_eattrs s)
}.

Lemma sg_valid_dtype d : sg_dtype_ok d = true -> valid_prop_dtype d = true /\ dtype_eqb d DF16 = false.
Proof. destruct d; intro H; try discriminate; split; vm_compute; reflexivity. Qed.

Lemma sg_enc name a n : sg_arr_ok n a -> name <> "" ->
  encodable (name, mkprop (PFixed a) None) /\ wf_prop n (mkprop (PFixed a) None) /\
  upcast_prop (mkprop (PFixed a) None) = mkprop (PFixed a) None /\ sg_prop_ok n (mkprop (PFixed a) None).
Proof.
  intros Ha Hne. pose proof Ha as [Hdt Hsh]. destruct (sg_valid_dtype _ Hdt) as [Hv Hf].
  assert (Hup : upcast_prop (mkprop (PFixed a) None) = mkprop (PFixed a) None).
  { unfold upcast_prop, upcast_arr. cbn [p_vals p_missing]. rewrite Hf. reflexivity. }
  split; [|split; [|split; [exact Hup|]]].
  - unfold encodable. cbn [fst snd]. unfold create_props_metadata, vlen_dtypes_uniform, cpm_core, encode_prop. rewrite Hup. cbn [p_vals p_missing]. rewrite Hv.
    destruct (String.eqb name "") eqn:E; [apply String.eqb_eq in E; contradiction|]. cbn. eexists. eexists. split; reflexivity.
  - split; cbn [p_vals p_missing wf_pvals wf_missing]; [|exact I]. destruct Hsh as [[Hs _]|[k [Hs _]]]; rewrite Hs; eexists; reflexivity.
  - split; [reflexivity|]. exists a. split; [reflexivity | exact Ha].
Qed.

Lemma col_arr_ok P n k ix : sg_dtype_ok (a_dt P) = true -> a_shape P = [n; k] -> sg_arr_ok n (col_of P ix).
Proof. intros Hdt Hs. destruct (col_of_facts P n k ix Hs) as [H1 [H2 H3]]. split; [rewrite H2; exact Hdt | left; auto]. Qed.

Lemma index_of_nth names : NoDup names -> forall ix, ix < length names -> index_of (nth ix names "") names = Some ix.
Proof. induction names as [|x r IH]; intros Hnd ix Hix; cbn in Hix; [lia|].
  apply NoDup_cons_iff in Hnd. destruct Hnd as [Hx Hr]. destruct ix as [|ix]; cbn [nth index_of].
  - rewrite String.eqb_refl. reflexivity.
  - destruct (String.eqb (nth ix r "") x) eqn:E.
    + apply String.eqb_eq in E. exfalso. apply Hx. rewrite <- E. apply nth_In. lia.
    + rewrite IH by (auto; lia). reflexivity. Qed.

Lemma index_of_none nm names : ~ In nm names -> index_of nm names = None.
Proof. induction names as [|x r IH]; intro H; cbn; [reflexivity|].
  destruct (String.eqb nm x) eqn:E; [apply String.eqb_eq in E; subst; exfalso; apply H; left; reflexivity|].
  rewrite IH; [reflexivity|]. intro Hc. apply H. right. exact Hc. Qed.

Lemma run_api_write_sg k (m : M unit) post tr :
  m (init None) = (mkst (Some post) tr, Ok tt) -> run (api_write k m) None = (Some post, Ok tt).
Proof. intros H. unfold run, api_write, bind. rewrite (check_for_geff_clean k None I). rewrite H. reflexivity. Qed.

Lemma dedup_id l : NoDup l -> dedup l = l.
Proof. induction 1 as [|x l Hx Hl IH]; cbn [dedup]; [reflexivity|]. rewrite IH. f_equal.
  apply filter_all. intros y Hy. apply negb_true_iff. destruct (String.eqb x y) eqn:E; [|reflexivity].
  apply String.eqb_eq in E. subst. contradiction. Qed.

(* geff.write(spatial graph, axis_names=names) ; read_to_memory *)
Theorem sg_write_read k s names ids es P mdtok axtok : sgc_dom s names ids es P ->
  let nps1 := adel (sc_pos s) (map mkp (sc_nattrs s)) ++ axis_cols P names in
  let eps := map mkp (sc_eattrs s) in
  exists post md',
    run (api_write k (sg_write k s None (Some names) mdtok axtok)) None = (Some post, Ok tt) /\
    validate_structure k (Some post) = Ok tt /\
    read_to_memory k (Some post) true None None = Ok (mkmg md' (sc_nodes s) (sc_edges s) nps1 eps) /\
    md_directed md' = sc_directed s /\
    sg_dom (mkmg md' (sc_nodes s) (sc_edges s) nps1 eps) (sc_pos s) ids es names (a_dt P) /\
    exists cg, canon_geff (mkmg md' (sc_nodes s) (sc_edges s) nps1 eps) = Ok cg /\ canon_sg s names (akeys nps1) (akeys eps) = Ok cg.
Proof.
  intros Hd. cbv zeta. set (pos := sc_pos s). set (nps0 := map mkp (sc_nattrs s)).
  set (nps1 := adel pos nps0 ++ axis_cols P names). set (eps := map mkp (sc_eattrs s)). set (n := length ids). set (e := length es).
  pose proof (sgd_pos _ _ _ _ _ Hd) as Hpos. pose proof (sgd_pshape _ _ _ _ _ Hd) as Hps.
  assert (HPok : sg_arr_ok n P).
  { pose proof (sgd_nattrs _ _ _ _ _ Hd) as HF. apply alookup_some_in in Hpos. eapply Forall_forall in HF; eauto. exact HF. }
  assert (HPdt : sg_dtype_ok (a_dt P) = true) by apply HPok.
  assert (Hposkey : In pos (akeys (sc_nattrs s))).
  { apply alookup_some_in in Hpos. apply in_map_iff. exists (pos, P). split; [reflexivity | exact Hpos]. }
  assert (Hposnames : ~ In pos names) by (intro Hc; destruct (sgd_names_fresh _ _ _ _ _ Hd pos Hc) as [_ Hf]; exact (Hf Hposkey)).
  assert (Hunsq : unsquish pos names nps0 = Ok nps1).
  { apply (unsquish_ok pos names (sc_nattrs s) P n Hpos Hps (sgd_nkeys _ _ _ _ _ Hd) (sgd_names_nodup _ _ _ _ _ Hd)).
    intros nm Hin. apply (sgd_names_fresh _ _ _ _ _ Hd nm Hin). }
  assert (Hn1 : exists m, n = S m) by (unfold n; pose proof (sgd_nonempty _ _ _ _ _ Hd); destruct ids; [contradiction | eexists; reflexivity]).
  destruct Hn1 as [m Hm].
  assert (Hlen0 : len0 (sc_nodes s) = Some (S m)) by (unfold len0; rewrite (sgd_nshape _ _ _ _ _ Hd); fold n; rewrite Hm; reflexivity).
  (* the properties after unsquish *)
  assert (Hkeys1 : akeys nps1 = akeys (adel pos nps0) ++ names) by (unfold nps1; rewrite akeys_app, akeys_axis_cols; reflexivity).
  assert (Hnd1 : NoDup (akeys nps1)).
  { rewrite Hkeys1. apply NoDup_app_intro'.
    - apply adel_nodup. unfold nps0. rewrite akeys_mkp. exact (sgd_nkeys _ _ _ _ _ Hd).
    - exact (sgd_names_nodup _ _ _ _ _ Hd).
    - intros x Hx Hx'. apply adel_keys_incl in Hx. unfold nps0 in Hx. rewrite akeys_mkp in Hx.
      destruct (sgd_names_fresh _ _ _ _ _ Hd x Hx') as [_ Hf]. exact (Hf Hx). }
  assert (Hall1 : forall kv, In kv nps1 -> fst kv <> "" /\ exists a, snd kv = mkprop (PFixed a) None /\ sg_arr_ok n a).
  { intros kv Hin. unfold nps1 in Hin. apply in_app_iff in Hin. destruct Hin as [Hin|Hin].
    - apply in_adel in Hin. destruct Hin as [Hin _]. unfold nps0 in Hin. apply in_map_iff in Hin. destruct Hin as [[nm a] [<- Hin]].
      cbn [mkp fst snd]. split.
      + apply name_ok_nonempty. apply (sgd_nkeys_ne _ _ _ _ _ Hd). apply in_map_iff. exists (nm, a). split; [reflexivity | exact Hin].
      + exists a. split; [reflexivity|]. pose proof (sgd_nattrs _ _ _ _ _ Hd) as HF. eapply Forall_forall in HF; eauto. exact HF.
    - destruct (in_axis_cols P names kv Hin) as [ix [Hix [Hnm Hv]]]. split.
      + rewrite <- Hnm. apply name_ok_nonempty. apply (sgd_names_fresh _ _ _ _ _ Hd). apply nth_In. exact Hix.
      + eexists. split; [exact Hv|]. eapply col_arr_ok; eauto. }
  assert (Halle : forall kv, In kv eps -> fst kv <> "" /\ exists a, snd kv = mkprop (PFixed a) None /\ sg_arr_ok e a).
  { intros kv Hin. unfold eps in Hin. apply in_map_iff in Hin. destruct Hin as [[nm a] [<- Hin]]. cbn [mkp fst snd]. split.
    - apply name_ok_nonempty. apply (sgd_ekeys_ne _ _ _ _ _ Hd). apply in_map_iff. exists (nm, a). split; [reflexivity | exact Hin].
    - exists a. split; [reflexivity|]. pose proof (sgd_eattrs _ _ _ _ _ Hd) as HF. eapply Forall_forall in HF; eauto. exact HF. }
  assert (Hnde : NoDup (akeys eps)) by (unfold eps; rewrite akeys_mkp; exact (sgd_ekeys _ _ _ _ _ Hd)).
  assert (Hwfp : forall cnt (ps : props), (forall kv, In kv ps -> fst kv <> "" /\ exists a, snd kv = mkprop (PFixed a) None /\ sg_arr_ok cnt a) ->
            Forall (fun kv => encodable kv /\ wf_prop cnt (snd kv)) ps /\ map (fun kv : string * prop => (fst kv, upcast_prop (snd kv))) ps = ps /\
            Forall (fun kv : string * prop => sg_prop_ok cnt (snd kv)) ps).
  { intros cnt ps H. split; [|split].
    - apply Forall_forall. intros [nm p] Hin. destruct (H _ Hin) as [Hne [a [Hp Ha]]]. cbn [fst snd] in *. subst p.
      destruct (sg_enc nm a cnt Ha Hne) as [H1 [H2 _]]. auto.
    - rewrite <- (map_id ps) at 2. apply map_ext_in. intros [nm p] Hin. destruct (H _ Hin) as [Hne [a [Hp Ha]]]. cbn [fst snd] in *. subst p.
      destruct (sg_enc nm a cnt Ha Hne) as [_ [_ [H3 _]]]. rewrite H3. reflexivity.
    - apply Forall_forall. intros [nm p] Hin. destruct (H _ Hin) as [Hne [a [Hp Ha]]]. cbn [fst snd] in *. subst p.
      destruct (sg_enc nm a cnt Ha Hne) as [_ [_ [_ H4]]]. exact H4. }
  destruct (Hwfp n nps1 Hall1) as [Hencn [Hupn Hsgn]]. destruct (Hwfp e eps Halle) as [Hence [Hupe Hsge]].
  (* axis lookups *)
  assert (Haxis : forall ix, ix < length names ->
            alookup (nth ix names "") nps1 = Some (mkprop (PFixed (col_of P ix)) None)).
  { intros ix Hix. unfold nps1. rewrite alookup_app.
    assert (Hnone : alookup (nth ix names "") (adel pos nps0) = None).
    { apply alookup_none_notin. intro Hin. apply adel_keys_incl in Hin. unfold nps0 in Hin. rewrite akeys_mkp in Hin.
      destruct (sgd_names_fresh _ _ _ _ _ Hd (nth ix names "") (nth_In _ _ Hix)) as [_ Hf]. exact (Hf Hin). }
    rewrite Hnone. apply alookup_axis_cols; [exact (sgd_names_nodup _ _ _ _ _ Hd) | exact Hix | reflexivity]. }
  (* the metadata sg_write builds *)
  destruct (mapM_exists (fun ix : nat * string => match roi_of P (fst ix) with
                                                  | Ok mm => Ok (mkax (snd ix) (Some (fst mm)) (Some (snd mm)) axtok)
                                                  | Err e0 => Err e0 end)
              (fun ix ax => ax_name ax = snd ix) (combine (seq 0 (length names)) names)) as [axes [Haxes HaxF]].
  { apply Forall_forall. intros [ix nm] Hin. destruct (in_combine_nth _ _ _ 0%nat "" Hin) as [j [Hj1 [Hj2 Heq]]].
    rewrite seq_length in Hj1. rewrite seq_nth in Heq by exact Hj1. cbn [Nat.add] in Heq. injection Heq as -> ->. cbn [fst snd].
    unfold roi_of. rewrite Hps. apply Nat.ltb_lt in Hj1. rewrite Hj1. cbn [negb].
    destruct (zmin_list (column_vals P j)), (zmax_list (column_vals P j)); eexists; split; reflexivity. }
  assert (Haxnames : map ax_name axes = names).
  { destruct (Forall2_nth _ _ _ HaxF) as [Hl Hn]. rewrite combine_length, seq_length, Nat.min_id in Hl.
    apply (nth_ext _ _ "" ""); [rewrite map_length; lia|]. intros i Hi. rewrite map_length in Hi.
    rewrite (nth_map_d ax_name axes i (mkax "" None None 0%Z) "" Hi).
    assert (Hi' : i < length (combine (seq 0 (length names)) names)) by (rewrite combine_length, seq_length, Nat.min_id; lia).
    rewrite (Hn i (0%nat, "") (mkax "" None None 0%Z) Hi'). rewrite combine_nth by (rewrite seq_length; reflexivity). reflexivity. }
  set (md0 := mkmd (sc_directed s) (Some axes) [] [] mdtok).
  set (w' := mkwg (sc_nodes s) (sc_edges s) (Some nps1) (Some eps)).
  (* final metadata *)
  assert (Hmm : exists axes', mapM (minmax_axis (map (fun kv : string * prop => (fst kv, upcast_prop (snd kv))) nps1)) axes = Ok axes').
  { rewrite Hupn.
    destruct (mapM_exists (minmax_axis nps1) (fun _ _ => True) axes) as [axes' [Hx _]]; [|exists axes'; exact Hx].
    apply Forall_forall. intros ax Hin.
    assert (Hnm : In (ax_name ax) names) by (rewrite <- Haxnames; apply in_map; exact Hin).
    destruct (In_nth _ _ "" Hnm) as [ix [Hix Hnth]].
    unfold minmax_axis. rewrite <- Hnth, (Haxis ix Hix). cbn [p_vals].
    destruct (col_of_facts P n (length names) ix Hps) as [Hcs [_ Hcl]].
    unfold len0. rewrite Hcs, Hm. unfold axis_values. cbn [p_vals p_missing].
    destruct (a_flat (col_of P ix)) as [|z zs] eqn:Ef; [rewrite Hm in Hcl; discriminate|].
    cbn [zmin_list zmax_list]. eexists. split; [reflexivity | exact I]. }
  destruct Hmm as [axes' Haxes'].
  set (md' := mkmd (sc_directed s) (Some axes') (add_or_update [] (props_meta nps1)) (add_or_update [] (props_meta eps)) mdtok).
  assert (Hfm : final_metadata w' md0 = Ok md').
  { unfold final_metadata, w'. cbn [w_nids w_nprops w_eprops]. unfold props in *; rewrite (backfill_nonempty' _ md0 nps1 m Hlen0).
    unfold compute_minmax. cbn [md_axes md_directed md_nprops md_eprops md_tok md0]. rewrite Haxes'. reflexivity. }
  assert (Hwf : wf_input w' md0 n e).
  { constructor.
    - exact (sgd_nshape _ _ _ _ _ Hd).
    - exact (sgd_eshape _ _ _ _ _ Hd).
    - exact (sgd_edt _ _ _ _ _ Hd).
    - exact (sgd_idint _ _ _ _ _ Hd).
    - unfold w'. cbn [w_nids w_nprops]. unfold props in *; rewrite (backfill_nonempty' _ md0 nps1 m Hlen0). intros ps Hps'. inversion Hps'; subst ps. split; [exact Hnd1 | exact Hencn].
    - intros ps Hps'. inversion Hps'; subst ps. split; [exact Hnde | exact Hence].
    - intros k0 [].
    - intros k0 [].
    - intros axs Hax. cbn [md_axes md0] in Hax. inversion Hax; subst axs. exists nps1. split.
      + unfold w'. cbn [w_nids w_nprops]. apply (backfill_nonempty _ md0 nps1 m Hlen0).
      + intros ax Hin. assert (Hnm : In (ax_name ax) names) by (rewrite <- Haxnames; apply in_map; exact Hin).
        destruct (In_nth _ _ "" Hnm) as [ix [Hix Hnth]]. exists (col_of P ix), n. split.
        * rewrite <- Hnth. apply alookup_some_in. apply Haxis. exact Hix.
        * apply (col_of_facts P n (length names) ix Hps). }
  destruct (write_then_read k None w' md0 md' n e false I Hwf Hfm) as [tr [post [Hwr [Hval Hrd]]]].
  set (mg := mkmg md' (sc_nodes s) (sc_edges s) nps1 eps).
  assert (Hrd' : read_to_memory k (Some post) true None None = Ok mg).
  { rewrite Hrd. unfold w'. cbn [w_nids w_eids w_nprops w_eprops]. unfold props in *; rewrite (backfill_nonempty' _ md0 nps1 m Hlen0).
    unfold up_props. rewrite Hupn, Hupe. reflexivity. }
  assert (Hwfg : wf_geff mg ids es).
  { constructor.
    - unfold node_list, mg. cbn [g_nids]. rewrite (sgd_nshape _ _ _ _ _ Hd), (sgd_nflat _ _ _ _ _ Hd). reflexivity.
    - unfold edge_rows, mg. cbn [g_eids]. rewrite (sgd_eshape _ _ _ _ _ Hd), (sgd_eflat _ _ _ _ _ Hd), pairs_of_flat_pairs. reflexivity.
    - exact (sgd_distinct _ _ _ _ _ Hd).
    - exact (sgd_edistinct _ _ _ _ _ Hd).
    - exact (sgd_endpoints _ _ _ _ _ Hd). }
  assert (Haxn' : map ax_name axes' = names).
  { rewrite <- Haxnames. apply (mapM_minmax_names _ _ _ Haxes'). }
  assert (Hsgdom : sg_dom mg pos ids es names (a_dt P)).
  { constructor.
    - exact Hwfg.
    - exact (sgd_nonempty _ _ _ _ _ Hd).
    - cbn. rewrite Haxn'. reflexivity.
    - exact (sgd_names_ne _ _ _ _ _ Hd).
    - exact (sgd_names_nodup _ _ _ _ _ Hd).
    - exact (sgd_iddt _ _ _ _ _ Hd).
    - exact Hnd1.
    - exact Hnde.
    - exact Hsgn.
    - exact Hsge.
    - cbn [g_nprops mg]. rewrite Hkeys1. intro Hin. apply in_app_iff in Hin. destruct Hin as [Hin|Hin]; [exact (adel_keys_notin pos nps0 Hin) | exact (Hposnames Hin)].
    - intros nm Hin. destruct (In_nth _ _ "" Hin) as [ix [Hix Hnth]]. exists (col_of P ix). cbn [g_nprops mg]. rewrite <- Hnth. split; [apply Haxis; exact Hix|].
      destruct (col_of_facts P n (length names) ix Hps) as [H1 [H2 _]]. auto.
    - destruct HPok as [_ [[Hs1 _]|[k8 [_ [_ H8]]]]]; [rewrite Hps in Hs1; discriminate | exact H8]. }
  exists post, md'. split; [|split; [exact Hval|split; [exact Hrd'|split; [reflexivity|split; [exact Hsgdom|]]]]].
  - apply (run_api_write_sg k _ post tr). unfold sg_write, bind, lift. rewrite Hpos.
    change (mapM _ (combine (seq 0 (length names)) names)) with
      (mapM (fun ix : nat * string => match roi_of P (fst ix) with
                                      | Ok mm => Ok (mkax (snd ix) (Some (fst mm)) (Some (snd mm)) axtok)
                                      | Err e0 => Err e0 end) (combine (seq 0 (length names)) names)).
    rewrite Haxes.
    assert (Hnodup : has_dup names = false).
    { unfold has_dup. apply negb_false_iff. apply Nat.eqb_eq. f_equal. apply dedup_id. exact (sgd_names_nodup _ _ _ _ _ Hd). }
    rewrite Hnodup. rewrite (sgd_ndims _ _ _ _ _ Hd), Nat.eqb_refl. cbn [negb andb]. unfold ret.
    change (write_arrays_u k (mkwg (sc_nodes s) (sc_edges s) (Some nps0) (Some eps)) md0 (Some (pos, names)) true false (init None)
            = (mkst (Some post) tr, Ok tt)).
    etransitivity; [exact (write_arrays_u_unsquish k (sc_nodes s) (sc_edges s) nps0 nps1 (Some eps) md0 pos names true false (init None) m Hlen0 Hunsq)|].
    exact Hwr.
  - (* the adapter view of the written graph = the canonical view of what was stored *)
    exists (mkcg (md_directed (g_md mg)) (combine ids (rows_of_props (g_nprops mg) (length ids)))
                 (combine es (rows_of_props (g_eprops mg) (length es)))). split.
    + apply (canon_geff_rows mg ids es (wg_nodes _ _ _ Hwfg) (wg_edges _ _ _ Hwfg) Hnd1 Hnde).
      * intros i kv Hi Hin. eapply Forall_forall in Hsgn; eauto. eapply sg_prop_elem; eauto.
      * intros j kv Hj Hin. eapply Forall_forall in Hsge; eauto. eapply sg_prop_elem; eauto.
    + assert (Hsn : node_list (sc_nodes s) = Ok ids) by exact (wg_nodes _ _ _ Hwfg).
      assert (Hse : edge_rows (sc_edges s) = Ok es) by exact (wg_edges _ _ _ Hwfg).
      rewrite (canon_sg_rows s names nps1 eps ids es Hsn Hse).
      * reflexivity.
      * intros i nm p Hi Hin. unfold sg_node_prop. rewrite Hpos.
        unfold nps1 in Hin. apply in_app_iff in Hin. destruct Hin as [Hin|Hin].
        -- apply in_adel in Hin. destruct Hin as [Hin Hne]. cbn [fst] in Hne. unfold nps0 in Hin. apply in_map_iff in Hin.
           destruct Hin as [[nm' a] [Heq Hin]]. unfold mkp in Heq. cbn [fst snd] in Heq. injection Heq as -> <-.
           assert (Hnotin : ~ In nm names).
           { intro Hc. destruct (sgd_names_fresh _ _ _ _ _ Hd nm Hc) as [_ Hf]. apply Hf. apply in_map_iff. exists (nm, a). split; [reflexivity | exact Hin]. }
           rewrite (index_of_none nm names Hnotin).
           rewrite (alookup_in_nodup nm a (sc_nattrs s) (sgd_nkeys _ _ _ _ _ Hd) Hin).
           unfold val_at, elem_val. cbn [p_vals].
           pose proof (sgd_nattrs _ _ _ _ _ Hd) as HF. eapply Forall_forall in HF; eauto. cbn [snd] in HF.
           destruct (sg_arr_row _ _ i HF Hi) as [v Hv]. rewrite Hv. reflexivity.
        -- destruct (in_axis_cols P names _ Hin) as [ix [Hix [Hnm Hv]]]. cbn [fst snd] in Hnm, Hv. subst nm p.
           rewrite (index_of_nth names (sgd_names_nodup _ _ _ _ _ Hd) ix Hix).
           unfold val_at, elem_val. cbn [p_vals].
           destruct (sg_arr_row _ _ i (col_arr_ok P n (length names) ix HPdt Hps) Hi) as [v Hv]. rewrite Hv. reflexivity.
      * intros j nm p Hj Hin. unfold eps in Hin. apply in_map_iff in Hin. destruct Hin as [[nm' a] [Heq Hin]].
        unfold mkp in Heq. cbn [fst snd] in Heq. injection Heq as -> <-. exists a. split.
        -- apply alookup_in_nodup; [exact (sgd_ekeys _ _ _ _ _ Hd) | exact Hin].
        -- unfold val_at, elem_val. cbn [p_vals].
           pose proof (sgd_eattrs _ _ _ _ _ Hd) as HF. eapply Forall_forall in HF; eauto. cbn [snd] in HF.
           destruct (sg_arr_row _ _ j HF Hj) as [v Hv]. rewrite Hv. reflexivity.
Qed.

(* spatial-graph round trip: write with the axis names, read through the same backend -- the SgGraphAdapter view of the
   graph read back equals the view of the graph that was written (ids, edges, directedness, every attribute incl. the
   position components under the axis names, values and value kinds) *)
Theorem sg_roundtrip k s names ids es P mdtok axtok : sgc_dom s names ids es P ->
  exists post mg s' cg,
    run (api_write k (sg_write k s None (Some names) mdtok axtok)) None = (Some post, Ok tt) /\
    validate_structure k (Some post) = Ok tt /\
    read_to_memory k (Some post) true None None = Ok mg /\
    sg_construct mg (sc_pos s) = Ok s' /\
    canon_sg s' names (akeys (g_nprops mg)) (akeys (g_eprops mg)) = Ok cg /\
    canon_sg s names (akeys (g_nprops mg)) (akeys (g_eprops mg)) = Ok cg /\
    sc_directed s' = sc_directed s /\ sc_ndims s' = sc_ndims s /\ sc_nodes s' = sc_nodes s /\ sc_edges s' = sc_edges s.
Proof.
  intros Hd. destruct (sg_write_read k s names ids es P mdtok axtok Hd) as [post [md' [Hw [Hval [Hr [Hdir [Hdom [cg [Hcg Hcs]]]]]]]]].
  cbv zeta in *.
  destruct (sg_construct_canon _ (sc_pos s) ids es names (a_dt P) cg Hdom Hcg) as [s' [Hs' [Hv [H1 [H2 [H3 H4]]]]]].
  eexists post, _, s', cg. split; [exact Hw|]. split; [exact Hval|]. split; [exact Hr|]. split; [exact Hs'|].
  split; [exact Hv|]. split; [exact Hcs|]. cbn [g_md g_nids g_eids] in *.
  split; [rewrite H1; exact Hdir|]. split; [rewrite H2; symmetry; exact (sgd_ndims _ _ _ _ _ Hd)|]. split; assumption.
Qed.
