(* TracksCycLemmas.v -- proofs about TracksCyc.v (used by the second half of props/C13.v):
   the fuelled Kahn peeling decides "the digraph has a directed cycle" on every finite digraph (no size bound),
   validate_tracklets never raises, its verdict is the documented definition extended to graphs with cycles,
   and the messages name exactly the invalid tracklets. *)
From Coq Require Import Relations.
From Geff Require Import Base GraphVal GraphValLemmas Reach Tracks TracksLemmas TracksCyc.
Open Scope Z_scope.
Open Scope list_scope.

(* ====================== directed cycles, declaratively ====================== *)
Definition estep (E : list (Z * Z)) (a b : Z) : Prop := In (a, b) E.
(* a non-empty directed walk from some x back to x *)
Definition has_cycle (E : list (Z * Z)) : Prop := exists x, clos_trans Z (estep E) x x.
Definition acyclic (E : list (Z * Z)) : Prop := ~ has_cycle E.

(* the same with the walk written out: consecutive elements of the list are joined by edges *)
Fixpoint chain (E : list (Z * Z)) (l : list Z) : Prop :=
  match l with
  | a :: r => match r with b :: _ => In (a, b) E /\ chain E r | [] => True end
  | [] => True
  end.
Definition has_closed_walk (E : list (Z * Z)) : Prop := exists x l, chain E (x :: l ++ [x]).

Lemma chain_app_join E l y r : chain E (l ++ [y]) -> chain E (y :: r) -> chain E (l ++ y :: r).
Proof.
  induction l as [|a l IH]; intros H1 H2; [exact H2|].
  destruct l as [|b l].
  - cbn in H1. destruct H1 as [H1 _]. change (In (a, y) E /\ chain E (y :: r)). split; assumption.
  - change (In (a, b) E /\ chain E ((b :: l) ++ [y])) in H1. destruct H1 as [Hab H1].
    change (In (a, b) E /\ chain E ((b :: l) ++ y :: r)). split; [exact Hab | apply IH; assumption].
Qed.

Lemma chain_tail E l1 l2 : chain E (l1 ++ l2) -> chain E l2.
Proof.
  induction l1 as [|a l1 IH]; intros H; [exact H|].
  apply IH. change (chain E (a :: (l1 ++ l2))) in H. destruct (l1 ++ l2) as [|b r]; [exact I | exact (proj2 H)].
Qed.

Lemma chain_head E l1 l2 : chain E (l1 ++ l2) -> chain E l1.
Proof.
  induction l1 as [|a l1 IH]; intros H; [exact I|].
  destruct l1 as [|b l1]; [exact I|].
  change (In (a, b) E /\ chain E ((b :: l1) ++ l2)) in H. destruct H as [Hab H].
  change (In (a, b) E /\ chain E (b :: l1)). split; [exact Hab | apply IH; exact H].
Qed.

Lemma chain_tc E l : forall a b, chain E (a :: l ++ [b]) -> clos_trans Z (estep E) a b.
Proof.
  induction l as [|c l IH]; intros a b H.
  - cbn in H. apply t_step. exact (proj1 H).
  - change (In (a, c) E /\ chain E (c :: l ++ [b])) in H. destruct H as [Hac H].
    eapply t_trans; [apply t_step; exact Hac | apply IH; exact H].
Qed.

Lemma tc_chain E a b : clos_trans Z (estep E) a b -> exists l, chain E (a :: l ++ [b]).
Proof.
  intros H. induction H as [x y Hxy | x y z _ [l1 H1] _ [l2 H2]].
  - exists []. cbn. split; [exact Hxy | exact I].
  - exists (l1 ++ y :: l2).
    replace (x :: (l1 ++ y :: l2) ++ [z]) with ((x :: l1) ++ y :: (l2 ++ [z])).
    + apply chain_app_join; [exact H1 | exact H2].
    + cbn. rewrite <- app_assoc. reflexivity.
Qed.

Theorem has_cycle_walk E : has_cycle E <-> has_closed_walk E.
Proof.
  split.
  - intros [x H]. destruct (tc_chain E x x H) as [l Hl]. exists x, l. exact Hl.
  - intros [x [l H]]. exists x. eapply chain_tc. exact H.
Qed.

Lemma tc_mono (R R' : Z -> Z -> Prop) : (forall a b, R a b -> R' a b) ->
  forall a b, clos_trans Z R a b -> clos_trans Z R' a b.
Proof.
  intros HR a b H. induction H as [x y Hxy | x y z _ IH1 _ IH2].
  - apply t_step. apply HR. exact Hxy.
  - eapply t_trans; eassumption.
Qed.

Lemma tc_flip (R R' : Z -> Z -> Prop) : (forall a b, R a b -> R' b a) ->
  forall a b, clos_trans Z R a b -> clos_trans Z R' b a.
Proof.
  intros HR a b H. induction H as [x y Hxy | x y z _ IH1 _ IH2].
  - apply t_step. apply HR. exact Hxy.
  - eapply t_trans; eassumption.
Qed.

Lemma rt_mono (R R' : Z -> Z -> Prop) : (forall a b, R a b -> R' a b) ->
  forall a b, clos_refl_trans Z R a b -> clos_refl_trans Z R' a b.
Proof.
  intros HR a b H. induction H as [x y Hxy | x | x y z _ IH1 _ IH2].
  - apply rt_step. apply HR. exact Hxy.
  - apply rt_refl.
  - eapply rt_trans; eassumption.
Qed.

Lemma tc_rt_tc (R : Z -> Z -> Prop) a b c : clos_trans Z R a b -> clos_refl_trans Z R b c -> clos_trans Z R a c.
Proof.
  intros H1 H2. induction H2 as [x y Hxy | x | x y z _ IH1 _ IH2].
  - eapply t_trans; [exact H1 | apply t_step; exact Hxy].
  - exact H1.
  - apply IH2. apply IH1. exact H1.
Qed.

Lemma has_cycle_mono E E' : incl E E' -> has_cycle E -> has_cycle E'.
Proof. intros Hi [x H]. exists x. eapply tc_mono; [|exact H]. intros a b Hab. apply Hi. exact Hab. Qed.

Lemma has_cycle_nil : ~ has_cycle [].
Proof.
  intros [x H]. apply clos_trans_t1n in H. destruct H as [y H | y z H _]; exact H.
Qed.

(* a cycle goes through an edge *)
Lemma has_cycle_edge E : has_cycle E -> exists x y, In (x, y) E.
Proof.
  intros [x H]. apply clos_trans_t1n in H. destruct H as [y H | y z H _]; exists x, y; exact H.
Qed.

(* ---------- reversal ---------- *)
Definition swapE (E : list (Z * Z)) : list (Z * Z) := map (fun e => (snd e, fst e)) E.
Lemma swapE_In E a b : In (a, b) (swapE E) <-> In (b, a) E.
Proof.
  unfold swapE. rewrite in_map_iff. split.
  - intros [[u v] [He Hin]]. cbn in He. inversion He; subst. exact Hin.
  - intros H. exists (b, a). split; [reflexivity | exact H].
Qed.
Lemma has_cycle_swap E : has_cycle (swapE E) <-> has_cycle E.
Proof.
  split; intros [x H]; exists x.
  - apply (tc_flip (estep (swapE E)) (estep E)); [|exact H]. intros a b Hab. apply swapE_In. exact Hab.
  - apply (tc_flip (estep E) (estep (swapE E))); [|exact H]. intros a b Hab. apply swapE_In. exact Hab.
Qed.
Lemma preds_swap E v : preds (swapE E) v = succs E v.
Proof.
  unfold preds, succs, swapE. f_equal.
  induction E as [|[a b] E IH]; [reflexivity|].
  cbn [map filter fst snd]. destruct (a =? v); cbn [map fst snd]; rewrite IH; reflexivity.
Qed.
Lemma succs_swap E v : succs (swapE E) v = preds E v.
Proof.
  unfold preds, succs, swapE. f_equal.
  induction E as [|[a b] E IH]; [reflexivity|].
  cbn [map filter fst snd]. destruct (b =? v); cbn [map fst snd]; rewrite IH; reflexivity.
Qed.

(* ====================== pigeonhole ====================== *)
Lemma dup_split (l : list Z) : ~ NoDup l -> exists a l1 l2 l3, l = l1 ++ a :: l2 ++ a :: l3.
Proof.
  induction l as [|a r IH]; intros H.
  - exfalso. apply H. constructor.
  - destruct (zmem a r) eqn:Em.
    + apply zmem_In in Em. apply in_split in Em. destruct Em as [l2 [l3 Hr]].
      exists a, [], l2, l3. cbn. rewrite Hr. reflexivity.
    + assert (Hna : ~ In a r) by (intro Hin; apply zmem_In in Hin; congruence).
      destruct IH as [b [l1 [l2 [l3 Hr]]]].
      * intro Hnd. apply H. constructor; assumption.
      * exists b, (a :: l1), l2, l3. cbn. rewrite Hr. reflexivity.
Qed.

(* a non-empty finite set in which every node has a predecessor contains a cycle *)
Lemma back_chain E R : R <> [] -> (forall v, In v R -> exists p, In p R /\ In (p, v) E) ->
  forall n, exists h l, List.length l = n /\ incl (h :: l) R /\ chain E (h :: l).
Proof.
  intros Hne Hpred. induction n as [|n [h [l [Hlen [Hincl Hch]]]]].
  - destruct R as [|r R]; [congruence|]. exists r, []. split; [reflexivity|]. split; [|exact I].
    intros x [<-|[]]. left; reflexivity.
  - destruct (Hpred h (Hincl h (or_introl eq_refl))) as [p [HpR Hph]].
    exists p, (h :: l). split; [cbn; rewrite Hlen; reflexivity|]. split.
    + intros x [<-|Hx]; [exact HpR | apply Hincl; exact Hx].
    + change (In (p, h) E /\ chain E (h :: l)). split; assumption.
Qed.

Lemma closed_set_has_cycle E R : R <> [] -> (forall v, In v R -> exists p, In p R /\ In (p, v) E) -> has_cycle E.
Proof.
  intros Hne Hpred. destruct (back_chain E R Hne Hpred (List.length R)) as [h [l [Hlen [Hincl Hch]]]].
  assert (Hnn : ~ NoDup (h :: l)).
  { intro Hnd. pose proof (NoDup_incl_length Hnd Hincl) as Hle. cbn in Hle. lia. }
  destruct (dup_split (h :: l) Hnn) as [a [l1 [l2 [l3 Heq]]]].
  rewrite Heq in Hch. apply chain_tail in Hch.
  replace (a :: l2 ++ a :: l3) with ((a :: l2 ++ [a]) ++ l3) in Hch by (cbn; rewrite <- app_assoc; reflexivity).
  apply chain_head in Hch. exists a. eapply chain_tc. exact Hch.
Qed.

(* ====================== the Kahn peeling ====================== *)
Lemma filter_len_le {A} (f : A -> bool) l : (List.length (filter f l) <= List.length l)%nat.
Proof. induction l as [|a r IH]; cbn; [lia|]. destruct (f a); cbn; lia. Qed.

Lemma filter_len_eq {A} (f : A -> bool) l : List.length (filter f l) = List.length l -> filter f l = l.
Proof.
  induction l as [|a r IH]; cbn; intros H; [reflexivity|].
  destruct (f a); cbn in H.
  - f_equal. apply IH. lia.
  - pose proof (filter_len_le f r). lia.
Qed.

Lemma filter_id_all {A} (f : A -> bool) l : filter f l = l -> forall x, In x l -> f x = true.
Proof.
  induction l as [|a r IH]; cbn; intros H x Hx; [destruct Hx|].
  destruct (f a) eqn:Ea.
  - inversion H as [H']. destruct Hx as [<-|Hx]; [exact Ea | apply IH; assumption].
  - pose proof (filter_len_le f r) as Hle. rewrite H in Hle. cbn in Hle. lia.
Qed.

Lemma filter_all_id {A} (f : A -> bool) l : (forall x, In x l -> f x = true) -> filter f l = l.
Proof.
  induction l as [|a r IH]; cbn; intros H; [reflexivity|].
  rewrite (H a (or_introl eq_refl)). f_equal. apply IH. intros x Hx. apply H. right; exact Hx.
Qed.

Lemma peel_len_le SE R : (List.length (peel SE R) <= List.length R)%nat.
Proof. apply filter_len_le. Qed.

Lemma peel_iter_stable n SE R : peel SE R = R -> peel_iter n SE R = R.
Proof. intros H. induction n as [|n IH]; cbn; [reflexivity|]. rewrite H. exact IH. Qed.

(* after |R| generations the remainder is a fixed point of the peeling *)
Lemma peel_iter_fix SE n : forall R, (List.length R <= n)%nat -> peel SE (peel_iter n SE R) = peel_iter n SE R.
Proof.
  induction n as [|n IH]; intros R Hlen.
  - destruct R; [reflexivity | cbn in Hlen; lia].
  - cbn [peel_iter]. pose proof (peel_len_le SE R) as Hle.
    destruct (Nat.eq_dec (List.length (peel SE R)) (List.length R)) as [Heq|Hneq].
    + assert (Hp : peel SE R = R) by (apply filter_len_eq; exact Heq).
      rewrite Hp. rewrite (peel_iter_stable n SE R Hp). exact Hp.
    + apply IH. lia.
Qed.

Lemma peel_In SE R v : In v (peel SE R) <-> In v R /\ exists p, In p R /\ In (p, v) SE.
Proof.
  unfold peel. rewrite filter_In, existsb_exists. split.
  - intros [Hv [p [Hp Hm]]]. split; [exact Hv|]. exists p. split; [apply zmem_In; exact Hm | apply preds_In; exact Hp].
  - intros [Hv [p [Hp He]]]. split; [exact Hv|]. exists p. split; [apply preds_In; exact He | apply zmem_In; exact Hp].
Qed.

(* soundness: something remains -> there is a directed cycle.  No hypothesis on SE or T. *)
Theorem kahn_sound SE T : is_dag SE T = false -> has_cycle SE.
Proof.
  unfold is_dag. intros H.
  pose proof (peel_iter_fix SE (List.length T) T (le_n _)) as Hfix.
  destruct (peel_iter (List.length T) SE T) as [|f F] eqn:EF; [discriminate|].
  apply (closed_set_has_cycle SE (f :: F)); [discriminate|].
  intros v Hv. rewrite <- Hfix in Hv. apply peel_In in Hv. exact (proj2 Hv).
Qed.

(* completeness: the nodes of a cycle are never peeled *)
Definition on_cycle (SE : list (Z * Z)) (x y : Z) : Prop :=
  clos_trans Z (estep SE) x y /\ clos_refl_trans Z (estep SE) y x.

Lemma on_cycle_pred SE x y : on_cycle SE x y -> exists p, on_cycle SE x p /\ In (p, y) SE.
Proof.
  intros [Hxy Hyx]. pose proof Hxy as Hxy'. apply clos_trans_tn1 in Hxy'.
  destruct Hxy' as [y1 Hstep | p y1 Hpy Hxp].
  - exists x. split; [|exact Hstep]. split; [eapply tc_rt_tc; eassumption | apply rt_refl].
  - exists p. split; [|exact Hpy]. split.
    + apply clos_tn1_trans. exact Hxp.
    + eapply rt_trans; [apply rt_step; exact Hpy | exact Hyx].
Qed.

Lemma peel_keeps_cycle SE x R : (forall y, on_cycle SE x y -> In y R) -> forall y, on_cycle SE x y -> In y (peel SE R).
Proof.
  intros Hinv y Hy. apply peel_In. split; [apply Hinv; exact Hy|].
  destruct (on_cycle_pred SE x y Hy) as [p [Hp He]]. exists p. split; [apply Hinv; exact Hp | exact He].
Qed.

Lemma peel_iter_keeps_cycle SE x n : forall R, (forall y, on_cycle SE x y -> In y R) ->
  forall y, on_cycle SE x y -> In y (peel_iter n SE R).
Proof.
  induction n as [|n IH]; intros R Hinv; cbn; [exact Hinv|].
  apply IH. apply peel_keeps_cycle. exact Hinv.
Qed.

Definition closed_on (SE : list (Z * Z)) (T : list Z) : Prop :=
  forall e, In e SE -> In (fst e) T /\ In (snd e) T.

Theorem kahn_complete SE T : closed_on SE T -> has_cycle SE -> is_dag SE T = false.
Proof.
  intros Hcl [x Hx]. unfold is_dag.
  assert (Hxx : on_cycle SE x x) by (split; [exact Hx | apply rt_refl]).
  assert (Hin : In x (peel_iter (List.length T) SE T)).
  { apply (peel_iter_keeps_cycle SE x); [|exact Hxx].
    intros y Hy. destruct (on_cycle_pred SE x y Hy) as [p [_ He]]. exact (proj2 (Hcl (p, y) He)). }
  destruct (peel_iter (List.length T) SE T); [destruct Hin | reflexivity].
Qed.

Theorem is_dag_spec SE T : closed_on SE T -> (is_dag SE T = true <-> ~ has_cycle SE).
Proof.
  intros Hcl. split.
  - intros H Hc. rewrite (kahn_complete SE T Hcl Hc) in H. discriminate.
  - intros H. destruct (is_dag SE T) eqn:Ed; [reflexivity|]. exfalso. apply H. eapply kahn_sound. exact Ed.
Qed.

Theorem is_dag_false_spec SE T : closed_on SE T -> (is_dag SE T = false <-> has_cycle SE).
Proof.
  intros Hcl. split; [apply kahn_sound | apply kahn_complete; exact Hcl].
Qed.

Lemma induced_closed E T : closed_on (induced E T) T.
Proof. intros e He. apply induced_In in He. tauto. Qed.

Lemma swap_closed SE T : closed_on SE T -> closed_on (swapE SE) T.
Proof.
  intros H [a b] He. apply (proj1 (swapE_In SE a b)) in He. destruct (H (b, a) He) as [H1 H2]. cbn in *. tauto.
Qed.

(* the test as the code applies it: on the induced subgraph of a tracklet *)
Corollary is_dag_induced E T : is_dag (induced E T) T = true <-> ~ has_cycle (induced E T).
Proof. apply is_dag_spec. apply induced_closed. Qed.

(* ====================== start and end nodes exist and are unique ====================== *)
Lemma find_ext {A} (f g : A -> bool) l : (forall x, f x = g x) -> find f l = find g l.
Proof. intros H. induction l as [|a r IH]; cbn; [reflexivity|]. rewrite H, IH. reflexivity. Qed.

Lemma length0_nil {A} (l : list A) : Nat.eqb (List.length l) 0 = true <-> l = [].
Proof. destruct l; cbn; split; intro H; try reflexivity; discriminate. Qed.

Lemma dag_has_start SE T : T <> [] -> closed_on SE T -> is_dag SE T = true -> exists u, start_node SE T = Some u.
Proof.
  intros Hne Hcl Hd. unfold start_node. destruct (find _ T) as [u|] eqn:Ef; [eauto|]. exfalso.
  assert (Hp : peel SE T = T).
  { apply filter_all_id. intros x Hx. pose proof (find_none _ _ Ef x Hx) as Hx0. cbn beta in Hx0.
    destruct (preds SE x) as [|p l] eqn:Ep; [discriminate|].
    cbn [existsb]. apply orb_true_iff. left. apply zmem_In.
    assert (Hin : In (p, x) SE) by (apply preds_In; rewrite Ep; left; reflexivity).
    exact (proj1 (Hcl _ Hin)). }
  unfold is_dag in Hd. rewrite (peel_iter_stable _ SE T Hp) in Hd. destruct T; [congruence | discriminate].
Qed.

Lemma end_node_swap SE T : start_node (swapE SE) T = end_node SE T.
Proof. unfold start_node, end_node. apply find_ext. intros x. rewrite preds_swap. reflexivity. Qed.

Lemma dag_has_end SE T : T <> [] -> closed_on SE T -> is_dag SE T = true -> exists u, end_node SE T = Some u.
Proof.
  intros Hne Hcl Hd. rewrite <- end_node_swap. apply dag_has_start; [exact Hne | apply swap_closed; exact Hcl|].
  apply is_dag_spec; [apply swap_closed; exact Hcl|]. rewrite has_cycle_swap. apply (is_dag_spec SE T Hcl). exact Hd.
Qed.

(* in a digraph of in-degree <= 1 everything weakly connected to a source is a descendant of it *)
Lemma desc_closed (step : Z -> Z -> Prop) s :
  (forall a b c, step a c -> step b c -> a = b) -> (forall p, ~ step p s) ->
  forall x, clos_refl_trans Z (fun u v => step u v \/ step v u) s x -> clos_refl_trans Z step s x.
Proof.
  intros Hinj Hsrc x H. apply clos_rt_rtn1 in H. induction H as [|y z Hyz _ IH]; [apply rt_refl|].
  destruct Hyz as [Hyz|Hzy].
  - eapply rt_trans; [exact IH | apply rt_step; exact Hyz].
  - pose proof IH as IH'. apply clos_rt_rtn1 in IH'. destruct IH' as [|p y Hpy Hsp].
    + exfalso. exact (Hsrc z Hzy).
    + rewrite (Hinj z p y Hzy Hpy). apply clos_rtn1_rt. exact Hsp.
Qed.

Lemma unique_source (step : Z -> Z -> Prop) s x :
  (forall a b c, step a c -> step b c -> a = b) -> (forall p, ~ step p s) -> (forall p, ~ step p x) ->
  clos_refl_trans Z (fun u v => step u v \/ step v u) s x -> x = s.
Proof.
  intros Hinj Hs Hx H. pose proof (desc_closed step s Hinj Hs x H) as Hd.
  apply clos_rt_rtn1 in Hd. destruct Hd as [|p y Hpy _]; [reflexivity|]. exfalso. exact (Hx p Hpy).
Qed.

Lemma le1_unique (l : list Z) a b : (List.length l <= 1)%nat -> In a l -> In b l -> a = b.
Proof.
  destruct l as [|x [|y r]]; cbn; intros Hl Ha Hb.
  - destruct Ha.
  - destruct Ha as [<-|[]]. destruct Hb as [<-|[]]. reflexivity.
  - lia.
Qed.

Lemma deg_ok_spec SE T u : deg_ok SE T = true -> In u T ->
  (List.length (succs SE u) <= 1)%nat /\ (List.length (preds SE u) <= 1)%nat.
Proof.
  unfold deg_ok. rewrite forallb_forall. intros H Hu. specialize (H u Hu).
  apply andb_true_iff in H. destruct H as [H1 H2]. apply Nat.leb_le in H1, H2. split; assumption.
Qed.

Lemma conn_sym_closure E T a b : conn E T a b ->
  clos_refl_trans Z (fun u v => In (u, v) (induced E T) \/ In (v, u) (induced E T)) a b.
Proof.
  apply rt_mono. intros u v [Hu [Hv [H|H]]]; [left|right]; apply induced_In; cbn; tauto.
Qed.

Lemma start_unique E T s x : deg_ok (induced E T) T = true ->
  In s T -> preds (induced E T) s = [] -> In x T -> preds (induced E T) x = [] -> conn E T s x -> x = s.
Proof.
  intros Hdeg Hs Hps Hx Hpx Hc.
  apply (unique_source (fun u v => In (u, v) (induced E T)) s x).
  - intros a b c Ha Hb. assert (HcT : In c T) by (apply induced_In in Ha; cbn in Ha; tauto).
    destruct (deg_ok_spec _ _ c Hdeg HcT) as [_ Hle].
    apply (le1_unique (preds (induced E T) c)); [exact Hle | apply preds_In; exact Ha | apply preds_In; exact Hb].
  - intros p Hp. apply preds_In in Hp. rewrite Hps in Hp. destruct Hp.
  - intros p Hp. apply preds_In in Hp. rewrite Hpx in Hp. destruct Hp.
  - apply conn_sym_closure. exact Hc.
Qed.

Lemma end_unique E T s x : deg_ok (induced E T) T = true ->
  In s T -> succs (induced E T) s = [] -> In x T -> succs (induced E T) x = [] -> conn E T s x -> x = s.
Proof.
  intros Hdeg Hs Hps Hx Hpx Hc.
  apply (unique_source (fun u v => In (v, u) (induced E T)) s x).
  - intros a b c Ha Hb. assert (HcT : In c T) by (apply induced_In in Ha; cbn in Ha; tauto).
    destruct (deg_ok_spec _ _ c Hdeg HcT) as [Hle _].
    apply (le1_unique (succs (induced E T) c)); [exact Hle | apply succs_In; exact Ha | apply succs_In; exact Hb].
  - intros p Hp. apply succs_In in Hp. rewrite Hps in Hp. destruct Hp.
  - intros p Hp. apply succs_In in Hp. rewrite Hpx in Hp. destruct Hp.
  - eapply rt_mono; [|apply conn_sym_closure; exact Hc]. cbn beta. intros a b [H|H]; [right|left]; exact H.
Qed.

(* ====================== the staged checks against the per-class test ====================== *)
Lemma back_msg_none E u : back_msg E u = None <-> extend_back E u = false.
Proof.
  unfold back_msg, extend_back. destruct (preds E u) as [|p [|q l]]; try tauto.
  destruct (Nat.eqb (outdeg E p) 1); split; intro H; try reflexivity; discriminate.
Qed.
Lemma fwd_msg_none E u : fwd_msg E u = None <-> extend_fwd E u = false.
Proof.
  unfold fwd_msg, extend_fwd. destruct (succs E u) as [|p [|q l]]; try tauto.
  destruct (Nat.eqb (indeg E p) 1); split; intro H; try reflexivity; discriminate.
Qed.

Lemma check_class_unfold E T :
  check_class E T =
  deg_ok (induced E T) T && connected E T && inner_linking E (induced E T)
  && forallb (fun u => match preds (induced E T) u with [] => negb (extend_back E u) | _ => true end) T
  && forallb (fun u => match succs (induced E T) u with [] => negb (extend_fwd E u) | _ => true end) T.
Proof. reflexivity. Qed.

(* the loop body never raises on a non-empty tracklet, and accepts iff the per-class test and the cycle test pass *)
Lemma class_result_ok E r T' : NoDup (r :: T') ->
  exists o, class_result E (r :: T') = Ok o /\ (o = None <-> check_class_all E (r :: T') = true).
Proof.
  intros Hn. set (T := r :: T') in *. unfold class_result, check_class_all. rewrite check_class_unfold.
  set (SE := induced E T).
  destruct (deg_ok SE T) eqn:Hdeg; cbn [negb andb];
    [|exists (Some RBranch); split; [reflexivity | split; discriminate]].
  destruct (is_dag SE T) eqn:Hdag; cbn [negb];
    [|exists (Some RCycle); split; [reflexivity | rewrite andb_false_r; split; discriminate]].
  destruct (connected E T) eqn:Hconn; cbn [negb andb];
    [|exists (Some RDisconnected); split; [reflexivity | split; discriminate]].
  destruct (inner_linking E SE) eqn:Hlink; cbn [negb andb];
    [|exists (Some RDivMerge); split; [reflexivity | split; discriminate]].
  assert (Hne : T <> []) by discriminate.
  destruct (dag_has_start SE T Hne (induced_closed E T) Hdag) as [st Hst].
  destruct (dag_has_end SE T Hne (induced_closed E T) Hdag) as [en Hen].
  rewrite Hst, Hen. eexists. split; [reflexivity|].
  pose proof (proj1 (connected_spec E r T' Hn) Hconn) as Hc.
  assert (Hcc : forall x y, In x T -> In y T -> conn E T x y).
  { intros x y Hx Hy. eapply conn_trans; [apply conn_sym; apply Hc; exact Hx | apply Hc; exact Hy]. }
  unfold start_node in Hst. unfold end_node in Hen.
  apply find_some in Hst, Hen. destruct Hst as [HstT Hst0]. destruct Hen as [HenT Hen0].
  apply length0_nil in Hst0, Hen0. fold SE in Hst0, Hen0.
  rewrite andb_true_r.
  assert (HB : forallb (fun u => match preds SE u with [] => negb (extend_back E u) | _ => true end) T = true
               <-> back_msg E st = None).
  { rewrite back_msg_none, forallb_forall. split.
    - intros H. specialize (H st HstT). cbn beta in H. rewrite Hst0 in H. apply negb_true_iff. exact H.
    - intros H u Hu. destruct (preds SE u) as [|w l] eqn:Ep; [|reflexivity].
      rewrite (start_unique E T st u Hdeg HstT Hst0 Hu Ep (Hcc st u HstT Hu)). apply negb_true_iff. exact H. }
  assert (HF : forallb (fun u => match succs SE u with [] => negb (extend_fwd E u) | _ => true end) T = true
               <-> fwd_msg E en = None).
  { rewrite fwd_msg_none, forallb_forall. split.
    - intros H. specialize (H en HenT). cbn beta in H. rewrite Hen0 in H. apply negb_true_iff. exact H.
    - intros H u Hu. destruct (succs SE u) as [|w l] eqn:Ep; [|reflexivity].
      rewrite (end_unique E T en u Hdeg HenT Hen0 Hu Ep (Hcc en u HenT Hu)). apply negb_true_iff. exact H. }
  rewrite andb_true_iff, HB, HF.
  destruct (back_msg E st) as [x|]; [split; [discriminate | intros [H _]; discriminate]|].
  destruct (fwd_msg E en) as [x|]; [split; [discriminate | intros [_ H]; discriminate]|].
  split; auto.
Qed.

(* the start node chosen by the code does not depend on the iteration order: any node of in-degree 0 is it *)
Lemma start_node_any E r T' u : NoDup (r :: T') ->
  deg_ok (induced E (r :: T')) (r :: T') = true -> connected E (r :: T') = true ->
  In u (r :: T') -> preds (induced E (r :: T')) u = [] ->
  start_node (induced E (r :: T')) (r :: T') = Some u.
Proof.
  intros Hn Hdeg Hconn Hu Hpu. set (T := r :: T') in *.
  pose proof (proj1 (connected_spec E r T' Hn) Hconn) as Hc.
  unfold start_node. destruct (find _ T) as [st|] eqn:Ef.
  - apply find_some in Ef. destruct Ef as [HstT Hst0]. apply length0_nil in Hst0. f_equal.
    apply (start_unique E T u st Hdeg Hu Hpu HstT Hst0).
    eapply conn_trans; [apply conn_sym; apply Hc; exact Hu | apply Hc; exact HstT].
  - pose proof (find_none _ _ Ef u Hu) as H. cbn beta in H. rewrite Hpu in H. discriminate.
Qed.

Lemma end_node_any E r T' u : NoDup (r :: T') ->
  deg_ok (induced E (r :: T')) (r :: T') = true -> connected E (r :: T') = true ->
  In u (r :: T') -> succs (induced E (r :: T')) u = [] ->
  end_node (induced E (r :: T')) (r :: T') = Some u.
Proof.
  intros Hn Hdeg Hconn Hu Hpu. set (T := r :: T') in *.
  pose proof (proj1 (connected_spec E r T' Hn) Hconn) as Hc.
  unfold end_node. destruct (find _ T) as [st|] eqn:Ef.
  - apply find_some in Ef. destruct Ef as [HstT Hst0]. apply length0_nil in Hst0. f_equal.
    apply (end_unique E T u st Hdeg Hu Hpu HstT Hst0).
    eapply conn_trans; [apply conn_sym; apply Hc; exact Hu | apply Hc; exact HstT].
  - pose proof (find_none _ _ Ef u Hu) as H. cbn beta in H. rewrite Hpu in H. discriminate.
Qed.

(* ====================== the whole validator ====================== *)
Lemma collect_ok E NL ts : NoDup (nodes_of NL) -> (forall t, In t ts -> In t (labels_of NL)) ->
  exists l, collect_msgs E NL ts = Ok l /\
            map fst l = filter (fun t => negb (check_class_all E (class_of NL t))) ts.
Proof.
  intros Hnd. induction ts as [|t ts IH]; intros Hts.
  - exists []. split; reflexivity.
  - destruct IH as [l [Hl Hm]]; [intros t' Ht'; apply Hts; right; exact Ht'|].
    destruct (class_nonempty NL t (Hts t (or_introl eq_refl))) as [r [T' Hc]].
    pose proof (class_NoDup NL t Hnd) as Hn. rewrite Hc in Hn.
    destruct (class_result_ok E r T' Hn) as [o [Ho Hiff]].
    cbn [collect_msgs filter]. rewrite Hc, Ho, Hl.
    destruct o as [x|].
    + exists ((t, x) :: l). split; [reflexivity|].
      destruct (check_class_all E (r :: T')) eqn:Ec.
      * exfalso. assert (H : Some x = None) by (apply Hiff; reflexivity). discriminate.
      * cbn. rewrite Hm. reflexivity.
    + exists l. split; [reflexivity|]. rewrite (proj1 Hiff eq_refl). cbn. exact Hm.
Qed.

(* validate_tracklets never raises; the ids in its messages are the tracklets failing the per-class test or the
   cycle test, in dict order; the verdict is "no message" *)
Theorem validate_total E NL : NoDup (nodes_of NL) ->
  exists l, validate_tracklets E NL = Ok (match l with [] => true | _ :: _ => false end, l) /\
            map fst l = invalid_tracklets_all E NL.
Proof.
  intros Hnd. destruct (collect_ok E NL (labels_of NL) Hnd (fun t H => H)) as [l [Hl Hm]].
  exists l. unfold validate_tracklets. rewrite Hl. split; [reflexivity | exact Hm].
Qed.

Theorem validate_never_raises E NL : NoDup (nodes_of NL) -> exists v, validate_tracklets E NL = Ok v.
Proof. intros Hnd. destruct (validate_total E NL Hnd) as [l [H _]]. eauto. Qed.

Lemma validate_true_iff E NL : NoDup (nodes_of NL) ->
  (validate_tracklets E NL = Ok (true, []) <-> invalid_tracklets_all E NL = []).
Proof.
  intros Hnd. destruct (validate_total E NL Hnd) as [l [Hv Hm]]. rewrite Hv, <- Hm. split.
  - intros H. inversion H. reflexivity.
  - intros H. destruct l; [reflexivity | discriminate].
Qed.

(* ====================== the documented definition, cycles included ====================== *)
(* (P): no tracklet runs around a directed cycle -- the induced subgraph of a class has no closed walk, so that
   a class is a path and not a cycle (a self loop and a 2-cycle are cycles) *)
Definition P_spec (E : list (Z * Z)) (NL : nlabels) : Prop :=
  forall t, ~ has_cycle (induced E (class_of NL t)).
Definition spec_all (E : list (Z * Z)) (NL : nlabels) : Prop :=
  L_spec E NL /\ C_spec E NL /\ P_spec E NL.

Lemma induced_incl E T : incl (induced E T) E.
Proof. intros e He. apply induced_In in He. tauto. Qed.

(* on an acyclic graph the extended definition is the old one *)
Theorem spec_all_acyclic E NL : acyclic E -> (spec_all E NL <-> L_spec E NL /\ C_spec E NL).
Proof.
  intros Ha. unfold spec_all. split; [tauto|]. intros [HL HC]. split; [exact HL|]. split; [exact HC|].
  intros t Hc. apply Ha. eapply has_cycle_mono; [apply induced_incl | exact Hc].
Qed.

Definition class_ok_all (E : list (Z * Z)) (T : list Z) : Prop :=
  class_ok E T /\ ~ has_cycle (induced E T).

Lemma check_class_all_spec E r T' : NoDup (r :: T') ->
  (check_class_all E (r :: T') = true <-> class_ok_all E (r :: T')).
Proof.
  intros Hn. unfold check_class_all, class_ok_all. rewrite andb_true_iff, is_dag_induced. split.
  - intros [H1 H2]. split; [apply check_class_sound; assumption | exact H2].
  - intros [H1 H2]. split; [apply check_class_complete; assumption | exact H2].
Qed.

Lemma cycle_class_label E NL t : has_cycle (induced E (class_of NL t)) -> In t (labels_of NL).
Proof.
  intros H. destruct (has_cycle_edge _ H) as [x [y He]]. apply induced_In in He. cbn in He.
  apply labels_of_In. exists x. apply class_In. tauto.
Qed.

Lemma invalid_all_nil_iff E NL : NoDup (nodes_of NL) ->
  (invalid_tracklets_all E NL = [] <-> invalid_tracklets E NL = [] /\ P_spec E NL).
Proof.
  intros Hnd. unfold invalid_tracklets_all, invalid_tracklets, check_class_all. rewrite !filter_nil_iff. split.
  - intros H. split.
    + intros t Ht. specialize (H t Ht). apply negb_false_iff in H. apply andb_true_iff in H.
      apply negb_false_iff. tauto.
    + intros t Hc. pose proof (cycle_class_label E NL t Hc) as Ht. specialize (H t Ht).
      apply negb_false_iff in H. apply andb_true_iff in H. destruct H as [_ H].
      apply is_dag_induced in H. contradiction.
  - intros [H HP] t Ht. specialize (H t Ht). apply negb_false_iff in H. apply negb_false_iff.
    rewrite H. cbn. apply is_dag_induced. apply HP.
Qed.

Theorem tracklets_iff_all E NL : wf_labelled E NL ->
  (validate_tracklets E NL = Ok (true, []) <-> spec_all E NL).
Proof.
  intros Hwf. pose proof (proj1 Hwf) as Hnd.
  rewrite (validate_true_iff E NL Hnd), (invalid_all_nil_iff E NL Hnd), (tracklets_iff E NL Hwf).
  unfold spec_all. tauto.
Qed.

(* the old theorem as a corollary, for the validator with the cycle test *)
Corollary tracklets_iff_acyclic E NL : acyclic E -> wf_labelled E NL ->
  (validate_tracklets E NL = Ok (true, []) <-> L_spec E NL /\ C_spec E NL).
Proof. intros Ha Hwf. rewrite (tracklets_iff_all E NL Hwf). apply spec_all_acyclic. exact Ha. Qed.

(* on an acyclic graph the cycle test never fires: the two verdict-level models coincide *)
Theorem invalid_all_acyclic E NL : acyclic E -> invalid_tracklets_all E NL = invalid_tracklets E NL.
Proof.
  intros Ha. unfold invalid_tracklets_all, invalid_tracklets, check_class_all. apply filter_ext. intros t.
  assert (H : is_dag (induced E (class_of NL t)) (class_of NL t) = true).
  { apply is_dag_induced. intros Hc. apply Ha. eapply has_cycle_mono; [apply induced_incl | exact Hc]. }
  rewrite H, andb_true_r. reflexivity.
Qed.

(* the messages name exactly the invalid tracklets *)
Theorem tracklets_names_all E NL b l t : NoDup (nodes_of NL) -> validate_tracklets E NL = Ok (b, l) ->
  (In t (map fst l) <-> In t (labels_of NL) /\ ~ class_ok_all E (class_of NL t)).
Proof.
  intros Hnd Hv. destruct (validate_total E NL Hnd) as [l' [Hv' Hm]]. rewrite Hv' in Hv. inversion Hv; subst l'.
  rewrite Hm. unfold invalid_tracklets_all. rewrite filter_In, negb_true_iff. split.
  - intros [Ht Hc]. split; [exact Ht|]. intros Hok.
    destruct (class_nonempty NL t Ht) as [r [T' Hcl]]. pose proof (class_NoDup NL t Hnd) as Hn.
    rewrite Hcl in *. rewrite (proj2 (check_class_all_spec E r T' Hn) Hok) in Hc. discriminate.
  - intros [Ht Hnok]. split; [exact Ht|].
    destruct (check_class_all E (class_of NL t)) eqn:Ec; [|reflexivity]. exfalso. apply Hnok.
    destruct (class_nonempty NL t Ht) as [r [T' Hcl]]. pose proof (class_NoDup NL t Hnd) as Hn.
    rewrite Hcl in *. apply check_class_all_spec; assumption.
Qed.

(* ---------- which message: "Cycle detected" ---------- *)
Lemma collect_In E NL ts l t x : collect_msgs E NL ts = Ok l ->
  (In (t, x) l <-> In t ts /\ class_result E (class_of NL t) = Ok (Some x)).
Proof.
  revert l. induction ts as [|t0 ts IH]; intros l H; cbn in H.
  - inversion H. cbn. tauto.
  - destruct (class_result E (class_of NL t0)) as [o|e] eqn:Ec; [|discriminate].
    destruct (collect_msgs E NL ts) as [l0|e] eqn:El; [|discriminate].
    specialize (IH l0 eq_refl). inversion H as [Hl]. cbn [In]. destruct o as [y|].
    + cbn [In]. rewrite IH. split.
      * intros [Heq|[H1 H2]]; [inversion Heq; subst; auto | auto].
      * intros [[<-|H1] H2]; [left; rewrite Ec in H2; inversion H2; reflexivity | right; auto].
    + rewrite IH. split.
      * intros [H1 H2]; auto.
      * intros [[<-|H1] H2]; [rewrite Ec in H2; discriminate | auto].
Qed.

Lemma class_result_cycle E T : class_result E T = Ok (Some RCycle) <->
  deg_ok (induced E T) T = true /\ is_dag (induced E T) T = false.
Proof.
  unfold class_result.
  destruct (deg_ok (induced E T) T); cbn [negb]; [|split; [discriminate | intros [H _]; discriminate]].
  destruct (is_dag (induced E T) T); cbn [negb]; [|tauto].
  split; [|intros [_ H]; discriminate]. intros H. exfalso.
  destruct (connected E T); cbn [negb] in H; [|discriminate].
  destruct (inner_linking E (induced E T)); cbn [negb] in H; [|discriminate].
  destruct (start_node (induced E T) T); [|discriminate]. destruct (end_node (induced E T) T); [|discriminate].
  unfold back_msg, fwd_msg in H.
  destruct (preds E z) as [|p [|? ?]]; try (destruct (Nat.eqb (outdeg E p) 1); try discriminate);
  destruct (succs E z0) as [|s [|? ?]]; try (destruct (Nat.eqb (indeg E s) 1)); discriminate.
Qed.

(* "Cycle detected" is reported for t exactly when the induced subgraph of t has in/out degrees <= 1
   (a disjoint union of simple paths and simple cycles) and contains a directed cycle *)
Theorem cycle_message E NL b l t : validate_tracklets E NL = Ok (b, l) ->
  (In (t, RCycle) l <->
   In t (labels_of NL) /\ deg_ok (induced E (class_of NL t)) (class_of NL t) = true /\
   has_cycle (induced E (class_of NL t))).
Proof.
  unfold validate_tracklets. destruct (collect_msgs E NL (labels_of NL)) as [l0|e] eqn:Ec; [|discriminate].
  intros H. inversion H; subst l0.
  rewrite (collect_In E NL _ l t RCycle Ec), class_result_cycle.
  rewrite (is_dag_false_spec _ _ (induced_closed E (class_of NL t))). tauto.
Qed.
