(* DataValLemmas.v -- proofs about DataVal.v (the five-flag model of validate_data) used by props/C12.v and props/C13.v. *)
From Coq Require Import Relations.
From Geff Require Import Base GraphVal GraphValLemmas Reach Tracks TracksLemmas TracksCyc TracksCycLemmas TracksPathLemmas.
From Geff Require Import DataVal.
Open Scope Z_scope.
Open Scope list_scope.

(* "the validator enabled for this property accepts": nothing to do when the property is not declared,
   KeyError when it is declared but node_props does not hold it *)
Definition accepts {A} (p : decl A) (P : A -> Prop) : Prop :=
  match p with Undeclared => True | Absent => False | Present a => P a end.

Definition declared {A} (p : decl A) : bool := match p with Undeclared => false | _ => true end.

(* ---------- masks ---------- *)
Lemma mask_filter_some {A} (ms : option (list bool)) (rows l : list A) :
  mask_filter ms rows = Some l <-> fits ms rows = true /\ l = present ms rows.
Proof.
  unfold mask_filter. destruct (fits ms rows); split.
  - intros H. inversion H. auto.
  - intros [_ ->]. reflexivity.
  - discriminate.
  - intros [H _]. discriminate.
Qed.

Lemma mask_filter_none {A} (ms : option (list bool)) (rows : list A) :
  mask_filter ms rows = None <-> fits ms rows = false.
Proof. unfold mask_filter. destruct (fits ms rows); split; (discriminate || reflexivity). Qed.

Lemma keep_present_In {A} (m : list bool) : forall (l : list A) x, In x (keep_present m l) -> In x l.
Proof.
  induction m as [|b m IH]; intros [|y l] x; cbn; try tauto.
  destruct b; cbn; intros H; [right; apply IH; exact H|].
  destruct H as [->|H]; [left; reflexivity | right; apply IH; exact H].
Qed.

Lemma keep_present_NoDup {A} (m : list bool) : forall (l : list A), NoDup l -> NoDup (keep_present m l).
Proof.
  induction m as [|b m IH]; intros [|y l] H; cbn; try constructor.
  inversion H as [|? ? Hy Hl]; subst. destruct b; [apply IH; exact Hl|].
  constructor; [|apply IH; exact Hl]. intros Hin. apply Hy. apply (keep_present_In m l y Hin).
Qed.

Lemma map_fst_combine_In {A B} (a : list A) : forall (b : list B) x, In x (map fst (combine a b)) -> In x a.
Proof.
  induction a as [|x0 a IH]; intros [|y b] x; cbn; try tauto.
  intros [->|H]; [left; reflexivity | right; apply (IH b); exact H].
Qed.

Lemma map_fst_combine_NoDup {A B} (a : list A) : forall (b : list B), NoDup a -> NoDup (map fst (combine a b)).
Proof.
  induction a as [|x0 a IH]; intros [|y b] H; cbn; try constructor.
  - inversion H as [|? ? Hx Ha]; subst. intros Hin. apply Hx. apply (map_fst_combine_In a b x0 Hin).
  - inversion H; subst. apply IH. assumption.
Qed.

Lemma annotated_some_iff ids p :
  (exists NL, annotated_nodes ids p = Some NL) <->
  fits (tp_missing p) ids = true /\ fits (tp_missing p) (tp_values p) = true.
Proof.
  unfold annotated_nodes. split.
  - intros [NL H].
    destruct (mask_filter (tp_missing p) ids) as [i|] eqn:Ei; [|discriminate].
    destruct (mask_filter (tp_missing p) (tp_values p)) as [v|] eqn:Ev; [|discriminate].
    apply mask_filter_some in Ei, Ev. tauto.
  - intros [H1 H2].
    destruct (mask_filter (tp_missing p) ids) as [i|] eqn:Ei.
    + destruct (mask_filter (tp_missing p) (tp_values p)) as [v|] eqn:Ev; [eauto|].
      apply mask_filter_none in Ev. congruence.
    + apply mask_filter_none in Ei. congruence.
Qed.

Lemma annotated_NoDup ids p NL : NoDup ids -> annotated_nodes ids p = Some NL -> NoDup (nodes_of NL).
Proof.
  unfold annotated_nodes. intros Hn H.
  destruct (mask_filter (tp_missing p) ids) as [i|] eqn:Ei; [|discriminate].
  destruct (mask_filter (tp_missing p) (tp_values p)) as [v|] eqn:Ev; [|discriminate].
  inversion H; subst NL. unfold nodes_of. apply map_fst_combine_NoDup.
  apply mask_filter_some in Ei. destruct Ei as [_ ->]. unfold present.
  destruct (tp_missing p); [apply keep_present_NoDup|]; exact Hn.
Qed.

(* what _annotated_nodes keeps, by position: the pairs (id, value) at the positions not flagged missing *)
Definition annotated_spec (ids : list Z) (p : tprop) (NL : nlabels) : Prop :=
  forall u t, In (u, t) NL <->
    exists i, nth_error ids i = Some u /\ nth_error (tp_values p) i = Some t /\ missing_at (tp_missing p) i = false.

Lemma combine_In_nth {A B} (a : list A) : forall (b : list B) u t,
  In (u, t) (combine a b) <-> exists i, nth_error a i = Some u /\ nth_error b i = Some t.
Proof.
  induction a as [|x a IH]; intros b u t.
  - cbn. split; [tauto|]. intros [[|i] [H _]]; discriminate.
  - destruct b as [|y b].
    + cbn. split; [tauto|]. intros [[|i] [_ H]]; discriminate.
    + cbn [combine In]. rewrite IH. split.
      * intros [H|[i Hi]]; [inversion H; subst; exists O; cbn; auto | exists (S i); exact Hi].
      * intros [[|i] [H1 H2]]; cbn in H1, H2; [left; inversion H1; inversion H2; reflexivity | right; eauto].
Qed.

Lemma combine_keep_In_nth (m : list bool) : forall (a b : list Z) u t,
  List.length m = List.length a -> List.length m = List.length b ->
  (In (u, t) (combine (keep_present m a) (keep_present m b)) <->
   exists i, nth_error a i = Some u /\ nth_error b i = Some t /\ nth i m false = false).
Proof.
  induction m as [|f m IH]; intros [|x a] [|y b] u t Ha Hb; try discriminate.
  - cbn. split; [tauto|]. intros [[|i] [H _]]; discriminate.
  - cbn in Ha, Hb. injection Ha as Ha. injection Hb as Hb. specialize (IH a b u t Ha Hb).
    cbn [keep_present]. destruct f.
    + rewrite IH. split.
      * intros [i Hi]. exists (S i). exact Hi.
      * intros [[|i] [H1 [H2 H3]]]; [cbn in H3; discriminate | exists i; auto].
    + cbn [combine In]. rewrite IH. split.
      * intros [H|[i Hi]]; [inversion H; subst; exists O; cbn; auto | exists (S i); exact Hi].
      * intros [[|i] [H1 [H2 H3]]]; cbn in H1, H2, H3;
          [left; inversion H1; inversion H2; reflexivity | right; eauto].
Qed.

Lemma annotated_nodes_spec ids p NL : annotated_nodes ids p = Some NL -> annotated_spec ids p NL.
Proof.
  unfold annotated_nodes, annotated_spec. intros H u t.
  destruct (mask_filter (tp_missing p) ids) as [i|] eqn:Ei; [|discriminate].
  destruct (mask_filter (tp_missing p) (tp_values p)) as [v|] eqn:Ev; [|discriminate].
  inversion H; subst NL. apply mask_filter_some in Ei, Ev.
  destruct Ei as [F1 ->], Ev as [F2 ->]. unfold present, missing_at, fits in *.
  destruct (tp_missing p) as [[|b m]|].
  - cbn. split; [tauto|]. intros [i [_ [_ H']]]. discriminate.
  - rewrite !orb_false_r in F1, F2. apply Nat.eqb_eq in F1, F2. apply combine_keep_In_nth; assumption.
  - rewrite combine_In_nth. split; intros [i H']; exists i; tauto.
Qed.

(* a node whose id is flagged missing is not among the annotated nodes, hence belongs to no class *)
Lemma missing_not_annotated ids p NL i u :
  NoDup ids -> annotated_nodes ids p = Some NL ->
  nth_error ids i = Some u -> missing_at (tp_missing p) i = true ->
  ~ In u (nodes_of NL) /\ forall t, ~ In u (class_of NL t).
Proof.
  intros Hn Ha Hi Hm.
  assert (Hcl : forall t, ~ In (u, t) NL).
  { intros t Hin. apply (annotated_nodes_spec ids p NL Ha) in Hin. destruct Hin as [j [Hj [_ Hmj]]].
    assert (i = j).
    { apply (proj1 (NoDup_nth_error ids) Hn); [apply nth_error_Some; congruence | congruence]. }
    subst j. congruence. }
  split.
  - intros Hin. unfold nodes_of in Hin. apply in_map_iff in Hin. destruct Hin as [[a t] [Ha' Hin]].
    cbn in Ha'. subst a. exact (Hcl t Hin).
  - intros t Hin. apply class_In in Hin. exact (Hcl t Hin).
Qed.

(* the value stored under a missing flag is never read *)
Lemma upd_nth_length {A} (v : A) : forall l i, List.length (upd_nth i v l) = List.length l.
Proof. induction l as [|x l IH]; intros [|i]; cbn; auto. Qed.

Lemma keep_present_upd {A} (v : A) : forall m l i, nth i m false = true -> keep_present m (upd_nth i v l) = keep_present m l.
Proof.
  induction m as [|b m IH]; intros [|x l] [|i] H; cbn in *; try reflexivity; try discriminate.
  - subst b. reflexivity.
  - destruct b; [apply IH; exact H | f_equal; apply IH; exact H].
Qed.

Lemma mask_filter_upd {A} (v : A) m l i : nth i m false = true ->
  mask_filter (Some m) (upd_nth i v l) = mask_filter (Some m) l.
Proof. intros H. unfold mask_filter, fits, present. rewrite upd_nth_length, (keep_present_upd v m l i H). reflexivity. Qed.

Lemma annotated_fill ids vals m i v : nth i m false = true ->
  annotated_nodes ids {| tp_values := upd_nth i v vals; tp_missing := Some m |} =
  annotated_nodes ids {| tp_values := vals; tp_missing := Some m |}.
Proof. intros H. unfold annotated_nodes. cbn [tp_values tp_missing]. rewrite (mask_filter_upd v m vals i H). reflexivity. Qed.

(* ---------- sphere / ellipsoid stage by stage vs the booleans of GraphVal.v ---------- *)
Lemma existsb_neg_forallb (l : list Z) : existsb (fun r => r <? 0) l = negb (forallb (fun r => 0 <=? r) l).
Proof.
  induction l as [|x l IH]; [reflexivity|]. cbn. rewrite IH.
  destruct (x <? 0) eqn:E1, (0 <=? x) eqn:E2; cbn; try reflexivity; lia.
Qed.

Lemma sphere_fault_cases nd rs :
  (sphere_fault nd rs = None /\ sphere_ok nd rs None = true) \/
  (exists f, sphere_fault nd rs = Some f /\ exn_of_fault f = ValueError /\ sphere_ok nd rs None = false).
Proof.
  unfold sphere_fault, sphere_ok, present. rewrite existsb_neg_forallb.
  destruct (Nat.eqb nd 1); cbn.
  - destruct (forallb (fun r => 0 <=? r) rs); cbn; [left; auto | right; eexists; eauto].
  - right. eexists; eauto.
Qed.

Lemma sphere_fault_none nd rs : sphere_fault nd rs = None <-> sphere_ok nd rs None = true.
Proof.
  destruct (sphere_fault_cases nd rs) as [[H1 H2]|[f [H1 [_ H2]]]]; rewrite H1, H2; split; auto; discriminate.
Qed.

Lemma forallb_andb {A} (f g : A -> bool) l : forallb (fun x => f x && g x) l = forallb f l && forallb g l.
Proof.
  induction l as [|x l IH]; [reflexivity|]. cbn. rewrite IH.
  destruct (f x), (g x), (forallb f l), (forallb g l); reflexivity.
Qed.

Lemma ellipsoid_fault_cases spatial nd r c ms :
  (ellipsoid_fault spatial nd r c ms = None /\ ellipsoid_ok spatial nd r c ms None = true) \/
  (exists f, ellipsoid_fault spatial nd r c ms = Some f /\ exn_of_fault f = ValueError /\
             ellipsoid_ok spatial nd r c ms None = false).
Proof.
  unfold ellipsoid_fault, ellipsoid_ok, present. rewrite forallb_andb.
  destruct (Nat.ltb 0 spatial); cbn; [|right; eexists; eauto].
  destruct (Nat.eqb nd 3); cbn; [|right; eexists; eauto].
  destruct (Nat.eqb r c); cbn; [|right; eexists; eauto].
  destruct (Nat.eqb r spatial); cbn; [|right; eexists; eauto].
  destruct (forallb (symmetric r) ms); cbn; [|right; eexists; eauto].
  destruct (forallb (pos_def r) ms); cbn; [left; auto | right; eexists; eauto].
Qed.

Lemma ellipsoid_fault_none spatial nd r c ms :
  ellipsoid_fault spatial nd r c ms = None <-> ellipsoid_ok spatial nd r c ms None = true.
Proof.
  destruct (ellipsoid_fault_cases spatial nd r c ms) as [[H1 H2]|[f [H1 [_ H2]]]]; rewrite H1, H2; split; auto; discriminate.
Qed.

Lemma sphere_ok_present nd rs ms : sphere_ok nd (present ms rs) None = sphere_ok nd rs ms.
Proof. reflexivity. Qed.
Lemma ellipsoid_ok_present spatial nd r c ms mi :
  ellipsoid_ok spatial nd r c (present mi ms) None = ellipsoid_ok spatial nd r c ms mi.
Proof. reflexivity. Qed.

(* ---------- the two track validators as stages ---------- *)
Lemma validate_tracklets_verdict E NL b l : validate_tracklets E NL = Ok (b, l) -> (b = true <-> l = []).
Proof.
  unfold validate_tracklets. destruct (collect_msgs E NL (labels_of NL)) as [l0|e]; [|discriminate].
  intros H. inversion H; subst. destruct l; split; (reflexivity || discriminate).
Qed.

Lemma tracklets_fault_none E NL : tracklets_fault E NL = None <-> validate_tracklets E NL = Ok (true, []).
Proof.
  unfold tracklets_fault. destruct (validate_tracklets E NL) as [[b l]|e] eqn:Ev.
  - pose proof (validate_tracklets_verdict E NL b l Ev) as Hb. destruct b.
    + split; [intros _|reflexivity]. rewrite (proj1 Hb eq_refl). reflexivity.
    + split; [discriminate|]. intros H. inversion H.
  - split; discriminate.
Qed.

Lemma lineages_fault_none E NL : lineages_fault E NL = None <-> invalid_lineages E NL = [].
Proof. unfold lineages_fault. destruct (invalid_lineages E NL); split; (reflexivity || discriminate). Qed.

Lemma stage_track_none enabled p ids validator :
  stage_track enabled p ids validator = None <->
  (enabled = true -> accepts p (fun q => exists NL, annotated_nodes ids q = Some NL /\ validator NL = None)).
Proof.
  unfold stage_track. destruct enabled; [|split; [discriminate | reflexivity]].
  destruct p as [| |q]; cbn [accepts].
  - split; auto.
  - split; [discriminate | intros H; destruct (H eq_refl)].
  - destruct (annotated_nodes ids q) as [NL|].
    + split.
      * intros H _. exists NL. auto.
      * intros H. destruct (H eq_refl) as [NL' [E1 E2]]. inversion E1; subst. exact E2.
    + split; [discriminate|]. intros H. destruct (H eq_refl) as [NL' [E1 _]]. discriminate.
Qed.

Lemma ex_iff {A} (P Q : A -> Prop) : (forall x, P x <-> Q x) -> ((exists x, P x) <-> (exists x, Q x)).
Proof. intros H. split; intros [x Hx]; exists x; apply H; exact Hx. Qed.

Lemma accepts_iff {A} (p : decl A) (P Q : A -> Prop) : (forall a, P a <-> Q a) -> (accepts p P <-> accepts p Q).
Proof. intros H. destruct p; cbn; [tauto | tauto | apply H]. Qed.

(* ---------- the dispatch ---------- *)
Lemma validate_data5_ok_fault cfg d : validate_data5 cfg d = Ok tt <-> data_fault cfg d = None.
Proof. unfold validate_data5. destruct (data_fault cfg d); split; (reflexivity || discriminate). Qed.

Lemma orelse_none a b : orelse a b = None <-> a = None /\ b = None.
Proof. destruct a; cbn; split; try tauto; try discriminate; try (intros [H _]; discriminate). Qed.

Lemma stage_graph_none cfg d :
  stage_graph cfg d = None <-> (c5_graph cfg = true -> graph_valid (e_directed d) (e_ids d) (e_edges d)).
Proof.
  unfold stage_graph. rewrite <- graph_check_none_iff. destruct (c5_graph cfg); [|split; [discriminate | reflexivity]].
  destruct (graph_check (e_directed d) (e_ids d) (e_edges d)); split; auto; try discriminate.
  intros H. specialize (H eq_refl). discriminate.
Qed.

Lemma stage_sphere_none cfg d :
  stage_sphere cfg d = None <->
  (c5_sphere cfg = true ->
   accepts (e_sphere d) (fun '(nd, rs, ms) => fits ms rs = true /\ sphere_ok nd rs ms = true)).
Proof.
  unfold stage_sphere. destruct (c5_sphere cfg); [|split; [discriminate | reflexivity]].
  destruct (e_sphere d) as [| |[[nd rs] ms]]; cbn [accepts].
  - split; auto.
  - split; [discriminate | intros H; destruct (H eq_refl)].
  - destruct (mask_filter ms rs) as [rs'|] eqn:Em.
    + apply mask_filter_some in Em. destruct Em as [Hf ->].
      rewrite sphere_fault_none, sphere_ok_present. split; [auto | intros H; apply (H eq_refl)].
    + apply mask_filter_none in Em. split; [discriminate|]. intros H. destruct (H eq_refl). congruence.
Qed.

Lemma stage_ellipsoid_none cfg d :
  stage_ellipsoid cfg d = None <->
  (c5_ellipsoid cfg = true ->
   accepts (e_ellipsoid d) (fun '(nd, r, c, ms, mi) =>
     fits mi ms = true /\ ellipsoid_ok (e_spatial d) nd r c ms mi = true)).
Proof.
  unfold stage_ellipsoid. destruct (c5_ellipsoid cfg); [|split; [discriminate | reflexivity]].
  destruct (e_ellipsoid d) as [| |[[[[nd r] c] ms] mi]]; cbn [accepts].
  - split; auto.
  - split; [discriminate | intros H; destruct (H eq_refl)].
  - destruct (mask_filter mi ms) as [ms'|] eqn:Em.
    + apply mask_filter_some in Em. destruct Em as [Hf ->].
      rewrite ellipsoid_fault_none, ellipsoid_ok_present. split; [auto | intros H; apply (H eq_refl)].
    + apply mask_filter_none in Em. split; [discriminate|]. intros H. destruct (H eq_refl). congruence.
Qed.

Definition tracklets_accept (d : vdata5) (p : tprop) : Prop :=
  exists NL, annotated_nodes (e_ids d) p = Some NL /\ validate_tracklets (e_edges d) NL = Ok (true, []).
Definition lineages_accept (d : vdata5) (p : tprop) : Prop :=
  exists NL, annotated_nodes (e_ids d) p = Some NL /\ invalid_lineages (e_edges d) NL = [].

Lemma stage_tracklet_none cfg d :
  stage_tracklet cfg d = None <-> (c5_tracklet cfg = true -> accepts (tracklet_decl d) (tracklets_accept d)).
Proof.
  unfold stage_tracklet. rewrite stage_track_none.
  assert (H : accepts (tracklet_decl d)
                (fun q => exists NL, annotated_nodes (e_ids d) q = Some NL /\ tracklets_fault (e_edges d) NL = None)
              <-> accepts (tracklet_decl d) (tracklets_accept d)).
  { apply accepts_iff. intros q. unfold tracklets_accept. apply ex_iff. intros NL. rewrite tracklets_fault_none. tauto. }
  rewrite H. tauto.
Qed.

Lemma stage_lineage_none cfg d :
  stage_lineage cfg d = None <-> (c5_lineage cfg = true -> accepts (lineage_decl d) (lineages_accept d)).
Proof.
  unfold stage_lineage. rewrite stage_track_none.
  assert (H : accepts (lineage_decl d)
                (fun q => exists NL, annotated_nodes (e_ids d) q = Some NL /\ lineages_fault (e_edges d) NL = None)
              <-> accepts (lineage_decl d) (lineages_accept d)).
  { apply accepts_iff. intros q. unfold lineages_accept. apply ex_iff. intros NL. rewrite lineages_fault_none. tauto. }
  rewrite H. tauto.
Qed.

(* validate_data returns iff every enabled validator whose property is declared finds its property, can apply
   the mask, and accepts the entries not flagged missing *)
Theorem validate_data5_ok_iff cfg d :
  validate_data5 cfg d = Ok tt <->
  (c5_graph cfg = true -> graph_valid (e_directed d) (e_ids d) (e_edges d)) /\
  (c5_sphere cfg = true ->
     accepts (e_sphere d) (fun '(nd, rs, ms) => fits ms rs = true /\ sphere_ok nd rs ms = true)) /\
  (c5_ellipsoid cfg = true ->
     accepts (e_ellipsoid d) (fun '(nd, r, c, ms, mi) =>
       fits mi ms = true /\ ellipsoid_ok (e_spatial d) nd r c ms mi = true)) /\
  (c5_tracklet cfg = true -> accepts (tracklet_decl d) (tracklets_accept d)) /\
  (c5_lineage cfg = true -> accepts (lineage_decl d) (lineages_accept d)).
Proof.
  rewrite validate_data5_ok_fault. unfold data_fault. rewrite !orelse_none.
  rewrite stage_graph_none, stage_sphere_none, stage_ellipsoid_none, stage_tracklet_none, stage_lineage_none.
  reflexivity.
Qed.

(* ---------- declarative right-hand side ---------- *)
(* validate_tracklets decides "every tracklet is a maximal unbranched path of the graph" for EVERY edge list, also when
   edges mention ids that are not in the node list (nodes whose tracklet id is flagged missing keep their edges) *)
Theorem tracklets_iff_paths_any E NL : NoDup (nodes_of NL) ->
  (validate_tracklets E NL = Ok (true, []) <-> spec_paths E NL).
Proof.
  intros Hnd. rewrite (validate_true_iff E NL Hnd). unfold invalid_tracklets_all, spec_paths.
  rewrite filter_nil_iff. split.
  - intros H t Ht. specialize (H t Ht). apply negb_false_iff in H.
    destruct (class_nonempty NL t Ht) as [r [T' Hc]]. pose proof (class_NoDup NL t Hnd) as Hn.
    rewrite Hc in *. apply path_class_iff; [exact Hn|]. apply check_class_all_spec; assumption.
  - intros H t Ht. specialize (H t Ht). apply negb_false_iff.
    destruct (class_nonempty NL t Ht) as [r [T' Hc]]. pose proof (class_NoDup NL t Hnd) as Hn.
    rewrite Hc in *. apply check_class_all_spec; [exact Hn|]. apply path_class_iff; assumption.
Qed.

Definition tracklets_spec (d : vdata5) (p : tprop) : Prop :=
  exists NL, annotated_nodes (e_ids d) p = Some NL /\ spec_paths (e_edges d) NL.
Definition lineages_spec (d : vdata5) (p : tprop) : Prop :=
  exists NL, annotated_nodes (e_ids d) p = Some NL /\ lineage_spec (e_edges d) NL.

Theorem validate_data5_spec cfg d : NoDup (e_ids d) ->
  (validate_data5 cfg d = Ok tt <->
   (c5_graph cfg = true -> graph_valid (e_directed d) (e_ids d) (e_edges d)) /\
   (c5_sphere cfg = true ->
      accepts (e_sphere d) (fun '(nd, rs, ms) =>
        fits ms rs = true /\ nd = 1%nat /\ Forall (fun r => 0 <= r) (present ms rs))) /\
   (c5_ellipsoid cfg = true ->
      accepts (e_ellipsoid d) (fun '(nd, r, c, ms, mi) =>
        fits mi ms = true /\ (0 < e_spatial d)%nat /\ nd = 3%nat /\ r = c /\ r = e_spatial d /\
        Forall (fun m => symmetric r m = true /\ pos_def r m = true) (present mi ms))) /\
   (c5_tracklet cfg = true -> accepts (tracklet_decl d) (tracklets_spec d)) /\
   (c5_lineage cfg = true -> accepts (lineage_decl d) (lineages_spec d))).
Proof.
  intros Hn. rewrite validate_data5_ok_iff.
  assert (Hs : accepts (e_sphere d) (fun '(nd, rs, ms) => fits ms rs = true /\ sphere_ok nd rs ms = true) <->
               accepts (e_sphere d) (fun '(nd, rs, ms) =>
                 fits ms rs = true /\ nd = 1%nat /\ Forall (fun r => 0 <= r) (present ms rs))).
  { apply accepts_iff. intros [[nd rs] ms]. rewrite sphere_ok_iff. reflexivity. }
  assert (He : accepts (e_ellipsoid d) (fun '(nd, r, c, ms, mi) =>
                 fits mi ms = true /\ ellipsoid_ok (e_spatial d) nd r c ms mi = true) <->
               accepts (e_ellipsoid d) (fun '(nd, r, c, ms, mi) =>
                 fits mi ms = true /\ (0 < e_spatial d)%nat /\ nd = 3%nat /\ r = c /\ r = e_spatial d /\
                 Forall (fun m => symmetric r m = true /\ pos_def r m = true) (present mi ms))).
  { apply accepts_iff. intros [[[[nd r] c] ms] mi]. rewrite ellipsoid_ok_iff. reflexivity. }
  assert (Ht : accepts (tracklet_decl d) (tracklets_accept d) <-> accepts (tracklet_decl d) (tracklets_spec d)).
  { apply accepts_iff. intros p. unfold tracklets_accept, tracklets_spec. apply ex_iff. intros NL. split.
    - intros [Ha Hv]. split; [exact Ha|]. apply tracklets_iff_paths_any; [|exact Hv]. apply (annotated_NoDup _ _ _ Hn Ha).
    - intros [Ha Hv]. split; [exact Ha|]. apply tracklets_iff_paths_any; [|exact Hv]. apply (annotated_NoDup _ _ _ Hn Ha). }
  assert (Hl : accepts (lineage_decl d) (lineages_accept d) <-> accepts (lineage_decl d) (lineages_spec d)).
  { apply accepts_iff. intros p. unfold lineages_accept, lineages_spec. apply ex_iff. intros NL. split.
    - intros [Ha Hv]. split; [exact Ha|]. apply lineages_iff; [|exact Hv]. apply (annotated_NoDup _ _ _ Hn Ha).
    - intros [Ha Hv]. split; [exact Ha|]. apply lineages_iff; [|exact Hv]. apply (annotated_NoDup _ _ _ Hn Ha). }
  rewrite Hs, He, Ht, Hl. reflexivity.
Qed.

(* ---------- disabled / undeclared ---------- *)
Lemma validate_data5_disabled d :
  validate_data5 {| c5_graph := false; c5_sphere := false; c5_ellipsoid := false;
                    c5_lineage := false; c5_tracklet := false |} d = Ok tt.
Proof. reflexivity. Qed.

(* a flag whose property is not declared is as good as switched off *)
Definition relevant (cfg : vconfig5) (d : vdata5) : vconfig5 :=
  {| c5_graph := c5_graph cfg;
     c5_sphere := c5_sphere cfg && declared (e_sphere d);
     c5_ellipsoid := c5_ellipsoid cfg && declared (e_ellipsoid d);
     c5_lineage := c5_lineage cfg && declared (lineage_decl d);
     c5_tracklet := c5_tracklet cfg && declared (tracklet_decl d) |}.

Lemma stage_track_relevant enabled p ids validator :
  stage_track (enabled && declared p) p ids validator = stage_track enabled p ids validator.
Proof. destruct enabled, p; reflexivity. Qed.

Lemma data_fault_relevant cfg d : data_fault (relevant cfg d) d = data_fault cfg d.
Proof.
  unfold data_fault, stage_graph, stage_sphere, stage_ellipsoid, stage_tracklet, stage_lineage, relevant.
  cbn [c5_graph c5_sphere c5_ellipsoid c5_lineage c5_tracklet]. rewrite !stage_track_relevant.
  destruct (c5_sphere cfg), (c5_ellipsoid cfg), (e_sphere d), (e_ellipsoid d); reflexivity.
Qed.

Theorem validate_data5_relevant cfg d : validate_data5 cfg d = validate_data5 (relevant cfg d) d.
Proof. unfold validate_data5. rewrite data_fault_relevant. reflexivity. Qed.

Theorem validate_data5_no_track cfg d : e_track d = None ->
  validate_data5 cfg d = validate_data5 (with_flags cfg (c5_sphere cfg) (c5_ellipsoid cfg) false false) d.
Proof.
  intros H. unfold validate_data5, data_fault, stage_tracklet, stage_lineage, tracklet_decl, lineage_decl, with_flags.
  rewrite H. cbn [c5_lineage c5_tracklet]. unfold stage_track. destruct (c5_tracklet cfg), (c5_lineage cfg); reflexivity.
Qed.

(* every enabled flag concerns an undeclared property (and graph validation is off): nothing can be raised *)
Theorem validate_data5_all_undeclared cfg d :
  c5_graph cfg = false ->
  (c5_sphere cfg = true -> e_sphere d = Undeclared) -> (c5_ellipsoid cfg = true -> e_ellipsoid d = Undeclared) ->
  (c5_tracklet cfg = true -> tracklet_decl d = Undeclared) -> (c5_lineage cfg = true -> lineage_decl d = Undeclared) ->
  validate_data5 cfg d = Ok tt.
Proof.
  intros Hg Hs He Ht Hl. apply validate_data5_ok_iff. rewrite Hg.
  split; [discriminate|]. split; [|split; [|split]]; intros H.
  - rewrite (Hs H). exact I.
  - rewrite (He H). exact I.
  - rewrite (Ht H). exact I.
  - rewrite (Hl H). exact I.
Qed.

(* ---------- the old three-flag model ---------- *)
Lemma graph_stage_old cfg l t d :
  (stage_graph (lift_cfg cfg l t) (lift_data d) = None /\
   (c_graph cfg && match graph_check (d_directed d) (d_ids d) (d_edges d) with Some _ => true | None => false end) = false) \/
  (exists f, stage_graph (lift_cfg cfg l t) (lift_data d) = Some f /\ exn_of_fault f = ValueError /\
   (c_graph cfg && match graph_check (d_directed d) (d_ids d) (d_edges d) with Some _ => true | None => false end) = true).
Proof.
  unfold stage_graph, lift_cfg, lift_data. cbn [c5_graph e_directed e_ids e_edges].
  destruct (c_graph cfg); cbn [andb]; [|left; auto].
  destruct (graph_check (d_directed d) (d_ids d) (d_edges d)); [right; eexists; eauto | left; auto].
Qed.

Theorem validate_data5_extends cfg l t d : masks_fit d = true ->
  validate_data5 (lift_cfg cfg l t) (lift_data d) = validate_data cfg d.
Proof.
  intros Hfit. unfold masks_fit in Hfit. apply andb_true_iff in Hfit. destruct Hfit as [Hf1 Hf2].
  unfold validate_data5, data_fault, validate_data.
  destruct (graph_stage_old cfg l t d) as [[G1 G2]|[f [G1 [G2 G3]]]]; rewrite G1, G3 || rewrite G1, G2; cbn [orelse].
  2:{ rewrite G2. reflexivity. }
  assert (Htr : stage_tracklet (lift_cfg cfg l t) (lift_data d) = None /\ stage_lineage (lift_cfg cfg l t) (lift_data d) = None).
  { unfold stage_tracklet, stage_lineage, tracklet_decl, lineage_decl, lift_data, stage_track. cbn [e_track].
    destruct (c5_tracklet (lift_cfg cfg l t)), (c5_lineage (lift_cfg cfg l t)); auto. }
  destruct Htr as [T1 T2]. rewrite T1, T2.
  unfold stage_sphere, stage_ellipsoid, lift_cfg, lift_data, lift_decl.
  cbn [c5_sphere c5_ellipsoid e_sphere e_ellipsoid e_spatial].
  (* sphere *)
  assert (Hsph : forall nd rs ms, fits ms rs = true ->
            (match mask_filter ms rs with None => Some FIndex | Some rs' => sphere_fault nd rs' end = None /\
             sphere_ok nd rs ms = true) \/
            (exists f, match mask_filter ms rs with None => Some FIndex | Some rs' => sphere_fault nd rs' end = Some f /\
                       exn_of_fault f = ValueError /\ sphere_ok nd rs ms = false)).
  { intros nd rs ms Hf. destruct (mask_filter ms rs) as [rs'|] eqn:Em.
    - apply mask_filter_some in Em. destruct Em as [_ ->]. rewrite <- sphere_ok_present. apply sphere_fault_cases.
    - apply mask_filter_none in Em. congruence. }
  assert (Hell : forall sp nd r c ms mi, fits mi ms = true ->
            (match mask_filter mi ms with None => Some FIndex | Some ms' => ellipsoid_fault sp nd r c ms' end = None /\
             ellipsoid_ok sp nd r c ms mi = true) \/
            (exists f, match mask_filter mi ms with None => Some FIndex | Some ms' => ellipsoid_fault sp nd r c ms' end = Some f /\
                       exn_of_fault f = ValueError /\ ellipsoid_ok sp nd r c ms mi = false)).
  { intros sp nd r c ms mi Hf. destruct (mask_filter mi ms) as [ms'|] eqn:Em.
    - apply mask_filter_some in Em. destruct Em as [_ ->]. rewrite <- ellipsoid_ok_present. apply ellipsoid_fault_cases.
    - apply mask_filter_none in Em. congruence. }
  destruct (c_sphere cfg); cbn [andb].
  - destruct (d_sphere d) as [[[nd rs] ms]|].
    + destruct (Hsph nd rs ms Hf1) as [[S1 S2]|[f [S1 [S2 S3]]]]; rewrite S1; [rewrite S2 | rewrite S3]; cbn [orelse negb].
      2:{ rewrite S2. reflexivity. }
      destruct (c_ellipsoid cfg); cbn [andb]; [|reflexivity].
      destruct (d_ellipsoid d) as [[[[[nd' r] c] ms'] mi]|]; [|reflexivity].
      destruct (Hell (d_spatial d) nd' r c ms' mi Hf2) as [[E1 E2]|[f [E1 [E2 E3]]]]; rewrite E1; [rewrite E2 | rewrite E3];
        cbn [orelse negb]; [reflexivity | rewrite E2; reflexivity].
    + cbn [orelse]. destruct (c_ellipsoid cfg); cbn [andb]; [|reflexivity].
      destruct (d_ellipsoid d) as [[[[[nd' r] c] ms'] mi]|]; [|reflexivity].
      destruct (Hell (d_spatial d) nd' r c ms' mi Hf2) as [[E1 E2]|[f [E1 [E2 E3]]]]; rewrite E1; [rewrite E2 | rewrite E3];
        cbn [orelse negb]; [reflexivity | rewrite E2; reflexivity].
  - cbn [orelse]. destruct (c_ellipsoid cfg); cbn [andb]; [|reflexivity].
    destruct (d_ellipsoid d) as [[[[[nd' r] c] ms'] mi]|]; [|reflexivity].
    destruct (Hell (d_spatial d) nd' r c ms' mi Hf2) as [[E1 E2]|[f [E1 [E2 E3]]]]; rewrite E1; [rewrite E2 | rewrite E3];
      cbn [orelse negb]; [reflexivity | rewrite E2; reflexivity].
Qed.

(* ---------- the fill value under a missing flag ---------- *)
Theorem validate_data5_fill_tracklet cfg d vals m ln i v :
  e_track d = Some (Present {| tp_values := vals; tp_missing := Some m |}, ln) -> nth i m false = true ->
  validate_data5 cfg (set_track d (Some (Present {| tp_values := upd_nth i v vals; tp_missing := Some m |}, ln))) =
  validate_data5 cfg d.
Proof.
  intros Ht Hm. unfold validate_data5, data_fault, stage_graph, stage_sphere, stage_ellipsoid, stage_tracklet, stage_lineage,
    tracklet_decl, lineage_decl, set_track. cbn [e_directed e_ids e_edges e_spatial e_sphere e_ellipsoid e_track].
  rewrite Ht. unfold stage_track. rewrite (annotated_fill (e_ids d) vals m i v Hm). reflexivity.
Qed.

Theorem validate_data5_fill_lineage cfg d vals m tk i v :
  e_track d = Some (tk, Present {| tp_values := vals; tp_missing := Some m |}) -> nth i m false = true ->
  validate_data5 cfg (set_track d (Some (tk, Present {| tp_values := upd_nth i v vals; tp_missing := Some m |}))) =
  validate_data5 cfg d.
Proof.
  intros Ht Hm. unfold validate_data5, data_fault, stage_graph, stage_sphere, stage_ellipsoid, stage_tracklet, stage_lineage,
    tracklet_decl, lineage_decl, set_track. cbn [e_directed e_ids e_edges e_spatial e_sphere e_ellipsoid e_track].
  rewrite Ht. unfold stage_track. rewrite (annotated_fill (e_ids d) vals m i v Hm). reflexivity.
Qed.
