(* DtypeLemmas.v -- facts about the finite dtype tables, each proved by
   exhaustive case analysis over the finite type (this is a proof: the domain
   is finite and enumerated completely by destruct). *)
From Geff Require Import Base Dtype.

Lemma dtype_eqb_eq a b : dtype_eqb a b = true <-> a = b.
Proof. destruct a, b; cbn; split; intro H; try reflexivity; try discriminate. Qed.

Lemma dtype_eqb_refl a : dtype_eqb a a = true.
Proof. destruct a; reflexivity. Qed.

Lemma can_cast_refl a : can_cast_safe a a = true.
Proof. destruct a; reflexivity. Qed.

Lemma can_cast_trans a b c :
  can_cast_safe a b = true -> can_cast_safe b c = true -> can_cast_safe a c = true.
Proof. destruct a, b, c; cbn; intros H1 H2; try reflexivity; try discriminate. Qed.

Lemma can_cast_antisym a b :
  can_cast_safe a b = true -> can_cast_safe b a = true -> a = b.
Proof. destruct a, b; cbn; intros H1 H2; try reflexivity; try discriminate. Qed.

(* promotion is commutative, and an upper bound of both arguments in the safe-cast order *)
Lemma promote_comm a b : promote a b = promote b a.
Proof. destruct a, b; reflexivity. Qed.

Lemma promote_upper a b c : promote a b = Some c ->
  can_cast_safe a c = true /\ can_cast_safe b c = true.
Proof. destruct a, b; cbn; intro H; inversion H; subst; split; reflexivity. Qed.

Lemma can_cast_promote a b : is_numeric a = true -> is_numeric b = true ->
  can_cast_safe a b = true -> promote a b = Some b.
Proof. destruct a, b; cbn; intros Ha Hb H; try reflexivity; try discriminate. Qed.

(* a safe cast between integer kinds never leaves the target range *)
Lemma can_cast_in_range a b z :
  is_integer a = true \/ a = DBool -> is_integer b = true \/ b = DBool ->
  can_cast_safe a b = true -> in_range a z = true -> in_range b z = true.
Proof.
  intros Ha Hb Hc Hr.
  destruct a; cbn in Ha; (destruct Ha as [Ha|Ha]; try discriminate);
  destruct b; cbn in Hb; (destruct Hb as [Hb|Hb]; try discriminate);
  cbn in Hc; try discriminate;
  unfold in_range in *; cbn in *; lia.
Qed.

(* numpy's promote_types is NOT associative (the reason the normalisation must
   not fold it pairwise): computed counterexample. *)
Lemma promote_not_assoc :
  (match promote DI16 DU16 with Some x => promote x DF32 | None => None end) = Some DF64 /\
  (match promote DU16 DF32 with Some x => promote DI16 x | None => None end) = Some DF32.
Proof. split; reflexivity. Qed.

Lemma round_bits_small p z : (Z.abs z < 2 ^ p)%Z -> round_bits p z = z.
Proof. intro H. unfold round_bits. apply Z.ltb_lt in H. rewrite H. reflexivity. Qed.
