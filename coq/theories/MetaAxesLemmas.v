(* MetaAxesLemmas.v -- axes_from_lists / update_metadata_axes are faithful to their argument lists (used by C10):
   the i-th axis is built from exactly the i-th entry of every list that is given, each field on its own. *)
From Coq Require Import List String ZArith Bool Lia.
From Geff Require Import Base Meta MetaLemmas.
From Geff.Gen Require Import Consts.
Import ListNotations.
Open Scope string_scope.
Open Scope list_scope.

(* what one axis is made of *)
Record axis_src := mkSrc { s_type : jv; s_unit : jv; s_scale : jv; s_sunit : jv; s_offset : jv; s_min : jv; s_max : jv }.

Definition axis_built_from (nm : jv) (src : axis_src) (a : axis) : Prop :=
  v_req v_str (Some nm) = Ok (ax_name a) /\
  v_opt (v_literal valid_axis_types) (Some (s_type src)) = Ok (ax_type a) /\
  v_opt v_str (Some (s_unit src)) = Ok (ax_unit a) /\
  v_opt v_float (Some (s_min src)) = Ok (ax_min a) /\
  v_opt v_float (Some (s_max src)) = Ok (ax_max a) /\
  v_opt v_float (Some (s_scale src)) = Ok (ax_scale a) /\
  v_opt v_str (Some (s_sunit src)) = Ok (ax_scaled_unit a) /\
  v_opt v_float (Some (s_offset src)) = Ok (ax_offset a).

Lemma rbind_ok {A B} (m : res A) (f : A -> res B) b : rbind m f = Ok b -> exists a, m = Ok a /\ f a = Ok b.
Proof. destruct m as [a|e]; cbn; [eauto | discriminate]. Qed.

Lemma axis_at_fields ls i nm a :
  axis_at ls i nm = Ok a ->
  exists src,
    pick (al_types ls) i = Ok (s_type src) /\ pick (al_units ls) i = Ok (s_unit src) /\
    pick (al_scales ls) i = Ok (s_scale src) /\ pick (al_scaled_units ls) i = Ok (s_sunit src) /\
    pick (al_offset ls) i = Ok (s_offset src) /\ pick (al_roi_min ls) i = Ok (s_min src) /\
    pick (al_roi_max ls) i = Ok (s_max src) /\ axis_built_from nm src a.
Proof.
  unfold axis_at. intros H.
  apply rbind_ok in H. destruct H as [ty [Hty H]].
  apply rbind_ok in H. destruct H as [un [Hun H]].
  apply rbind_ok in H. destruct H as [sc [Hsc H]].
  apply rbind_ok in H. destruct H as [su [Hsu H]].
  apply rbind_ok in H. destruct H as [off [Hoff H]].
  apply rbind_ok in H. destruct H as [lo [Hlo H]].
  apply rbind_ok in H. destruct H as [hi [Hhi H]].
  exists (mkSrc ty un sc su off lo hi). cbn [s_type s_unit s_scale s_sunit s_offset s_min s_max].
  repeat (split; [assumption|]).
  unfold axis_of_jv in H. apply rbind_ok in H. destruct H as [a0 [Hf Ha]].
  apply axis_after_iff in Ha. destruct Ha as [-> _].
  unfold axis_fields in Hf. cbn [jget String.eqb Ascii.eqb Bool.eqb] in Hf.
  apply rbind_ok in Hf. destruct Hf as [x1 [H1 Hf]].
  apply rbind_ok in Hf. destruct Hf as [x2 [H2 Hf]].
  apply rbind_ok in Hf. destruct Hf as [x3 [H3 Hf]].
  apply rbind_ok in Hf. destruct Hf as [x4 [H4 Hf]].
  apply rbind_ok in Hf. destruct Hf as [x5 [H5 Hf]].
  apply rbind_ok in Hf. destruct Hf as [x6 [H6 Hf]].
  apply rbind_ok in Hf. destruct Hf as [x7 [H7 Hf]].
  apply rbind_ok in Hf. destruct Hf as [x8 [H8 Hf]].
  inversion Hf; subst a0; clear Hf. unfold axis_built_from. cbn [ax_name ax_type ax_unit ax_min ax_max ax_scale ax_scaled_unit ax_offset].
  repeat split; assumption.
Qed.

Lemma axes_loop_nth ls : forall names i l,
  axes_loop ls i names = Ok l ->
  List.length l = List.length names /\
  forall k a, nth_error l k = Some a -> exists nm, nth_error names k = Some nm /\ axis_at ls (i + k) nm = Ok a.
Proof.
  induction names as [|n r IH]; intros i l H; cbn [axes_loop] in H.
  - inversion H; subst l. split; [reflexivity|]. intros k a Hk. destruct k; discriminate.
  - destruct (axis_at ls i n) as [a0|e] eqn:Ea; [|discriminate].
    destruct (axes_loop ls (S i) r) as [l0|e] eqn:El; [|discriminate].
    inversion H; subst l; clear H. destruct (IH (S i) l0 El) as [Hlen Hnth]. split; [cbn; rewrite Hlen; reflexivity|].
    intros k a Hk. destruct k as [|k]; cbn in Hk.
    + inversion Hk; subst a. exists n. split; [reflexivity|]. rewrite Nat.add_0_r. exact Ea.
    + destruct (Hnth k a Hk) as [nm [Hnm Hat]]. exists nm. split; [exact Hnm|].
      replace (i + S k)%nat with (S i + k)%nat by lia. exact Hat.
Qed.

(* axes_from_lists: one axis per name, in order; axis k is built from entry k of every list *)
Theorem axes_from_lists_faithful ls l :
  axes_from_lists ls = Ok l ->
  match al_names ls with
  | None => l = []
  | Some names =>
      List.length l = List.length names /\
      forall k a, nth_error l k = Some a ->
        exists nm src, nth_error names k = Some nm /\
          pick (al_types ls) k = Ok (s_type src) /\ pick (al_units ls) k = Ok (s_unit src) /\
          pick (al_scales ls) k = Ok (s_scale src) /\ pick (al_scaled_units ls) k = Ok (s_sunit src) /\
          pick (al_offset ls) k = Ok (s_offset src) /\ pick (al_roi_min ls) k = Ok (s_min src) /\
          pick (al_roi_max ls) k = Ok (s_max src) /\ axis_built_from nm src a
  end.
Proof.
  unfold axes_from_lists. destruct (al_names ls) as [names|]; [|intros H; inversion H; reflexivity].
  destruct (len_mismatch (al_units ls) _); [discriminate|].
  destruct (len_mismatch (al_types ls) _); [discriminate|].
  destruct (len_mismatch (al_scales ls) _); [discriminate|].
  destruct (len_mismatch (al_scaled_units ls) _); [discriminate|].
  intros H. destruct (axes_loop_nth ls names 0 l H) as [Hlen Hnth]. split; [exact Hlen|].
  intros k a Hk. destruct (Hnth k a Hk) as [nm [Hnm Hat]]. cbn in Hat.
  destruct (axis_at_fields ls k nm a Hat) as [src Hs]. exists nm, src. split; [exact Hnm | exact Hs].
Qed.

(* in particular the offset of axis k is entry k of axis_offset whatever the other lists hold (no scale needed) *)
Corollary axes_from_lists_offset ls l k a off :
  axes_from_lists ls = Ok l -> nth_error l k = Some a ->
  forall offs, al_offset ls = Some offs -> nth_error offs k = Some (JFlt off) -> ax_offset a = Some off.
Proof.
  intros H Hk offs Ho Hn. pose proof (axes_from_lists_faithful ls l H) as F.
  destruct (al_names ls) as [names|]; [|subst l; destruct k; discriminate].
  destruct F as [_ F]. destruct (F k a Hk) as [nm [src [_ [_ [_ [_ [_ [Hoff [_ [_ B]]]]]]]]]].
  unfold pick in Hoff. rewrite Ho, Hn in Hoff. inversion Hoff as [Hs].
  destruct B as [_ [_ [_ [_ [_ [_ [_ Bo]]]]]]]. rewrite <- Hs in Bo. cbn in Bo. inversion Bo. reflexivity.
Qed.
