(* ReaderSM.v -- the GeffReader OBJECT (geff.core_io._base_read) as a state machine.
   Read.v models one call sequence (init; read_node_props; read_edge_props; build) as one
   function of the name lists.  Here the object is a state and every public method is a
   transition, statement by statement:

     __init__           reader_init (Read.v); `node_props = {}`, `edge_props = {}`; the object keeps
                        no other cache.  `node_prop_names` / `edge_prop_names` are what the store
                        LISTS under <grp>/props (group_keys: store dependent order), see
                        reader_init_listed.
     read_node_props    names = node_prop_names if names is None (an empty list stays empty);
                        for name in names: self.node_props[name] = self._read_prop(name, "node")
                        -- the assignment happens per name, so a name that cannot be opened raises
                        AFTER the names in front of it were stored (read_loop returns the dictionary
                        it reached together with the error).  A repeated name is opened again and
                        the handle is assigned to the key that exists (dict position kept).
     _read_prop         zarr.open_group(mode="r") of <grp>/props/<name>: GroupNotFoundError (a
                        FileNotFoundError) when nothing is stored there; expect_array "values";
                        optional "missing", "data".
     build              reads self.nodes / self.edges / the held handles / self.metadata, writes
                        nothing back to the object (metadata is pruned in a deep copy).
     read_to_memory     init; read_node_props; read_edge_props; build()  (read_to_memory_sm).

   Model only; proofs in ReaderSMLemmas.v. *)
From Geff Require Import Base Dtype Vlen Tree Validate Write Read.
From Geff.Gen Require Import Consts.
Open Scope string_scope.
Open Scope list_scope.
Open Scope res_scope.

Definition mask := list bool.

(* self.node_props / self.edge_props : dict[str, ZarrPropDict], insertion ordered *)
Definition handles := list (string * zprop).

Record rstate := mkrs { rs_rd : reader; rs_np : handles; rs_ep : handles }.

(* the object as __init__ leaves it *)
Definition sm_init (rd : reader) : rstate := mkrs rd [] [].

(* node_prop_names / edge_prop_names are [*props_group.group_keys()]: the members the STORE lists,
   in the store's order (MemoryStore: sorted; LocalStore: directory order).  The abstract tree has no
   listing order of its own, so the order is an input; it must name the same groups. *)
Definition same_names (a b : list string) : bool :=
  Nat.eqb (length a) (length b) && forallb (fun x => smem x b) a && forallb (fun x => smem x a) b.

Definition reader_init_listed (k : skind) (s : option znode) (validate : bool) (ln le : list string) : res reader :=
  let! rd := reader_init k s validate in
  if same_names ln (rd_nnames rd) && same_names le (rd_enames rd)
  then Ok (mkreader (rd_root rd) (rd_md rd) (rd_nids rd) (rd_eids rd) ln le)
  else Err OtherExn.

(* _read_prop: nothing stored at <grp>/props/<name> -> GroupNotFoundError (FileNotFoundError);
   otherwise as Read.read_prop (member is not a group / no "values" array -> ValueError) *)
Definition read_prop_h (root : znode) (grp name : string) : res zprop :=
  match get_path root [grp; path_PROPS; name] with
  | None => Err FileNotFoundError
  | Some _ => read_prop root grp name
  end.

(* for name in names: self.<x>_props[name] = self._read_prop(name, <x>) *)
Fixpoint read_loop (root : znode) (grp : string) (names : list string) (h : handles) : handles * res unit :=
  match names with
  | [] => (h, Ok tt)
  | n :: r => match read_prop_h root grp n with
              | Err e => (h, Err e)
              | Ok zp => read_loop root grp r (aset n zp h)
              end
  end.

(* for name, props in self.<x>_props.items(): metadata[name] (KeyError) ; _load_prop_to_memory *)
Definition load_held (h : handles) (pmd : list (string * pmeta)) (m : option mask) : res props :=
  mapM (fun kv => match alookup (fst kv) pmd with
                  | None => Err KeyError
                  | Some pm => let! p := load_prop (snd kv) m pm in Ok (fst kv, p)
                  end) h.

(* build(node_mask, edge_mask) on the object's current fields *)
Definition build_held (s : rstate) (nm em : option mask) : res mgraph :=
  let rd := rs_rd s in
  let nodes := mask_rows nm (rd_nids rd) in
  let! nprops := load_held (rs_np s) (md_nprops (rd_md rd)) nm in
  let emask' := match nm with
                | None => em
                | Some _ => let k := edges_kept (rd_eids rd) (a_flat nodes) in
                            match em with Some em => Some (and_masks em k) | None => Some k end
                end in
  let edges := mask_rows emask' (rd_eids rd) in
  let! eprops := load_held (rs_ep s) (md_eprops (rd_md rd)) emask' in
  let md := rd_md rd in
  let md' := mkmd (md_directed md) (md_axes md) (prune (md_nprops md) (akeys (rs_np s)))
                  (prune (md_eprops md) (akeys (rs_ep s))) (md_tok md) in
  Ok (mkmg md' nodes edges (dict_of nprops) (dict_of eprops)).

Inductive op := RNode (names : option (list string))
              | REdge (names : option (list string))
              | Build (nm em : option mask).

Definition names_or (names : option (list string)) (all : list string) : list string :=
  match names with Some l => l | None => all end.

(* one method call: the object afterwards, and what the call returned / raised *)
Definition step (s : rstate) (o : op) : rstate * res (option mgraph) :=
  match o with
  | RNode names =>
      let hr := read_loop (rd_root (rs_rd s)) path_NODES (names_or names (rd_nnames (rs_rd s))) (rs_np s) in
      (mkrs (rs_rd s) (fst hr) (rs_ep s), rmap (fun _ => None) (snd hr))
  | REdge names =>
      let hr := read_loop (rd_root (rs_rd s)) path_EDGES (names_or names (rd_enames (rs_rd s))) (rs_ep s) in
      (mkrs (rs_rd s) (rs_np s) (fst hr), rmap (fun _ => None) (snd hr))
  | Build nm em => (s, rmap Some (build_held s nm em))
  end.

Fixpoint run (s : rstate) (ops : list op) : rstate * list (res (option mgraph)) :=
  match ops with
  | [] => (s, [])
  | o :: r => let sx := step s o in
              let sxs := run (fst sx) r in
              (fst sxs, snd sx :: snd sxs)
  end.
Definition final (s : rstate) (ops : list op) : rstate := fst (run s ops).
Definition results (s : rstate) (ops : list op) : list (res (option mgraph)) := snd (run s ops).

(* what a caller can see of the object after a call: the keys of the two handle dictionaries (in
   order), the keys of the reader's own metadata tables (in order), and the call's outcome *)
Record sobs := mksobs { so_nkeys : list string; so_ekeys : list string;
                        so_mdn : list string; so_mde : list string;
                        so_res : res (option mgraph) }.
Definition observe (s : rstate) (r : res (option mgraph)) : sobs :=
  mksobs (akeys (rs_np s)) (akeys (rs_ep s)) (akeys (md_nprops (rd_md (rs_rd s)))) (akeys (md_eprops (rd_md (rs_rd s)))) r.
Fixpoint trace (s : rstate) (ops : list op) : list sobs :=
  match ops with
  | [] => []
  | o :: r => let sx := step s o in observe (fst sx) (snd sx) :: trace (fst sx) r
  end.

(* read_to_memory (data_validation=None): GeffReader(...); read_node_props; read_edge_props; build() *)
Definition read_to_memory_sm (k : skind) (s : option znode) (validate : bool)
           (nnames enames : option (list string)) : res mgraph :=
  let! rd := reader_init k s validate in
  let s1 := step (sm_init rd) (RNode nnames) in
  let! _ := snd s1 in
  let s2 := step (fst s1) (REdge enames) in
  let! _ := snd s2 in
  build_held (fst s2) None None.

(* ---------- specification vocabulary (used by the theorems) ---------- *)
(* the names a read call gets through before the first one that cannot be opened *)
Fixpoint ok_prefix (root : znode) (grp : string) (names : list string) : list string :=
  match names with
  | [] => []
  | n :: r => if is_ok (read_prop_h root grp n) then n :: ok_prefix root grp r else []
  end.
Definition nreq (rd : reader) (o : op) : list string :=
  match o with RNode names => ok_prefix (rd_root rd) path_NODES (names_or names (rd_nnames rd)) | _ => [] end.
Definition ereq (rd : reader) (o : op) : list string :=
  match o with REdge names => ok_prefix (rd_root rd) path_EDGES (names_or names (rd_enames rd)) | _ => [] end.

(* dict insertion order: a name takes the position of its FIRST request *)
Definition add_name (acc : list string) (n : string) : list string := if smem n acc then acc else acc ++ [n].
Definition first_occ (l : list string) : list string := fold_left add_name l [].

(* the handle of a name is a function of the store alone *)
Definition hget (root : znode) (grp k : string) : option zprop :=
  match read_prop_h root grp k with Ok zp => Some zp | Err _ => None end.

(* the fully loaded graph restricted to some property names (in the given order) *)
Definition pick (names : list string) (ps : props) : props :=
  flat_map (fun n => match alookup n ps with Some p => [(n, p)] | None => [] end) names.
Definition restrict_names (g : mgraph) (nn en : list string) : mgraph :=
  let md := g_md g in
  mkmg (mkmd (md_directed md) (md_axes md) (prune (md_nprops md) nn) (prune (md_eprops md) en) (md_tok md))
       (g_nids g) (g_eids g) (pick nn (g_nprops g)) (pick en (g_eprops g)).

(* two dictionaries with the same content, whatever the order *)
Definition dict_equiv {V} (a b : list (string * V)) : Prop := forall k, alookup k a = alookup k b.
Definition state_equiv (a b : rstate) : Prop :=
  rs_rd a = rs_rd b /\ dict_equiv (rs_np a) (rs_np b) /\ dict_equiv (rs_ep a) (rs_ep b).
Definition graph_equiv (a b : mgraph) : Prop :=
  g_md a = g_md b /\ g_nids a = g_nids b /\ g_eids a = g_eids b /\
  dict_equiv (g_nprops a) (g_nprops b) /\ dict_equiv (g_eprops a) (g_eprops b).
