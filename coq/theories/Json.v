(* Json.v -- JSON values for C08.  The value type is Meta.jv (null / bool / integer /
   float as an exact scaled integer or one of the three non-finite tokens / string as UTF-8
   bytes / array / object as an association list in insertion order); this file adds what
   serialisation needs: lookups and in-place update of an object (python dict semantics),
   finiteness, the non-finite -> null conversion that pydantic applies to free-form values in
   JSON mode, equality of documents up to member order (python dict equality), the number of
   code points of a UTF-8 string (JSON-Schema minLength counts characters, not bytes).
   Model only, no proofs. *)
From Geff Require Import Base Meta.
Open Scope string_scope.
Open Scope Z_scope.
Open Scope list_scope.

Notation json := jv (only parsing).

(* ------------------------------------------------------------------ objects as python dicts *)
Fixpoint jhas (k : string) (kvs : list (string * jv)) : bool :=
  match kvs with
  | [] => false
  | (k', _) :: r => String.eqb k k' || jhas k r
  end.

(* d[k] = v : replace the value in place, or append *)
Fixpoint jset (k : string) (v : jv) (kvs : list (string * jv)) : list (string * jv) :=
  match kvs with
  | [] => [(k, v)]
  | (k', x) :: r => if String.eqb k k' then (k', v) :: r else (k', x) :: jset k v r
  end.

Definition jkeys (kvs : list (string * jv)) : list string := map fst kvs.

(* ------------------------------------------------------------------ floats *)
Definition fl_finite (f : fl) : bool := match f with Fin _ => true | _ => false end.

(* every float in the value is finite (the values JSON can express) *)
Fixpoint jfinite (v : jv) : bool :=
  match v with
  | JFlt f => fl_finite f
  | JList l => forallb jfinite l
  | JObj kvs => forallb (fun kv => jfinite (snd kv)) kvs
  | _ => true
  end.

(* pydantic, mode="json", on a value of type Any: inf / -inf / nan become None
   (ser_json_inf_nan = 'null'); containers are walked *)
Fixpoint jnull_nonfinite (v : jv) : jv :=
  match v with
  | JFlt f => if fl_finite f then v else JNull
  | JList l => JList (map jnull_nonfinite l)
  | JObj kvs => JObj (map (fun kv => (fst kv, jnull_nonfinite (snd kv))) kvs)
  | _ => v
  end.

(* ------------------------------------------------------------------ equality up to member order *)
(* python: dict == dict compares key sets and values, lists compare in order, 1 == 1.0 and True == 1
   are NOT identified here (a dump that changes the JSON type of a value is a difference) *)
Fixpoint jsim (a b : jv) {struct a} : bool :=
  match a, b with
  | JNull, JNull => true
  | JBool x, JBool y => Bool.eqb x y
  | JInt x, JInt y => x =? y
  | JFlt x, JFlt y => fl_eqb x y
  | JStr x, JStr y => String.eqb x y
  | JList l, JList m =>
      (fix go (l m : list jv) {struct l} : bool :=
         match l, m with
         | [], [] => true
         | x :: r, y :: s => jsim x y && go r s
         | _, _ => false
         end) l m
  | JObj l, JObj m =>
      Nat.eqb (List.length l) (List.length m) &&
      (fix go (l : list (string * jv)) {struct l} : bool :=
         match l with
         | [] => true
         | (k, x) :: r => match jget k m with Some y => jsim x y | None => false end && go r
         end) l
  | _, _ => false
  end.

(* ------------------------------------------------------------------ strings *)
(* number of code points of a UTF-8 byte string: the first byte starts a character, after it
   every byte that is not a continuation byte 10xxxxxx starts one (python strings are always
   well-formed, so this is the number of characters; a non-empty string has at least one) *)
Definition is_cont (c : ascii) : bool :=
  let n := nat_of_ascii c in (Nat.leb 128 n && Nat.ltb n 192)%nat.

Fixpoint count_starts (s : string) : nat :=
  match s with
  | EmptyString => O
  | String c r => if is_cont c then count_starts r else S (count_starts r)
  end.

Definition utf8_len (s : string) : nat :=
  match s with
  | EmptyString => O
  | String _ r => S (count_starts r)
  end.

Fixpoint has_prefix (p s : string) : option string :=
  match p, s with
  | EmptyString, _ => Some s
  | String a p', String b s' => if Ascii.eqb a b then has_prefix p' s' else None
  | _, EmptyString => None
  end.

Fixpoint str_has (c : ascii) (s : string) : bool :=
  match s with EmptyString => false | String a r => Ascii.eqb a c || str_has c r end.
