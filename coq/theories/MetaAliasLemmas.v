(* MetaAliasLemmas.v -- the heap model of PropMetadata instances (MetaAlias.v):
   * every object reachable by any operation sequence, with any sharing of instances the caller sets up,
     shows a view (model_dump) in the structural part of C08's domain, hence satisfies C07's invariants;
   * an operation that raises leaves the view of every live object as it was -- for an assignment because
     __setattr__ restores its snapshot and storing never writes into an existing instance, for the helpers
     because they write only into the cells of their own deep copy;
   * a successful operation changes the view of no live object except the target of an assignment.
   The last two are statements about the heap (cells are appended, or overwritten at addresses the same
   operation allocated), not about a model that returns its argument by definition. *)
From Geff Require Import Base Meta MetaLemmas Json Schema MetaJson MetaJsonLemmas MetaDomainLemmas MetaAlias.
From Geff.Gen Require Import Consts.
Open Scope string_scope.
Open Scope list_scope.
Open Scope nat_scope.

(* ================================================================== heap basics *)
(* h' extends h: the old cells are where they were, with the content they had *)
Definition ext (h h' : pheap) : Prop :=
  List.length h <= List.length h' /\ forall a, a < List.length h -> hget h' a = hget h a.

Lemma ext_refl h : ext h h.
Proof. split; [apply Nat.le_refl | reflexivity]. Qed.

Lemma ext_trans h1 h2 h3 : ext h1 h2 -> ext h2 h3 -> ext h1 h3.
Proof.
  intros [L1 E1] [L2 E2]. split; [eapply Nat.le_trans; eassumption|].
  intros a Ha. rewrite E2; [apply E1; exact Ha | eapply Nat.lt_le_trans; eassumption].
Qed.

Lemma ext_app h l : ext h (h ++ l).
Proof.
  split; [rewrite app_length; apply Nat.le_add_r|]. intros a Ha. unfold hget. apply app_nth1. exact Ha.
Qed.

Lemma hget_app_new h c : hget (h ++ [c]) (List.length h) = c.
Proof. unfold hget. rewrite app_nth2; [|apply Nat.le_refl]. rewrite Nat.sub_diag. reflexivity. Qed.

Lemma hset_length h : forall a c, List.length (hset h a c) = List.length h.
Proof. induction h as [|x r IH]; intros a c; [reflexivity|]. destruct a; cbn; [reflexivity | rewrite IH; reflexivity]. Qed.

Lemma hget_hset_same h : forall a c, a < List.length h -> hget (hset h a c) a = c.
Proof.
  induction h as [|x r IH]; intros a c Ha; cbn in Ha; [inversion Ha|].
  destruct a; [reflexivity|]. cbn. unfold hget in *. cbn. apply IH. apply Nat.succ_lt_mono. exact Ha.
Qed.

Lemma hget_hset_other h : forall a b c, a <> b -> hget (hset h a c) b = hget h b.
Proof.
  induction h as [|x r IH]; intros a b c Hab; [reflexivity|].
  destruct a, b; cbn; try reflexivity; [contradiction Hab; reflexivity|].
  unfold hget in *. cbn. apply IH. intros ->. apply Hab. reflexivity.
Qed.

Lemma hget_In h a : a < List.length h -> In (hget h a) h.
Proof. intros Ha. unfold hget. apply nth_In. exact Ha. Qed.

(* ================================================================== the invariant *)
Definition cell_ok (c : prop_meta) : Prop := pm_okb c = true.

(* references point into the heap, at an instance whose identifier is the key *)
Definition ref_ok (h : pheap) (kr : string * nat) : Prop :=
  snd kr < List.length h /\ fst kr = pm_identifier (hget h (snd kr)).
Definition refs_ok (h : pheap) (r : refs) : Prop := Forall (ref_ok h) r.

(* everything of inv_struct that does not talk about the two property dictionaries *)
Definition base_ok (m : metadata) : bool :=
  version_ok (md_version m)
  && forallb axis_okS (olistb (md_axes m))
  && forallb (fun kv => smem (fst kv) track_keys) (olistb (md_track m))
  && forallb related_okb (olistb (md_related m))
  && nodupb (axis_names m)
  && match md_hints m with
     | None => true
     | Some hh => forallb (fun n => smem n (axis_names m)) (hint_names hh)
     end.

Definition obj_ok (h : pheap) (o : aobj) : Prop :=
  refs_ok h (ao_node o) /\ refs_ok h (ao_edge o) /\ base_ok (ao_md o) = true.

Definition state_ok (s : astate) : Prop :=
  Forall cell_ok (as_heap s) /\ Forall (obj_ok (as_heap s)) (as_pool s).

Lemma ref_ok_ext h h' kr : ext h h' -> ref_ok h kr -> ref_ok h' kr.
Proof.
  intros [L E] [Ha Hk]. split; [eapply Nat.lt_le_trans; eassumption|]. rewrite E; assumption.
Qed.

Lemma refs_ok_ext h h' r : ext h h' -> refs_ok h r -> refs_ok h' r.
Proof. intros He. apply Forall_impl. intros kr. apply ref_ok_ext. exact He. Qed.

Lemma obj_ok_ext h h' o : ext h h' -> obj_ok h o -> obj_ok h' o.
Proof. intros He [H1 [H2 H3]]. split; [|split]; [eapply refs_ok_ext; eassumption | eapply refs_ok_ext; eassumption | exact H3]. Qed.

Lemma deref_ext h h' r : ext h h' -> refs_ok h r -> deref h' r = deref h r.
Proof.
  intros [_ E] Hr. unfold deref. apply map_ext_in. intros kr Hin.
  unfold refs_ok in Hr. rewrite Forall_forall in Hr. destruct (Hr kr Hin) as [Ha _]. rewrite E; [reflexivity | exact Ha].
Qed.

Lemma view_ext h h' o : ext h h' -> obj_ok h o -> view h' o = view h o.
Proof.
  intros He [H1 [H2 _]]. unfold view. rewrite (deref_ext _ _ _ He H1), (deref_ext _ _ _ He H2). reflexivity.
Qed.

(* ------------------------------------------------------------------ the view of a good object is in the domain *)
Lemma base_ok_with_props m n e : base_ok (with_props m n e) = base_ok m.
Proof. reflexivity. Qed.

Lemma pms_ok_deref h r : Forall cell_ok h -> refs_ok h r -> pms_ok (deref h r) = true.
Proof.
  intros Hh Hr. unfold pms_ok, deref. rewrite forallb_map. apply forallb_forall. intros kr Hin. cbn [snd].
  unfold refs_ok in Hr. rewrite Forall_forall in Hr, Hh. destruct (Hr kr Hin) as [Ha _].
  apply Hh. apply hget_In. exact Ha.
Qed.

Lemma keys_match_deref h r : refs_ok h r -> keys_match (deref h r) = true.
Proof.
  intros Hr. unfold keys_match, deref. rewrite forallb_map. apply forallb_forall. intros kr Hin. cbn [fst snd].
  unfold refs_ok in Hr. rewrite Forall_forall in Hr. destruct (Hr kr Hin) as [_ Hk]. apply String.eqb_eq. exact Hk.
Qed.

Lemma view_struct h o : Forall cell_ok h -> obj_ok h o -> inv_struct (view h o) = true.
Proof.
  intros Hh [Hn [He Hb]]. unfold base_ok in Hb.
  repeat (apply andb_true_iff in Hb; let K := fresh "K" in destruct Hb as [Hb K]).
  unfold inv_struct, view, with_props, md_after_ok.
  cbn [md_version md_axes md_node_props md_edge_props md_track md_related md_hints].
  change (axis_names (mkMD (md_version (ao_md o)) (md_directed (ao_md o)) (md_axes (ao_md o)) (deref h (ao_node o))
                           (deref h (ao_edge o)) (md_sphere (ao_md o)) (md_ellipsoid (ao_md o)) (md_track (ao_md o))
                           (md_related (ao_md o)) (md_hints (ao_md o)) (md_extra (ao_md o))))
    with (axis_names (ao_md o)).
  rewrite Hb, K3, K2, K1, K0, K, (pms_ok_deref _ _ Hh Hn), (pms_ok_deref _ _ Hh He),
    (keys_match_deref _ _ Hn), (keys_match_deref _ _ He). reflexivity.
Qed.

Lemma struct_base m : inv_struct m = true -> base_ok m = true.
Proof.
  intros H. split_struct H. unfold md_after_ok in K.
  repeat (apply andb_true_iff in K; let J := fresh "J" in destruct K as [K J]).
  unfold base_ok. rewrite H, K4, K1, K0, K, J1. reflexivity.
Qed.

Lemma struct_dicts m : inv_struct m = true ->
  pms_ok (md_node_props m) = true /\ pms_ok (md_edge_props m) = true /\
  keys_match (md_node_props m) = true /\ keys_match (md_edge_props m) = true.
Proof.
  intros H. split_struct H. unfold md_after_ok in K.
  repeat (apply andb_true_iff in K; let J := fresh "J" in destruct K as [K J]).
  repeat split; assumption.
Qed.

(* ================================================================== allocation *)
Lemma ref_of_In k r a : ref_of k r = Some a -> In (k, a) r.
Proof.
  induction r as [|[k' a'] t IH]; cbn; [discriminate|].
  destruct (String.eqb k k') eqn:E.
  - intros H. inversion H; subst. apply String.eqb_eq in E. subst. left. reflexivity.
  - intros H. right. apply IH. exact H.
Qed.

Lemma pms_ok_cons k p r : pms_ok ((k, p) :: r) = true -> pm_okb p = true /\ pms_ok r = true.
Proof. unfold pms_ok. cbn. intros H. apply andb_true_iff in H. exact H. Qed.

Lemma keys_match_cons k p r : keys_match ((k, p) :: r) = true -> k = pm_identifier p /\ keys_match r = true.
Proof.
  unfold keys_match. cbn. intros H. apply andb_true_iff in H. destruct H as [H1 H2].
  apply String.eqb_eq in H1. split; assumption.
Qed.

Lemma optstr_eqb_eq a b : optstr_eqb a b = true -> a = b.
Proof.
  unfold optstr_eqb, option_eqb. destruct a, b; try discriminate; [|reflexivity].
  intros H. apply String.eqb_eq in H. subst. reflexivity.
Qed.

Lemma pm_eqb_eq a b : pm_eqb a b = true -> a = b.
Proof.
  unfold pm_eqb. intros H. repeat (apply andb_true_iff in H; let K := fresh "K" in destruct H as [H K]).
  destruct a, b. cbn in *. apply String.eqb_eq in H. apply String.eqb_eq in K3. apply Bool.eqb_prop in K2.
  apply optstr_eqb_eq in K1. apply optstr_eqb_eq in K0. apply optstr_eqb_eq in K. subst. reflexivity.
Qed.

Definition in_heap (h : pheap) (r : refs) : Prop := Forall (fun kr => snd kr < List.length h) r.

Lemma in_heap_ext h h' r : ext h h' -> in_heap h r -> in_heap h' r.
Proof. intros [L _]. apply Forall_impl. intros kr Ha. eapply Nat.lt_le_trans; eassumption. Qed.

Lemma refs_ok_in_heap h r : refs_ok h r -> in_heap h r.
Proof. apply Forall_impl. intros kr [Ha _]. exact Ha. Qed.

(* references into the heap whose dictionary has key = identifier are good references *)
Lemma refs_ok_of_deref h r : in_heap h r -> keys_match (deref h r) = true -> refs_ok h r.
Proof.
  intros Hb Hk. unfold keys_match, deref in Hk. rewrite forallb_map in Hk. rewrite forallb_forall in Hk.
  unfold refs_ok, in_heap in *. rewrite Forall_forall in *. intros kr Hin. split; [apply Hb; exact Hin|].
  specialize (Hk kr Hin). cbn [fst snd] in Hk. apply String.eqb_eq in Hk. exact Hk.
Qed.

(* allocation of a validated dictionary: old cells untouched, new cells validated, the references are into
   the heap and show exactly the dictionary -- also where an entry reuses an instance of `other` *)
Lemma alloc_sh_spec d : forall h other sh,
  Forall cell_ok h -> in_heap h other -> pms_ok d = true ->
  ext h (fst (alloc_sh h d other sh)) /\ Forall cell_ok (fst (alloc_sh h d other sh))
  /\ in_heap (fst (alloc_sh h d other sh)) (snd (alloc_sh h d other sh))
  /\ deref (fst (alloc_sh h d other sh)) (snd (alloc_sh h d other sh)) = d.
Proof.
  induction d as [|[k p] r IH]; intros h other sh Hh Ho Hp; cbn [alloc_sh].
  - cbn. split; [apply ext_refl|]. split; [exact Hh|]. split; [constructor | reflexivity].
  - apply pms_ok_cons in Hp. destruct Hp as [Hp Hpr].
    assert (Hnew : ext h (fst (alloc_sh (h ++ [p]) r other sh)) /\ Forall cell_ok (fst (alloc_sh (h ++ [p]) r other sh))
                   /\ in_heap (fst (alloc_sh (h ++ [p]) r other sh)) ((k, List.length h) :: snd (alloc_sh (h ++ [p]) r other sh))
                   /\ deref (fst (alloc_sh (h ++ [p]) r other sh)) ((k, List.length h) :: snd (alloc_sh (h ++ [p]) r other sh)) = (k, p) :: r).
    { assert (Hh1 : Forall cell_ok (h ++ [p])) by (apply Forall_app; split; [exact Hh | constructor; [exact Hp | constructor]]).
      assert (Ho1 : in_heap (h ++ [p]) other) by (eapply in_heap_ext; [apply ext_app | exact Ho]).
      destruct (IH (h ++ [p]) other sh Hh1 Ho1 Hpr) as [E1 [C1 [B1 D1]]].
      assert (Hlt : List.length h < List.length (h ++ [p])) by (rewrite app_length; cbn; rewrite Nat.add_1_r; apply Nat.lt_succ_diag_r).
      split; [eapply ext_trans; [apply ext_app | exact E1]|]. split; [exact C1|].
      split; [constructor; [cbn [snd]; destruct E1 as [L1 _]; eapply Nat.lt_le_trans; eassumption | exact B1]|].
      cbn [deref map fst snd]. f_equal; [|exact D1]. f_equal. destruct E1 as [_ G1]. rewrite G1; [apply hget_app_new | exact Hlt]. }
    destruct (if smem k sh then ref_of k other else None) as [a|] eqn:Ea; [|exact Hnew].
    destruct (pm_eqb (hget h a) p) eqn:Eq; [|exact Hnew]. cbn [fst snd].
    destruct (IH h other sh Hh Ho Hpr) as [E1 [C1 [B1 D1]]].
    assert (Ha : a < List.length h).
    { destruct (smem k sh); [|discriminate]. apply ref_of_In in Ea. unfold in_heap in Ho. rewrite Forall_forall in Ho. apply (Ho _ Ea). }
    split; [exact E1|]. split; [exact C1|].
    split; [constructor; [cbn [snd]; destruct E1 as [L1 _]; eapply Nat.lt_le_trans; eassumption | exact B1]|].
    cbn [deref map fst snd]. f_equal; [|exact D1]. f_equal. destruct E1 as [_ G1]. rewrite G1; [|exact Ha].
    apply pm_eqb_eq. exact Eq.
Qed.

Lemma alloc_spec d h : Forall cell_ok h -> pms_ok d = true ->
  ext h (fst (alloc h d)) /\ Forall cell_ok (fst (alloc h d)) /\ in_heap (fst (alloc h d)) (snd (alloc h d))
  /\ deref (fst (alloc h d)) (snd (alloc h d)) = d.
Proof. intros Hh Hp. unfold alloc. apply alloc_sh_spec; [exact Hh | constructor | exact Hp]. Qed.

Lemma alloc_sh_refs_ok d h other sh :
  Forall cell_ok h -> in_heap h other -> pms_ok d = true -> keys_match d = true ->
  refs_ok (fst (alloc_sh h d other sh)) (snd (alloc_sh h d other sh)).
Proof.
  intros Hh Ho Hp Hk. destruct (alloc_sh_spec d h other sh Hh Ho Hp) as [_ [_ [B D]]].
  apply refs_ok_of_deref; [exact B | rewrite D; exact Hk].
Qed.

(* ================================================================== deep copy *)
Definition memo_ok (h0 h : pheap) (memo : list (nat * nat)) : Prop :=
  Forall (fun xy => List.length h0 <= snd xy /\ snd xy < List.length h /\ fst xy < List.length h0
                    /\ hget h (snd xy) = hget h0 (fst xy)) memo.

Lemma memo_ok_ext h0 h h' memo : ext h h' -> memo_ok h0 h memo -> memo_ok h0 h' memo.
Proof.
  intros [L E]. apply Forall_impl. intros [x y] [H1 [H2 [H3 H4]]]. cbn [fst snd] in *.
  split; [exact H1|]. split; [eapply Nat.lt_le_trans; eassumption|]. split; [exact H3|]. rewrite E; assumption.
Qed.

Lemma memo_get_In a memo y : memo_get a memo = Some y -> In (a, y) memo.
Proof.
  induction memo as [|[x z] t IH]; cbn; [discriminate|]. destruct (Nat.eqb a x) eqn:E.
  - intros H. inversion H; subst. apply Nat.eqb_eq in E. subst. left. reflexivity.
  - intros H. right. apply IH. exact H.
Qed.

Definition fresh_from (n : nat) (r : refs) : Prop := Forall (fun kr => n <= snd kr) r.

Lemma copy_refs_ok h0 r : forall memo h,
  ext h0 h -> Forall cell_ok h -> refs_ok h0 r -> memo_ok h0 h memo ->
  ext h (snd (fst (copy_refs memo h r))) /\ Forall cell_ok (snd (fst (copy_refs memo h r)))
  /\ refs_ok (snd (fst (copy_refs memo h r))) (snd (copy_refs memo h r))
  /\ memo_ok h0 (snd (fst (copy_refs memo h r))) (fst (fst (copy_refs memo h r)))
  /\ fresh_from (List.length h0) (snd (copy_refs memo h r))
  /\ deref (snd (fst (copy_refs memo h r))) (snd (copy_refs memo h r)) = deref h0 r.
Proof.
  induction r as [|[k a] t IH]; intros memo h He Hh Hr Hm; cbn [copy_refs].
  - cbn. split; [apply ext_refl|]. split; [exact Hh|]. split; [constructor|]. split; [exact Hm|]. split; [constructor | reflexivity].
  - inversion Hr as [|? ? [Ha Hk] Hrt]; subst. cbn [fst snd] in Ha, Hk.
    destruct (memo_get a memo) as [a'|] eqn:Eg.
    + destruct (IH memo h He Hh Hrt Hm) as [E1 [C1 [R1 [M1 [F1 D1]]]]]. cbn [fst snd].
      apply memo_get_In in Eg. unfold memo_ok in Hm. rewrite Forall_forall in Hm.
      destruct (Hm _ Eg) as [G1 [G2 [G3 G4]]]. cbn [fst snd] in *.
      split; [exact E1|]. split; [exact C1|].
      assert (Hc : hget (snd (fst (copy_refs memo h t))) a' = hget h0 a).
      { destruct E1 as [_ E1]. rewrite E1; [exact G4 | exact G2]. }
      split; [constructor; [|exact R1]|].
      { split; cbn [fst snd]; [destruct E1 as [L1 _]; eapply Nat.lt_le_trans; eassumption | rewrite Hc; exact Hk]. }
      split; [exact M1|]. split; [constructor; [exact G1 | exact F1]|].
      cbn [deref map fst snd]. f_equal; [rewrite Hc; reflexivity | exact D1].
    + assert (Hlen : List.length h0 <= List.length h) by apply He.
      assert (Hcell : hget h a = hget h0 a) by (apply He; exact Ha).
      assert (Hh1 : Forall cell_ok (h ++ [hget h a])).
      { apply Forall_app. split; [exact Hh|]. constructor; [|constructor].
        rewrite Forall_forall in Hh. apply Hh. apply hget_In. eapply Nat.lt_le_trans; eassumption. }
      assert (He1 : ext h0 (h ++ [hget h a])) by (eapply ext_trans; [exact He | apply ext_app]).
      assert (Hm1 : memo_ok h0 (h ++ [hget h a]) ((a, List.length h) :: memo)).
      { constructor; [|eapply memo_ok_ext; [apply ext_app | exact Hm]]. cbn [fst snd].
        split; [exact Hlen|]. split; [rewrite app_length; cbn; rewrite Nat.add_1_r; apply Nat.lt_succ_diag_r|].
        split; [exact Ha|]. rewrite hget_app_new. exact Hcell. }
      destruct (IH ((a, List.length h) :: memo) (h ++ [hget h a]) He1 Hh1 Hrt Hm1) as [E1 [C1 [R1 [M1 [F1 D1]]]]]. cbn [fst snd].
      assert (Hlt : List.length h < List.length (h ++ [hget h a])) by (rewrite app_length; cbn; rewrite Nat.add_1_r; apply Nat.lt_succ_diag_r).
      assert (Hc : hget (snd (fst (copy_refs ((a, List.length h) :: memo) (h ++ [hget h a]) t))) (List.length h) = hget h0 a).
      { destruct E1 as [_ E1]. rewrite E1; [rewrite hget_app_new; exact Hcell | exact Hlt]. }
      split; [eapply ext_trans; [apply ext_app | exact E1]|]. split; [exact C1|].
      split; [constructor; [|exact R1]|].
      { split; cbn [fst snd]; [destruct E1 as [L1 _]; eapply Nat.lt_le_trans; eassumption | rewrite Hc; exact Hk]. }
      split; [exact M1|]. split; [constructor; [exact Hlen | exact F1]|].
      cbn [deref map fst snd]. f_equal; [rewrite Hc; reflexivity | exact D1].
Qed.

Lemma deepcopy_ok h o : Forall cell_ok h -> obj_ok h o ->
  ext h (fst (deepcopy h o)) /\ Forall cell_ok (fst (deepcopy h o)) /\ obj_ok (fst (deepcopy h o)) (snd (deepcopy h o))
  /\ view (fst (deepcopy h o)) (snd (deepcopy h o)) = view h o
  /\ fresh_from (List.length h) (ao_node (snd (deepcopy h o))) /\ fresh_from (List.length h) (ao_edge (snd (deepcopy h o)))
  /\ ao_md (snd (deepcopy h o)) = ao_md o.
Proof.
  intros Hh [Hn [He Hb]]. unfold deepcopy.
  destruct (copy_refs_ok h (ao_node o) [] h (ext_refl h) Hh Hn (Forall_nil _)) as [E1 [C1 [R1 [M1 [F1 D1]]]]].
  set (x := copy_refs [] h (ao_node o)) in *.
  destruct (copy_refs_ok h (ao_edge o) (fst (fst x)) (snd (fst x)) E1 C1 He M1) as [E2 [C2 [R2 [M2 [F2 D2]]]]].
  set (y := copy_refs (fst (fst x)) (snd (fst x)) (ao_edge o)) in *. cbn [fst snd ao_md ao_node ao_edge].
  split; [eapply ext_trans; eassumption|]. split; [exact C2|].
  split; [split; [eapply refs_ok_ext; eassumption | split; [exact R2 | exact Hb]]|].
  split; [|split; [exact F1 | split; [exact F2 | reflexivity]]].
  unfold view. cbn [ao_md ao_node ao_edge]. rewrite D2, (deref_ext _ _ _ E2 R1), D1. reflexivity.
Qed.

(* ================================================================== in-place update through an instance *)
(* same length, the first n cells untouched, every cell keeps its identifier *)
Definition upd (n : nat) (h h' : pheap) : Prop :=
  List.length h' = List.length h /\ (forall a, a < n -> hget h' a = hget h a)
  /\ (forall a, pm_identifier (hget h' a) = pm_identifier (hget h a)).

Lemma upd_refl n h : upd n h h.
Proof. split; [reflexivity|]. split; reflexivity. Qed.

Lemma upd_trans n h1 h2 h3 : upd n h1 h2 -> upd n h2 h3 -> upd n h1 h3.
Proof.
  intros [L1 [A1 B1]] [L2 [A2 B2]]. split; [congruence|]. split.
  - intros a Ha. rewrite A2, A1; auto.
  - intros a. rewrite B2, B1. reflexivity.
Qed.

Lemma refs_ok_upd n h h' r : upd n h h' -> refs_ok h r -> refs_ok h' r.
Proof.
  intros [L [_ B]]. apply Forall_impl. intros kr [Ha Hk]. split; [rewrite L; exact Ha | rewrite B; exact Hk].
Qed.

Lemma ext_upd h0 h h' : ext h0 h -> upd (List.length h0) h h' -> ext h0 h'.
Proof.
  intros [L E] [L' [A _]]. split; [rewrite L'; exact L|]. intros a Ha. rewrite A; [apply E; exact Ha | exact Ha].
Qed.

Lemma cell_ok_update old p : cell_ok old -> pm_okb p = true ->
  cell_ok (mkPM (pm_identifier old) (pm_dtype p) (pm_varlength p) (pm_unit old) (pm_name old) (pm_description old)).
Proof.
  unfold cell_ok, pm_okb. cbn. intros Ho Hp. apply andb_true_iff in Ho. destruct Ho as [Ho _].
  apply andb_true_iff in Hp. destruct Hp as [_ Hp]. rewrite Ho, Hp. reflexivity.
Qed.

Lemma Forall_hset (P : prop_meta -> Prop) h : forall a c, Forall P h -> P c -> Forall P (hset h a c).
Proof.
  induction h as [|x r IH]; intros a c Hh Hc; [constructor|]. inversion Hh; subst.
  destruct a; cbn; constructor; auto.
Qed.

Lemma pm_set_keys d k p : k = pm_identifier p -> keys_match d = true -> keys_match (pm_set d k p) = true.
Proof.
  intros Hk Hd. induction d as [|[k' q] r IH]; cbn [pm_set].
  - unfold keys_match. cbn [forallb fst snd]. apply andb_true_iff. split; [apply String.eqb_eq; exact Hk | reflexivity].
  - apply keys_match_cons in Hd. destruct Hd as [Hq Hr]. destruct (String.eqb k k') eqn:E.
    + apply String.eqb_eq in E. unfold keys_match in *. cbn [forallb fst snd]. apply andb_true_iff.
      split; [apply String.eqb_eq; rewrite <- E; exact Hk | exact Hr].
    + unfold keys_match in *. cbn [forallb fst snd]. apply andb_true_iff.
      split; [apply String.eqb_eq; exact Hq | apply IH; exact Hr].
Qed.

Lemma aprops_loop_ok n ps : forall h ex fresh,
  Forall cell_ok h -> refs_ok h ex -> fresh_from n ex -> forallb pm_okb ps = true ->
  pms_ok fresh = true -> keys_match fresh = true ->
  upd n h (fst (aprops_loop h ex fresh ps)) /\ Forall cell_ok (fst (aprops_loop h ex fresh ps))
  /\ pms_ok (snd (aprops_loop h ex fresh ps)) = true /\ keys_match (snd (aprops_loop h ex fresh ps)) = true.
Proof.
  induction ps as [|p r IH]; intros h ex fresh Hh Hex Hf Hps Hfp Hfk; cbn [aprops_loop].
  - cbn. split; [apply upd_refl|]. repeat split; assumption.
  - cbn in Hps. apply andb_true_iff in Hps. destruct Hps as [Hp Hr].
    destruct (ref_of (pm_identifier p) ex) as [a|] eqn:Ea.
    + apply ref_of_In in Ea. unfold refs_ok in Hex. pose proof Hex as Hex'. rewrite Forall_forall in Hex'.
      destruct (Hex' _ Ea) as [Ha _]. cbn [snd] in Ha.
      unfold fresh_from in Hf. pose proof Hf as Hf'. rewrite Forall_forall in Hf'. pose proof (Hf' _ Ea) as Hna. cbn [snd] in Hna.
      set (c := mkPM (pm_identifier (hget h a)) (pm_dtype p) (pm_varlength p) (pm_unit (hget h a)) (pm_name (hget h a))
                     (pm_description (hget h a))).
      assert (Hc : cell_ok c).
      { apply cell_ok_update; [|exact Hp]. rewrite Forall_forall in Hh. apply Hh. apply hget_In. exact Ha. }
      assert (Hu : upd n h (hset h a c)).
      { split; [apply hset_length|]. split.
        - intros b Hb. apply hget_hset_other. intros ->. apply (Nat.lt_irrefl b). eapply Nat.lt_le_trans; eassumption.
        - intros b. destruct (Nat.eq_dec a b) as [<-|Hab]; [rewrite hget_hset_same; [reflexivity | exact Ha] | rewrite hget_hset_other; [reflexivity | exact Hab]]. }
      destruct (IH (hset h a c) ex fresh (Forall_hset _ _ _ _ Hh Hc) (refs_ok_upd _ _ _ _ Hu Hex) Hf Hr Hfp Hfk) as [U1 [C1 [P1 K1]]].
      split; [eapply upd_trans; eassumption|]. repeat split; assumption.
    + apply IH; try assumption; [apply pm_set_pms; assumption | apply pm_set_keys; [reflexivity | assumption]].
Qed.

(* ================================================================== pools *)
Lemma apool_set_length p : forall i o, List.length (apool_set p i o) = List.length p.
Proof. induction p as [|x r IH]; intros i o; [reflexivity|]. destruct i; cbn; [reflexivity | rewrite IH; reflexivity]. Qed.

Lemma apool_set_nth_same p : forall i o, i < List.length p -> nth_error (apool_set p i o) i = Some o.
Proof.
  induction p as [|x r IH]; intros i o Hi; cbn in Hi; [inversion Hi|].
  destruct i; cbn; [reflexivity | apply IH; apply Nat.succ_lt_mono; exact Hi].
Qed.

Lemma apool_set_nth_other p : forall i j o, i <> j -> nth_error (apool_set p i o) j = nth_error p j.
Proof.
  induction p as [|x r IH]; intros i j o Hij; [reflexivity|].
  destruct i, j; cbn; try reflexivity; [contradiction Hij; reflexivity | apply IH; intros ->; apply Hij; reflexivity].
Qed.

Lemma apool_set_restore p : forall i o ob, nth_error p i = Some ob -> apool_set (apool_set p i o) i ob = p.
Proof.
  induction p as [|x r IH]; intros i o ob H; [reflexivity|].
  destruct i; cbn in *; [inversion H; reflexivity | rewrite (IH _ _ _ H); reflexivity].
Qed.

Lemma Forall_apool_set (P : aobj -> Prop) p : forall i o, Forall P p -> P o -> Forall P (apool_set p i o).
Proof.
  induction p as [|x r IH]; intros i o Hp Ho; [constructor|]. inversion Hp; subst.
  destruct i; cbn; constructor; auto.
Qed.

Lemma nth_error_lt {A} (l : list A) i x : nth_error l i = Some x -> i < List.length l.
Proof. intros H. apply nth_error_Some. rewrite H. discriminate. Qed.

Lemma pool_ok_ext h h' p : ext h h' -> Forall (obj_ok h) p -> Forall (obj_ok h') p.
Proof. intros He. apply Forall_impl. intros o. apply obj_ok_ext. exact He. Qed.

Lemma views_ext h h' p : ext h h' -> Forall (obj_ok h) p -> map (view h') p = map (view h) p.
Proof.
  intros He Hp. apply map_ext_in. intros o Hin. rewrite Forall_forall in Hp. apply view_ext; [exact He | apply Hp; exact Hin].
Qed.

(* ================================================================== what one operation does to the state *)
(* the heap is extended (old cells untouched), all cells stay validated, and the pool is unchanged, or has its
   i-th object replaced, or has one object appended; objects in the new pool are good in the new heap *)
Inductive shape (s s' : astate) (r : res unit) (o : aop) : Prop :=
| ShSame : as_pool s' = as_pool s ->
           (r = Ok tt -> exists ls, o = AAxesFromLists ls) -> shape s s' r o
| ShPush ob : r = Ok tt -> as_pool s' = as_pool s ++ [ob] -> obj_ok (as_heap s') ob ->
              (forall i f v sh, o <> AAssign i f v sh) -> (forall ls, o <> AAxesFromLists ls) -> shape s s' r o
| ShSet i f v sh ob : r = Ok tt -> o = AAssign i f v sh -> i < List.length (as_pool s) ->
                      as_pool s' = apool_set (as_pool s) i ob -> obj_ok (as_heap s') ob -> shape s s' r o.

Lemma with_props_id m : with_props m (md_node_props m) (md_edge_props m) = m.
Proof. destruct m. reflexivity. Qed.

Lemma set_field_node m f v m1 : set_field m f v = Ok m1 -> f <> FNodeProps -> md_node_props m1 = md_node_props m.
Proof.
  intros H Hf. destruct f; cbn [set_field] in H; try (contradiction Hf; reflexivity);
    match type of H with
    | rmap _ ?e = Ok _ => destruct e as [x|]; cbn [rmap] in H; [|discriminate]; inversion H; subst; reflexivity
    | _ => discriminate
    end.
Qed.

Lemma set_field_edge m f v m1 : set_field m f v = Ok m1 -> f <> FEdgeProps -> md_edge_props m1 = md_edge_props m.
Proof.
  intros H Hf. destruct f; cbn [set_field] in H; try (contradiction Hf; reflexivity);
    match type of H with
    | rmap _ ?e = Ok _ => destruct e as [x|]; cbn [rmap] in H; [|discriminate]; inversion H; subst; reflexivity
    | _ => discriminate
    end.
Qed.

Lemma set_field_pms m f v m1 : inv_struct m = true -> set_field m f v = Ok m1 ->
  pms_ok (md_node_props m1) = true /\ pms_ok (md_edge_props m1) = true.
Proof.
  intros Hm H. destruct (struct_dicts m Hm) as [Pn [Pe _]].
  destruct f; cbn [set_field] in H;
    match type of H with
    | rmap _ ?e = Ok _ => destruct e as [x|] eqn:E; cbn [rmap] in H; [|discriminate]; inversion H; subst; clear H; cbn
    | _ => discriminate
    end; split; try assumption; eapply v_pmdict_pms; exact E.
Qed.

(* the object pydantic has after storing the validated value (MetaAlias.stored_obj): its view is the would-be
   object of Meta.assign *)
Lemma stored_obj_spec h ob f v m1 sh :
  Forall cell_ok h -> obj_ok h ob -> set_field (view h ob) f v = Ok m1 ->
  ext h (fst (stored_obj h ob f m1 sh)) /\ Forall cell_ok (fst (stored_obj h ob f m1 sh))
  /\ view (fst (stored_obj h ob f m1 sh)) (snd (stored_obj h ob f m1 sh)) = m1
  /\ in_heap (fst (stored_obj h ob f m1 sh)) (ao_node (snd (stored_obj h ob f m1 sh)))
  /\ in_heap (fst (stored_obj h ob f m1 sh)) (ao_edge (snd (stored_obj h ob f m1 sh)))
  /\ ao_md (snd (stored_obj h ob f m1 sh)) = m1.
Proof.
  intros Hh Hob Hs. pose proof Hob as [Hn [He Hb]].
  pose proof (view_struct h ob Hh Hob) as Hv.
  destruct (set_field_pms _ _ _ _ Hv Hs) as [Pn Pe].
  assert (Dn : f <> FNodeProps -> md_node_props m1 = deref h (ao_node ob)) by (intros Hf; rewrite (set_field_node _ _ _ _ Hs Hf); reflexivity).
  assert (De : f <> FEdgeProps -> md_edge_props m1 = deref h (ao_edge ob)) by (intros Hf; rewrite (set_field_edge _ _ _ _ Hs Hf); reflexivity).
  assert (Hdefault : f <> FNodeProps -> f <> FEdgeProps ->
            ext h h /\ Forall cell_ok h /\ view h (mkAO m1 (ao_node ob) (ao_edge ob)) = m1
            /\ in_heap h (ao_node ob) /\ in_heap h (ao_edge ob) /\ m1 = m1).
  { intros F1 F2. split; [apply ext_refl|]. split; [exact Hh|].
    split; [unfold view; cbn [ao_md ao_node ao_edge]; rewrite <- (Dn F1), <- (De F2); apply with_props_id|].
    split; [apply refs_ok_in_heap; exact Hn|]. split; [apply refs_ok_in_heap; exact He | reflexivity]. }
  destruct f; try (apply Hdefault; discriminate).
  - (* node dictionary *)
    unfold stored_obj. destruct (alloc_sh_spec (md_node_props m1) h (ao_edge ob) sh Hh (refs_ok_in_heap _ _ He) Pn) as [E1 [C1 [B1 D1]]].
    cbn [fst snd ao_md ao_node ao_edge]. split; [exact E1|]. split; [exact C1|].
    split; [|split; [exact B1 | split; [eapply in_heap_ext; [exact E1 | apply refs_ok_in_heap; exact He] | reflexivity]]].
    unfold view. cbn [ao_md ao_node ao_edge]. rewrite D1, (deref_ext _ _ _ E1 He), <- De; [apply with_props_id | discriminate].
  - (* edge dictionary *)
    unfold stored_obj. destruct (alloc_sh_spec (md_edge_props m1) h (ao_node ob) sh Hh (refs_ok_in_heap _ _ Hn) Pe) as [E1 [C1 [B1 D1]]].
    cbn [fst snd ao_md ao_node ao_edge]. split; [exact E1|]. split; [exact C1|].
    split; [|split; [eapply in_heap_ext; [exact E1 | apply refs_ok_in_heap; exact Hn] | split; [exact B1 | reflexivity]]].
    unfold view. cbn [ao_md ao_node ao_edge]. rewrite D1, (deref_ext _ _ _ E1 Hn), <- Dn; [apply with_props_id | discriminate].
Qed.

(* an object whose references are into the heap and whose view is in the domain is a good object *)
Lemma obj_ok_of_view h o : in_heap h (ao_node o) -> in_heap h (ao_edge o) -> view h o = ao_md o -> inv_struct (ao_md o) = true -> obj_ok h o.
Proof.
  intros Bn Be Hv Hs. destruct (struct_dicts _ Hs) as [_ [_ [Kn Ke]]].
  rewrite <- Hv in Kn, Ke. unfold view in Kn, Ke. cbn [md_node_props md_edge_props with_props] in Kn, Ke.
  split; [apply refs_ok_of_deref; assumption|]. split; [apply refs_ok_of_deref; assumption | apply struct_base; exact Hs].
Qed.

Lemma md_after_is m r : md_after m = r -> (r = Ok m /\ md_after_ok m = true) \/ (r = Err ValueError /\ md_after_ok m = false).
Proof. unfold md_after. destruct (md_after_ok m); intros <-; [left | right]; split; reflexivity. Qed.

Lemma v_list_pm_ok props ps : v_list propmeta_of_jv props = Ok ps -> forallb pm_okb ps = true.
Proof. unfold v_list. destruct props; try discriminate. apply mapM_forallb. apply propmeta_of_jv_ok. Qed.

Lemma astep_shape gv s o : version_ok gv = true -> state_ok s ->
  ext (as_heap s) (as_heap (fst (astep gv s o))) /\ Forall cell_ok (as_heap (fst (astep gv s o)))
  /\ shape s (fst (astep gv s o)) (snd (astep gv s o)) o.
Proof.
  intros Hg [Hh Hp]. destruct s as [h p]. cbn [as_heap as_pool] in *.
  assert (Same : forall e : exn, ext h h /\ Forall cell_ok h /\ shape (mkAS h p) (mkAS h p) (Err e) o).
  { intros e. split; [apply ext_refl|]. split; [exact Hh|]. apply ShSame; [reflexivity | discriminate]. }
  destruct o as [kw sh|i f v sh|i how|i ls|[i|] d a|i props ctype|ls]; cbn [astep as_heap as_pool].
  - (* construct *)
    destruct (construct gv kw) as [m|e] eqn:Ec; [|apply Same].
    pose proof (construct_struct gv kw m Hg Ec) as Hs. destruct (struct_dicts m Hs) as [Pn [Pe [Kn Ke]]].
    destruct (alloc_spec (md_node_props m) h Hh Pn) as [E1 [C1 [B1 D1]]].
    destruct (alloc_sh_spec (md_edge_props m) (fst (alloc h (md_node_props m))) (snd (alloc h (md_node_props m))) sh C1 B1 Pe)
      as [E2 [C2 [B2 D2]]].
    cbn [apush fst snd as_heap as_pool]. split; [eapply ext_trans; eassumption|]. split; [exact C2|].
    eapply ShPush; [reflexivity | reflexivity | | discriminate | discriminate]. cbn [as_heap].
    split; [|split]; cbn [ao_md ao_node ao_edge].
    + eapply refs_ok_ext; [exact E2|]. apply refs_ok_of_deref; [exact B1 | rewrite D1; exact Kn].
    + apply refs_ok_of_deref; [exact B2 | rewrite D2; exact Ke].
    + apply struct_base. exact Hs.
  - (* assignment *)
    destruct (nth_error p i) as [ob|] eqn:En; [|apply Same].
    pose proof (nth_error_Forall _ _ _ _ Hp En) as Hob.
    destruct (set_field (view h ob) f v) as [m1|e] eqn:Es; [|apply Same].
    destruct (stored_obj_spec h ob f v m1 sh Hh Hob Es) as [E1 [C1 [V1 [Bn [Be Hmd]]]]].
    rewrite V1. destruct (md_after_is m1 _ eq_refl) as [[-> Ha]|[-> Ha]]; cbn [fst snd as_heap as_pool].
    + split; [exact E1|]. split; [exact C1|].
      eapply (ShSet _ _ _ _ i f v sh); [reflexivity | reflexivity | eapply nth_error_lt; exact En | reflexivity|].
      cbn [as_heap]. apply obj_ok_of_view; [exact Bn | exact Be | rewrite Hmd; exact V1|]. rewrite Hmd.
      eapply set_field_struct; [apply (view_struct h ob Hh Hob) | exact Es | exact Ha].
    + split; [exact E1|]. split; [exact C1|].
      apply ShSame; [cbn [as_pool]; apply apool_set_restore; exact En | discriminate].
  - (* copy *)
    destruct (nth_error p i) as [ob|] eqn:En; [|apply Same].
    pose proof (nth_error_Forall _ _ _ _ Hp En) as Hob. destruct how; cbn [apush fst snd as_heap as_pool].
    + destruct (deepcopy_ok h ob Hh Hob) as [E1 [C1 [O1 _]]].
      split; [exact E1|]. split; [exact C1|]. eapply ShPush; [reflexivity | reflexivity | exact O1 | discriminate | discriminate].
    + split; [apply ext_refl|]. split; [exact Hh|]. eapply ShPush; [reflexivity | reflexivity | exact Hob | discriminate | discriminate].
    + destruct Hob as [Hn [He Hb]].
      destruct (alloc_spec (deref h (ao_node ob)) h Hh (pms_ok_deref _ _ Hh Hn)) as [E1 [C1 [B1 D1]]].
      destruct (alloc_spec (deref h (ao_edge ob)) (fst (alloc h (deref h (ao_node ob)))) C1 (pms_ok_deref _ _ Hh He)) as [E2 [C2 [B2 D2]]].
      split; [eapply ext_trans; eassumption|]. split; [exact C2|].
      eapply ShPush; [reflexivity | reflexivity | | discriminate | discriminate]. cbn [as_heap].
      split; [|split]; cbn [ao_md ao_node ao_edge].
      * eapply refs_ok_ext; [exact E2|]. apply refs_ok_of_deref; [exact B1 | rewrite D1; apply keys_match_deref; exact Hn].
      * apply refs_ok_of_deref; [exact B2 | rewrite D2; apply keys_match_deref; exact He].
      * exact Hb.
  - (* update_metadata_axes *)
    destruct (nth_error p i) as [ob|] eqn:En; [|apply Same].
    pose proof (nth_error_Forall _ _ _ _ Hp En) as Hob.
    destruct (update_metadata_axes (view h ob) ls) as [m'|e] eqn:Eu; [|apply Same].
    cbn [apush fst snd as_heap as_pool]. split; [apply ext_refl|]. split; [exact Hh|].
    eapply ShPush; [reflexivity | reflexivity | | discriminate | discriminate]. cbn [as_heap].
    destruct Hob as [Hn [He Hb]]. split; [exact Hn|]. split; [exact He|]. cbn [ao_md].
    apply struct_base. eapply update_metadata_axes_struct; [|exact Eu]. apply view_struct; [exact Hh | split; [exact Hn | split; assumption]].
  - (* create_or_update_metadata on an existing object *)
    destruct (nth_error p i) as [ob|] eqn:En; [|apply Same].
    pose proof (nth_error_Forall _ _ _ _ Hp En) as Hob.
    destruct (deepcopy_ok h ob Hh Hob) as [E1 [C1 [O1 _]]].
    destruct (create_or_update_metadata gv (Some (view (fst (deepcopy h ob)) (snd (deepcopy h ob)))) d a) as [m'|e] eqn:Eu;
      cbn [apush fst snd as_heap as_pool].
    + split; [exact E1|]. split; [exact C1|].
      eapply ShPush; [reflexivity | reflexivity | | discriminate | discriminate]. cbn [as_heap].
      destruct O1 as [Hn [He Hb]]. split; [exact Hn|]. split; [exact He|]. cbn [ao_md].
      apply struct_base. eapply create_or_update_struct; [exact Hg | | exact Eu].
      intros m0 E0. inversion E0; subst. apply view_struct; [exact C1 | split; [exact Hn | split; assumption]].
    + split; [exact E1|]. split; [exact C1|]. apply ShSame; [reflexivity | discriminate].
  - (* create_or_update_metadata(None, ...) *)
    destruct (create_or_update_metadata gv None d a) as [m'|e] eqn:Eu; [|apply Same].
    cbn [apush fst snd as_heap as_pool]. split; [apply ext_refl|]. split; [exact Hh|].
    eapply ShPush; [reflexivity | reflexivity | | discriminate | discriminate]. cbn [as_heap].
    split; [constructor|]. split; [constructor|]. cbn [ao_md]. apply struct_base.
    eapply create_or_update_struct; [exact Hg | | exact Eu]. intros m0 E0. discriminate.
  - (* add_or_update_props_metadata *)
    destruct (nth_error p i) as [ob|] eqn:En; [|apply Same].
    pose proof (nth_error_Forall _ _ _ _ Hp En) as Hob.
    destruct (v_list propmeta_of_jv props) as [ps|e] eqn:Ev; [|apply Same].
    destruct (v_literal ["node"; "edge"] ctype) as [ct|e] eqn:El; [|apply Same].
    pose proof (v_list_pm_ok _ _ Ev) as Hps.
    destruct (deepcopy_ok h ob Hh Hob) as [E1 [C1 [[Hn1 [He1 Hb1]] [_ [Fn [Fe _]]]]]].
    set (h1 := fst (deepcopy h ob)) in *. set (ob1 := snd (deepcopy h ob)) in *.
    set (ex := if String.eqb ct "node" then ao_node ob1 else ao_edge ob1).
    assert (Hex : refs_ok h1 ex /\ fresh_from (List.length h) ex) by (unfold ex; destruct (String.eqb ct "node"); split; assumption).
    destruct Hex as [Hex Fex].
    destruct (aprops_loop_ok (List.length h) ps h1 ex [] C1 Hex Fex Hps eq_refl eq_refl) as [U2 [C2 [P2 K2]]].
    set (l := aprops_loop h1 ex [] ps) in *.
    destruct (alloc_spec (snd l) (fst l) C2 P2) as [E3 [C3 [B3 D3]]].
    set (nw := alloc (fst l) (snd l)) in *.
    cbn [apush fst snd as_heap as_pool].
    split; [|split].
    + eapply ext_trans; [|exact E3]. eapply ext_upd; [exact E1 | exact U2].
    + exact C3.
    + eapply ShPush; [reflexivity | reflexivity | | discriminate | discriminate]. cbn [as_heap].
      assert (R3 : forall r, refs_ok h1 r -> refs_ok (fst nw) r).
      { intros r Hr. eapply refs_ok_ext; [exact E3|]. eapply refs_ok_upd; [exact U2 | exact Hr]. }
      assert (Rnw : refs_ok (fst nw) (snd nw)) by (apply refs_ok_of_deref; [exact B3 | rewrite D3; exact K2]).
      unfold ex. destruct (String.eqb ct "node"); (split; [|split]); cbn [ao_md ao_node ao_edge]; try exact Hb1.
      * apply Forall_app. split; [apply R3; exact Hn1 | exact Rnw].
      * apply R3. exact He1.
      * apply R3. exact Hn1.
      * apply Forall_app. split; [apply R3; exact He1 | exact Rnw].
  - (* axes_from_lists *)
    destruct (axes_from_lists ls) as [l|e]; [|apply Same].
    split; [apply ext_refl|]. split; [exact Hh|]. apply ShSame; [reflexivity|]. intros _. exists ls. reflexivity.
Qed.

(* ================================================================== the theorems *)
Lemma astep_state_ok gv s o : version_ok gv = true -> state_ok s -> state_ok (fst (astep gv s o)).
Proof.
  intros Hg Hs. destruct (astep_shape gv s o Hg Hs) as [E [C Sh]]. destruct Hs as [Hh Hp].
  split; [exact C|]. destruct Sh as [Hpool _ | ob _ Hpool Hob _ _ | i f v sh ob _ _ _ Hpool Hob]; rewrite Hpool.
  - eapply pool_ok_ext; eassumption.
  - apply Forall_app. split; [eapply pool_ok_ext; eassumption | constructor; [exact Hob | constructor]].
  - apply Forall_apool_set; [eapply pool_ok_ext; eassumption | exact Hob].
Qed.

Lemma arun_state_ok gv ops : forall s, version_ok gv = true -> state_ok s -> state_ok (arun gv s ops).
Proof.
  induction ops as [|o r IH]; intros s Hg Hs; cbn; [exact Hs|]. apply IH; [exact Hg | apply astep_state_ok; assumption].
Qed.

Lemma empty_state_ok : state_ok empty_state.
Proof. split; constructor. Qed.

(* every object reachable with any sharing of instances shows a view in the structural part of C08's domain *)
Lemma alias_reachable_struct gv ops m :
  version_ok gv = true -> In m (views (arun gv empty_state ops)) -> inv_struct m = true.
Proof.
  intros Hg Hin. destruct (arun_state_ok gv ops empty_state Hg empty_state_ok) as [Hh Hp].
  unfold views in Hin. apply in_map_iff in Hin. destruct Hin as [o [<- Ho]].
  rewrite Forall_forall in Hp. apply view_struct; [exact Hh | apply Hp; exact Ho].
Qed.

Lemma alias_reachable_inv gv ops : version_ok gv = true -> Forall InvW (views (arun gv empty_state ops)).
Proof.
  intros Hg. apply Forall_forall. intros m Hin. apply inv_struct_InvW. eapply alias_reachable_struct; eassumption.
Qed.

Lemma alias_reachable_in_domain gv ops m :
  version_ok gv = true -> In m (views (arun gv empty_state ops)) -> md_finite m = true -> inv_md m = true.
Proof. intros Hg Hin Hf. apply inv_md_iff. split; [eapply alias_reachable_struct; eassumption | exact Hf]. Qed.

(* an operation that raises leaves the view of every live object as it was *)
Lemma alias_atomic gv s o s' e :
  version_ok gv = true -> state_ok s -> astep gv s o = (s', Err e) -> views s' = views s.
Proof.
  intros Hg Hs H. destruct (astep_shape gv s o Hg Hs) as [E [_ Sh]]. rewrite H in E, Sh. cbn [fst snd] in E, Sh.
  destruct Hs as [_ Hp]. destruct Sh as [Hpool _ | ob Hr _ _ _ _ | i f v sh ob Hr _ _ _ _]; try discriminate.
  unfold views. rewrite Hpool. apply views_ext; assumption.
Qed.

(* a successful operation changes the view of its assignment target only; every other operation only appends *)
Lemma alias_frame gv s o s' :
  version_ok gv = true -> state_ok s -> astep gv s o = (s', Ok tt) -> frame (views s) (erase o) (views s').
Proof.
  intros Hg Hs H. destruct (astep_shape gv s o Hg Hs) as [E [_ Sh]]. rewrite H in E, Sh. cbn [fst snd] in E, Sh.
  destruct Hs as [_ Hp]. destruct Sh as [Hpool Hax | ob _ Hpool Hob Hna Hnx | i f v sh ob _ Ho Hi Hpool Hob].
  - destruct (Hax eq_refl) as [ls ->]. cbn [erase frame]. unfold views. rewrite Hpool. apply views_ext; assumption.
  - assert (Hv : views s' = views s ++ [view (as_heap s') ob]).
    { unfold views. rewrite Hpool, map_app. cbn [map]. f_equal. apply views_ext; assumption. }
    destruct o; cbn [erase frame]; try (eexists; exact Hv);
      [exfalso; eapply Hna; reflexivity | exfalso; eapply Hnx; reflexivity].
  - subst o. cbn [erase frame]. unfold views. rewrite Hpool. split; [rewrite !map_length; apply apool_set_length|].
    intros j Hj. rewrite !nth_error_map, apool_set_nth_other; [|intros ->; apply Hj; reflexivity].
    destruct (nth_error (as_pool s) j) as [oj|] eqn:Ej; [|reflexivity]. cbn [option_map]. f_equal.
    apply view_ext; [exact E | apply (nth_error_Forall _ _ _ _ Hp Ej)].
Qed.

(* the cells an operation writes: none that existed before (old cells keep their content) *)
Lemma alias_heap_monotone gv s o : version_ok gv = true -> state_ok s -> ext (as_heap s) (as_heap (fst (astep gv s o))).
Proof. intros Hg Hs. apply (astep_shape gv s o Hg Hs). Qed.

(* the aliasing itself: one instance under "a" in both dictionaries; updating the node entry changes the edge entry,
   in the copy only (the audit's probe p4.py) *)
Definition alias_kw : jv :=
  JObj [("directed", JBool true);
        ("node_props_metadata", JObj [("a", JObj [("identifier", JStr "a"); ("dtype", JStr "int8")])]);
        ("edge_props_metadata", JObj [("a", JObj [("identifier", JStr "a"); ("dtype", JStr "int8")])])].
Definition alias_upd : jv := JList [JObj [("identifier", JStr "a"); ("dtype", JStr "float64"); ("varlength", JBool true)]].
Definition dtypes_of (m : metadata) : list string * list string :=
  (map (fun kv => pm_dtype (snd kv)) (md_node_props m), map (fun kv => pm_dtype (snd kv)) (md_edge_props m)).

Lemma alias_example :
  map dtypes_of (views (arun "1.3" empty_state [AConstruct alias_kw ["a"]; AAddProps 0 alias_upd (JStr "node")]))
    = [(["int8"], ["int8"]); (["float64"], ["float64"])]
  /\ map dtypes_of (views (arun "1.3" empty_state [AConstruct alias_kw []; AAddProps 0 alias_upd (JStr "node")]))
    = [(["int8"], ["int8"]); (["float64"], ["int8"])]
  /\ map dtypes_of (run "1.3" [] [OConstruct alias_kw; OAddProps 0 alias_upd (JStr "node")])
    = [(["int8"], ["int8"]); (["float64"], ["int8"])].
Proof. vm_compute. repeat split. Qed.
