(* Entry.v -- every writing entry point of the library placed on the target tree (C06 / C05).

   Write.v models write_arrays and geff.write (api_write).  This file adds the remaining ones, each as the M program the
   Python runs on the target, in the order the Python runs it:
     write_dicts, NxBackend.write, RxBackend.write, SgBackend.write   -- no `overwrite` parameter: they reach write_arrays with its
                                                                        default overwrite=False (dicts_write)
     from_ctc_to_geff            -- own guard, label-volume export (which lands INSIDE the target when the segmentation target lies
                                    in the geff directory), graph logic (Ctc.convert), write_arrays(overwrite=False) (ctc_write)
     from_trackmate_xml_to_geff  -- _preliminary_checks (own guard), graph logic (TrackMate.convert), NxBackend.write ->
                                    write_dicts -> write_arrays(overwrite=False)     (TrackMate.from_trackmate)
     geff_to_csv                 -- Table.v (two-file target)
   `ecall` is one call of any entry point on a zarr target; `entry_points` / `modelled_calls` is the table of the source functions
   these programs stand for, compared with the list regenerated from the source on every run (Gen/Consts.v: write_calls,
   param_defaults).  Model only; proofs in EntryLemmas.v. *)
From Geff Require Import Base Dtype Vlen Tree Validate Write WriteLemmas CrashLemmas.
From Geff Require Ctc TrackMate.
From Geff.Gen Require Import Consts.
Open Scope string_scope.
Open Scope list_scope.
Open Scope m_scope.

(* ---------- writers without an overwrite parameter ---------- *)
(* write_dicts(store, node_data, edge_data, ..., structure_validation): `write_arrays(geff_store, nodes_arr, ..., metadata,
   zarr_format=..., structure_validation=...)` -- overwrite is not passed.  The same holds for the three backend writers called
   directly.  The model starts at the arrays handed to write_arrays (dictionaries -> arrays is C03). *)
Definition dicts_write (k : skind) (g : wgraph) (md : smeta) (v : bool) : M unit := write_arrays k g md v false.

(* ---------- the shape shared by geff.write and the converters ---------- *)
(* own guard; a computation that touches no store and may fail; write_arrays(overwrite=False) *)
Definition guarded_write (k : skind) (ov : bool) (conv : res (wgraph * smeta)) (v : bool) : M unit :=
  overwrite_guard k ov ;;
  do gm <- lift conv;
  write_arrays k (fst gm) (snd gm) v false.

(* ---------- from_ctc_to_geff with the label volume on the target tree ---------- *)
Fixpoint strip_prefix (pre p : list string) : option (list string) :=
  match pre, p with
  | [], _ => Some p
  | x :: pre', y :: p' => if String.eqb x y then strip_prefix pre' p' else None
  | _ :: _, [] => None
  end.

(* the segmentation target relative to the geff directory, when it lies inside it (a store object without a root directory
   never does) *)
Definition seg_rel (d : Ctc.ctc) : option (list string) :=
  match Ctc.d_seg d with
  | Ctc.SegNone => None
  | Ctc.SegPath p => strip_prefix (Ctc.d_geff d) p
  | Ctc.SegStore (Some p) => strip_prefix (Ctc.d_geff d) p
  | Ctc.SegStore None => None
  end.

Definition has_frames (d : Ctc.ctc) : bool := match Ctc.d_frames d with [] => false | _ => true end.

(* zarr.open_array(segmentation_store, shape=..., mode="w" if overwrite else "w-") in the first loop iteration, then one chunk per
   frame.  Outside the geff directory only its refusal matters here (Ctc.v).  Inside it, the array (and the directories on the way)
   appear in the target -- WITHOUT group metadata for the geff directory when it did not exist (no zarr.open_group is involved):
   an existing member is replaced (mode "w") or refused (mode "w-").  One recorded state: the complete volume (the states with only
   some of the frames copied are below the model).  `vol` is the stacked label frames (pixel content: input of the model). *)
Definition seg_put (rel : list string) (vol : arr) : M unit :=
  do r <- get_root;
  match put_path (match r with Some g => g | None => empty_group end) rel (ZA vol) with
  | Some g' => set_root (Some g')
  | None => fail OtherExn
  end.

Definition seg_export (d : Ctc.ctc) (vol : arr) : M unit :=
  if Ctc.seg_requested d && has_frames d then
    match seg_rel d with
    | None => if Ctc.d_seg_exists d && negb (Ctc.d_overwrite d) then fail FileExistsError else ret tt
    | Some rel =>
        do r <- get_root;
        let present := match r with
                       | Some g => match get_path g rel with Some _ => true | None => false end
                       | None => false
                       end in
        if present && negb (Ctc.d_overwrite d) then fail FileExistsError else seg_put rel vol
    end
  else ret tt.

Definition ctc_write (d : Ctc.ctc) (vol : arr) : M unit :=
  if negb (Ctc.d_dir d) then fail FileNotFoundError
  else match Ctc.d_table d with
  | None => fail FileNotFoundError
  | Some _ =>
      overwrite_guard KPath (Ctc.d_overwrite d) ;;
      seg_export d vol ;;
      do gm <- lift (Ctc.convert d);
      write_arrays KPath (fst gm) (snd gm) true false
  end.

(* the graph and metadata a TrackMate document converts to (the third component is what the metadata carries beside smeta) *)
Definition tm_conv (d : TrackMate.tm) (ds dt : bool) : res (wgraph * smeta) :=
  match TrackMate.convert d ds dt with Ok c => Ok (fst c) | Err e => Err e end.

(* ---------- one call of a writing entry point on a zarr target ---------- *)
Inductive ecall :=
| EArrays (k : skind) (g : wgraph) (md : smeta) (v ov : bool)      (* geff.core_io.write_arrays *)
| EDicts (k : skind) (g : wgraph) (md : smeta) (v : bool)          (* write_dicts; NxBackend / RxBackend / SgBackend .write called directly *)
| EApi (k : skind) (g : wgraph) (md : smeta) (v ov : bool)         (* geff.write *)
| ECtc (d : Ctc.ctc) (vol : arr)                                    (* from_ctc_to_geff; `geff convert-ctc` *)
| ETm (d : TrackMate.tm) (ds dt ov : bool).                         (* from_trackmate_xml_to_geff; `geff convert-trackmate-xml` *)

Definition e_kind (c : ecall) : skind :=
  match c with EArrays k _ _ _ _ | EDicts k _ _ _ | EApi k _ _ _ _ => k | ECtc _ _ | ETm _ _ _ _ => KPath end.
(* was overwrite requested?  (a writer without the parameter never is asked to) *)
Definition e_ov (c : ecall) : bool :=
  match c with
  | EArrays _ _ _ _ ov | EApi _ _ _ _ ov | ETm _ _ _ ov => ov
  | EDicts _ _ _ _ => false
  | ECtc d _ => Ctc.d_overwrite d
  end.
(* the input files of a converter exist (otherwise FileNotFoundError before anything else) *)
Definition e_ready (c : ecall) : bool :=
  match c with
  | ECtc d _ => Ctc.d_dir d && match Ctc.d_table d with Some _ => true | None => false end
  | ETm d _ _ _ => TrackMate.tm_exists d
  | _ => true
  end.
(* entry points whose own guard is followed by write_arrays' guard with overwrite=False and which touch the target in between
   nowhere (for the CTC converter: the label volume goes elsewhere) *)
Definition e_two_guards (c : ecall) : bool :=
  match c with
  | EApi _ _ _ _ _ | ETm _ _ _ _ => true
  | ECtc d _ => match seg_rel d with None => true | Some _ => negb (Ctc.seg_requested d && has_frames d) end
  | _ => false
  end.

Definition e_run (c : ecall) : M unit :=
  match c with
  | EArrays k g md v ov => write_arrays k g md v ov
  | EDicts k g md v => dicts_write k g md v
  | EApi k g md v ov => api_write k g md v ov
  | ECtc d vol => ctc_write d vol
  | ETm d ds dt ov => TrackMate.from_trackmate d ds dt ov
  end.

(* ---------- the entry-point table ---------- *)
(* what each source function is in the models *)
Inductive eclass :=
| KArrays                  (* EArrays *)
| KDicts                   (* EDicts *)
| KApi                     (* EApi *)
| KCtc                     (* ECtc *)
| KTm                      (* ETm *)
| KGuard                   (* overwrite_guard, part of KTm *)
| KCsv                     (* Table.geff_to_csv *)
| KForward (target : string)   (* passes its own overwrite parameter (or nothing) on to `target` *)
| KImage                   (* writes an image array, not a geff: dask's to_zarr(overwrite=...) *)
| KOwnStore                (* writes a geff onto a store it has just created *)
| KPart.                   (* a step inside one of the above (delete_geff, GeffReader: read-only opens) *)

Definition entry_points : list (string * eclass) :=
  [("geff/core_io/_base_write.py:write_arrays", KArrays);
   ("geff/core_io/_base_write.py:write_dicts", KDicts);
   ("geff/_graph_libs/_networkx.py:NxBackend.write", KDicts);
   ("geff/_graph_libs/_rustworkx.py:RxBackend.write", KDicts);
   ("geff/_graph_libs/_spatial_graph.py:SgBackend.write", KDicts);
   ("geff/_graph_libs/_api_wrapper.py:write", KApi);
   ("geff/convert/_ctc.py:from_ctc_to_geff", KCtc);
   ("geff/convert/_trackmate_xml.py:from_trackmate_xml_to_geff", KTm);
   ("geff/convert/_trackmate_xml.py:_preliminary_checks", KGuard);
   ("geff/convert/_dataframe.py:geff_to_csv", KCsv);
   ("geff/_cli.py:convert_ctc", KForward "geff/convert/_ctc.py:from_ctc_to_geff");
   ("geff/_cli.py:convert_trackmate_xml", KForward "geff/convert/_trackmate_xml.py:from_trackmate_xml_to_geff");
   ("geff/_cli.py:convert_to_csv", KForward "geff/convert/_dataframe.py:geff_to_csv");
   ("geff/convert/_ctc.py:ctc_tiffs_to_zarr", KImage);
   ("geff/testing/data.py:create_mock_geff", KOwnStore);
   ("geff/core_io/_utils.py:delete_geff", KPart);
   ("geff/core_io/_base_read.py:GeffReader.__init__", KPart)].

(* every call through which one of these functions reaches a store or file, with what it passes for overwrite / mode: this is what
   the programs above encode (e.g. from_ctc_to_geff -> write_arrays with "-": overwrite not passed, hence `write_arrays ... false`) *)
Definition modelled_calls : list (string * string * string) :=
  [("geff/_cli.py:convert_ctc", "from_ctc_to_geff", "overwrite=overwrite");
   ("geff/_cli.py:convert_ctc", "ctc_tiffs_to_zarr", "overwrite=overwrite");
   ("geff/_cli.py:convert_trackmate_xml", "from_trackmate_xml_to_geff", "overwrite=overwrite");
   ("geff/_cli.py:convert_to_csv", "geff_to_csv", "-");
   ("geff/_graph_libs/_api_wrapper.py:write", "check_for_geff", "-");
   ("geff/_graph_libs/_api_wrapper.py:write", "delete_geff", "-");
   ("geff/_graph_libs/_api_wrapper.py:write", "backend_io.write", "**");
   ("geff/_graph_libs/_networkx.py:NxBackend.write", "write_dicts", "-");
   ("geff/_graph_libs/_rustworkx.py:RxBackend.write", "write_dicts", "-");
   ("geff/_graph_libs/_spatial_graph.py:SgBackend.write", "write_arrays", "-");
   ("geff/convert/_ctc.py:ctc_tiffs_to_zarr", "array.to_zarr", "overwrite=overwrite");
   ("geff/convert/_ctc.py:from_ctc_to_geff", "check_for_geff", "-");
   ("geff/convert/_ctc.py:from_ctc_to_geff", "delete_geff", "-");
   ("geff/convert/_ctc.py:from_ctc_to_geff", "zarr.open_array", "mode='w' if overwrite else 'w-'");
   ("geff/convert/_ctc.py:from_ctc_to_geff", "write_arrays", "-");
   ("geff/convert/_dataframe.py:geff_to_csv", "node_df.to_csv", "mode=mode");
   ("geff/convert/_dataframe.py:geff_to_csv", "edge_df.to_csv", "mode=mode");
   ("geff/convert/_trackmate_xml.py:_preliminary_checks", "check_for_geff", "-");
   ("geff/convert/_trackmate_xml.py:_preliminary_checks", "delete_geff", "-");
   ("geff/convert/_trackmate_xml.py:from_trackmate_xml_to_geff", "_preliminary_checks", "overwrite=overwrite");
   ("geff/convert/_trackmate_xml.py:from_trackmate_xml_to_geff", "NxBackend.write", "-");
   ("geff/core_io/_base_read.py:GeffReader.__init__", "zarr.open_array", "mode='r'");
   ("geff/core_io/_base_write.py:write_dicts", "write_arrays", "-");
   ("geff/core_io/_base_write.py:write_arrays", "check_for_geff", "-");
   ("geff/core_io/_base_write.py:write_arrays", "delete_geff", "-");
   ("geff/core_io/_base_write.py:write_arrays", "metadata.write", "-");
   ("geff/core_io/_utils.py:delete_geff", "shutil.rmtree", "-");
   ("geff/testing/data.py:create_mock_geff", "write_arrays", "**")].

Definition str3_eqb (a b : string * string * string) : bool :=
  String.eqb (fst (fst a)) (fst (fst b)) && String.eqb (snd (fst a)) (snd (fst b)) && String.eqb (snd a) (snd b).
Definition subset3 (a b : list (string * string * string)) : bool :=
  forallb (fun x => existsb (str3_eqb x) b) a.
(* the functions of the source that take an `overwrite` parameter *)
Definition overwrite_functions : list string :=
  flat_map (fun e => match e with (f, prm, _) => if String.eqb prm "overwrite" then [f] else [] end) param_defaults.
Definition known_entry (f : string) : bool := existsb (fun e => String.eqb f (fst e)) entry_points.

(* fail-closed coverage: the regenerated call list and the modelled one are the same set; every caller in it, and every function
   with an `overwrite` parameter, is in the entry-point table; every forwarding target is itself in the table *)
Definition entry_points_cover_source : bool :=
  subset3 write_calls modelled_calls && subset3 modelled_calls write_calls
  && forallb (fun c => known_entry (fst (fst c))) write_calls
  && forallb known_entry overwrite_functions
  && forallb (fun e => match snd e with KForward t => known_entry t | _ => true end) entry_points.

(* ---------- comparison of observed trees ---------- *)
(* the converters' models carry the parts of the metadata that the store-side code never looks at (axis type / unit, version, related
   objects, extra) in opaque tokens of their own convention (Ctc.v / TrackMate.v, tied in C15 / C16): entry-point histories compare the
   trees with those tokens blanked on both sides *)
Definition zero_md (m : smeta) : smeta :=
  mkmd (md_directed m) (option_map (map (fun ax => mkax (ax_name ax) (ax_min ax) (ax_max ax) 0%Z)) (md_axes m))
       (md_nprops m) (md_eprops m) 0%Z.
Definition zero_aval (v : aval) : aval := match v with AGeff (Some m) => AGeff (Some (zero_md m)) | x => x end.
Definition zero_tok (t : option znode) : option znode :=
  match t with Some (ZG a ch) => Some (ZG (map (fun kv => (fst kv, zero_aval (snd kv))) a) ch) | x => x end.
Close Scope m_scope.
