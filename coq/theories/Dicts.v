(* Dicts.v -- model of geff.core_io._base_write.write_dicts / dict_props_to_arr /
   _determine_default_value (with default_for_value of core_io/_utils.py) : attribute dictionaries
   of Python values -> id arrays, property arrays and missing masks, handed to write_arrays (Write.v).
   numpy's dtype discovery for lists of Python scalars (np.asarray) is modelled explicitly:
   bool -> bool; int -> int64 if it fits, else uint64 if < 2^64, else object; float -> float64;
   str -> str; the dtypes of all leaves are promoted; ragged nesting raises ValueError, which is the
   only route into construct_var_len_props (Vlen.v).
   Self-contained (used by the graph-library backends, C03, and reusable for the converters).
   Model only; proofs in DictsLemmas.v. *)
From Geff Require Import Base Dtype Vlen Tree Validate Write.
Open Scope string_scope.
Open Scope list_scope.

(* ---------- Python attribute values ---------- *)
(* floats are value * 2^10 (Dtype.fscale), strings are interned tokens, the empty string is token 0 *)
Inductive pyval :=
| PBool (b : bool)
| PInt (z : Z)
| PFloat (q : Z)
| PStr (tok : Z)
| PList (l : list pyval).

Definition attrs := list (string * pyval).

Definition is_plist (v : pyval) : bool := match v with PList _ => true | _ => false end.

(* the dtype numpy discovers for one Python scalar *)
Definition scalar_dt (v : pyval) : dtype :=
  match v with
  | PBool _ => DBool
  | PInt z => if ((- 2 ^ 63 <=? z) && (z <? 2 ^ 63))%Z then DI64
              else if ((2 ^ 63 <=? z) && (z <? 2 ^ 64))%Z then DU64 else DObj
  | PFloat _ => DF64
  | PStr _ => DStr
  | PList _ => DObj
  end.

Definition scalar_payload (v : pyval) : Z :=
  match v with
  | PBool b => if b then 1%Z else 0%Z
  | PInt z => z
  | PFloat q => q
  | PStr t => t
  | PList _ => 0%Z
  end.

(* shape of a nested list as np.asarray discovers it; None = inhomogeneous (ValueError) *)
Definition common_shape (shs : list (option (list nat))) : option (list nat) :=
  match shs with
  | [] => Some [0%nat]
  | None :: _ => None
  | Some s :: r =>
      if forallb (fun o => match o with Some s' => natlist_eqb s s' | None => false end) r
      then Some (length shs :: s) else None
  end.

Fixpoint py_shape (v : pyval) : option (list nat) :=
  match v with
  | PList l => common_shape (map py_shape l)
  | _ => Some []
  end.

(* the scalars of a nested list in row-major order *)
Fixpoint py_leaves (v : pyval) : list pyval :=
  match v with
  | PList l => flat_map py_leaves l
  | _ => [v]
  end.

(* promotion of the dtypes discovered for Python scalars; None = outside the model
   (numbers next to strings are turned into strings by numpy; object arrays) *)
Definition sjoin (a b : dtype) : option dtype :=
  match a, b with
  | DStr, DStr => Some DStr
  | DStr, _ | _, DStr => None
  | DObj, _ | _, DObj => None
  | _, _ => promote a b
  end.

Definition leaves_dt (ls : list pyval) : option dtype :=
  match ls with
  | [] => Some DF64                                   (* np.asarray([]) is float64 *)
  | x :: r =>
      match fold_left (fun acc y => match acc with Some a => sjoin a (scalar_dt y) | None => None end)
                      r (Some (scalar_dt x)) with
      | Some DObj => None
      | o => o
      end
  end.

(* one leaf converted to the dtype of the array *)
Definition cast_leaf (dt : dtype) (v : pyval) : Z := cast_payload (scalar_dt v) dt (scalar_payload v).

(* np.asarray(values) *)
Inductive asarr := AFixed (a : arr) | ARagged | AOutside.

Definition asarray (vals : list pyval) : asarr :=
  match py_shape (PList vals) with
  | None => ARagged
  | Some sh =>
      let ls := py_leaves (PList vals) in
      match leaves_dt ls with
      | None => AOutside
      | Some dt => AFixed (mkarr dt sh (map (cast_leaf dt) ls))
      end
  end.

(* np.asarray(element) inside construct_var_len_props *)
Definition elem_asarray (v : pyval) : res varr :=
  match py_shape v with
  | None => Err ValueError
  | Some sh =>
      match leaves_dt (py_leaves v) with
      | None => Err OtherExn
      | Some dt => Ok {| v_dt := dt; v_shape := sh; v_flat := map (cast_leaf dt) (py_leaves v) |}
      end
  end.

(* ---------- _determine_default_value / default_for_value ---------- *)
(* a zero of the type of the value (bool is tested before int), "" for a string, the value itself otherwise *)
Definition default_for_value (v : pyval) : pyval :=
  match v with
  | PBool _ => PBool false
  | PInt _ => PInt 0
  | PFloat _ => PFloat 0
  | PStr _ => PStr 0
  | PList _ => v
  end.

(* first non-missing value decides; no value at all: 0 (with a warning) *)
Definition determine_default (col : list (option pyval)) : pyval :=
  match somes col with
  | v :: _ => default_for_value v
  | [] => PInt 0
  end.

(* ---------- dict_props_to_arr ---------- *)
Definition column (data : list attrs) (name : string) : list (option pyval) :=
  map (fun d => alookup name d) data.

Definition filled (col : list (option pyval)) : list pyval :=
  let d := determine_default col in
  map (fun o => match o with Some v => v | None => d end) col.

Definition missing_arr (col : list (option pyval)) : option arr :=
  if existsb is_none col
  then Some (mkarr DBool [length col] (map (fun o => if is_none o then 1%Z else 0%Z) col))
  else None.

Definition dict_prop (col : list (option pyval)) : res prop :=
  let vals := filled col in
  match asarray vals with
  | AFixed a => Ok (mkprop (PFixed a) (missing_arr col))
  | AOutside => Err OtherExn
  | ARagged =>
      (* except ValueError: construct_var_len_props(values)["values"] *)
      match mapM elem_asarray vals with
      | Err e => Err e
      | Ok elems =>
          match construct (map Some elems) with
          | Err e => Err e
          | Ok (vs, _) => Ok (mkprop (PVlen vs) (missing_arr col))
          end
      end
  end.

Definition dict_props_to_arr (data : list attrs) (names : list string) : res props :=
  mapM (fun name => match dict_prop (column data name) with
                    | Ok p => Ok (name, p)
                    | Err e => Err e
                    end) names.

(* ---------- write_dicts ---------- *)
(* node ids: negative -> ValueError; integers are converted to uint64 exactly (OverflowError beyond 2^64) *)
Definition node_ids_arr (ids : list Z) : res arr :=
  if existsb (fun z => (z <? 0)%Z) ids then Err ValueError
  else if existsb (fun z => (2 ^ 64 <=? z)%Z) ids then Err OtherExn
  else Ok (mkarr DU64 [length ids] ids).

Definition flat_pairs (es : list (Z * Z)) : list Z := flat_map (fun e => [fst e; snd e]) es.

(* np.asarray(edge_ids, dtype=uint64) : OverflowError outside [0, 2^64) *)
Definition edge_ids_arr (es : list (Z * Z)) : res arr :=
  if existsb (fun z => (z <? 0)%Z || (2 ^ 64 <=? z)%Z) (flat_pairs es) then Err OtherExn
  else Ok (mkarr DU64 [length es; 2%nat] (flat_pairs es)).

Record dgraph := mkdg { d_nodes : list (Z * attrs); d_edges : list ((Z * Z) * attrs) }.

(* the arrays handed to write_arrays *)
Definition dicts_wgraph (g : dgraph) (nnames enames : list string) : res wgraph :=
  match node_ids_arr (map fst (d_nodes g)) with
  | Err e => Err e
  | Ok nids =>
      match edge_ids_arr (map fst (d_edges g)) with
      | Err e => Err e
      | Ok eids =>
          match dict_props_to_arr (map snd (d_nodes g)) nnames with
          | Err e => Err e
          | Ok nps =>
              match dict_props_to_arr (map snd (d_edges g)) enames with
              | Err e => Err e
              | Ok eps => Ok (mkwg nids eids (Some nps) (Some eps))
              end
          end
      end
  end.

Definition write_dicts (k : skind) (g : dgraph) (nnames enames : list string) (md : smeta) : M unit :=
  bind (lift (dicts_wgraph g nnames enames)) (fun w => write_arrays k w md true false).

(* the property names a backend collects: every key of every element (a Python set: the order is
   not specified; this is the first-occurrence order, any permutation gives the same stored dicts) *)
Fixpoint dedup (l : list string) : list string :=
  match l with
  | [] => []
  | x :: r => x :: filter (fun y => negb (String.eqb x y)) (dedup r)
  end.
Definition keys_of (data : list attrs) : list string := dedup (flat_map (fun d => akeys d) data).
