(* Tree.v -- the abstract zarr hierarchy used by every store-side model
   (Write.v, Read.v, Validate.v, SpecDecode.v): arrays hold their decoded contents,
   groups hold attributes and named members.  The tie to a real store is
   harness/storelib.py::dump_tree (zarr API only).  Model only; lemmas in TreeLemmas.v. *)
From Geff Require Import Base Dtype Vlen.
From Geff.Gen Require Import Consts.
Open Scope string_scope.
Open Scope list_scope.

(* ---------- arrays ---------- *)
Record arr := mkarr { a_dt : dtype; a_shape : list nat; a_flat : list Z }.

Definition arr_eqb (a b : arr) : bool :=
  dtype_eqb (a_dt a) (a_dt b) && natlist_eqb (a_shape a) (a_shape b) && zlist_eqb (a_flat a) (a_flat b).

Definition wf_arr (a : arr) : bool := Nat.eqb (length (a_flat a)) (size (a_shape a)).
Definition ndim (a : arr) : nat := length (a_shape a).
(* len(a) / a.shape[0]; None for a 0-d array *)
Definition len0 (a : arr) : option nat := match a_shape a with [] => None | n :: _ => Some n end.
Definition row_size (a : arr) : nat := size (tl (a_shape a)).

(* ---------- association lists with Python-dict semantics ---------- *)
Fixpoint alookup {V} (k : string) (l : list (string * V)) : option V :=
  match l with
  | [] => None
  | (k', v) :: r => if String.eqb k k' then Some v else alookup k r
  end.
Fixpoint aset {V} (k : string) (v : V) (l : list (string * V)) : list (string * V) :=
  match l with
  | [] => [(k, v)]
  | (k', v') :: r => if String.eqb k k' then (k, v) :: r else (k', v') :: aset k v r
  end.
Fixpoint adel {V} (k : string) (l : list (string * V)) : list (string * V) :=
  match l with
  | [] => []
  | (k', v') :: r => if String.eqb k k' then adel k r else (k', v') :: adel k r
  end.
Definition akeys {V} (l : list (string * V)) : list string := map fst l.
Definition ahas {V} (k : string) (l : list (string * V)) : bool :=
  match alookup k l with Some _ => true | None => false end.

(* ---------- metadata as far as the store-side code looks at it ----------
   unit/name/description and everything the writer passes through unchanged are
   opaque tokens (the harness interns the JSON text). *)
Record pmeta := mkpm { pm_dtype : dtype; pm_varlength : bool;
                       pm_unit : option Z; pm_name : option Z; pm_descr : option Z }.
Record axis := mkax { ax_name : string; ax_min : option Z; ax_max : option Z; ax_tok : Z }.
Record smeta := mkmd { md_directed : bool; md_axes : option (list axis);
                       md_nprops : list (string * pmeta); md_eprops : list (string * pmeta);
                       md_tok : Z }.

Definition oz_eqb := option_eqb Z.eqb.
Definition pmeta_eqb (a b : pmeta) : bool :=
  dtype_eqb (pm_dtype a) (pm_dtype b) && Bool.eqb (pm_varlength a) (pm_varlength b)
  && oz_eqb (pm_unit a) (pm_unit b) && oz_eqb (pm_name a) (pm_name b) && oz_eqb (pm_descr a) (pm_descr b).
Definition axis_eqb (a b : axis) : bool :=
  String.eqb (ax_name a) (ax_name b) && oz_eqb (ax_min a) (ax_min b) && oz_eqb (ax_max a) (ax_max b)
  && Z.eqb (ax_tok a) (ax_tok b).
(* dict equality: same number of keys, every key maps to an equal value (keys of a dict are distinct) *)
Definition dict_eqb {V} (veqb : V -> V -> bool) (a b : list (string * V)) : bool :=
  Nat.eqb (length a) (length b)
  && forallb (fun kv => match alookup (fst kv) b with Some v => veqb (snd kv) v | None => false end) a.
Definition pml_eqb := dict_eqb pmeta_eqb.
Definition smeta_eqb (a b : smeta) : bool :=
  Bool.eqb (md_directed a) (md_directed b)
  && option_eqb (list_eqb axis_eqb) (md_axes a) (md_axes b)
  && pml_eqb (md_nprops a) (md_nprops b) && pml_eqb (md_eprops a) (md_eprops b)
  && Z.eqb (md_tok a) (md_tok b).

(* the dtype names of the library (PropMetadata.dtype) *)
Definition dtype_name (d : dtype) : string :=
  match d with
  | DBool => "bool" | DI8 => "int8" | DI16 => "int16" | DI32 => "int32" | DI64 => "int64"
  | DU8 => "uint8" | DU16 => "uint16" | DU32 => "uint32" | DU64 => "uint64"
  | DF16 => "float16" | DF32 => "float32" | DF64 => "float64"
  | DStr => "str" | DBytes => "bytes" | DObj => "object"
  end.
(* PropMetadata accepts a dtype iff its name is in VALID_DTYPES (regenerated from the source) *)
Definition valid_prop_dtype (d : dtype) : bool := smem (dtype_name d) valid_dtypes.

(* ---------- the tree ---------- *)
Inductive aval := AGeff (m : option smeta)   (* attrs["geff"]: None = present but rejected by the metadata model *)
                | AOther (tok : Z).          (* any other attribute, opaque *)
Inductive znode := ZA (a : arr) | ZG (attrs : list (string * aval)) (ch : list (string * znode)).

Definition aval_eqb (a b : aval) : bool :=
  match a, b with
  | AGeff x, AGeff y => option_eqb smeta_eqb x y
  | AOther x, AOther y => Z.eqb x y
  | _, _ => false
  end.

(* ---------- navigation ---------- *)
Definition children (n : znode) : list (string * znode) :=
  match n with ZG _ ch => ch | ZA _ => [] end.
Definition attrs_of (n : znode) : list (string * aval) :=
  match n with ZG a _ => a | ZA _ => [] end.
Definition get (n : znode) (k : string) : option znode := alookup k (children n).
Fixpoint get_path (n : znode) (p : list string) : option znode :=
  match p with
  | [] => Some n
  | k :: r => match get n k with Some c => get_path c r | None => None end
  end.
Definition is_group (n : znode) : bool := match n with ZG _ _ => true | ZA _ => false end.

Definition empty_group : znode := ZG [] [].

(* set the member at path p (parents are created as empty groups, an existing member is replaced);
   None when a parent on the way is an array *)
Fixpoint put_path (n : znode) (p : list string) (c : znode) : option znode :=
  match p with
  | [] => Some c
  | k :: r =>
      match n with
      | ZA _ => None
      | ZG a ch =>
          let sub := match alookup k ch with Some x => x | None => empty_group end in
          match put_path sub r c with
          | Some sub' => Some (ZG a (aset k sub' ch))
          | None => None
          end
      end
  end.

Definition del_child (n : znode) (k : string) : znode :=
  match n with ZG a ch => ZG a (adel k ch) | ZA x => ZA x end.
Definition set_attr (n : znode) (k : string) (v : aval) : znode :=
  match n with ZG a ch => ZG (aset k v a) ch | ZA x => ZA x end.
Definition del_attr (n : znode) (k : string) : znode :=
  match n with ZG a ch => ZG (adel k a) ch | ZA x => ZA x end.

(* the metadata under attrs["geff"]:  None = no such key, Some None = present but invalid *)
Definition geff_attr (n : znode) : option (option smeta) :=
  match alookup "geff" (attrs_of n) with
  | Some (AGeff m) => Some m
  | Some (AOther _) => Some None
  | None => None
  end.

(* ---------- order-insensitive equality of trees (members are a dict) ---------- *)
Fixpoint tree_eqb (x y : znode) {struct x} : bool :=
  match x, y with
  | ZA a, ZA b => arr_eqb a b
  | ZG ax cx, ZG ay cy =>
      Nat.eqb (length ax) (length ay)
      && forallb (fun kv => match alookup (fst kv) ay with Some v => aval_eqb (snd kv) v | None => false end) ax
      && Nat.eqb (length cx) (length cy)
      && (fix go (l : list (string * znode)) : bool :=
            match l with
            | [] => true
            | (k, c) :: r => match alookup k cy with Some c' => tree_eqb c c' | None => false end && go r
            end) cx
  | _, _ => false
  end.
Definition otree_eqb (x y : option znode) : bool := option_eqb tree_eqb x y.

(* ---------- in-memory graphs (what the writer takes and the reader returns) ---------- *)
Inductive pvals := PFixed (a : arr)                (* ordinary ndarray *)
                 | PVlen (elems : list varr).      (* object array of ndarrays *)
Record prop := mkprop { p_vals : pvals; p_missing : option arr }.
Definition props := list (string * prop).

Definition varr_eqb (a b : varr) : bool :=
  dtype_eqb (v_dt a) (v_dt b) && natlist_eqb (v_shape a) (v_shape b) && zlist_eqb (v_flat a) (v_flat b).
Definition pvals_eqb (a b : pvals) : bool :=
  match a, b with
  | PFixed x, PFixed y => arr_eqb x y
  | PVlen x, PVlen y => list_eqb varr_eqb x y
  | _, _ => false
  end.
Definition prop_eqb (a b : prop) : bool :=
  pvals_eqb (p_vals a) (p_vals b) && option_eqb arr_eqb (p_missing a) (p_missing b).
Definition props_eqb := dict_eqb prop_eqb.

Record mgraph := mkmg { g_md : smeta; g_nids : arr; g_eids : arr; g_nprops : props; g_eprops : props }.
Definition mgraph_eqb (a b : mgraph) : bool :=
  smeta_eqb (g_md a) (g_md b) && arr_eqb (g_nids a) (g_nids b) && arr_eqb (g_eids a) (g_eids b)
  && props_eqb (g_nprops a) (g_nprops b) && props_eqb (g_eprops a) (g_eprops b).
