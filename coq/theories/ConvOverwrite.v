(* ConvOverwrite.v -- the converters (from_ctc_to_geff, from_trackmate_xml_to_geff) on an OCCUPIED target with overwrite=True.

   Both converters do their own `check_for_geff ; delete_geff` (geff.convert._preliminary_checks / _ctc) and end in
   write_arrays(..., overwrite=False).  Here: what that sequence leaves when the target directory holds exactly a geff (the
   geff attribute and the nodes / edges groups, nothing else) -- the layout of the NEW graph over an empty location, i.e. the very
   tree a conversion onto a free target leaves -- and what it leaves when the directory holds other members beside the geff
   (the old geff is deleted, write_arrays refuses the non-empty directory: the path case of the C06 finding).

   delete_geff is used through CrashLemmas.delete_geff_root only (it removes the geff attribute first; it is never unfolded). *)
From Geff Require Import Base Dtype DtypeLemmas Vlen VlenLemmas Tree TreeLemmas Validate ValidateLemmas Write Read RoundTrip
     WriteLemmas ReadLemmas ValidateLayout C01Lemmas CrashLemmas OverwriteLemmas.
From Geff.Gen Require Import Consts.
Open Scope string_scope.
Open Scope list_scope.

(* the target directory holds a geff and nothing else *)
Definition only_geff (a : list (string * aval)) (ch : list (string * znode)) : Prop :=
  ahas "geff" a = true /\ adel path_EDGES (adel path_NODES ch) = [].

Lemma cleaned_only_geff a ch : only_geff a ch -> cleaned KPath a ch = None.
Proof. intros [_ H]. unfold cleaned. rewrite H. reflexivity. Qed.

(* the guard of both converters on an occupied target, overwrite=True: the old geff is gone *)
Lemma guard_deletes a ch :
  ahas "geff" a = true ->
  exists tr, overwrite_guard KPath true (init (Some (ZG a ch))) = (mkst (cleaned KPath a ch) tr, Ok tt).
Proof.
  intros Hg. unfold overwrite_guard, bind. rewrite check_for_geff_spec. cbn [s_root init exists_geff].
  destruct (delete_geff_root KPath (init (Some (ZG a ch))) a ch eq_refl Hg) as [tr Hd]. exists tr. exact Hd.
Qed.

(* write_arrays(overwrite=False) from ANY state of the monad whose location is empty *)
Theorem write_onto_empty g md md' n e tr0 :
  wf_input g md n e -> final_metadata g md = Ok md' ->
  let post := layout None g (backfill (w_nids g) md (w_nprops g)) md' in
  (exists tr, write_arrays KPath g md true false (mkst None tr0) = (mkst (Some post) tr, Ok tt)) /\
  validate_structure KPath (Some post) = Ok tt /\
  read_to_memory KPath (Some post) true None None
  = Ok (mkmg md' (w_nids g) (w_eids g) (up_props (backfill (w_nids g) md (w_nprops g))) (up_props (w_eprops g))).
Proof.
  intros Hwf Hfm. cbn zeta.
  destruct (write_then_read_layout KPath None g md md' n e false I Hwf Hfm) as [_ [Hval Hread]].
  split; [|split; [exact Hval | exact Hread]].
  rewrite write_arrays_eq. unfold bind at 1. rewrite (guard_skip KPath false (mkst None tr0) eq_refl).
  apply (write_core_layout KPath None (mkst None tr0) g md md' true n I eq_refl (wi_dtype _ _ _ _ Hwf) (wi_int _ _ _ _ Hwf)).
  - unfold len0. rewrite (wi_nshape _ _ _ _ Hwf). reflexivity.
  - apply (wf_props_ok n). exact (wi_nprops _ _ _ _ Hwf).
  - apply (wf_props_ok e). exact (wi_eprops _ _ _ _ Hwf).
  - exact Hfm.
  - intros _. exact Hval.
Qed.

(* the tree a write onto a free target leaves is that same layout *)
Lemma write_free_post g md md' n e post tr :
  wf_input g md n e -> final_metadata g md = Ok md' ->
  write_arrays KPath g md true false (init None) = (mkst (Some post) tr, Ok tt) ->
  post = layout None g (backfill (w_nids g) md (w_nprops g)) md'.
Proof.
  intros Hwf Hfm H. destruct (write_then_read_layout KPath None g md md' n e false I Hwf Hfm) as [[tr' Hw] _].
  rewrite Hw in H. inversion H. reflexivity.
Qed.

(* a directory that holds other members beside the geff: once the geff is deleted the directory still exists, and
   write_arrays(overwrite=False) refuses it -- the old geff is lost, nothing is written *)
Theorem write_beside_refused a ch g md tr0 :
  adel path_EDGES (adel path_NODES ch) <> [] ->
  write_arrays KPath g md true false (mkst (cleaned KPath a ch) tr0) = (mkst (cleaned KPath a ch) tr0, Err FileExistsError).
Proof.
  intros Hne. rewrite write_arrays_eq. unfold bind at 1. unfold overwrite_guard, bind at 1. rewrite check_for_geff_spec.
  cbn [s_root]. unfold cleaned. destruct (adel path_EDGES (adel path_NODES ch)) as [|kv r]; [contradiction|]. reflexivity.
Qed.
