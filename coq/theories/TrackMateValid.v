(* TrackMateValid.v -- the conversion of a well-formed TrackMate document, end to end: the arrays handed to
   write_arrays (wgraph_of of final_graph), the metadata, the composition with write_arrays / validate_structure /
   read_to_memory (C01's write_then_read) and the graph / lineage verdicts on the result. *)
From Coq Require Import Permutation Relations.
From Geff Require Import Base Dtype DtypeLemmas Vlen VlenLemmas Tree TreeLemmas Validate Write Read GraphVal GraphValLemmas
  Reach Tracks TracksLemmas WriteLemmas ReadLemmas RoundTrip ValidateLayout C01Lemmas TrackMate TrackMateLemmas TrackMateCols.
From Geff.Gen Require Import Consts.
Open Scope string_scope.
Open Scope list_scope.
Open Scope Z_scope.

(* ================================================================== *)
(* 1. Polygons: the text cut into points                               *)
(* ================================================================== *)
Lemma chunk_by_spec d : (0 < d)%nat -> forall k l fuel, length l = (k * d)%nat -> (k <= fuel)%nat ->
  length (chunk_by fuel d l) = k /\ Forall (fun c => length c = d) (chunk_by fuel d l) /\ List.concat (chunk_by fuel d l) = l.
Proof.
  intros Hd. induction k as [|k IH]; intros l fuel Hl Hf.
  - cbn in Hl. apply length_zero_iff_nil in Hl. subst l. destruct fuel; cbn; repeat split; constructor.
  - destruct fuel as [|fuel]; [lia|]. destruct l as [|x r]; [cbn in Hl; lia|].
    cbn [chunk_by]. set (l0 := x :: r) in *.
    destruct (IH (skipn d l0) fuel) as [H1 [H2 H3]]; [rewrite skipn_length, Hl; cbn; lia | lia |].
    repeat split.
    + cbn [length]. rewrite H1. reflexivity.
    + constructor; [|exact H2]. rewrite firstn_length, Hl. cbn. lia.
    + cbn [List.concat]. rewrite H3. apply firstn_skipn.
Qed.

Lemma roi_ok_pts sp : roi_okb sp = true ->
  exists n dd coords, xint "ROI_N_POINTS" (sp_attrs sp) = Some (Z.of_nat n) /\ sp_text sp = Some coords /\ (0 < n)%nat /\ (0 < dd)%nat /\
    length coords = (n * dd)%nat /\ length (roi_pts sp) = n /\ Forall (fun c => length c = dd) (roi_pts sp) /\ List.concat (roi_pts sp) = coords.
Proof.
  unfold roi_okb, roi_pts. destruct (xint "ROI_N_POINTS" (sp_attrs sp)) as [n|] eqn:En; [|discriminate].
  destruct (sp_text sp) as [coords|] eqn:Et; [|discriminate]. intros H.
  apply andb_true_iff in H. destruct H as [H Hm]. apply andb_true_iff in H. destruct H as [Hn Hl].
  apply Z.ltb_lt in Hn, Hl. apply Z.eqb_eq in Hm. cbn [zdef].
  apply Z.mod_divide in Hm; [|lia]. destruct Hm as [q Hq].
  assert (Hq0 : 0 < q) by nia.
  assert (Hdiv : Z.of_nat (length coords) / n = q) by (rewrite Hq; apply Z.div_mul; lia).
  rewrite Hdiv.
  assert (Hlen : length coords = (Z.to_nat n * Z.to_nat q)%nat) by nia.
  destruct (chunk_by_spec (Z.to_nat q) ltac:(lia) (Z.to_nat n) coords (length coords) Hlen ltac:(nia)) as [H1 [H2 H3]].
  exists (Z.to_nat n), (Z.to_nat q), coords. rewrite Z2Nat.id by lia. repeat split; auto; lia.
Qed.

Lemma rect_uniform pts d : pts <> [] -> Forall (fun c => length c = d) pts -> rect pts = Some (length pts, d).
Proof.
  intros Hne H. destruct pts as [|p r]; [congruence|]. unfold rect. inversion H as [|? ? Hp Hr]; subst.
  assert (E : forallb (fun q => Nat.eqb (length q) (length p)) r = true).
  { apply forallb_forall. intros q Hq. apply Nat.eqb_eq. rewrite Forall_forall in Hr. apply Hr. exact Hq. }
  rewrite E. reflexivity.
Qed.

(* ================================================================== *)
(* 2. The values of the final graph are typed by their key             *)
(* ================================================================== *)
Definition nkind (d : tm) : string -> vkind := key_kind (attrs_md d).
Definition ekind (d : tm) : string -> vkind := base_kind (attrs_md d).

Lemma typedk_app_fresh kf (a : attrs) k v : alookup k a = None -> typedk kf a -> has_kind (kf k) v -> typedk kf (a ++ [(k, v)]).
Proof.
  intros Hn Ha Hv k' v' Hl. rewrite alookup_app in Hl. destruct (alookup k' a) as [w|] eqn:E.
  - inversion Hl; subst. apply Ha. exact E.
  - cbn in Hl. destruct (String.eqb k' k) eqn:Ek; [|discriminate]. apply String.eqb_eq in Ek. inversion Hl; subst. exact Hv.
Qed.

Lemma track_of_in_range d n t : wf_tm d -> track_of d n = Some t -> in_range DI64 t = true.
Proof.
  intros W H. unfold track_of in H.
  assert (Hin : exists l, In l (tlinks d) /\ fst l = t).
  { induction (tlinks d) as [|l r IH]; cbn in H; [discriminate|]. destruct (touches (link_edge l) n).
    - inversion H. exists l. split; [left; reflexivity | reflexivity].
    - destruct (IH H) as [l' [Hl' Ht]]. exists l'. split; [right; exact Hl' | exact Ht]. }
  destruct Hin as [l [Hl <-]]. unfold tlinks in Hl. apply in_flat_map in Hl. destruct Hl as [tr [Htr Hl]].
  apply in_map_iff in Hl. destruct Hl as [ea [<- _]]. cbn [fst].
  pose proof (forallb_In _ _ _ (wf_tracks d W) Htr) as Hok. destruct (track_ok_parts _ _ _ Hok) as [Ha [[z Hz] _]].
  unfold track_id. rewrite Hz. cbn [zdef]. unfold xint in Hz. destruct (alookup "TRACK_ID" (tr_attrs tr)) as [r|] eqn:El; [|discriminate].
  pose proof (forallb_In _ _ _ Ha (alookup_some_in _ _ _ El)) as Hak. unfold attr_okb in Hak. cbn [fst snd] in Hak.
  rewrite (wf_int_keys d W "TRACK_ID" (or_introl eq_refl)) in Hak. apply andb_true_iff in Hak. destruct Hak as [_ Hak].
  apply int_rawb_spec in Hak. destruct Hak as [z' [f [Hp Hr]]]. unfold raw_int in Hz. rewrite Hp in Hz. inversion Hz; subst. exact Hr.
Qed.

Lemma base_node_typed d sp : wf_tm d -> In sp (spots_of d) -> typedk (nkind d) (node_attrs_of (attrs_md d) (has_roi d) sp).
Proof.
  intros W Hsp. pose proof (forallb_In _ _ _ (wf_spots d W) Hsp) as Hok.
  destruct (spot_ok_parts _ _ Hok) as [Hat [_ [_ [_ Hnc]]]].
  pose proof (cattrs_typed _ _ Hat Hnc) as Hty. unfold node_attrs_of. destruct (has_roi d) eqn:Er; [|exact Hty].
  apply typedk_app_fresh; [rewrite alookup_cattrs; apply ahas_false in Hnc; rewrite Hnc; reflexivity | exact Hty |].
  unfold nkind, key_kind. cbn [String.eqb Ascii.eqb Bool.eqb andb]. cbn.
  destruct (wf_roi d W) as [Hno|Hro]; [rewrite (has_roi_noroi d Hno) in Er; discriminate|].
  destruct (roi_ok_pts sp (forallb_In _ _ _ Hro Hsp)) as [n [dd [coords [_ [_ [Hn [_ [_ [Hlen [Hall _]]]]]]]]]].
  rewrite (rect_uniform _ dd); [discriminate | intros E; rewrite E in Hlen; cbn in Hlen; lia | exact Hall].
Qed.

Lemma final_node_form d ds dt n : wf_tm d -> In n (g_nodes (final_graph d ds dt)) ->
  exists sp, In sp (spots_of d) /\ fst n = spot_id sp /\ keepb d ds dt (spot_id sp) = true /\
    snd n = match track_of d (spot_id sp) with
            | Some t => node_attrs_of (attrs_md d) (has_roi d) sp ++ [("TRACK_ID", VInt t)]
            | None => node_attrs_of (attrs_md d) (has_roi d) sp
            end.
Proof.
  intros W Hn. unfold final_graph, restrict, full_graph in Hn. cbn [g_nodes] in Hn. apply filter_In in Hn. destruct Hn as [Hn HK].
  apply in_map_iff in Hn. destruct Hn as [n0 [<- Hn0]]. unfold base_nodes in Hn0. apply in_map_iff in Hn0. destruct Hn0 as [sp [<- Hsp]].
  exists sp. cbn [stampT base_node fst snd] in *. rewrite zlookup_tmap. repeat split; auto.
Qed.

Lemma final_nodes_typed d ds dt : wf_tm d -> Forall (typedk (nkind d)) (map snd (g_nodes (final_graph d ds dt))).
Proof.
  intros W. apply Forall_forall. intros a Ha. apply in_map_iff in Ha. destruct Ha as [n [<- Hn]].
  destruct (final_node_form d ds dt n W Hn) as [sp [Hsp [_ [_ ->]]]].
  pose proof (base_node_typed d sp W Hsp) as Hty.
  destruct (track_of d (spot_id sp)) as [t|] eqn:Et; [|exact Hty].
  apply typedk_app_fresh; [|exact Hty|].
  - pose proof (base_no_track_id d W (base_node (attrs_md d) (has_roi d) sp)) as H. cbn [base_node snd] in H. apply H.
    unfold base_nodes. apply in_map. exact Hsp.
  - unfold nkind, key_kind, base_kind. cbn [String.eqb Ascii.eqb Bool.eqb andb].
    rewrite (wf_int_keys d W "TRACK_ID" (or_introl eq_refl)). cbn. apply (track_of_in_range d _ t W Et).
Qed.

Lemma final_edge_form d ds dt e : wf_tm d -> In e (g_edges (final_graph d ds dt)) ->
  exists l, In l (tlinks d) /\ fst e = link_edge l /\ snd e = cattrs (attrs_md d) (snd l) /\
            keepb d ds dt (fst (link_edge l)) = true /\ keepb d ds dt (snd (link_edge l)) = true.
Proof.
  intros W He. unfold final_graph, restrict, full_graph in He. cbn [g_edges] in He. apply filter_In in He. destruct He as [He HK].
  apply in_map_iff in He. destruct He as [l [<- Hl]]. exists l. unfold elink in *. cbn [fst snd] in *.
  apply andb_true_iff in HK. destruct HK. repeat split; auto.
Qed.

Lemma final_edges_typed d ds dt (es : list (edge * attrs)) : wf_tm d -> (forall e, In e es -> In e (g_edges (final_graph d ds dt))) ->
  Forall (typedk (ekind d)) (map snd es).
Proof.
  intros W Hsub. apply Forall_forall. intros a Ha. apply in_map_iff in Ha. destruct Ha as [e [<- He]].
  destruct (final_edge_form d ds dt e W (Hsub e He)) as [l [Hl [_ [-> _]]]].
  destruct (link_ok_parts _ _ _ (tlinks_ok d W l Hl)) as [Hat _]. intros k v Hkv. apply (cattrs_typed_base _ _ Hat k v Hkv).
Qed.

(* ================================================================== *)
(* 3. edges_out is a rearrangement of the edges                        *)
(* ================================================================== *)
Lemma filter_disj_perm {A} (p q : A -> bool) l : (forall x, In x l -> p x && q x = false) ->
  Permutation (filter p l ++ filter q l) (filter (fun x => p x || q x) l).
Proof.
  induction l as [|x r IH]; intros H; [constructor|]. cbn.
  assert (Hr : forall y, In y r -> p y && q y = false) by (intros; apply H; right; assumption).
  specialize (H x (or_introl eq_refl)). destruct (p x) eqn:Ep, (q x) eqn:Eq; cbn in *; try discriminate.
  - constructor. apply IH. exact Hr.
  - apply Permutation_sym. apply Permutation_cons_app. apply Permutation_sym. apply IH. exact Hr.
  - apply IH. exact Hr.
Qed.

Lemma edges_out_perm_aux (es : list (edge * attrs)) : forall ks : list (Z * attrs), NoDup (map fst ks) ->
  Permutation (flat_map (fun n : Z * attrs => filter (fun e : edge * attrs => fst (fst e) =? fst n) es) ks)
              (filter (fun e : edge * attrs => zmem (fst (fst e)) (map fst ks)) es).
Proof.
  induction ks as [|k r IH]; intros Hnd.
  - cbn. rewrite (proj2 (filter_nil_iff _ es)); [constructor | reflexivity].
  - cbn [flat_map map]. inversion Hnd as [|? ? Hk Hr]; subst.
    eapply Permutation_trans; [apply Permutation_app_head; apply IH; exact Hr|].
    eapply Permutation_trans; [apply filter_disj_perm|].
    + intros e _. destruct (fst (fst e) =? fst k) eqn:E; [|reflexivity]. apply Z.eqb_eq in E. cbn.
      apply not_true_is_false. intros Hz. apply zmem_In in Hz. rewrite E in Hz. contradiction.
    + apply Permutation_refl' . apply filter_ext. intros e. unfold zmem. cbn [existsb]. rewrite Z.eqb_sym. reflexivity.
Qed.

Lemma edges_out_perm g : NoDup (map fst (g_nodes g)) ->
  (forall e, In e (g_edges g) -> In (fst (fst e)) (map fst (g_nodes g))) ->
  Permutation (edges_out g) (g_edges g).
Proof.
  intros Hnd Hsrc. unfold edges_out. eapply Permutation_trans; [apply edges_out_perm_aux; exact Hnd|].
  rewrite filter_all; [apply Permutation_refl|]. intros e He. apply zmem_In. apply Hsrc. exact He.
Qed.

(* ================================================================== *)
(* 4. The arrays handed to write_arrays                                *)
(* ================================================================== *)
Definition final_ids (d : tm) (ds dt : bool) : list Z := map fst (g_nodes (final_graph d ds dt)).
Definition nelts (d : tm) (ds dt : bool) : list attrs := map snd (g_nodes (final_graph d ds dt)).
Definition eouts (d : tm) (ds dt : bool) : list (edge * attrs) := edges_out (final_graph d ds dt).
Definition final_edges (d : tm) (ds dt : bool) : list edge := map fst (eouts d ds dt).

Definition nprops_of (d : tm) (ds dt : bool) : props := tprops (nkind d) (nelts d ds dt).
Definition eprops_of (d : tm) (ds dt : bool) : props := tprops (ekind d) (map snd (eouts d ds dt)).
Definition nids_arr (d : tm) (ds dt : bool) : arr := mkarr DU64 [length (final_ids d ds dt)] (final_ids d ds dt).
Definition eids_arr (d : tm) (ds dt : bool) : arr :=
  mkarr DU64 [length (final_edges d ds dt); 2%nat] (eflat (final_edges d ds dt)).
Definition wgraph_final (d : tm) (ds dt : bool) : wgraph :=
  mkwg (nids_arr d ds dt) (eids_arr d ds dt) (Some (nprops_of d ds dt)) (Some (eprops_of d ds dt)).

Lemma map_fst_filter {B} (K : Z -> bool) (l : list (Z * B)) : map fst (filter (fun n => K (fst n)) l) = filter K (map fst l).
Proof. induction l as [|x r IH]; cbn; [reflexivity|]. destruct (K (fst x)); cbn; rewrite IH; reflexivity. Qed.

(* one node per kept spot, in document order *)
Lemma final_ids_eq d ds dt : final_ids d ds dt = filter (keepb d ds dt) (spot_ids d).
Proof. unfold final_ids, final_graph, restrict. cbn [g_nodes]. rewrite map_fst_filter, full_graph_ids. reflexivity. Qed.

Lemma final_ids_nodup d ds dt : wf_tm d -> NoDup (final_ids d ds dt).
Proof. intros W. rewrite final_ids_eq. apply NoDup_filter. exact (wf_ids_nodup d W). Qed.

Lemma final_endpoints d ds dt : wf_tm d -> forall e, In e (g_edges (final_graph d ds dt)) ->
  In (fst (fst e)) (final_ids d ds dt) /\ In (snd (fst e)) (final_ids d ds dt).
Proof.
  intros W. unfold final_ids, final_graph. apply restrict_endpoints. intros e He. rewrite full_graph_ids.
  apply full_graph_endpoints; assumption.
Qed.

Lemma eouts_perm d ds dt : wf_tm d -> Permutation (eouts d ds dt) (g_edges (final_graph d ds dt)).
Proof.
  intros W. unfold eouts. apply edges_out_perm; [exact (final_ids_nodup d ds dt W)|].
  intros e He. apply (final_endpoints d ds dt W e He).
Qed.

Lemma spot_id_range d sp : wf_tm d -> In sp (spots_of d) -> 0 <= spot_id sp < 2 ^ 63.
Proof.
  intros W Hsp. pose proof (forallb_In _ _ _ (wf_spots d W) Hsp) as Hok.
  destruct (spot_ok_parts _ _ Hok) as [_ [[z [Hz Hr]] _]]. unfold spot_id. rewrite Hz. exact Hr.
Qed.

Lemma ids_arr_final d ds dt : wf_tm d -> ids_arr (final_ids d ds dt) = Ok (nids_arr d ds dt).
Proof.
  intros W. unfold ids_arr, nids_arr.
  assert (Hr : forall z, In z (final_ids d ds dt) -> 0 <= z < 2 ^ 63).
  { intros z Hz. rewrite final_ids_eq in Hz. apply filter_In in Hz. destruct Hz as [Hz _]. unfold spot_ids in Hz.
    apply in_map_iff in Hz. destruct Hz as [sp [<- Hsp]]. apply (spot_id_range d sp W Hsp). }
  destruct (final_ids d ds dt) as [|z r] eqn:E; [reflexivity|].
  assert (H1 : existsb (fun z0 => z0 <? 0) (z :: r) = false).
  { apply not_true_is_false. intros H. apply existsb_exists in H. destruct H as [x [Hx Hlt]]. apply Z.ltb_lt in Hlt. specialize (Hr x Hx). lia. }
  assert (H2 : forallb (fun z0 => z0 <? 2 ^ 63) (z :: r) = true).
  { apply forallb_forall. intros x Hx. apply Z.ltb_lt. apply (Hr x Hx). }
  rewrite H1, H2. reflexivity.
Qed.

Lemma wgraph_of_final d ds dt : wf_tm d -> wgraph_of (final_graph d ds dt) = Ok (wgraph_final d ds dt).
Proof.
  intros W. unfold wgraph_of.
  pose proof (ids_arr_final d ds dt W) as H1. unfold final_ids in H1. rewrite H1.
  rewrite (dict_props_ok (nkind d) _ (final_nodes_typed d ds dt W)).
  assert (H3 : Forall (typedk (ekind d)) (map snd (edges_out (final_graph d ds dt)))).
  { apply (final_edges_typed d ds dt _ W). intros e He. apply (Permutation_in _ (eouts_perm d ds dt W) He). }
  rewrite (dict_props_ok (ekind d) _ H3).
  unfold wgraph_final, eids_arr, final_edges, eouts. rewrite map_length. reflexivity.
Qed.

(* ================================================================== *)
(* 5. The metadata                                                     *)
(* ================================================================== *)
Definition fm_of (sp ti : string) (dc : decl) : fmeta :=
  mkfm (match d_isint dc with Some b => b | None => false end) false
       (match d_dim dc with Some dim => dim_unit sp ti dim | None => None end)
       (match d_name dc with Some n => n | None => d_feat dc end) None.
Definition fms_of (sp ti : string) (ds : list decl) : fmetas := map (fun dc => (d_feat dc, fm_of sp ti dc)) ds.

Lemma akeys_fms sp ti ds : akeys (fms_of sp ti ds) = map d_feat ds.
Proof. unfold fms_of, akeys. rewrite map_map. reflexivity. Qed.

Lemma process_features_ok sp ti : forall ds acc, forallb (decl_okb sp ti) ds = true -> NoDup (akeys acc ++ map d_feat ds) ->
  process_features sp ti acc ds = Ok (acc ++ fms_of sp ti ds).
Proof.
  induction ds as [|dc r IH]; intros acc Hok Hnd; [cbn; rewrite app_nil_r; reflexivity|].
  cbn in Hok. apply andb_true_iff in Hok. destruct Hok as [Hdc Hok].
  unfold decl_okb in Hdc. apply andb_true_iff in Hdc. destruct Hdc as [Hdc Hdim]. apply andb_true_iff in Hdc. destruct Hdc as [_ Hint].
  cbn [process_features]. unfold process_feature.
  assert (Hfresh : ahas (d_feat dc) acc = false).
  { apply not_true_is_false. intros H. apply ahas_in in H. cbn in Hnd. apply NoDup_remove_2 in Hnd. apply Hnd. apply in_or_app. left; exact H. }
  rewrite Hfresh. destruct (d_isint dc) as [b|] eqn:Ei; [|discriminate]. destruct (d_dim dc) as [dim|] eqn:Ed; [|discriminate].
  destruct (dim_unit sp ti dim) as [u|] eqn:Eu; [|discriminate].
  rewrite IH; [| exact Hok |].
  - unfold fms_of. cbn [map]. rewrite <- app_assoc. cbn [app]. unfold fm_of. rewrite Ei, Ed, Eu. reflexivity.
  - rewrite akeys_app. cbn [akeys map fst]. rewrite <- app_assoc. cbn. exact Hnd.
Qed.

Definition nmd_full (d : tm) : fmetas :=
  let nmd := fms_of (space_unit d) (time_unit d) (sdecls d) in
  if has_roi d then
    aset "ROI_coords" (roi_coords_md (match alookup "POSITION_X" nmd with
                                       | Some px => match fm_unit px with Some u => Some u | None => Some "pixel" end
                                       | None => None end))
         (aset "ROI_N_POINTS" roi_npoints_md nmd)
  else nmd.
Definition emd_full (d : tm) : fmetas := fms_of (space_unit d) (time_unit d) (edecls d).
Definition lmd_full (d : tm) : fmetas := fms_of (space_unit d) (time_unit d) (tdecls d).

Lemma forallb_app_inv {A} (p : A -> bool) a b : forallb p (a ++ b) = true -> forallb p a = true /\ forallb p b = true.
Proof. rewrite forallb_app. intros H. apply andb_true_iff in H. exact H. Qed.

Lemma extract_props_metadata_wf d : wf_tm d ->
  extract_props_metadata d (has_roi d) = Ok (nmd_full d, emd_full d, lmd_full d).
Proof.
  intros W. unfold extract_props_metadata, nmd_full, emd_full, lmd_full, sdecls, edecls, tdecls.
  pose proof (wf_decl_ok d W) as Hok. pose proof (wf_sdecl_nodup d W) as Hs. pose proof (wf_edecl_nodup d W) as He.
  pose proof (wf_tdecl_nodup d W) as Ht. pose proof (wf_axes_float d W "POSITION_X" (or_introl eq_refl)) as [_ Hpx].
  unfold sdecls, edecls, tdecls in *.
  destruct (tm_decls d) as [[[sd ed] td]|] eqn:Ed; [|exfalso; apply (wf_has_decls d W); exact Ed].
  apply forallb_app_inv in Hok. destruct Hok as [Hoks Hok]. apply forallb_app_inv in Hok. destruct Hok as [Hoke Hokt].
  rewrite (process_features_ok _ _ sd [] Hoks Hs), (process_features_ok _ _ ed [] Hoke He), (process_features_ok _ _ td [] Hokt Ht).
  cbn [app]. destruct (has_roi d); [|reflexivity].
  destruct (alookup "POSITION_X" (fms_of (space_unit d) (time_unit d) sd)) as [px|] eqn:Epx; [reflexivity|].
  exfalso. apply alookup_none_notin in Epx. apply Epx. rewrite akeys_fms. exact Hpx.
Qed.

Definition nmd_final (d : tm) (ds dt : bool) : fmetas := prune_md (nelts d ds dt) (nmd_full d).
Definition emd_final (d : tm) (ds dt : bool) : fmetas := prune_md (map snd (g_edges (final_graph d ds dt))) (emd_full d).
Definition md_final (d : tm) (ds dt : bool) : smeta := metadata_of (nmd_final d ds dt) (emd_final d ds dt).

Lemma decl_feat_nonempty d dc : wf_tm d -> In dc (sdecls d ++ edecls d ++ tdecls d) -> d_feat dc <> "".
Proof.
  intros W Hdc. pose proof (forallb_In _ _ _ (wf_decl_ok d W) Hdc) as H. unfold decl_okb in H.
  apply andb_true_iff in H. destruct H as [H _]. apply andb_true_iff in H. destruct H as [H _].
  apply negb_true_iff in H. intros E. rewrite E in H. discriminate.
Qed.

Lemma akeys_aset_in {V} k (v : V) l x : In x (akeys (aset k v l)) -> x = k \/ In x (akeys l).
Proof. induction l as [|[k' v'] r IH]; cbn.
  - intros [H|[]]. left. auto.
  - destruct (String.eqb k k') eqn:E; cbn.
    + apply String.eqb_eq in E. subst. intros [H|H]; auto.
    + intros [H|H]; [auto|]. destruct (IH H); auto. Qed.

Lemma md_keys_nonempty d ds dt : wf_tm d ->
  existsb (fun kv : string * fmeta => String.eqb (fst kv) "") (nmd_final d ds dt ++ emd_final d ds dt) = false.
Proof.
  intros W. apply not_true_is_false. intros H. apply existsb_exists in H. destruct H as [kv [Hkv He]]. apply String.eqb_eq in He.
  assert (Hk : In (fst kv) (akeys (nmd_full d)) \/ In (fst kv) (akeys (emd_full d))).
  { apply in_app_or in Hkv. destruct Hkv as [Hkv|Hkv]; unfold nmd_final, emd_final, prune_md in Hkv; apply filter_In in Hkv;
      destruct Hkv as [Hkv _]; [left | right]; apply in_map; exact Hkv. }
  assert (Hs : forall x, In x (map d_feat (sdecls d)) -> x <> "").
  { intros x Hx. apply in_map_iff in Hx. destruct Hx as [dc [<- Hdc]]. apply (decl_feat_nonempty d dc W). apply in_or_app. left; exact Hdc. }
  destruct Hk as [Hk|Hk].
  - unfold nmd_full in Hk. destruct (has_roi d).
    + apply akeys_aset_in in Hk. destruct Hk as [Hk|Hk]; [rewrite He in Hk; discriminate|].
      apply akeys_aset_in in Hk. destruct Hk as [Hk|Hk]; [rewrite He in Hk; discriminate|].
      rewrite akeys_fms in Hk. apply (Hs _ Hk He).
    + rewrite akeys_fms in Hk. apply (Hs _ Hk He).
  - unfold emd_full in Hk. rewrite akeys_fms in Hk. apply in_map_iff in Hk. destruct Hk as [dc [Hf Hdc]].
    apply (decl_feat_nonempty d dc W); [apply in_or_app; right; apply in_or_app; left; exact Hdc | congruence].
Qed.

Definition extra_final (d : tm) (ds dt : bool) : tmextra := extra_of d (final_graph d ds dt) (lmd_full d).

(* the conversion up to the call of write_arrays *)
Theorem convert_wf d ds dt : wf_tm d ->
  convert d ds dt = Ok (wgraph_final d ds dt, md_final d ds dt, extra_final d ds dt).
Proof.
  intros W. unfold convert. rewrite (build_data_wf d ds dt W), (extract_props_metadata_wf d W).
  fold (nelts d ds dt). fold (nmd_final d ds dt). fold (emd_final d ds dt).
  rewrite (md_keys_nonempty d ds dt W), (wgraph_of_final d ds dt W). reflexivity.
Qed.

(* ================================================================== *)
(* 6. The converter's arrays are a well-formed input of write_arrays   *)
(* ================================================================== *)
Definition pos_keys : list string := ["POSITION_X"; "POSITION_Y"; "POSITION_Z"; "POSITION_T"].

Lemma ahas_app_l {V} k (a b : list (string * V)) : ahas k a = true -> ahas k (a ++ b) = true.
Proof. unfold ahas. rewrite alookup_app. destruct (alookup k a); [reflexivity | discriminate]. Qed.

Lemma ahas_cattrs md k a : ahas k (cattrs md a) = ahas k a.
Proof. unfold ahas. rewrite alookup_cattrs. destruct (alookup k a); reflexivity. Qed.

Lemma final_node_has_pos d ds dt a k : wf_tm d -> In a (nelts d ds dt) -> In k pos_keys -> ahas k a = true.
Proof.
  intros W Ha Hk. unfold nelts in Ha. apply in_map_iff in Ha. destruct Ha as [n [<- Hn]].
  destruct (final_node_form d ds dt n W Hn) as [sp [Hsp [_ [_ ->]]]].
  pose proof (forallb_In _ _ _ (wf_spots d W) Hsp) as Hok. destruct (spot_ok_parts _ _ Hok) as [_ [_ [Hpos _]]].
  assert (H0 : ahas k (node_attrs_of (attrs_md d) (has_roi d) sp) = true).
  { unfold node_attrs_of. destruct (has_roi d); [apply ahas_app_l|]; rewrite ahas_cattrs; apply Hpos; exact Hk. }
  destruct (track_of d (spot_id sp)); [apply ahas_app_l|]; exact H0.
Qed.

Lemma final_node_keys_nonempty d ds dt a k : wf_tm d -> In a (nelts d ds dt) -> In k (akeys a) -> k <> "".
Proof.
  intros W Ha Hk. unfold nelts in Ha. apply in_map_iff in Ha. destruct Ha as [n [<- Hn]].
  destruct (final_node_form d ds dt n W Hn) as [sp [Hsp [_ [_ Hs]]]]. rewrite Hs in Hk.
  pose proof (forallb_In _ _ _ (wf_spots d W) Hsp) as Hok. destruct (spot_ok_parts _ _ Hok) as [Hat _].
  assert (H0 : forall x, In x (akeys (node_attrs_of (attrs_md d) (has_roi d) sp)) -> x <> "").
  { intros x Hx. unfold node_attrs_of in Hx.
    assert (Hc : In x (akeys (cattrs (attrs_md d) (sp_attrs sp))) -> x <> "").
    { rewrite akeys_cattrs. intros Hi. unfold akeys in Hi. apply in_map_iff in Hi. destruct Hi as [kv [<- Hkv]].
      pose proof (forallb_In _ _ _ Hat Hkv) as Hak. unfold attr_okb in Hak. apply andb_true_iff in Hak. destruct Hak as [Hak _].
      apply negb_true_iff in Hak. intros E. rewrite E in Hak. discriminate. }
    destruct (has_roi d); [|auto]. rewrite akeys_app in Hx. apply in_app_or in Hx. destruct Hx as [Hx|[<-|[]]]; [auto | discriminate]. }
  destruct (track_of d (spot_id sp)); [|auto]. rewrite akeys_app in Hk. apply in_app_or in Hk. destruct Hk as [Hk|[<-|[]]]; [auto | discriminate].
Qed.

Lemma final_edge_keys_nonempty d ds dt a k : wf_tm d -> In a (map snd (eouts d ds dt)) -> In k (akeys a) -> k <> "".
Proof.
  intros W Ha Hk. apply in_map_iff in Ha. destruct Ha as [e [<- He]].
  apply (Permutation_in _ (eouts_perm d ds dt W)) in He.
  destruct (final_edge_form d ds dt e W He) as [l [Hl [_ [Hs _]]]]. rewrite Hs, akeys_cattrs in Hk.
  destruct (link_ok_parts _ _ _ (tlinks_ok d W l Hl)) as [Hat _].
  unfold akeys in Hk. apply in_map_iff in Hk. destruct Hk as [kv [<- Hkv]].
  pose proof (forallb_In _ _ _ Hat Hkv) as Hak. unfold attr_okb in Hak. apply andb_true_iff in Hak. destruct Hak as [Hak _].
  apply negb_true_iff in Hak. intros E. rewrite E in Hak. discriminate.
Qed.

Lemma missing_none name elts : (forall a, In a elts -> ahas name a = true) -> missing_arr (col_missing name elts) = None.
Proof.
  intros H. unfold missing_arr.
  assert (E : existsb (fun b => b) (col_missing name elts) = false).
  { apply not_true_is_false. intros Hx. apply existsb_exists in Hx. destruct Hx as [b [Hb ->]].
    unfold col_missing in Hb. apply in_map_iff in Hb. destruct Hb as [a [Hn Ha]]. rewrite (H a Ha) in Hn. discriminate. }
  rewrite E. reflexivity.
Qed.

(* the node properties that reach the store: for an empty graph write_arrays creates empty coordinate columns *)
Definition axis_empty : props :=
  [("POSITION_X", empty_f64_prop); ("POSITION_Y", empty_f64_prop); ("POSITION_Z", empty_f64_prop); ("POSITION_T", empty_f64_prop)].
Definition nps_final (d : tm) (ds dt : bool) : props :=
  match final_ids d ds dt with [] => axis_empty | _ => nprops_of d ds dt end.

Lemma nelts_length d ds dt : length (nelts d ds dt) = length (final_ids d ds dt).
Proof. unfold nelts, final_ids. rewrite !map_length. reflexivity. Qed.

Lemma backfill_final d ds dt :
  backfill (nids_arr d ds dt) (md_final d ds dt) (Some (nprops_of d ds dt)) = Some (nps_final d ds dt).
Proof.
  unfold backfill, md_final, metadata_of, nids_arr, nps_final. cbn [md_axes len0 a_shape].
  destruct (final_ids d ds dt) as [|z r] eqn:E; [|reflexivity].
  unfold nprops_of. assert (Hn : nelts d ds dt = []).
  { apply length_zero_iff_nil. rewrite nelts_length, E. reflexivity. }
  rewrite Hn. reflexivity.
Qed.

Lemma pos_kind d k : wf_tm d -> In k pos_keys -> nkind d k = KF.
Proof.
  intros W Hk. destruct (wf_axes_float d W k Hk) as [Hmd _]. unfold nkind, key_kind, base_kind. rewrite Hmd.
  destruct Hk as [<-|[<-|[<-|[<-|[]]]]]; reflexivity.
Qed.

Lemma pos_in_keys d ds dt k : wf_tm d -> final_ids d ds dt <> [] -> In k pos_keys -> In k (keys_of (nelts d ds dt)).
Proof.
  intros W Hne Hk. apply keys_of_In.
  destruct (nelts d ds dt) as [|a r] eqn:E.
  - exfalso. apply Hne. apply length_zero_iff_nil. rewrite <- nelts_length, E. reflexivity.
  - exists a. split; [left; reflexivity|]. apply ahas_in. apply (final_node_has_pos d ds dt a k W); [rewrite E; left; reflexivity | exact Hk].
Qed.

(* a coordinate column: float64, one value per node, nothing missing *)
Lemma pos_column d ds dt k : wf_tm d -> final_ids d ds dt <> [] -> In k pos_keys ->
  alookup k (nprops_of d ds dt) =
    Some (mkprop (PFixed (mkarr DF64 [length (final_ids d ds dt)] (map (cell KF k) (nelts d ds dt)))) None).
Proof.
  intros W Hne Hk. unfold nprops_of. rewrite (alookup_tprops _ _ _ (pos_in_keys d ds dt k W Hne Hk)).
  unfold tprop. rewrite (pos_kind d k W Hk). unfold scalar_prop. rewrite nelts_length.
  rewrite missing_none; [reflexivity|]. intros a Ha. apply (final_node_has_pos d ds dt a k W Ha Hk).
Qed.

Lemma axis_empty_wf : wf_props 0 (Some axis_empty).
Proof.
  intros ps Hps. inversion Hps; subst ps. split.
  - cbn. repeat constructor; cbn; intuition discriminate.
  - repeat constructor; cbn; try (eexists; eexists; split; reflexivity); try (eexists; reflexivity).
Qed.

Lemma prune_keys_in elts (m : fmetas) k : In k (akeys (prune_md elts m)) -> In k (keys_of elts).
Proof.
  intros H. unfold akeys in H. apply in_map_iff in H. destruct H as [kv [<- Hkv]]. unfold prune_md in Hkv.
  apply filter_In in Hkv. destruct Hkv as [_ Hex]. apply existsb_exists in Hex. destruct Hex as [a [Ha Hh]].
  apply keys_of_In. exists a. split; [exact Ha | apply ahas_in; exact Hh].
Qed.

Lemma akeys_map_pm (m : fmetas) : akeys (map (fun kv : string * fmeta => (fst kv, pm_of (snd kv))) m) = akeys m.
Proof. unfold akeys. rewrite map_map. reflexivity. Qed.

Theorem final_wf_input d ds dt : wf_tm d ->
  wf_input (wgraph_final d ds dt) (md_final d ds dt) (length (final_ids d ds dt)) (length (final_edges d ds dt)).
Proof.
  intros W.
  assert (Hnty := final_nodes_typed d ds dt W).
  assert (Hety : Forall (typedk (ekind d)) (map snd (eouts d ds dt))).
  { apply (final_edges_typed d ds dt _ W). intros e He. apply (Permutation_in _ (eouts_perm d ds dt W) He). }
  constructor; cbn [wgraph_final w_nids w_eids w_nprops w_eprops nids_arr eids_arr a_shape a_dt].
  - reflexivity.
  - reflexivity.
  - reflexivity.
  - reflexivity.
  - fold (nids_arr d ds dt). rewrite backfill_final. unfold nps_final.
    destruct (final_ids d ds dt) as [|z r] eqn:E; [exact axis_empty_wf|].
    rewrite <- E, <- nelts_length. apply tprops_wf; [exact Hnty|]. intros a k. apply (final_node_keys_nonempty d ds dt a k W).
  - replace (length (final_edges d ds dt)) with (length (map snd (eouts d ds dt))) by (unfold final_edges; rewrite !map_length; reflexivity).
    unfold eprops_of. apply tprops_wf; [exact Hety|]. intros a k. apply (final_edge_keys_nonempty d ds dt a k W).
  - fold (nids_arr d ds dt). rewrite backfill_final. unfold md_final, metadata_of. cbn [md_nprops names_of].
    intros k Hk. rewrite akeys_map_pm in Hk. apply prune_keys_in in Hk. unfold nps_final.
    destruct (final_ids d ds dt) as [|z r] eqn:E.
    + exfalso. assert (Hn : nelts d ds dt = []) by (apply length_zero_iff_nil; rewrite nelts_length, E; reflexivity).
      rewrite Hn in Hk. apply keys_of_In in Hk. destruct Hk as [a [[] _]].
    + unfold nprops_of. rewrite akeys_tprops. exact Hk.
  - unfold md_final, metadata_of. cbn [md_eprops names_of]. intros k Hk. rewrite akeys_map_pm in Hk. apply prune_keys_in in Hk.
    unfold eprops_of. rewrite akeys_tprops. apply keys_of_In in Hk. destruct Hk as [a [Ha Hka]]. apply keys_of_In. exists a. split; [|exact Hka].
    apply in_map_iff in Ha. destruct Ha as [e [<- He]]. apply in_map. apply (Permutation_in _ (Permutation_sym (eouts_perm d ds dt W)) He).
  - intros axes Hax. unfold md_final, metadata_of in Hax. cbn [md_axes] in Hax. inversion Hax; subst axes; clear Hax.
    fold (nids_arr d ds dt). rewrite backfill_final. eexists. split; [reflexivity|]. unfold nps_final.
    destruct (final_ids d ds dt) as [|z r] eqn:E.
    + intros ax Hin. unfold tm_axes in Hin. exists (mkarr DF64 [0%nat] []), 0%nat.
      destruct Hin as [<-|[<-|[<-|[<-|[]]]]]; cbn [ax_name]; (split; [cbn; tauto | reflexivity]).
    + intros ax Hin. assert (Hk : In (ax_name ax) pos_keys).
      { unfold tm_axes in Hin. destruct Hin as [<-|[<-|[<-|[<-|[]]]]]; cbn; tauto. }
      assert (Hne : final_ids d ds dt <> []) by (rewrite E; discriminate).
      pose proof (pos_column d ds dt (ax_name ax) W Hne Hk) as Hc. rewrite E in Hc.
      eexists. eexists. split; [apply alookup_some_in; exact Hc | reflexivity].
Qed.

(* ================================================================== *)
(* 7. final_metadata and the whole pipeline                            *)
(* ================================================================== *)
Lemma mapM_exists {A B} (f : A -> res B) l : (forall x, In x l -> exists y, f x = Ok y) -> exists ys, mapM f l = Ok ys.
Proof.
  induction l as [|x r IH]; intros H; [exists []; reflexivity|].
  destruct (H x (or_introl eq_refl)) as [y Hy]. destruct IH as [ys Hys]; [intros z Hz; apply H; right; exact Hz|].
  exists (y :: ys). cbn. rewrite Hy, Hys. reflexivity.
Qed.

Lemma minmax_axis_ok nprops ax a n :
  alookup (ax_name ax) nprops = Some (mkprop (PFixed a) None) -> a_shape a = [n] -> length (a_flat a) = n ->
  exists ax', minmax_axis nprops ax = Ok ax'.
Proof.
  intros Hl Hs Hf. unfold minmax_axis. rewrite Hl. cbn [p_vals]. unfold len0. rewrite Hs.
  destruct n as [|n]; [eexists; reflexivity|].
  unfold axis_values. cbn [p_vals p_missing]. destruct (a_flat a) as [|x r]; [discriminate|]. cbn [zmin_list zmax_list]. eexists; reflexivity.
Qed.

Lemma nps_axis d ds dt ax : wf_tm d -> In ax tm_axes ->
  exists a, alookup (ax_name ax) (nps_final d ds dt) = Some (mkprop (PFixed a) None) /\ a_dt a = DF64 /\
            a_shape a = [length (final_ids d ds dt)] /\ length (a_flat a) = length (final_ids d ds dt).
Proof.
  intros W Hin. unfold nps_final. destruct (final_ids d ds dt) as [|z r] eqn:E.
  - exists (mkarr DF64 [0%nat] []). unfold tm_axes in Hin. destruct Hin as [<-|[<-|[<-|[<-|[]]]]]; cbn; auto.
  - assert (Hk : In (ax_name ax) pos_keys).
    { unfold tm_axes in Hin. destruct Hin as [<-|[<-|[<-|[<-|[]]]]]; cbn; tauto. }
    assert (Hne : final_ids d ds dt <> []) by (rewrite E; discriminate).
    pose proof (pos_column d ds dt (ax_name ax) W Hne Hk) as Hc. rewrite E in Hc. eexists. split; [exact Hc|].
    cbn [a_dt a_shape a_flat]. repeat split. rewrite map_length, nelts_length, E. reflexivity.
Qed.

Lemma final_metadata_ok d ds dt : wf_tm d ->
  exists md', final_metadata (wgraph_final d ds dt) (md_final d ds dt) = Ok md'.
Proof.
  intros W. unfold final_metadata. cbn [wgraph_final w_nids w_nprops w_eprops]. rewrite backfill_final.
  unfold compute_minmax. cbn [md_axes md_final metadata_of].
  destruct (mapM_exists (minmax_axis (map (fun kv : string * prop => (fst kv, upcast_prop (snd kv))) (nps_final d ds dt))) tm_axes) as [axes' Hax].
  - intros ax Hin. destruct (nps_axis d ds dt ax W Hin) as [a [Hl [Hdt [Hs Hf]]]].
    apply (minmax_axis_ok _ ax a (length (final_ids d ds dt))); [|exact Hs | exact Hf].
    rewrite alookup_map, Hl. cbn [option_map]. unfold upcast_prop. cbn [p_vals p_missing]. unfold upcast_arr. rewrite Hdt. reflexivity.
  - rewrite Hax. eexists. reflexivity.
Qed.

Lemma axis_empty_upcast : up_props (Some axis_empty) = axis_empty.
Proof. reflexivity. Qed.

Lemma nps_final_upcast d ds dt : wf_tm d -> up_props (Some (nps_final d ds dt)) = nps_final d ds dt.
Proof.
  intros W. unfold nps_final. destruct (final_ids d ds dt); [apply axis_empty_upcast|].
  apply tprops_upcast. apply (final_nodes_typed d ds dt W).
Qed.

Lemma eprops_upcast d ds dt : wf_tm d -> up_props (Some (eprops_of d ds dt)) = eprops_of d ds dt.
Proof.
  intros W. apply tprops_upcast. apply (final_edges_typed d ds dt _ W). intros e He. apply (Permutation_in _ (eouts_perm d ds dt W) He).
Qed.

(* conversion onto a free target: succeeds, the result passes structural validation and reads back as exactly the
   converter's arrays under the written metadata *)
Theorem pipeline d ds dt ow : wf_tm d ->
  exists md' tr post,
    final_metadata (wgraph_final d ds dt) (md_final d ds dt) = Ok md' /\
    from_trackmate d ds dt ow (init None) = (mkst (Some post) tr, Ok tt) /\
    validate_structure KPath (Some post) = Ok tt /\
    read_to_memory KPath (Some post) true None None =
      Ok (mkmg md' (nids_arr d ds dt) (eids_arr d ds dt) (nps_final d ds dt) (eprops_of d ds dt)).
Proof.
  intros W. destruct (final_metadata_ok d ds dt W) as [md' Hmd].
  destruct (write_then_read KPath None _ _ md' _ _ false I (final_wf_input d ds dt W) Hmd) as [tr [post [Hw [Hv Hr]]]].
  exists md', tr, post. split; [exact Hmd|]. split; [|split; [exact Hv|]].
  - unfold from_trackmate. rewrite (wf_exists d W). cbn [negb]. unfold bind.
    rewrite (check_for_geff_clean KPath None I). unfold ret, lift. rewrite (convert_wf d ds dt W). cbn [fst snd]. exact Hw.
  - rewrite Hr. cbn [wgraph_final w_nids w_eids w_nprops w_eprops]. rewrite backfill_final, (nps_final_upcast d ds dt W), (eprops_upcast d ds dt W).
    reflexivity.
Qed.
