(* C03Steps.v -- the step-by-step round-trip statements for ANY store kind (store object or path: Tree.skind) and with everything
   the agreement theorem C03_agree needs exported: the geff read back is well formed (wf_geff), its properties have one value and
   one mask entry per element (props_fit) and its canonical view is defined (canon_geff mg = Ok cg), so that C03_agree applies to
   the SAME mg and gives the three adapter views at props level.
   zarr_format: the tree model of the store (Tree.v) has no format parameter -- the statements hold of both formats as far as the
   tree abstraction is faithful to both, which is what the correspondence checks (every case family runs under format 2 and 3);
   the one place where the formats differ for C03, reserved member names, is folded into Names.name_ok. *)
From Geff Require Import Base Dtype DtypeLemmas Vlen VlenLemmas Tree TreeLemmas Validate Write Read RoundTrip WriteLemmas ReadLemmas
     ValidateLayout C01Lemmas Dicts Backends BackendsLemmas DictsLemmas ListColLemmas C03Lemmas SgLemmas SgWriteLemmas Names.
From Coq Require Import Lia.
Open Scope string_scope.
Open Scope list_scope.

Theorem nx_roundtrip_k cvf k d g mdtok axtok : dom_dicts cvf d g ->
  exists post mg cg,
    run (api_write k (nx_write k d g None mdtok axtok)) None = (Some post, Ok tt) /\
    validate_structure k (Some post) = Ok tt /\
    read_to_memory k (Some post) true None None = Ok mg /\
    wf_geff mg (map fst (d_nodes g)) (map fst (d_edges g)) /\
    props_fit (length (map fst (d_nodes g))) (g_nprops mg) /\ props_fit (length (map fst (d_edges g))) (g_eprops mg) /\
    canon_geff mg = Ok cg /\
    nx_construct mg = Ok cg /\ same_graph cvf d g cg.
Proof.
  intros Hdom. destruct (dicts_roundtrip cvf k d g mdtok Hdom)
    as [tr [post [mg [cg [Hw [Hval [Hrd [Hwf [Hd [Hfn [Hfe [Hc [Hcd [Hn [He [Hna Hea]]]]]]]]]]]]]]]].
  exists post, mg, cg. split; [|split; [exact Hval|split; [exact Hrd|split; [exact Hwf|split; [exact Hfn|split; [exact Hfe|split; [exact Hc|split]]]]]]].
  - apply (run_api_write k _ post tr). unfold nx_write, fresh_md, bind, lift. exact Hw.
  - eapply nx_construct_canon; eauto.
  - unfold same_graph. repeat split; auto.
    + intros i name Hi. apply Hna. rewrite map_length. exact Hi.
    + intros j name Hj. apply Hea. rewrite map_length. exact Hj.
Qed.

Theorem rx_roundtrip_k cvf k d g idmap g' mdtok axtok : rx_target idmap g = Ok g' -> dom_dicts cvf d g' ->
  exists post mg r cg,
    run (api_write k (rx_write k d g idmap None mdtok axtok)) None = (Some post, Ok tt) /\
    validate_structure k (Some post) = Ok tt /\
    read_to_memory k (Some post) true None None = Ok mg /\
    wf_geff mg (map fst (d_nodes g')) (map fst (d_edges g')) /\
    props_fit (length (map fst (d_nodes g'))) (g_nprops mg) /\ props_fit (length (map fst (d_edges g'))) (g_eprops mg) /\
    canon_geff mg = Ok cg /\
    rx_construct mg = Ok r /\ canon_rx r = Some cg /\ same_graph cvf d g' cg.
Proof.
  intros Ht Hdom. destruct (dicts_roundtrip cvf k d g' mdtok Hdom)
    as [tr [post [mg [cg [Hw [Hval [Hrd [Hwf [Hd [Hfn [Hfe [Hc [Hcd [Hn [He [Hna Hea]]]]]]]]]]]]]]]].
  destruct (rx_construct_canon mg _ _ cg Hwf Hfn Hfe Hc) as [r [Hr Hcr]].
  exists post, mg, r, cg.
  split; [|split; [exact Hval|split; [exact Hrd|split; [exact Hwf|split; [exact Hfn|split; [exact Hfe|split; [exact Hc|split; [exact Hr|split; [exact Hcr|]]]]]]]]].
  - apply (run_api_write k _ post tr). unfold rx_write, fresh_md, bind, lift. rewrite Ht. exact Hw.
  - unfold same_graph. repeat split; auto.
    + intros i name Hi. apply Hna. rewrite map_length. exact Hi.
    + intros j name Hj. apply Hea. rewrite map_length. exact Hj.
Qed.

(* the composition the exports are for: ONE written geff, the three adapter views, all equal to the graph that was written *)
Theorem nx_written_all_views k d g mdtok axtok : dom_values d g ->
  exists post mg cg,
    run (api_write k (nx_write k d g None mdtok axtok)) None = (Some post, Ok tt) /\
    read_to_memory k (Some post) true None None = Ok mg /\
    same_graph cv_of_py d g cg /\
    nx_construct mg = Ok cg /\
    (exists r, rx_construct mg = Ok r /\ canon_rx r = Some cg) /\
    (forall pos names dt, sg_dom mg pos (map fst (d_nodes g)) (map fst (d_edges g)) names dt ->
       exists s, sg_construct mg pos = Ok s /\ canon_sg s names (akeys (g_nprops mg)) (akeys (g_eprops mg)) = Ok cg).
Proof.
  intros H. destruct (nx_roundtrip_k cv_of_py k d g mdtok axtok (dom_values_dicts d g H))
    as [post [mg [cg [Hw [_ [Hr [Hwf [Hfn [Hfe [Hc [Hnx Hs]]]]]]]]]]].
  destruct (backends_agree mg _ _ cg Hwf Hfn Hfe Hc) as [_ [Hrx Hsg]].
  exists post, mg, cg. auto 10.
Qed.
