(* MetaBridge.v -- the bridge between the two metadata models.

   Meta.v      the FULL pydantic model (records axis / prop_meta / metadata, validators, to_json ...)
   Tree.v      the REDUCED smeta the store models use (directed, axis name/min/max + one token,
               property entries dtype/varlength + three tokens, one token for everything else)

   This file defines
     abs            the abstraction  Meta.metadata -> Tree.smeta  that the harness implements in
                    harness/storelib.py::abstract_meta_json, parametric in the interning functions
                    (the harness interns the JSON text of the remaining fields);
     refines        "s is an abstraction of m" (for some interning);
     stored_md      the metadata pipeline of write_arrays on the FULL object, in the order of
                    packages/geff/src/geff/core_io/_base_write.py::write_arrays:
                      back-fill of axis properties of an empty graph,
                      write_props_arrays -> create_props_metadata            (geff_spec/utils.py)
                      add_or_update_props_metadata (node, then edge)         (@validate_call: instances are
                                                                              not re-validated, deepcopy, loop)
                      compute_and_add_axis_min_max                           (model_copy, np.min/np.max(...).item()
                                                                              stored in a copy of the Axis WITHOUT
                                                                              validation, then `new_meta.axes = ...`
                                                                              under validate_assignment: the list and
                                                                              the "after" validator of GeffMetadata run,
                                                                              the Axis instances are not re-validated)
                      GeffMetadata.write                                     (model_dump(mode="json"))
     stored_doc     the document stored under attrs["geff"].

   Floats: Meta.fl (scaled integers and the three non-finite values).  The payload of a float array
   element in the store models is its value * 2^10; the harness encodes the non-finite values and
   -0.0 as the tokens TOK+1 .. TOK+4 (storelib.enc_float); dec_fl reads a payload back as a float.
   Model only; proofs in MetaBridgeLemmas.v. *)
From Geff Require Import Base Dtype Vlen Tree Validate Write.
From Geff Require Meta Json MetaJson.
From Geff.Gen Require Import Consts.
Open Scope string_scope.
Open Scope list_scope.

(* ------------------------------------------------------------------ float payloads *)
Definition TOK : Z := (2 ^ 70)%Z.

Definition enc_fl (f : Meta.fl) : Z :=
  match f with
  | Meta.Fin z => z
  | Meta.NaN => (TOK + 1)%Z
  | Meta.PInf => (TOK + 2)%Z
  | Meta.NInf => (TOK + 3)%Z
  end.

(* None: a float that is not a multiple of 2^-10 (the harness hands those over as opaque tokens; they are
   outside the exact model) *)
Definition dec_fl (z : Z) : option Meta.fl :=
  if (Z.abs z <? TOK)%Z then Some (Meta.Fin z)
  else if (z =? TOK + 1)%Z then Some Meta.NaN
  else if (z =? TOK + 2)%Z then Some Meta.PInf
  else if (z =? TOK + 3)%Z then Some Meta.NInf
  else if (z =? TOK + 4)%Z then Some (Meta.Fin 0)      (* -0.0 *)
  else None.

Fixpoint omapM {A B} (f : A -> option B) (l : list A) : option (list B) :=
  match l with
  | [] => Some []
  | x :: r => match f x with
              | None => None
              | Some y => match omapM f r with Some ys => Some (y :: ys) | None => None end
              end
  end.

(* np.min / np.max of a float array: NaN propagates *)
Definition fl_min2 (a b : Meta.fl) : Meta.fl :=
  if Meta.fl_isnan a then a else if Meta.fl_isnan b then b else if Meta.fl_le a b then a else b.
Definition fl_max2 (a b : Meta.fl) : Meta.fl :=
  if Meta.fl_isnan a then a else if Meta.fl_isnan b then b else if Meta.fl_le a b then b else a.
Definition flmin_list (l : list Meta.fl) : option Meta.fl :=
  match l with [] => None | x :: r => Some (fold_left fl_min2 r x) end.
Definition flmax_list (l : list Meta.fl) : option Meta.fl :=
  match l with [] => None | x :: r => Some (fold_left fl_max2 r x) end.

(* the python float of an integer (.item() of an integer / bool coordinate, serialised by a float field):
   round to nearest even at 53 bits *)
Definition float_of_int (z : Z) : Meta.fl := Meta.Fin (round_bits 53 z * Meta.FSCALE)%Z.

(* (np.min(values).item(), np.max(values).item()) as the floats the dump shows.
   zero-size array: ValueError; no ufunc loop for strings / objects: TypeError *)
Definition np_extrema (d : dtype) (vs : list Z) : res (Meta.fl * Meta.fl) :=
  if is_float d then
    match omapM dec_fl vs with
    | None => Err OtherExn
    | Some fs =>
        match flmin_list fs, flmax_list fs with
        | Some lo, Some hi => Ok (lo, hi)
        | _, _ => Err ValueError
        end
    end
  else if is_numeric d then
    match zmin_list vs, zmax_list vs with
    | Some lo, Some hi => Ok (float_of_int lo, float_of_int hi)
    | _, _ => Err ValueError
    end
  else Err TypeError.

(* ------------------------------------------------------------------ the pipeline on the full object *)
(* write_arrays: empty arrays for the axes of an empty graph (only the axis NAMES matter) *)
Definition backfill_names (nids : arr) (names : option (list string)) (nprops : option props) : option props :=
  match nprops, names with
  | Some ps, Some ns =>
      if option_eqb Nat.eqb (len0 nids) (Some 0%nat)
      then Some (fold_left (fun acc n => if ahas n acc then acc else acc ++ [(n, empty_f64_prop)]) ns ps)
      else Some ps
  | _, _ => nprops
  end.

Definition axes_names_opt (m : Meta.metadata) : option (list string) :=
  option_map (map Meta.ax_name) (Meta.md_axes m).

(* create_props_metadata: PropMetadata(identifier, dtype=values.dtype, varlength, unit=None, name=None,
   description=None); dtype and varlength as Write.create_props_metadata infers them, the dtype under its
   numpy name *)
Definition full_pm (name : string) (pm : pmeta) : Meta.prop_meta :=
  Meta.mkPM name (dtype_name (Tree.pm_dtype pm)) (Tree.pm_varlength pm) None None None.

Definition create_props_metadata_full (name : string) (p : prop) : res Meta.prop_meta :=
  rmap (full_pm name) (create_props_metadata name p).

(* the list write_props_arrays returns *)
Definition props_meta_full (ps : props) : list Meta.prop_meta :=
  map (fun kv => full_pm (fst kv) (snd kv)) (props_meta ps).

(* add_or_update_props_metadata called with PropMetadata INSTANCES (nothing is re-validated) *)
Definition add_props (m : Meta.metadata) (ps : list Meta.prop_meta) (node : bool) : Meta.metadata :=
  if node
  then Meta.mkMD (Meta.md_version m) (Meta.md_directed m) (Meta.md_axes m)
                 (Meta.props_merge (Meta.md_node_props m) ps) (Meta.md_edge_props m)
                 (Meta.md_sphere m) (Meta.md_ellipsoid m) (Meta.md_track m) (Meta.md_related m)
                 (Meta.md_hints m) (Meta.md_extra m)
  else Meta.mkMD (Meta.md_version m) (Meta.md_directed m) (Meta.md_axes m)
                 (Meta.md_node_props m) (Meta.props_merge (Meta.md_edge_props m) ps)
                 (Meta.md_sphere m) (Meta.md_ellipsoid m) (Meta.md_track m) (Meta.md_related m)
                 (Meta.md_hints m) (Meta.md_extra m).

(* axis.model_copy(); axis.min = ...; axis.max = ...   (Axis has no validate_assignment) *)
Definition set_minmax (a : Meta.axis) (lo hi : Meta.fl) : Meta.axis :=
  Meta.mkAxis (Meta.ax_name a) (Meta.ax_type a) (Meta.ax_unit a) (Some lo) (Some hi)
              (Meta.ax_scale a) (Meta.ax_scaled_unit a) (Meta.ax_offset a).

(* one turn of the loop of compute_and_add_axis_min_max; the control flow is that of Write.minmax_axis *)
Definition minmax_axis_full (nprops : props) (ax : Meta.axis) : res Meta.axis :=
  match alookup (Meta.ax_name ax) nprops with
  | None => Err ValueError
  | Some p =>
      match p_vals p with
      | PVlen _ => Err OtherExn
      | PFixed a =>
          match len0 a with
          | None => Err TypeError
          | Some O => Ok ax
          | Some _ =>
              match axis_values p with
              | None => Err IndexError
              | Some vs =>
                  match np_extrema (a_dt a) vs with
                  | Ok (lo, hi) => Ok (set_minmax ax lo hi)
                  | Err e => Err e
                  end
              end
          end
      end
  end.

(* new_meta.axes = new_axes : list[Axis] of instances, then GeffMetadata._validate_model_after *)
Definition compute_minmax_full (m : Meta.metadata) (nprops : props) : res Meta.metadata :=
  match Meta.md_axes m with
  | None => Ok m
  | Some axes =>
      match mapM (minmax_axis_full nprops) axes with
      | Ok axes' => Meta.md_after (Meta.set_axes_objs m axes')
      | Err e => Err e
      end
  end.

(* the object write_arrays hands to GeffMetadata.write *)
Definition stored_md (g : wgraph) (m : Meta.metadata) : res Meta.metadata :=
  let nps := backfill_names (w_nids g) (axes_names_opt m) (w_nprops g) in
  let nmeta := match nps with Some ps => props_meta_full ps | None => [] end in
  let emeta := match w_eprops g with Some ps => props_meta_full ps | None => [] end in
  let m1 := add_props m nmeta true in
  let m2 := add_props m1 emeta false in
  match nps with
  | Some ps => compute_minmax_full m2 (map (fun kv => (fst kv, upcast_prop (snd kv))) ps)
  | None => Ok m2
  end.

(* attrs["geff"] *)
Definition stored_doc (g : wgraph) (m : Meta.metadata) : res Meta.jv :=
  rmap MetaJson.to_json (stored_md g m).

(* ------------------------------------------------------------------ the abstraction *)
(* the interning of everything the store models do not look into *)
Record interp := mkI {
  i_unit : string -> Z; i_name : string -> Z; i_descr : string -> Z;
  (* type, unit, scale, scaled_unit, offset of an axis *)
  i_axis : option string -> option string -> option Meta.fl -> option string -> option Meta.fl -> Z;
  (* geff_version, sphere, ellipsoid, track_node_props, related_objects, display_hints, extra *)
  i_md : string -> option string -> option string -> option (list (string * string)) ->
         option (list Meta.related) -> option Meta.hints -> list (string * Meta.jv) -> Z }.

Definition dtype_table : list dtype :=
  [DBool; DI8; DI16; DI32; DI64; DU8; DU16; DU32; DU64; DF16; DF32; DF64; DStr; DBytes; DObj].

(* inverse of Tree.dtype_name (harness/common.py::DTYPE_COQ); a name outside the table cannot be printed by
   the harness, DObj is a placeholder *)
Definition dtype_of_name (s : string) : dtype :=
  match find (fun d => String.eqb (dtype_name d) s) dtype_table with Some d => d | None => DObj end.

Definition abs_pm (I : interp) (p : Meta.prop_meta) : pmeta :=
  mkpm (dtype_of_name (Meta.pm_dtype p)) (Meta.pm_varlength p)
       (option_map (i_unit I) (Meta.pm_unit p)) (option_map (i_name I) (Meta.pm_name p))
       (option_map (i_descr I) (Meta.pm_description p)).

Definition abs_dict (I : interp) (d : Meta.pmdict) : list (string * pmeta) :=
  map (fun kv => (fst kv, abs_pm I (snd kv))) d.

Definition abs_axis (I : interp) (a : Meta.axis) : axis :=
  mkax (Meta.ax_name a) (option_map enc_fl (Meta.ax_min a)) (option_map enc_fl (Meta.ax_max a))
       (i_axis I (Meta.ax_type a) (Meta.ax_unit a) (Meta.ax_scale a) (Meta.ax_scaled_unit a) (Meta.ax_offset a)).

Definition abs (I : interp) (m : Meta.metadata) : smeta :=
  mkmd (Meta.md_directed m) (option_map (map (abs_axis I)) (Meta.md_axes m))
       (abs_dict I (Meta.md_node_props m)) (abs_dict I (Meta.md_edge_props m))
       (i_md I (Meta.md_version m) (Meta.md_sphere m) (Meta.md_ellipsoid m) (Meta.md_track m)
             (Meta.md_related m) (Meta.md_hints m) (Meta.md_extra m)).

Definition refines (m : Meta.metadata) (s : smeta) : Prop := exists I, abs I m = s.

(* the interning that forgets everything (enough to run the store model: it never reads a token) *)
Definition I0 : interp :=
  mkI (fun _ => 0%Z) (fun _ => 0%Z) (fun _ => 0%Z) (fun _ _ _ _ _ => 0%Z) (fun _ _ _ _ _ _ _ => 0%Z).

(* ------------------------------------------------------------------ hypotheses on the input, as booleans *)
(* python dicts have distinct keys *)
Definition dict_keys_ok (m : Meta.metadata) : bool :=
  Meta.nodupb (map fst (Meta.md_node_props m)) && Meta.nodupb (map fst (Meta.md_edge_props m)).

(* the coordinates of one axis property are inside the exact model of the store side (Write.minmax_axis takes
   min / max of the payloads): a numeric dtype; float payloads are finite multiples of 2^-10 (no token), integer
   payloads convert to float exactly *)
Definition payload_exact (d : dtype) (z : Z) : bool :=
  if is_float d then (Z.abs z <? TOK)%Z else (Z.abs z <? 2 ^ 53)%Z.
Definition prop_exact (p : prop) : bool :=
  match p_vals p with
  | PFixed a => is_numeric (a_dt a) && forallb (payload_exact (a_dt a)) (a_flat a)
  | PVlen _ => true
  end.
(* weaker: every coordinate is a finite number (NaN / inf excluded); what schema validity of the stored document needs *)
Definition payload_finite (d : dtype) (z : Z) : bool :=
  if is_float d then match dec_fl z with Some (Meta.Fin _) => true | _ => false end else true.
Definition prop_finite (p : prop) : bool :=
  match p_vals p with
  | PFixed a => forallb (payload_finite (a_dt a)) (a_flat a)
  | PVlen _ => true
  end.
(* no coordinate is NaN *)
Definition payload_not_nan (d : dtype) (z : Z) : bool :=
  if is_float d then negb (z =? TOK + 1)%Z else true.
Definition prop_nan_free (p : prop) : bool :=
  match p_vals p with
  | PFixed a => forallb (payload_not_nan (a_dt a)) (a_flat a)
  | PVlen _ => true
  end.

(* a predicate on the node properties that the axes of m name *)
Definition coords_all (ok : prop -> bool) (g : wgraph) (m : Meta.metadata) : bool :=
  match w_nprops g with
  | None => true
  | Some ps =>
      forallb (fun a => match alookup (Meta.ax_name a) ps with Some p => ok p | None => true end)
              (match Meta.md_axes m with Some l => l | None => [] end)
  end.
Definition coords_exact := coords_all prop_exact.
Definition coords_finite := coords_all prop_finite.
Definition coords_nan_free := coords_all prop_nan_free.
