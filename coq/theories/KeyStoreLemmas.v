(* KeyStoreLemmas.v -- proofs about the key-level store model (KeyStore.v):
     jtree_keys_roundtrip / tree_keys_roundtrip : the abstraction function reads back what the layout function writes, for every
        well-formed hierarchy, both zarr formats (no size bound);
     build_fuel, child_of_keys, geff_part_frame : the member `n` of the hierarchy depends on the keys below `n/` only, so keys outside
        nodes/, edges/ and the root's geff attribute do not influence the geff part. *)
From Geff Require Import Base Dtype Vlen Tree TreeLemmas KeyStore.
From Geff Require Meta.
Open Scope string_scope.
Open Scope list_scope.

(* ---------- keys and lookups ---------- *)
Lemma key_eqb_refl k : key_eqb k k = true.
Proof. unfold key_eqb. induction k as [|x r IH]; cbn; [reflexivity|]. rewrite String.eqb_refl, IH. reflexivity. Qed.
Lemma key_eqb_eq a b : key_eqb a b = true <-> a = b.
Proof. unfold key_eqb. apply list_eqb_eq. intros x y. apply String.eqb_eq. Qed.

Lemma klookup_app k a b : klookup k (a ++ b) = match klookup k a with Some v => Some v | None => klookup k b end.
Proof. induction a as [|[k' v] r IH]; cbn; [reflexivity|]. destruct (key_eqb k k'); [reflexivity | exact IH]. Qed.

Definition nonempty_keys (ks : kstore) : Prop := Forall (fun kv => fst kv <> []) ks.

Lemma nonempty_prefix n ks : nonempty_keys (prefix n ks).
Proof. unfold nonempty_keys, prefix. apply Forall_forall. intros kv H. apply in_map_iff in H. destruct H as [x [<- _]]. cbn. discriminate. Qed.
Lemma nonempty_app a b : nonempty_keys a -> nonempty_keys b -> nonempty_keys (a ++ b).
Proof. unfold nonempty_keys. intros. apply Forall_app. split; assumption. Qed.

Lemma klookup_single_prefix x n ks : nonempty_keys ks -> klookup [x] (prefix n ks) = None.
Proof. unfold nonempty_keys. induction ks as [|[k v] r IH]; intro H; cbn; [reflexivity|].
  inversion H as [|? ? Hk Hr]; subst. cbn in Hk. destruct k as [|k0 kr]; [contradiction|].
  unfold key_eqb. cbn. rewrite andb_false_r. apply IH. exact Hr. Qed.

Lemma klookup_prefix n k ks : klookup (n :: k) (prefix n ks) = klookup k ks.
Proof. induction ks as [|[k' v] r IH]; cbn; [reflexivity|].
  unfold key_eqb. cbn. rewrite String.eqb_refl. cbn. fold (key_eqb k k'). destruct (key_eqb k k'); [reflexivity | exact IH]. Qed.

(* ---------- option helpers ---------- *)
Lemma omap_ext_in {A B} (f g : A -> option B) l : (forall x, In x l -> f x = g x) -> omap f l = omap g l.
Proof. induction l as [|x r IH]; intro H; cbn; [reflexivity|].
  rewrite (H x (or_introl eq_refl)), IH; [reflexivity|]. intros y Hy. apply H. right. exact Hy. Qed.
Lemma omap_map {A B C} (f : B -> option C) (g : A -> B) l : omap f (map g l) = omap (fun x => f (g x)) l.
Proof. induction l as [|x r IH]; cbn; [reflexivity|]. rewrite IH. reflexivity. Qed.

Lemma omap_nth_seq (q p : list Z) : omap (nth_error (q ++ p)) (seq (length q) (length p)) = Some p.
Proof. revert q. induction p as [|x p IH]; intro q; cbn; [reflexivity|].
  rewrite nth_error_app2 by lia. rewrite Nat.sub_diag. cbn.
  specialize (IH (q ++ [x])). rewrite <- app_assoc in IH. cbn in IH. rewrite app_length in IH. cbn in IH.
  rewrite Nat.add_1_r in IH. rewrite IH. reflexivity. Qed.

Lemma map_add_seq k s m : map (Nat.add k) (seq s m) = seq (k + s) m.
Proof. revert s. induction m as [|m IH]; intro s; cbn; [reflexivity|]. rewrite IH. f_equal. f_equal. lia. Qed.

Lemma flat_map_rows m : forall n a,
  flat_map (fun i => map (fun j => i * m + j) (seq 0 m)) (seq a n) = seq (a * m) (n * m).
Proof. induction n as [|n IH]; intro a; cbn [seq flat_map]; [reflexivity|].
  rewrite IH. change (fun j => a * m + j) with (Nat.add (a * m)). rewrite map_add_seq.
  rewrite Nat.add_0_r. replace (S a * m) with (a * m + m) by lia.
  replace (S n * m) with (m + n * m) by lia. symmetry. apply seq_app. Qed.

(* ---------- multi-indices ---------- *)
Lemma flat_map_nil {A B} (l : list A) : flat_map (fun _ => @nil B) l = [].
Proof. induction l; cbn; auto. Qed.

Lemma has_zero_all_idx shape : has_zero shape = true -> all_idx shape = [] /\ size shape = 0.
Proof. unfold has_zero, size. induction shape as [|n r IH]; cbn; [discriminate|].
  destruct n as [|n]; cbn.
  - intros _. split; reflexivity.
  - intro H. destruct (IH H) as [H1 H2]. rewrite H1, H2. split; [|lia].
    cbn. rewrite flat_map_nil. reflexivity. Qed.

Lemma no_zero_whole shape : has_zero shape = false -> whole_chunks shape = shape.
Proof. unfold has_zero, whole_chunks. induction shape as [|n r IH]; cbn; [reflexivity|].
  destruct n as [|n]; cbn; [discriminate|]. intro H. f_equal. apply IH. exact H. Qed.

Lemma grid_zero shape : has_zero shape = true -> has_zero (grid shape (whole_chunks shape)) = true.
Proof. unfold has_zero, grid, whole_chunks. induction shape as [|n r IH]; cbn [existsb map zipw]; [discriminate|].
  destruct n as [|n].
  - intros _. reflexivity.
  - intro H. apply orb_true_iff in H. destruct H as [H|H]; [simpl in H; discriminate|].
    apply orb_true_iff. right. apply IH. exact H. Qed.

Lemma grid_ones shape : has_zero shape = false -> grid shape shape = map (fun _ => 1) shape.
Proof. unfold has_zero, grid. induction shape as [|n r IH]; cbn [existsb map zipw]; [reflexivity|].
  destruct n as [|n]; [discriminate|]. intro H. apply orb_false_iff in H. destruct H as [_ H]. rewrite (IH H). f_equal.
  symmetry. apply (Nat.div_unique (S n + S n - 1) (S n) 1 n); lia. Qed.

Lemma all_idx_ones shape : all_idx (map (fun _ => 1) shape) = [zeros shape].
Proof. unfold zeros. induction shape as [|n r IH]; cbn; [reflexivity|]. rewrite IH. reflexivity. Qed.

(* every multi-index enumerated is below the shape *)
Lemma all_idx_lt shape : forall idx, In idx (all_idx shape) -> Forall2 lt idx shape.
Proof. induction shape as [|n r IH]; intros idx H; cbn in H.
  - destruct H as [<-|[]]. constructor.
  - apply in_flat_map in H. destruct H as [i [Hi H]]. apply in_map_iff in H. destruct H as [ir [<- Hir]].
    apply in_seq in Hi. constructor; [lia | apply IH; exact Hir]. Qed.

Lemma zipw_div_lt idx : forall shape, Forall2 lt idx shape -> zipw Nat.div idx shape = zeros shape.
Proof. unfold zeros. induction idx as [|i ir IH]; intros shape H; inversion H; subst; cbn; [reflexivity|].
  rewrite Nat.div_small by assumption. f_equal. apply IH. assumption. Qed.
Lemma zipw_mod_lt idx : forall shape, Forall2 lt idx shape -> zipw Nat.modulo idx shape = idx.
Proof. induction idx as [|i ir IH]; intros shape H; inversion H; subst; cbn; [reflexivity|].
  rewrite Nat.mod_small by assumption. f_equal. apply IH. assumption. Qed.

Lemma ravel_all_idx shape : map (ravel shape) (all_idx shape) = seq 0 (size shape).
Proof. induction shape as [|n r IH]; [reflexivity|].
  cbn [all_idx]. rewrite flat_map_concat_map, concat_map, map_map.
  rewrite <- flat_map_concat_map.
  erewrite flat_map_ext.
  2:{ intro i. rewrite map_map. cbn [ravel]. rewrite <- (map_map (ravel r) (fun j => i * size r + j)). rewrite IH. reflexivity. }
  rewrite flat_map_rows. cbn. reflexivity. Qed.

Lemma omap_whole (p : list Z) shape : length p = size shape ->
  omap (fun idx => nth_error p (ravel shape idx)) (all_idx shape) = Some p.
Proof. intro H. rewrite <- (omap_map (nth_error p) (ravel shape)). rewrite ravel_all_idx, <- H.
  exact (omap_nth_seq [] p). Qed.

(* ---------- an array stored as one chunk ---------- *)
Lemma array_flat_whole dt fill enc ks (a : arr) :
  wf_arr a = true ->
  (has_zero (a_shape a) = false -> klookup (chunk_key enc (zeros (a_shape a))) ks = Some (KChunk (a_flat a))) ->
  array_flat (mkam dt (a_shape a) (whole_chunks (a_shape a)) fill enc) ks = Some (a_flat a).
Proof. intros Hwf Hk. unfold wf_arr in Hwf. apply Nat.eqb_eq in Hwf. unfold array_flat. cbn [am_shape am_chunks].
  destruct (has_zero (a_shape a)) eqn:Hz.
  - destruct (has_zero_all_idx _ (grid_zero _ Hz)) as [Hg _]. rewrite Hg. cbn [forallb].
    destruct (has_zero_all_idx _ Hz) as [Hi Hs]. rewrite Hi. cbn. rewrite Hs in Hwf.
    destruct (a_flat a); [reflexivity | discriminate].
  - specialize (Hk eq_refl). rewrite (no_zero_whole _ Hz), (grid_ones _ Hz), all_idx_ones. cbn [forallb].
    unfold chunk_ok. cbn [am_enc am_chunks]. rewrite Hk, Hwf, Nat.eqb_refl. cbn [andb].
    rewrite (omap_ext_in _ (fun idx => nth_error (a_flat a) (ravel (a_shape a) idx))).
    + apply omap_whole. exact Hwf.
    + intros idx Hin. apply all_idx_lt in Hin. unfold elem. cbn [am_enc am_chunks].
      rewrite (zipw_div_lt _ _ Hin), Hk, (zipw_mod_lt _ _ Hin). reflexivity. Qed.

(* ---------- documents ---------- *)
Lemma omap_jnat l : omap jnat (map (fun n => JInt (Z.of_nat n)) l) = Some l.
Proof. induction l as [|n r IH]; cbn; [reflexivity|].
  destruct (0 <=? Z.of_nat n)%Z eqn:E; [|apply Z.leb_gt in E; lia]. rewrite IH, Nat2Z.id. reflexivity. Qed.
Lemma jnats_doc_ok l : jnats (jnats_doc l) = Some l.
Proof. apply omap_jnat. Qed.

Lemma grid_ok_whole shape : grid_ok shape (whole_chunks shape) = true.
Proof. unfold grid_ok, whole_chunks. rewrite map_length, Nat.eqb_refl. cbn.
  induction shape as [|n r IH]; cbn; [reflexivity|]. rewrite IH. destruct n; reflexivity. Qed.

Lemma v2_dtype_ok dt : storable dt = true -> v2_dtype (v2_dtype_str dt) (Some (v2_filters dt)) = Some dt.
Proof. destruct dt; intro H; try reflexivity; discriminate. Qed.
Lemma v3_dtype_ok dt : storable dt = true -> v3_dtype (JStr (v3_dtype_name dt)) = Some dt.
Proof. destruct dt; intro H; try reflexivity; discriminate. Qed.

Lemma parse_zarray_doc a : storable (a_dt a) = true ->
  parse_zarray (zarray_doc a) =
  Some (mkam (a_dt a) (a_shape a) (whole_chunks (a_shape a)) (fill_of (a_dt a) (Some (fill_doc (a_dt a)))) (EV2 false)).
Proof. intro H. unfold parse_zarray, zarray_doc.
  change (is_fmt 2 (JObj _)) with true. change (jstr_is "C" (jfield "order" (JObj _))) with true. cbn [andb].
  change (jfield "shape" (JObj _)) with (Some (jnats_doc (a_shape a))).
  change (jfield "chunks" (JObj _)) with (Some (jnats_doc (whole_chunks (a_shape a)))).
  change (jfield "dtype" (JObj _)) with (Some (JStr (v2_dtype_str (a_dt a)))).
  change (jfield "filters" (JObj _)) with (Some (v2_filters (a_dt a))).
  change (jfield "dimension_separator" (JObj _)) with (Some (JStr ".")).
  change (jfield "fill_value" (JObj _)) with (Some (fill_doc (a_dt a))).
  cbn [obind]. rewrite !jnats_doc_ok. cbn [obind]. rewrite (v2_dtype_ok _ H). cbn [obind].
  change (sep_of (Some (JStr ".")) false) with (Some false). cbn [obind]. rewrite grid_ok_whole. reflexivity. Qed.

Lemma codecs_ok_v3 dt : codecs_ok (Some (v3_codecs dt)) = true.
Proof. destruct dt; reflexivity. Qed.

Lemma parse_v3_array_doc a : storable (a_dt a) = true ->
  parse_v3_array (v3_array_doc a) =
  Some (mkam (a_dt a) (a_shape a) (whole_chunks (a_shape a)) (fill_of (a_dt a) (Some (fill_doc (a_dt a)))) (EDef true)).
Proof. intro H. unfold parse_v3_array, v3_array_doc.
  change (jfield "codecs" (JObj _)) with (Some (v3_codecs (a_dt a))). rewrite codecs_ok_v3.
  change (jfield "shape" (JObj _)) with (Some (jnats_doc (a_shape a))).
  change (jfield "data_type" (JObj _)) with (Some (JStr (v3_dtype_name (a_dt a)))).
  change (jfield "fill_value" (JObj _)) with (Some (fill_doc (a_dt a))).
  cbn [obind]. rewrite jnats_doc_ok. cbn [obind]. rewrite (v3_dtype_ok _ H). cbn [obind].
  match goal with |- context [jfield "chunk_grid" ?d] =>
    change (jfield "chunk_grid" d) with
      (Some (JObj [("name", JStr "regular"); ("configuration", JObj [("chunk_shape", jnats_doc (whole_chunks (a_shape a)))])])) end.
  cbn [obind].
  change (jstr_is "regular" _) with true. cbn iota.
  change (jfield "configuration" (JObj [("name", JStr "regular"); _])) with
    (Some (JObj [("chunk_shape", jnats_doc (whole_chunks (a_shape a)))])).
  cbn [obind]. change (jfield "chunk_shape" (JObj _)) with (Some (jnats_doc (whole_chunks (a_shape a)))).
  cbn [obind]. rewrite jnats_doc_ok. cbn [obind].
  match goal with |- context [jfield "chunk_key_encoding" ?d] =>
    change (jfield "chunk_key_encoding" d) with
      (Some (JObj [("name", JStr "default"); ("configuration", JObj [("separator", JStr "/")])])) end.
  cbn [obind]. change (jstr_is "default" _) with true. cbn iota.
  change (sep_of _ true) with (Some true). cbn [option_map obind]. rewrite grid_ok_whole. reflexivity. Qed.

(* ---------- the keys of an array make that array ---------- *)
Lemma dec_0 : dec 0 = "0". Proof. reflexivity. Qed.

Lemma zkey_v2_head shape : exists s,
  match map dec (zeros shape) with [] => "0" | _ :: _ => join "." (map dec (zeros shape)) end = String "0" s.
Proof. destruct shape as [|n r]; cbn [zeros map]; [exists ""; reflexivity|].
  rewrite dec_0. cbn [join]. destruct (map dec (map (fun _ => 0) r)); [exists "" | eexists]; reflexivity. Qed.

Lemma array_chunk_lookup f a :
  has_zero (a_shape a) = false ->
  klookup (chunk_key (array_enc f) (zeros (a_shape a))) (array_keys f a) = Some (KChunk (a_flat a)).
Proof. intro Hz. unfold array_keys. rewrite Hz. destruct f; cbn [array_enc chunk_key].
  - destruct (zkey_v2_head (a_shape a)) as [s Hs]. rewrite Hs. cbn [app klookup].
    change (key_eqb [String "0" s] [".zarray"]) with false. change (key_eqb [String "0" s] [".zattrs"]) with false.
    cbn iota. rewrite key_eqb_refl. reflexivity.
  - cbn [app klookup]. change (key_eqb ("c" :: map dec (zeros (a_shape a))) ["zarr.json"]) with false.
    cbn iota. rewrite key_eqb_refl. reflexivity. Qed.

Lemma node_doc_array f a : storable (a_dt a) = true ->
  node_doc f (array_keys f a) =
  NDArray (mkam (a_dt a) (a_shape a) (whole_chunks (a_shape a)) (fill_of (a_dt a) (Some (fill_doc (a_dt a)))) (array_enc f)).
Proof. intro H. destruct f; unfold node_doc, array_keys; cbn [app klookup].
  - change (key_eqb [".zarray"] [".zarray"]) with true. cbn iota. rewrite (parse_zarray_doc _ H). reflexivity.
  - change (key_eqb ["zarr.json"] ["zarr.json"]) with true. cbn iota.
    change (is_fmt 3 (v3_array_doc a)) with true. cbn iota.
    change (jstr_is "group" (jfield "node_type" (v3_array_doc a))) with false.
    change (jstr_is "array" (jfield "node_type" (v3_array_doc a))) with true. cbn iota.
    rewrite (parse_v3_array_doc _ H). reflexivity. Qed.

Lemma build_array n f a : wf_arr a && storable (a_dt a) = true -> build (S n) f (array_keys f a) = Some (Some (JA a)).
Proof. intro H. apply andb_true_iff in H. destruct H as [Hwf Hst]. cbn [build]. rewrite (node_doc_array _ _ Hst).
  rewrite (array_flat_whole _ _ _ _ a Hwf (array_chunk_lookup f a)). cbn [am_dt am_shape]. destruct a; reflexivity. Qed.

(* ---------- the keys of a group ---------- *)
Definition blocks (f : fmt) (ch : list (string * jnode)) : kstore :=
  flat_map (fun nc => prefix (fst nc) (keys_of_jtree f (snd nc))) ch.

Lemma keys_of_group f a ch : keys_of_jtree f (JG a ch) = group_docs f a ++ blocks f ch.
Proof. cbn [keys_of_jtree]. f_equal. unfold blocks. induction ch as [|[n c] r IH]; cbn; [reflexivity|]. rewrite IH. reflexivity. Qed.

Lemma nonempty_blocks f ch : nonempty_keys (blocks f ch).
Proof. unfold blocks. induction ch as [|[n c] r IH]; cbn [flat_map fst snd]; [constructor|]. apply nonempty_app; [apply nonempty_prefix | exact IH]. Qed.

Lemma nonempty_array_keys f a : nonempty_keys (array_keys f a).
Proof. unfold array_keys, nonempty_keys. apply Forall_app. split.
  - destruct f; repeat constructor; cbn; discriminate.
  - destruct (has_zero (a_shape a)); [constructor|]. constructor; [|constructor]. cbn.
    destruct f; cbn; [discriminate | discriminate]. Qed.

Lemma nonempty_keys_of f t : nonempty_keys (keys_of_jtree f t).
Proof. destruct t as [a|a ch]; [apply nonempty_array_keys|]. rewrite keys_of_group. apply nonempty_app; [|apply nonempty_blocks].
  destruct f; repeat constructor; cbn; discriminate. Qed.

Lemma klookup_single_blocks x f ch : klookup [x] (blocks f ch) = None.
Proof. unfold blocks. induction ch as [|[n c] r IH]; cbn [flat_map fst snd]; [reflexivity|].
  rewrite klookup_app, (klookup_single_prefix x n _ (nonempty_keys_of f c)). exact IH. Qed.

Lemma node_doc_group f a ch : node_doc f (keys_of_jtree f (JG a ch)) = NDGroup a.
Proof. rewrite keys_of_group. destruct f; unfold node_doc, group_docs.
  - rewrite klookup_app. cbn [klookup]. change (key_eqb [".zarray"] [".zgroup"]) with false.
    change (key_eqb [".zarray"] [".zattrs"]) with false. cbn iota. rewrite klookup_single_blocks.
    rewrite klookup_app. cbn [klookup]. change (key_eqb [".zgroup"] [".zgroup"]) with true. cbn iota.
    change (is_fmt 2 (JObj [("zarr_format", JInt 2)])) with true. cbn iota.
    rewrite klookup_app. cbn [klookup]. change (key_eqb [".zattrs"] [".zgroup"]) with false.
    change (key_eqb [".zattrs"] [".zattrs"]) with true. reflexivity.
  - rewrite klookup_app. cbn [klookup]. change (key_eqb ["zarr.json"] ["zarr.json"]) with true. cbn iota.
    reflexivity. Qed.

(* ---------- member names ---------- *)
Lemma docheads_app f a b : docheads f (a ++ b) = docheads f a ++ docheads f b.
Proof. unfold docheads. apply flat_map_app. Qed.

Definition long_keys (ks : kstore) : Prop := Forall (fun kv => exists a b r, fst kv = a :: b :: r) ks.
Lemma long_prefix n ks : nonempty_keys ks -> long_keys (prefix n ks).
Proof. unfold nonempty_keys, long_keys, prefix. intro H. apply Forall_forall. intros kv Hin. apply in_map_iff in Hin.
  destruct Hin as [[k v] [<- Hin]]. rewrite Forall_forall in H. specialize (H _ Hin). cbn in *.
  destruct k as [|b r]; [contradiction|]. eauto. Qed.
Lemma long_app a b : long_keys a -> long_keys b -> long_keys (a ++ b).
Proof. unfold long_keys. intros. apply Forall_app. split; assumption. Qed.
Lemma long_blocks f ch : long_keys (blocks f ch).
Proof. unfold blocks. induction ch as [|[n c] r IH]; cbn [flat_map fst snd]; [constructor|].
  apply long_app; [apply long_prefix, nonempty_keys_of | exact IH]. Qed.

Lemma docheads_prefix_long f n ks : long_keys ks -> docheads f (prefix n ks) = [].
Proof. unfold long_keys, docheads, prefix. induction ks as [|[k v] r IH]; intro H; cbn; [reflexivity|].
  inversion H as [|? ? Hk Hr]; subst. destruct Hk as [a [b [q Hk]]]. cbn in Hk. subst k. cbn. apply IH. exact Hr. Qed.

Lemma docheads_child f n c : docheads f (prefix n (keys_of_jtree f c)) = [n].
Proof. destruct c as [a|a ch].
  - cbn [keys_of_jtree]. unfold array_keys, prefix. rewrite map_app, docheads_app.
    destruct (has_zero (a_shape a)).
    + destruct f; reflexivity.
    + destruct f; cbn [array_enc chunk_key].
      * destruct (zkey_v2_head (a_shape a)) as [s Hs]. rewrite Hs. reflexivity.
      * cbn. destruct (map dec (zeros (a_shape a))) as [|? [|? ?]]; reflexivity.
  - rewrite keys_of_group. unfold prefix. rewrite map_app, docheads_app.
    change (map (fun kv => (n :: fst kv, snd kv)) (blocks f ch)) with (prefix n (blocks f ch)).
    rewrite (docheads_prefix_long f n _ (long_blocks f ch)). destruct f; reflexivity. Qed.

Lemma docheads_blocks f ch : docheads f (blocks f ch) = map fst ch.
Proof. unfold blocks. induction ch as [|[n c] r IH]; cbn [flat_map fst snd map]; [reflexivity|].
  rewrite docheads_app, docheads_child, IH. reflexivity. Qed.

Lemma filter_id {A} (p : A -> bool) l : forallb p l = true -> filter p l = l.
Proof. induction l as [|x r IH]; cbn; [reflexivity|]. intro H. apply andb_true_iff in H. destruct H as [H1 H2].
  rewrite H1, (IH H2). reflexivity. Qed.

Lemma dedup_nodup l : nodupb l = true -> dedup l = l.
Proof. induction l as [|x r IH]; cbn; [reflexivity|]. intro H. apply andb_true_iff in H. destruct H as [H1 H2].
  rewrite (IH H2). f_equal. apply filter_id. apply forallb_forall. intros y Hy.
  apply negb_true_iff in H1. apply negb_true_iff. destruct (String.eqb x y) eqn:E; [|reflexivity].
  apply String.eqb_eq in E. subst y. exfalso. apply smem_In in Hy. rewrite Hy in H1. discriminate. Qed.

Lemma names_group f a ch : nodupb (map fst ch) = true -> names f (keys_of_jtree f (JG a ch)) = map fst ch.
Proof. intro H. unfold names. rewrite keys_of_group, docheads_app, docheads_blocks.
  replace (docheads f (group_docs f a)) with (@nil string) by (destruct f; reflexivity).
  apply dedup_nodup. exact H. Qed.

(* ---------- the sub-store of a member ---------- *)
Lemma strip_app n a b : strip n (a ++ b) = strip n a ++ strip n b.
Proof. unfold strip. apply flat_map_app. Qed.

Lemma strip_prefix nm n ks : nonempty_keys ks -> strip nm (prefix n ks) = if String.eqb n nm then ks else [].
Proof. unfold nonempty_keys, strip, prefix. induction ks as [|[k v] r IH]; intro H; cbn.
  - destruct (String.eqb n nm); reflexivity.
  - inversion H as [|? ? Hk Hr]; subst. cbn in Hk. destruct k as [|k0 kr]; [contradiction|].
    rewrite (IH Hr). destruct (String.eqb n nm); reflexivity. Qed.

Lemma strip_blocks_notin f nm ch : ~ In nm (map fst ch) -> strip nm (blocks f ch) = [].
Proof. unfold blocks. induction ch as [|[n c] r IH]; cbn [flat_map fst snd map]; intro H; [reflexivity|].
  rewrite strip_app, (strip_prefix _ _ _ (nonempty_keys_of f c)).
  rewrite seqb_neq by (intro E; apply H; left; exact E). cbn [app]. apply IH. intro Hin. apply H. right. exact Hin. Qed.

Lemma nodupb_cons x l : nodupb (x :: l) = true <-> ~ In x l /\ nodupb l = true.
Proof. cbn. rewrite andb_true_iff, negb_true_iff. split; intros [H1 H2]; split; auto.
  - intro Hin. apply smem_In in Hin. rewrite Hin in H1. discriminate.
  - destruct (smem x l) eqn:E; [|reflexivity]. apply smem_In in E. contradiction. Qed.

Lemma strip_blocks f nm c ch : nodupb (map fst ch) = true -> In (nm, c) ch -> strip nm (blocks f ch) = keys_of_jtree f c.
Proof. induction ch as [|[n0 c0] r IH]; intros Hnd Hin; [destruct Hin|].
  cbn [map fst] in Hnd. apply nodupb_cons in Hnd. destruct Hnd as [Hnotin Hnd].
  unfold blocks. cbn [flat_map fst snd]. fold (blocks f r).
  rewrite strip_app, (strip_prefix _ _ _ (nonempty_keys_of f c0)).
  destruct Hin as [Heq|Hin].
  - inversion Heq; subst. rewrite String.eqb_refl, (strip_blocks_notin _ _ _ Hnotin). apply app_nil_r.
  - rewrite seqb_neq.
    + cbn. apply IH; assumption.
    + intro E. subst. apply Hnotin. apply (in_map fst) in Hin. exact Hin. Qed.

Lemma strip_group f a nm c ch : nodupb (map fst ch) = true -> In (nm, c) ch ->
  strip nm (keys_of_jtree f (JG a ch)) = keys_of_jtree f c.
Proof. intros Hnd Hin. rewrite keys_of_group, strip_app.
  replace (strip nm (group_docs f a)) with (@nil (key * kval)) by (destruct f; reflexivity).
  apply strip_blocks; assumption. Qed.

(* ---------- collecting the members ---------- *)
Lemma collect_all g ch : (forall nm c, In (nm, c) ch -> g nm = Some (Some c)) -> collect g (map fst ch) = Some ch.
Proof. induction ch as [|[n c] r IH]; intro H; cbn; [reflexivity|].
  rewrite (H n c (or_introl eq_refl)), IH; [reflexivity|]. intros nm c' Hin. apply H. right. exact Hin. Qed.

(* ---------- induction on hierarchies ---------- *)
Fixpoint jnode_ind' (P : jnode -> Prop) (HA : forall a, P (JA a))
    (HG : forall a ch, Forall (fun nc => P (snd nc)) ch -> P (JG a ch)) (t : jnode) : P t :=
  match t with
  | JA a => HA a
  | JG a ch => HG a ch ((fix go (l : list (string * jnode)) : Forall (fun nc => P (snd nc)) l :=
                           match l with
                           | [] => Forall_nil _
                           | nc :: r => Forall_cons nc (jnode_ind' P HA HG (snd nc)) (go r)
                           end) ch)
  end.

Definition maxh (ch : list (string * jnode)) : nat := fold_right (fun nc m => Nat.max (jheight (snd nc)) m) 0 ch.
Lemma jheight_group a ch : jheight (JG a ch) = S (maxh ch).
Proof. cbn [jheight]. f_equal. unfold maxh. induction ch as [|[n c] r IH]; cbn; [reflexivity|]. rewrite IH. reflexivity. Qed.
Lemma maxh_in nm c ch : In (nm, c) ch -> jheight c <= maxh ch.
Proof. unfold maxh. induction ch as [|[n0 c0] r IH]; intro H; [destruct H|]. cbn.
  destruct H as [E|H]; [inversion E; subst; lia | specialize (IH H); lia]. Qed.

Lemma wf_group a ch : wf_jnode (JG a ch) = true ->
  nodupb (map fst ch) = true /\ forall nm c, In (nm, c) ch -> wf_jnode c = true.
Proof. cbn [wf_jnode]. intro H. apply andb_true_iff in H. destruct H as [H1 H2]. split; [exact H1|].
  induction ch as [|[n0 c0] r IH]; intros nm c Hin; [destruct Hin|].
  apply andb_true_iff in H2. destruct H2 as [Hc Hr]. destruct Hin as [E|Hin].
  - inversion E; subst. exact Hc.
  - cbn [map fst] in H1. apply nodupb_cons in H1. apply (IH (proj2 H1) Hr nm c Hin). Qed.

(* ---------- the round trip ---------- *)
Lemma build_keys f : forall t, wf_jnode t = true -> forall n, jheight t < n -> build n f (keys_of_jtree f t) = Some (Some t).
Proof. induction t as [a|a ch IH] using jnode_ind'; intros Hwf n Hn.
  - destruct n as [|n]; [lia|]. apply build_array. exact Hwf.
  - destruct n as [|n]; [lia|]. rewrite jheight_group in Hn. destruct (wf_group _ _ Hwf) as [Hnd Hch].
    cbn [build]. rewrite node_doc_group, (names_group _ _ _ Hnd).
    rewrite (collect_all _ ch); [reflexivity|].
    intros nm c Hin. rewrite (strip_group _ _ _ _ _ Hnd Hin).
    rewrite Forall_forall in IH. apply (IH (nm, c) Hin); [apply (Hch nm c Hin)|].
    pose proof (maxh_in _ _ _ Hin). cbn [snd]. lia. Qed.

Lemma maxlen_app a b : maxlen (a ++ b) = Nat.max (maxlen a) (maxlen b).
Proof. unfold maxlen. induction a as [|x r IH]; cbn; [reflexivity|]. rewrite IH. lia. Qed.
Lemma maxlen_prefix n ks : ks <> [] -> maxlen (prefix n ks) = S (maxlen ks).
Proof. unfold maxlen, prefix. induction ks as [|x r IH]; intro H; [contradiction|]. cbn.
  destruct r as [|y r']; [cbn; lia|]. rewrite IH by discriminate. cbn. lia. Qed.
Lemma keys_nonnil f t : keys_of_jtree f t <> [].
Proof. destruct t as [a|a ch]; [unfold keys_of_jtree, array_keys; destruct f; discriminate|].
  rewrite keys_of_group. destruct f; discriminate. Qed.

Lemma jheight_maxlen f : forall t, jheight t <= maxlen (keys_of_jtree f t).
Proof. induction t as [a|a ch IH] using jnode_ind'; [cbn [jheight]; lia|].
  rewrite jheight_group, keys_of_group, maxlen_app.
  assert (H1 : maxlen (group_docs f a) = 1) by (destruct f; reflexivity). rewrite H1.
  assert (H2 : ch = [] \/ S (maxh ch) <= maxlen (blocks f ch)).
  { unfold blocks, maxh. induction ch as [|[n c] r IHr]; [left; reflexivity|]. right.
    inversion IH as [|? ? Hc Hr]; subst. cbn [flat_map fold_right fst snd] in *.
    rewrite maxlen_app, (maxlen_prefix _ _ (keys_nonnil f c)).
    destruct (IHr Hr) as [->|Hle]; [cbn; lia | lia]. }
  destruct H2 as [->|H2]; [cbn; lia | lia]. Qed.

Theorem jtree_keys_roundtrip f t : wf_jnode t = true -> jtree_of_keys f (keys_of_jtree f t) = Some t.
Proof. intro H. unfold jtree_of_keys. rewrite (build_keys f t H); [reflexivity|].
  pose proof (jheight_maxlen f t). lia. Qed.

(* ---------- to and from the tree of Tree.v ---------- *)
Fixpoint znode_ind' (P : znode -> Prop) (HA : forall a, P (ZA a))
    (HG : forall a ch, Forall (fun nc => P (snd nc)) ch -> P (ZG a ch)) (t : znode) : P t :=
  match t with
  | ZA a => HA a
  | ZG a ch => HG a ch ((fix go (l : list (string * znode)) : Forall (fun nc => P (snd nc)) l :=
                           match l with
                           | [] => Forall_nil _
                           | nc :: r => Forall_cons nc (znode_ind' P HA HG (snd nc)) (go r)
                           end) ch)
  end.

Definition conc_children C (ch : list (string * znode)) : list (string * jnode) :=
  map (fun nc => (fst nc, conc_tree C false (snd nc))) ch.
Definition abs_children A (ch : list (string * jnode)) : list (string * znode) :=
  map (fun nc => (fst nc, abs_tree A false (snd nc))) ch.
Lemma conc_group C root a ch :
  conc_tree C root (ZG a ch) = JG (map (fun kv => (fst kv, C root (fst kv) (snd kv))) a) (conc_children C ch).
Proof. cbn [conc_tree]. f_equal. unfold conc_children. induction ch as [|[n c] r IH]; cbn; [reflexivity|]. rewrite IH. reflexivity. Qed.
Lemma abs_group A root a ch :
  abs_tree A root (JG a ch) = ZG (map (fun kv => (fst kv, A root (fst kv) (snd kv))) a) (abs_children A ch).
Proof. cbn [abs_tree]. f_equal. unfold abs_children. induction ch as [|[n c] r IH]; cbn; [reflexivity|]. rewrite IH. reflexivity. Qed.

Lemma attrs_rt_group A C root a ch : attrs_rt A C root (ZG a ch) ->
  Forall (fun kv => A root (fst kv) (C root (fst kv) (snd kv)) = snd kv) a /\ Forall (fun nc => attrs_rt A C false (snd nc)) ch.
Proof. cbn [attrs_rt]. intros [H1 H2]. split; [exact H1|].
  induction ch as [|[n c] r IH]; [constructor|]. destruct H2 as [Hc Hr]. constructor; [exact Hc | apply IH; exact Hr]. Qed.

Lemma abs_conc A C : forall t root, attrs_rt A C root t -> abs_tree A root (conc_tree C root t) = t.
Proof. induction t as [a|a ch IH] using znode_ind'; intros root H; [reflexivity|].
  destruct (attrs_rt_group _ _ _ _ _ H) as [Ha Hc]. rewrite conc_group, abs_group. f_equal.
  - rewrite map_map. cbn [fst snd]. clear -Ha. induction a as [|[k v] r IHr]; [reflexivity|].
    inversion Ha as [|? ? Hk Hr]; subst. cbn in *. rewrite Hk, (IHr Hr). reflexivity.
  - unfold abs_children, conc_children. rewrite map_map. cbn [fst snd]. clear -IH Hc.
    induction ch as [|[n c] r IHr]; [reflexivity|].
    inversion IH as [|? ? I1 I2]; subst. inversion Hc as [|? ? C1 C2]; subst. cbn in *.
    rewrite (I1 false C1), (IHr I2 C2). reflexivity. Qed.

Lemma wf_conc C : forall t root, wf_jnode (conc_tree C root t) = wf_tree t.
Proof. induction t as [a|a ch IH] using znode_ind'; intro root; [reflexivity|].
  rewrite conc_group. cbn [wf_jnode wf_tree]. unfold conc_children. rewrite map_map. cbn [fst]. f_equal.
  induction ch as [|[n c] r IHr]; [reflexivity|]. inversion IH as [|? ? I1 I2]; subst. cbn in *.
  rewrite (I1 false), (IHr I2). reflexivity. Qed.

Theorem tree_keys_roundtrip A C f t :
  wf_tree t = true -> attrs_rt A C true t -> tree_of_keys A f (keys_of_tree C f t) = Some t.
Proof. intros Hwf Hrt. unfold tree_of_keys, keys_of_tree.
  rewrite jtree_keys_roundtrip by (rewrite wf_conc; exact Hwf). cbn [option_map]. rewrite (abs_conc _ _ _ _ Hrt). reflexivity. Qed.

(* ---------- the fuel does not matter ---------- *)
Lemma collect_ext g g' nms : (forall nm, In nm nms -> g nm = g' nm) -> collect g nms = collect g' nms.
Proof. induction nms as [|nm r IH]; intro H; cbn; [reflexivity|].
  rewrite <- (H nm (or_introl eq_refl)), IH; [reflexivity|]. intros x Hx. apply H. right. exact Hx. Qed.

Lemma in_dedup x l : In x (dedup l) <-> In x l.
Proof. induction l as [|y r IH]; cbn; [tauto|]. rewrite filter_In, IH. split.
  - intros [H|[H _]]; auto.
  - intros [H|H]; [auto|]. destruct (String.eqb y x) eqn:E; [apply String.eqb_eq in E; auto|]. right. split; [exact H | reflexivity]. Qed.

Lemma nodup_dedup l : NoDup (dedup l).
Proof. induction l as [|y r IH]; cbn; [constructor|]. constructor.
  - rewrite filter_In. intros [_ H]. rewrite String.eqb_refl in H. discriminate.
  - apply NoDup_filter. exact IH. Qed.

(* a member name comes from a key [name; node document] *)
Lemma in_docheads f nm ks : In nm (docheads f ks) <-> exists d v, In ([nm; d], v) ks /\ is_node_key f d = true.
Proof. unfold docheads. rewrite in_flat_map. split.
  - intros [[k v] [Hin H]]. cbn in H. destruct k as [|h [|d [|? ?]]]; try destruct H.
    destruct (is_node_key f d) eqn:E; [|destruct H]. destruct H as [<-|[]]. exists d, v. split; assumption.
  - intros [d [v [Hin E]]]. exists ([nm; d], v). split; [exact Hin|]. cbn. rewrite E. left. reflexivity. Qed.

Lemma maxlen_in k v ks : In (k, v) ks -> length k <= maxlen ks.
Proof. unfold maxlen. induction ks as [|x r IH]; intro H; [destruct H|]. cbn. destruct H as [->|H]; [cbn; lia | specialize (IH H); lia]. Qed.

Lemma in_strip nm k v ks : In (k, v) (strip nm ks) <-> (exists b r, k = b :: r) /\ In (nm :: k, v) ks.
Proof. unfold strip. rewrite in_flat_map. split.
  - intros [[k' v'] [Hin H]]. cbn in H. destruct k' as [|h [|b r]]; try destruct H.
    destruct (String.eqb h nm) eqn:E; [|destruct H]. apply String.eqb_eq in E. subst h.
    destruct H as [H|[]]. inversion H; subst. split; [eauto | exact Hin].
  - intros [[b [r ->]] Hin]. exists (nm :: b :: r, v). split; [exact Hin|]. cbn. rewrite String.eqb_refl. left. reflexivity. Qed.

Lemma maxlen_le ks n : (forall k v, In (k, v) ks -> length k <= n) -> maxlen ks <= n.
Proof. unfold maxlen. induction ks as [|[k v] r IH]; intro H; cbn; [lia|].
  pose proof (H k v (or_introl eq_refl)). assert (fold_right (fun kv m => Nat.max (length (fst kv)) m) 0 r <= n).
  { apply IH. intros k' v' Hin. apply (H k' v'). right. exact Hin. } lia. Qed.

Lemma maxlen_strip nm ks : S (maxlen (strip nm ks)) <= Nat.max 1 (maxlen ks).
Proof. assert (H : maxlen (strip nm ks) <= Nat.max 1 (maxlen ks) - 1).
  { apply maxlen_le. intros k v Hin. apply in_strip in Hin. destruct Hin as [_ Hin].
    apply maxlen_in in Hin. cbn in Hin. lia. } lia. Qed.

Lemma names_maxlen f nm ks : In nm (names f ks) -> 2 <= maxlen ks.
Proof. unfold names. rewrite in_dedup, in_docheads. intros [d [v [Hin _]]]. apply maxlen_in in Hin. exact Hin. Qed.

Lemma build_fuel f : forall n m ks, maxlen ks < n -> maxlen ks < m -> build n f ks = build m f ks.
Proof. induction n as [|n IH]; intros m ks Hn Hm; [lia|]. destruct m as [|m]; [lia|]. cbn [build].
  destruct (node_doc f ks); try reflexivity.
  rewrite (collect_ext _ (fun nm => build m f (strip nm ks))); [reflexivity|].
  intros nm Hin. pose proof (names_maxlen _ _ _ Hin). pose proof (maxlen_strip nm ks). apply IH; lia. Qed.

(* ---------- a member depends on the keys below it only ---------- *)
Lemma alookup_collect g nm : forall nms ch, NoDup nms -> collect g nms = Some ch ->
  alookup nm ch = if smem nm nms then match g nm with Some (Some c) => Some c | _ => None end else None.
Proof. induction nms as [|n0 r IH]; intros ch Hnd H; cbn in H.
  - inversion H; subst. reflexivity.
  - inversion Hnd as [|? ? Hnotin Hnd']; subst. cbn [smem existsb]. fold (smem nm r).
    destruct (g n0) as [[c0|]|] eqn:Eg; [| |discriminate].
    + destruct (collect g r) as [l|] eqn:Ec; [|discriminate]. inversion H; subst. cbn [alookup].
      destruct (String.eqb nm n0) eqn:E.
      * apply String.eqb_eq in E. subst n0. rewrite Eg. reflexivity.
      * cbn [orb]. apply IH; [exact Hnd' | reflexivity].
    + destruct (String.eqb nm n0) eqn:E.
      * apply String.eqb_eq in E. subst n0. rewrite Eg. cbn [orb].
        rewrite (IH ch Hnd' H). destruct (smem nm r) eqn:Es; [|reflexivity]. apply smem_In in Es. contradiction.
      * cbn [orb]. apply IH; assumption. Qed.

Lemma klookup_in k v ks : klookup k ks = Some v -> In (k, v) ks.
Proof. induction ks as [|[k' v'] r IH]; cbn; [discriminate|]. destruct (key_eqb k k') eqn:E; intro H.
  - apply key_eqb_eq in E. inversion H; subst. left. reflexivity.
  - right. apply IH. exact H. Qed.

Lemma klookup_strip nm b r ks : klookup (b :: r) (strip nm ks) = klookup (nm :: b :: r) ks.
Proof. unfold strip. induction ks as [|[k v] q IH]; cbn; [reflexivity|].
  destruct k as [|h [|b' r']].
  - cbn. exact IH.
  - cbn. unfold key_eqb. cbn. rewrite andb_false_r. exact IH.
  - cbn. destruct (String.eqb h nm) eqn:E.
    + apply String.eqb_eq in E. subst h. cbn. unfold key_eqb. cbn. rewrite String.eqb_refl. cbn.
      destruct (String.eqb b b' && list_eqb String.eqb r r'); [reflexivity | exact IH].
    + cbn. unfold key_eqb. cbn. rewrite String.eqb_sym, E. cbn. exact IH. Qed.

Lemma node_doc_absent f nm ks : ~ In nm (names f ks) -> node_doc f (strip nm ks) = NDNone.
Proof. intro H. unfold names in H. rewrite in_dedup, in_docheads in H.
  assert (Hn : forall d, is_node_key f d = true -> klookup [d] (strip nm ks) = None).
  { intros d Hd. rewrite klookup_strip. destruct (klookup [nm; d] ks) as [v|] eqn:E; [|reflexivity].
    exfalso. apply H. exists d, v. split; [apply klookup_in; exact E | exact Hd]. }
  destruct f; unfold node_doc.
  - rewrite (Hn ".zarray" eq_refl), (Hn ".zgroup" eq_refl). reflexivity.
  - rewrite (Hn "zarr.json" eq_refl). reflexivity. Qed.

Definition flatten (r : option (option jnode)) : option jnode := match r with Some (Some t) => Some t | _ => None end.
Lemma jtree_of_keys_flatten f ks : jtree_of_keys f ks = flatten (build (S (maxlen ks)) f ks).
Proof. reflexivity. Qed.

Lemma root_attrs_of_keys f ks a ch : jtree_of_keys f ks = Some (JG a ch) -> root_attrs f ks = Some a.
Proof. unfold jtree_of_keys, root_attrs. cbn [build]. destruct (node_doc f ks) as [| |am|a0]; try discriminate.
  - destruct (array_flat am ks); discriminate.
  - destruct (collect _ _); [|discriminate]. intro H. inversion H; subst. reflexivity. Qed.

(* the member nm of the hierarchy a store holds is the hierarchy held by the keys below nm/ *)
Theorem child_of_keys f ks a ch nm :
  jtree_of_keys f ks = Some (JG a ch) -> alookup nm ch = jtree_of_keys f (strip nm ks).
Proof. intro H. unfold jtree_of_keys in H. cbn [build] in H.
  destruct (node_doc f ks) as [| |am|a0]; try discriminate; [destruct (array_flat am ks); discriminate|].
  destruct (collect (fun nm0 => build (maxlen ks) f (strip nm0 ks)) (names f ks)) as [l|] eqn:Ec; [|discriminate].
  inversion H; subst a0 l. clear H.
  rewrite (alookup_collect _ nm _ _ (nodup_dedup _) Ec). rewrite jtree_of_keys_flatten.
  change (dedup (docheads f ks)) with (names f ks).
  destruct (smem nm (names f ks)) eqn:Es.
  - apply smem_In in Es. pose proof (names_maxlen _ _ _ Es). pose proof (maxlen_strip nm ks).
    rewrite (build_fuel f (maxlen ks) (S (maxlen (strip nm ks))) (strip nm ks)) by lia. reflexivity.
  - assert (Hn : ~ In nm (names f ks)) by (intro Hin; apply smem_In in Hin; rewrite Hin in Es; discriminate).
    cbn [build]. rewrite (node_doc_absent _ _ _ Hn). reflexivity. Qed.

(* keys outside nodes/ and edges/, and root attributes other than "geff", do not influence the geff part (of a store whose root
   is a group: below an array root no member is looked at) *)
Theorem geff_part_frame f ks ks' a ch a' ch' :
  jtree_of_keys f ks = Some (JG a ch) -> jtree_of_keys f ks' = Some (JG a' ch') ->
  Meta.jget "geff" a = Meta.jget "geff" a' ->
  strip "nodes" ks = strip "nodes" ks' -> strip "edges" ks = strip "edges" ks' ->
  geff_part (JG a ch) = geff_part (JG a' ch').
Proof. intros H H' Ha Hn He. unfold geff_part. cbn [jattr jchild]. rewrite Ha.
  rewrite (child_of_keys _ _ _ _ "nodes" H), (child_of_keys _ _ _ _ "edges" H), (child_of_keys _ _ _ _ "nodes" H'),
    (child_of_keys _ _ _ _ "edges" H'), Hn, He. reflexivity. Qed.

(* the same on the abstract tree: the geff attribute and the members nodes / edges of tree_of_keys *)
Definition zgeff_part (t : znode) : option aval * option znode * option znode :=
  (alookup "geff" (attrs_of t), get t "nodes", get t "edges").

Lemma alookup_abs_attrs (A : bool -> string -> Meta.jv -> aval) root k a :
  alookup k (map (fun kv => (fst kv, A root (fst kv) (snd kv))) a) = option_map (A root k) (Meta.jget k a).
Proof. induction a as [|[k' v] r IH]; cbn; [reflexivity|]. destruct (String.eqb k k') eqn:E; [|exact IH].
  apply String.eqb_eq in E. subst. reflexivity. Qed.
Lemma alookup_abs_children A k ch : alookup k (abs_children A ch) = option_map (abs_tree A false) (alookup k ch).
Proof. unfold abs_children. induction ch as [|[k' v] r IH]; cbn; [reflexivity|]. destruct (String.eqb k k'); [reflexivity | exact IH]. Qed.

Lemma zgeff_part_abs A a ch :
  zgeff_part (abs_tree A true (JG a ch)) =
  (option_map (A true "geff") (Meta.jget "geff" a), option_map (abs_tree A false) (alookup "nodes" ch),
   option_map (abs_tree A false) (alookup "edges" ch)).
Proof. rewrite abs_group. unfold zgeff_part, get. cbn [attrs_of children].
  rewrite alookup_abs_attrs, !alookup_abs_children. reflexivity. Qed.

Theorem tree_geff_part_frame A f ks ks' a ch a' ch' :
  jtree_of_keys f ks = Some (JG a ch) -> jtree_of_keys f ks' = Some (JG a' ch') ->
  Meta.jget "geff" a = Meta.jget "geff" a' ->
  strip "nodes" ks = strip "nodes" ks' -> strip "edges" ks = strip "edges" ks' ->
  exists t t', tree_of_keys A f ks = Some t /\ tree_of_keys A f ks' = Some t' /\ zgeff_part t = zgeff_part t'.
Proof. intros H H' Ha Hn He. unfold tree_of_keys. rewrite H, H'. cbn [option_map]. eexists. eexists. split; [reflexivity|]. split; [reflexivity|].
  rewrite !zgeff_part_abs. pose proof (geff_part_frame _ _ _ _ _ _ _ H H' Ha Hn He) as Hg. unfold geff_part in Hg. cbn [jattr jchild] in Hg.
  inversion Hg as [[H1 H2 H3]]. rewrite Ha, H2, H3. reflexivity. Qed.

(* ---------- keys as strings ---------- *)
Lemma split_slash_free x : slash_free x = true -> split_slash x = [x].
Proof. induction x as [|c r IH]; cbn; [reflexivity|]. intro H. apply andb_true_iff in H. destruct H as [Hc Hr].
  apply negb_true_iff in Hc. rewrite Hc, (IH Hr). reflexivity. Qed.

Lemma split_slash_app x rest : slash_free x = true -> split_slash (x ++ "/" ++ rest)%string = x :: split_slash rest.
Proof. induction x as [|c r IH]; cbn; [reflexivity|]. intro H. apply andb_true_iff in H. destruct H as [Hc Hr].
  apply negb_true_iff in Hc. rewrite Hc. cbn in IH. rewrite (IH Hr). reflexivity. Qed.

Theorem split_join_key k : k <> [] -> forallb slash_free k = true -> split_slash (key_string k) = k.
Proof. unfold key_string. induction k as [|x r IH]; intros Hne H; [contradiction|].
  cbn [forallb] in H. apply andb_true_iff in H. destruct H as [Hx Hr]. destruct r as [|y r'].
  - cbn [join]. apply split_slash_free. exact Hx.
  - change (join "/" (x :: y :: r')) with (String.append x (String.append "/" (join "/" (y :: r')))).
    rewrite (split_slash_app _ _ Hx), IH; [reflexivity | discriminate | exact Hr]. Qed.

(* every key the layout function produces, written as a "/"-joined string, splits back into its components *)
Definition good_key (k : key) : Prop := k <> [] /\ forallb slash_free k = true.

Lemma slash_free_append a b : slash_free (a ++ b)%string = slash_free a && slash_free b.
Proof. induction a as [|c r IH]; cbn; [reflexivity|]. rewrite IH. apply andb_assoc. Qed.

Lemma slash_free_join_zeros shape : slash_free (join "." (map dec (zeros shape))) = true.
Proof. unfold zeros. induction shape as [|n r IH]; [reflexivity|]. cbn [map]. rewrite dec_0.
  destruct r as [|m r']; [reflexivity|].
  change (join "." ("0" :: map dec (map (fun _ => 0) (m :: r')))) with (String.append "0" (String.append "." (join "." (map dec (map (fun _ => 0) (m :: r')))))).
  rewrite !slash_free_append, IH. reflexivity. Qed.

Lemma good_chunk_key f shape : good_key (chunk_key (array_enc f) (zeros shape)).
Proof. destruct f; cbn [array_enc chunk_key]; split; try discriminate.
  - cbn [forallb]. rewrite andb_true_r. destruct (map dec (zeros shape)) eqn:E; [reflexivity|]. rewrite <- E. apply slash_free_join_zeros.
  - cbn [forallb]. change (slash_free "c") with true. cbn [andb]. unfold zeros. induction shape as [|n r IH]; [reflexivity|].
    cbn [map forallb]. rewrite dec_0, IH. reflexivity. Qed.

Lemma good_array_keys f a : Forall (fun kv => good_key (fst kv)) (array_keys f a).
Proof. unfold array_keys. apply Forall_app. split.
  - destruct f; repeat constructor; cbn; discriminate.
  - destruct (has_zero (a_shape a)); [constructor|]. constructor; [apply good_chunk_key | constructor]. Qed.

Lemma good_prefix n ks : slash_free n = true -> Forall (fun kv => good_key (fst kv)) ks -> Forall (fun kv => good_key (fst kv)) (prefix n ks).
Proof. intros Hn H. unfold prefix. apply Forall_forall. intros kv Hin. apply in_map_iff in Hin. destruct Hin as [x [<- Hx]].
  rewrite Forall_forall in H. destruct (H x Hx) as [_ Hg]. cbn [fst]. split; [discriminate|].
  change (forallb slash_free (n :: fst x)) with (slash_free n && forallb slash_free (fst x)).
  apply andb_true_iff. split; assumption. Qed.

Lemma names_slash_free_group a ch : names_slash_free (JG a ch) = true ->
  forall nm c, In (nm, c) ch -> slash_free nm = true /\ names_slash_free c = true.
Proof. cbn [names_slash_free]. induction ch as [|[n0 c0] r IH]; intros H nm c Hin; [destruct Hin|].
  apply andb_true_iff in H. destruct H as [H Hr]. apply andb_true_iff in H. destruct H as [Hn Hc].
  destruct Hin as [E|Hin]; [inversion E; subst; split; assumption | apply (IH Hr nm c Hin)]. Qed.

Lemma good_keys_of f : forall t, names_slash_free t = true -> Forall (fun kv => good_key (fst kv)) (keys_of_jtree f t).
Proof. induction t as [a|a ch IH] using jnode_ind'; intro H; [apply good_array_keys|].
  rewrite keys_of_group. apply Forall_app. split; [destruct f; repeat constructor; cbn; discriminate|].
  pose proof (names_slash_free_group _ _ H) as Hg. clear H. unfold blocks.
  induction ch as [|[n c] r IHr]; cbn [flat_map fst snd]; [constructor|].
  inversion IH as [|? ? I1 I2]; subst. apply Forall_app. split.
  - destruct (Hg n c (or_introl eq_refl)) as [Hn Hc]. apply good_prefix; [exact Hn | apply I1; exact Hc].
  - apply IHr; [exact I2|]. intros nm c' Hin. apply Hg. right. exact Hin. Qed.

Theorem keys_strings_split f t : names_slash_free t = true ->
  Forall (fun kv => split_slash (key_string (fst kv)) = fst kv) (keys_of_jtree f t).
Proof. intro H. eapply Forall_impl; [|apply (good_keys_of f t H)]. intros kv [Hne Hs]. apply split_join_key; assumption. Qed.
