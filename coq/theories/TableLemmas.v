(* TableLemmas.v -- proofs about Table.v (model of geff_to_dataframes / geff_to_csv). *)
From Geff Require Import Base Table.
From Coq Require Import DecimalString DecimalNat FinFun.
Open Scope list_scope.

(* ------------------------------------------------------------------ *)
(* python dict                                                         *)
(* ------------------------------------------------------------------ *)
Lemma dict_set_fresh d k v : ~ In k (map fst d) -> dict_set d k v = d ++ [(k, v)].
Proof.
  induction d as [|[k' v'] r IH]; intro Hn; cbn; [reflexivity|].
  destruct (String.eqb k' k) eqn:E.
  - apply String.eqb_eq in E. subst. exfalso. apply Hn. left. reflexivity.
  - rewrite IH; [reflexivity|]. intro Hi. apply Hn. right. exact Hi.
Qed.

Lemma dict_set_keys d k v n : In n (map fst (dict_set d k v)) <-> In n (map fst d) \/ n = k.
Proof.
  induction d as [|[k' v'] r IH]; cbn.
  - split; [intros [H|[]]; right; symmetry; exact H | intros [[]|H]; left; symmetry; exact H].
  - destruct (String.eqb k' k) eqn:E; cbn.
    + apply String.eqb_eq in E. subst. split; [intros [H|H]; left; [left|right]; exact H|].
      intros [[H|H]|H]; [left; exact H | right; exact H | left; symmetry; exact H].
    + rewrite IH. tauto.
Qed.

Lemma dict_set_forall (P : column -> Prop) d k v :
  Forall P d -> P (k, v) -> (forall v', P (k, v') -> P (k, v)) -> Forall P (dict_set d k v).
Proof.
  intros Hd Hk _. induction Hd as [|[k' v'] r Hc Hr IH]; cbn.
  - constructor; [exact Hk | constructor].
  - destruct (String.eqb k' k) eqn:E.
    + apply String.eqb_eq in E. subst. constructor; [exact Hk | exact Hr].
    + constructor; [exact Hc | exact IH].
Qed.

Lemma lookup_In t : NoDup (map fst t) -> forall k v, In (k, v) t -> lookup t k = Some v.
Proof.
  induction t as [|[k' v'] r IH]; intros Hnd k v Hin; [destruct Hin|].
  cbn in Hnd. inversion Hnd as [|? ? Hnot Hnd']; subst. cbn.
  destruct Hin as [Heq|Hin].
  - inversion Heq; subst. rewrite String.eqb_refl. reflexivity.
  - destruct (String.eqb k' k) eqn:E.
    + apply String.eqb_eq in E. subst. exfalso. apply Hnot.
      change k with (fst (k, v)). apply in_map. exact Hin.
    + apply IH; assumption.
Qed.

Lemma NoDup_app_l {A} (a b : list A) : NoDup (a ++ b) -> NoDup a.
Proof.
  induction a as [|x a IH]; intro H; [constructor|]. cbn in H. inversion H as [|? ? Hn Hr]; subst.
  constructor; [intro Hi; apply Hn; apply in_or_app; left; exact Hi | apply IH; exact Hr].
Qed.

Lemma nodupb_NoDup l : nodupb l = true <-> NoDup l.
Proof.
  induction l as [|x r IH]; cbn.
  - split; [constructor | reflexivity].
  - rewrite andb_true_iff, negb_true_iff, IH. split.
    + intros [Hm Hr]. constructor; [|exact Hr]. intro Hi. apply smem_In in Hi. congruence.
    + intro H. inversion H as [|? ? Hn Hr]; subst. split; [|exact Hr].
      destruct (smem x r) eqn:E; [|reflexivity]. apply smem_In in E. contradiction.
Qed.

(* ------------------------------------------------------------------ *)
(* columns                                                             *)
(* ------------------------------------------------------------------ *)
Lemma map_seq_shift {A} (f : nat -> A) s n : map f (seq (S s) n) = map (fun i => f (S i)) (seq s n).
Proof. rewrite <- seq_shift, map_map. reflexivity. Qed.

Lemma mask_cells_spec m : forall vs, List.length m = List.length vs ->
  mask_cells m vs = map (fun i => if nth i m false then NaN else Val (nth i vs 0%Z)) (seq 0 (List.length vs)).
Proof.
  induction m as [|b m IH]; intros [|v vs] Hl; cbn in Hl; try discriminate; [reflexivity|].
  cbn [mask_cells List.length seq map nth]. f_equal.
  rewrite map_seq_shift. cbn [nth]. apply IH. lia.
Qed.

Lemma map_Val_spec vs : map Val vs = map (fun i => Val (nth i vs 0%Z)) (seq 0 (List.length vs)).
Proof.
  induction vs as [|v vs IH]; [reflexivity|].
  cbn [map List.length seq nth]. f_equal. rewrite map_seq_shift. cbn [nth]. exact IH.
Qed.

Lemma existsb_id_false m : existsb (fun b : bool => b) m = false -> forall i, nth i m false = false.
Proof.
  induction m as [|b m IH]; intros H i; [destruct i; reflexivity|].
  cbn in H. apply orb_false_iff in H. destruct H as [Hb Hm]. destruct i; cbn; [exact Hb | apply IH; exact Hm].
Qed.

Definition missed (miss : option (list bool)) (i : nat) : bool :=
  match miss with Some m => nth i m false | None => false end.

(* a masked column, cell by cell *)
Lemma masked_series_spec vs miss :
  (forall m, miss = Some m -> List.length m = List.length vs) ->
  masked_series vs miss =
    map (fun i => if missed miss i then NaN else Val (nth i vs 0%Z)) (seq 0 (List.length vs)).
Proof.
  intro Hl. destruct miss as [m|]; cbn [masked_series missed].
  - destruct (existsb (fun b => b) m) eqn:E.
    + apply mask_cells_spec. apply Hl. reflexivity.
    + rewrite map_Val_spec. apply map_ext. intro i. rewrite (existsb_id_false m E). reflexivity.
  - apply map_Val_spec.
Qed.

Lemma masked_series_length vs miss :
  (forall m, miss = Some m -> List.length m = List.length vs) ->
  List.length (masked_series vs miss) = List.length vs.
Proof. intro H. rewrite masked_series_spec by exact H. rewrite map_length, seq_length. reflexivity. Qed.

Lemma col_of_length n k j vs : List.length (col_of n k j vs) = n.
Proof. unfold col_of. rewrite map_length, seq_length. reflexivity. Qed.

Lemma nth_map_seq {A} (f : nat -> A) n i d : (i < n)%nat -> nth i (map f (seq 0 n)) d = f i.
Proof.
  intro H. rewrite (nth_indep _ d (f 0%nat)) by (rewrite map_length, seq_length; exact H).
  rewrite (map_nth f (seq 0 n) 0%nat i). rewrite seq_nth by exact H. reflexivity.
Qed.

Lemma col_of_nth n k j vs i : (i < n)%nat -> nth i (col_of n k j vs) 0%Z = nth (i * k + j) vs 0%Z.
Proof. intro H. unfold col_of. apply (nth_map_seq (fun i0 => nth (i0 * k + j) vs 0%Z)). exact H. Qed.

(* ------------------------------------------------------------------ *)
(* shapes                                                              *)
(* ------------------------------------------------------------------ *)
Lemma prod_filter_keep t : prod_dims (filter keep_dim t) = prod_dims t.
Proof.
  induction t as [|d t IH]; [reflexivity|]. cbn [filter]. unfold keep_dim at 1.
  destruct (Nat.eqb d 1) eqn:E; cbn [negb prod_dims].
  - apply Nat.eqb_eq in E. subst. rewrite IH. lia.
  - rewrite IH. reflexivity.
Qed.

(* the columns a property contributes, as the code computes them *)
Definition spec_columns (p : prop) : table :=
  match squeeze_trailing (p_shape p) with
  | [n; k] => map (fun j => (colname (p_name p) j, masked_series (col_of n k j (p_vals p)) (p_miss p))) (seq 0 k)
  | _ :: _ :: _ :: _ => []
  | _ => [(p_name p, masked_series (p_vals p) (p_miss p))]
  end.

Definition warn_of (p : prop) : list string :=
  match cols_of p with Some _ => [] | None => [p_name p] end.

Definition names_of (p : prop) : list string :=
  match cols_of p with Some l => l | None => [] end.

Lemma spec_columns_names p : map fst (spec_columns p) = names_of p.
Proof.
  unfold spec_columns, names_of, cols_of, trailing, squeeze_trailing.
  destruct (p_shape p) as [|n t]; [reflexivity|]. cbn [tl].
  destruct (filter keep_dim t) as [|k [|k2 r]]; [reflexivity| |reflexivity].
  rewrite map_map. cbn [fst]. reflexivity.
Qed.

(* ------------------------------------------------------------------ *)
(* the property loop                                                   *)
(* ------------------------------------------------------------------ *)
Lemma fold_dict_set_fresh (cols : table) : forall d,
  NoDup (map fst d ++ map fst cols) ->
  fold_left (fun d' c => dict_set d' (fst c) (snd c)) cols d = d ++ cols.
Proof.
  induction cols as [|[k v] r IH]; intros d Hnd; cbn [fold_left].
  - rewrite app_nil_r. reflexivity.
  - cbn [map fst snd] in *. rewrite dict_set_fresh.
    + rewrite IH.
      * rewrite <- app_assoc. reflexivity.
      * rewrite map_app. cbn [map fst]. rewrite <- app_assoc. exact Hnd.
    + apply NoDup_remove_2 in Hnd. intro Hi. apply Hnd. apply in_or_app. left. exact Hi.
Qed.

Lemma fold_seq_as_cols (f : nat -> column) l : forall d,
  fold_left (fun d' j => dict_set d' (fst (f j)) (snd (f j))) l d =
  fold_left (fun d' c => dict_set d' (fst c) (snd c)) (map f l) d.
Proof. induction l as [|j l IH]; intro d; [reflexivity|]. cbn [fold_left map]. apply IH. Qed.

(* the loop body as "update the dict with these columns, maybe warn" -- no side condition *)
Lemma export_prop_as_cols d w p :
  export_prop (d, w) p =
  (fold_left (fun d' c => dict_set d' (fst c) (snd c)) (spec_columns p) d, w ++ warn_of p).
Proof.
  unfold export_prop, spec_columns, warn_of, cols_of, trailing, squeeze_trailing.
  destruct (p_shape p) as [|n t]; cbn [tl filter].
  - rewrite app_nil_r. reflexivity.
  - destruct (filter keep_dim t) as [|k [|k2 r]].
    + rewrite app_nil_r. reflexivity.
    + rewrite app_nil_r. f_equal.
      exact (fold_seq_as_cols (fun j => (colname (p_name p) j, masked_series (col_of n k j (p_vals p)) (p_miss p))) (seq 0 k) d).
    + reflexivity.
Qed.

Lemma export_loop_warnings props : forall d w,
  snd (fold_left export_prop props (d, w)) = w ++ flat_map warn_of props.
Proof.
  induction props as [|p r IH]; intros d w; cbn [fold_left flat_map].
  - rewrite app_nil_r. reflexivity.
  - rewrite export_prop_as_cols, IH, <- app_assoc. reflexivity.
Qed.

Lemma export_loop_distinct props : forall d w,
  NoDup (map fst d ++ flat_map names_of props) ->
  fold_left export_prop props (d, w) = (d ++ flat_map spec_columns props, w ++ flat_map warn_of props).
Proof.
  induction props as [|p r IH]; intros d w Hnd; cbn [fold_left flat_map].
  - rewrite !app_nil_r. reflexivity.
  - cbn [flat_map] in Hnd. rewrite app_assoc in Hnd.
    rewrite export_prop_as_cols, fold_dict_set_fresh.
    + rewrite IH.
      * rewrite <- !app_assoc. reflexivity.
      * rewrite map_app, spec_columns_names. exact Hnd.
    + rewrite spec_columns_names. apply NoDup_app_l in Hnd. exact Hnd.
Qed.

Lemma init_dict_distinct idcols : NoDup (map fst idcols) -> init_dict idcols = idcols.
Proof. intro H. unfold init_dict. rewrite fold_dict_set_fresh; [reflexivity | exact H]. Qed.

(* the whole table, when no two sources claim a column name *)
Lemma export_distinct idcols props :
  NoDup (all_colnames idcols props) ->
  export idcols props = (idcols ++ flat_map spec_columns props, flat_map warn_of props).
Proof.
  intro Hnd. unfold export. unfold all_colnames in Hnd. fold names_of in Hnd.
  rewrite init_dict_distinct by (apply NoDup_app_l in Hnd; exact Hnd).
  rewrite export_loop_distinct by exact Hnd. reflexivity.
Qed.

(* keys of the result: nothing but id columns and exported property columns -- no side condition *)
Lemma fold_dict_set_keys (cols : table) : forall d n,
  In n (map fst (fold_left (fun d' c => dict_set d' (fst c) (snd c)) cols d)) ->
  In n (map fst d) \/ In n (map fst cols).
Proof.
  induction cols as [|[k v] r IH]; intros d n H; cbn [fold_left] in H; [left; exact H|].
  apply IH in H. cbn [map fst snd] in *. destruct H as [H|H].
  - apply dict_set_keys in H. destruct H as [H|H]; [left; exact H | right; left; symmetry; exact H].
  - right. right. exact H.
Qed.

Lemma export_loop_keys props : forall d w n,
  In n (map fst (fst (fold_left export_prop props (d, w)))) ->
  In n (map fst d) \/ In n (flat_map names_of props).
Proof.
  induction props as [|p r IH]; intros d w n H; cbn [fold_left] in H; [left; exact H|].
  rewrite export_prop_as_cols in H. apply IH in H. cbn [flat_map]. destruct H as [H|H].
  - apply fold_dict_set_keys in H. rewrite spec_columns_names in H.
    destruct H as [H|H]; [left; exact H | right; apply in_or_app; left; exact H].
  - right. apply in_or_app. right. exact H.
Qed.

Lemma export_keys idcols props n :
  In n (map fst (fst (export idcols props))) -> In n (all_colnames idcols props).
Proof.
  unfold export, all_colnames. fold names_of. intro H. apply export_loop_keys in H.
  apply in_or_app. destruct H as [H|H]; [left | right; exact H].
  unfold init_dict in H. apply fold_dict_set_keys in H. destruct H as [[]|H]. exact H.
Qed.

(* ------------------------------------------------------------------ *)
(* one row per node / edge -- no side condition on names               *)
(* ------------------------------------------------------------------ *)
Definition has_rows (N : nat) (c : column) : Prop := List.length (snd c) = N.

Lemma fold_dict_set_rows N (cols : table) : forall d,
  Forall (has_rows N) d -> Forall (has_rows N) cols ->
  Forall (has_rows N) (fold_left (fun d' c => dict_set d' (fst c) (snd c)) cols d).
Proof.
  induction cols as [|[k v] r IH]; intros d Hd Hc; cbn [fold_left]; [exact Hd|].
  inversion Hc as [|? ? Hk Hr]; subst. apply IH; [|exact Hr].
  apply dict_set_forall; [exact Hd | exact Hk | intros; exact Hk].
Qed.

Lemma wf_prop_vals N p : wf_prop N p ->
  List.length (p_vals p) = N * prod_dims (trailing p).
Proof.
  intros [[t Hs] [Hv _]]. unfold trailing. rewrite Hv, Hs. cbn [tl prod_dims].
  rewrite prod_filter_keep. reflexivity.
Qed.

Lemma spec_columns_rows N p : wf_prop N p -> Forall (has_rows N) (spec_columns p).
Proof.
  intro Hwf. pose proof (wf_prop_vals N p Hwf) as Hlen.
  destruct Hwf as [[t Hs] [_ Hm]].
  unfold spec_columns, squeeze_trailing. unfold trailing in Hlen. rewrite Hs in *. cbn [tl] in Hlen.
  destruct (filter keep_dim t) as [|k [|k2 r]].
  - constructor; [|constructor]. unfold has_rows. cbn [snd].
    cbn [prod_dims] in Hlen.
    rewrite masked_series_length; [lia|]. intros m Hmm. rewrite (Hm m Hmm). lia.
  - apply Forall_forall. intros c Hc. apply in_map_iff in Hc. destruct Hc as [j [<- _]].
    unfold has_rows. cbn [snd].
    rewrite masked_series_length; rewrite col_of_length; [reflexivity|].
    intros m Hmm. apply Hm. exact Hmm.
  - constructor.
Qed.

Lemma export_loop_rows N props : Forall (wf_prop N) props -> forall d w,
  Forall (has_rows N) d -> Forall (has_rows N) (fst (fold_left export_prop props (d, w))).
Proof.
  induction 1 as [|p r Hp Hr IH]; intros d w Hd; cbn [fold_left]; [exact Hd|].
  rewrite export_prop_as_cols. apply IH. apply fold_dict_set_rows; [exact Hd | apply spec_columns_rows; exact Hp].
Qed.

Lemma export_rows N idcols props :
  Forall (has_rows N) idcols -> Forall (wf_prop N) props ->
  forall c, In c (fst (export idcols props)) -> List.length (snd c) = N.
Proof.
  intros Hid Hwf. apply Forall_forall. unfold export. apply export_loop_rows; [exact Hwf|].
  unfold init_dict. apply fold_dict_set_rows; [constructor | exact Hid].
Qed.

(* ------------------------------------------------------------------ *)
(* warnings -- no side condition                                       *)
(* ------------------------------------------------------------------ *)
Lemma export_warnings idcols props n :
  In n (snd (export idcols props)) <-> exists p, In p props /\ p_name p = n /\ cols_of p = None.
Proof.
  unfold export. rewrite export_loop_warnings. cbn [app]. rewrite in_flat_map. split.
  - intros [p [Hp Hn]]. exists p. unfold warn_of in Hn. destruct (cols_of p); [destruct Hn|].
    destruct Hn as [Hn|[]]. auto.
  - intros [p [Hp [Hn Hc]]]. exists p. split; [exact Hp|]. unfold warn_of. rewrite Hc. left. exact Hn.
Qed.

(* ------------------------------------------------------------------ *)
(* cells of a property's columns                                       *)
(* ------------------------------------------------------------------ *)
Lemma spec_columns_cells N p names : wf_prop N p -> cols_of p = Some names ->
  forall j, (j < List.length names)%nat ->
    In (nth j names ""%string, map (fun i => spec_cell p (List.length names) i j) (seq 0 N)) (spec_columns p).
Proof.
  intros Hwf Hc j Hj. pose proof (wf_prop_vals N p Hwf) as Hlen.
  destruct Hwf as [[t Hs] [_ Hm]].
  unfold cols_of in Hc. unfold spec_columns, squeeze_trailing. unfold trailing in Hlen, Hc.
  rewrite Hs in *. cbn [tl] in Hlen, Hc.
  destruct (filter keep_dim t) as [|k [|k2 r]]; [| |discriminate].
  - inversion Hc; subst names. cbn [List.length] in *. assert (j = 0)%nat by lia. subst j. cbn [nth].
    left. f_equal. cbn [prod_dims] in Hlen.
    rewrite masked_series_spec by (intros m Hmm; rewrite (Hm m Hmm); lia).
    replace (List.length (p_vals p)) with N by lia.
    apply map_ext. intro i. unfold spec_cell, is_missing, missed.
    replace (i * 1 + 0)%nat with i by lia. reflexivity.
  - inversion Hc; subst names. rewrite map_length, seq_length in *.
    apply in_map_iff. exists j. split; [|apply in_seq; lia].
    f_equal.
    + rewrite (nth_indep _ ""%string (colname (p_name p) 0)) by (rewrite map_length, seq_length; exact Hj).
      rewrite map_nth, seq_nth by exact Hj. reflexivity.
    + rewrite masked_series_spec by (intros m Hmm; rewrite col_of_length; apply Hm; exact Hmm).
      rewrite col_of_length. apply map_ext_in. intros i Hi. apply in_seq in Hi.
      unfold spec_cell, is_missing, missed. rewrite col_of_nth by lia. reflexivity.
Qed.

(* ------------------------------------------------------------------ *)
(* the property, for one table                                         *)
(* ------------------------------------------------------------------ *)
Lemma table_ok_distinct idcols N props :
  Forall (has_rows N) idcols -> Forall (wf_prop N) props ->
  names_distinct idcols props = true ->
  table_ok idcols N props (export idcols props).
Proof.
  intros Hid Hwf Hnd. apply nodupb_NoDup in Hnd.
  pose proof (export_rows N idcols props Hid Hwf) as Hrows.
  pose proof (export_warnings idcols props) as Hwarn.
  pose proof (export_keys idcols props) as Hkeys.
  pose proof (export_distinct idcols props Hnd) as Heq.
  destruct (export idcols props) as [t w] eqn:Ex. cbn [fst snd] in *.
  inversion Heq; subst t w. clear Heq.
  assert (Hndt : NoDup (map fst (idcols ++ flat_map spec_columns props))).
  { rewrite map_app. unfold all_colnames in Hnd. fold names_of in Hnd.
    assert (Hm : map fst (flat_map spec_columns props) = flat_map names_of props).
    { clear. induction props as [|p r IH]; [reflexivity|]. cbn [flat_map]. rewrite map_app, spec_columns_names. f_equal. exact IH. }
    rewrite <- Hm in Hnd. exact Hnd. }
  unfold table_ok. repeat split.
  - exact Hrows.
  - intros [k v] Hc. cbn [fst snd]. apply lookup_In; [exact Hndt|]. apply in_or_app. left. exact Hc.
  - intros p names Hp Hc j Hj. apply lookup_In; [exact Hndt|]. apply in_or_app. right.
    apply in_flat_map. exists p. split; [exact Hp|].
    apply spec_columns_cells; [|exact Hc|exact Hj].
    rewrite Forall_forall in Hwf. apply Hwf. exact Hp.
  - apply Hwarn.
  - apply Hwarn.
  - exact Hkeys.
Qed.

(* what holds without any condition on the names: rows, warnings, no foreign column *)
Lemma table_rows_warnings idcols N props :
  Forall (has_rows N) idcols -> Forall (wf_prop N) props ->
  (forall c, In c (fst (export idcols props)) -> List.length (snd c) = N) /\
  (forall n, In n (snd (export idcols props)) <-> exists p, In p props /\ p_name p = n /\ cols_of p = None) /\
  (forall n, In n (map fst (fst (export idcols props))) -> In n (all_colnames idcols props)).
Proof.
  intros Hid Hwf. split; [|split].
  - apply export_rows; assumption.
  - apply export_warnings.
  - apply export_keys.
Qed.

(* ------------------------------------------------------------------ *)
(* graphs                                                              *)
(* ------------------------------------------------------------------ *)
Lemma node_idcols_rows g : Forall (has_rows (List.length (g_ids g))) (node_idcols g).
Proof. constructor; [|constructor]. unfold has_rows. cbn. rewrite map_length. reflexivity. Qed.

Lemma edge_idcols_rows g : Forall (has_rows (List.length (g_edges g))) (edge_idcols g).
Proof.
  constructor; [|constructor; [|constructor]]; unfold has_rows; cbn; rewrite !map_length; reflexivity.
Qed.

Definition graph_names_distinct (g : graph) : bool :=
  names_distinct (node_idcols g) (g_nprops g) && names_distinct (edge_idcols g) (g_eprops g).

Lemma frames_ok_distinct g : wf_graph g -> graph_names_distinct g = true -> frames_ok g.
Proof.
  intros [Hn He] Hd. apply andb_true_iff in Hd. destruct Hd as [Hdn Hde]. split.
  - apply table_ok_distinct; [apply node_idcols_rows | exact Hn | exact Hdn].
  - apply table_ok_distinct; [apply edge_idcols_rows | exact He | exact Hde].
Qed.

Lemma frames_rows_warnings g : wf_graph g ->
  let nf := node_frame g in let ef := edge_frame g in
  (forall c, In c (fst nf) -> List.length (snd c) = List.length (g_ids g)) /\
  (forall c, In c (fst ef) -> List.length (snd c) = List.length (g_edges g)) /\
  (forall n, In n (snd nf) <-> exists p, In p (g_nprops g) /\ p_name p = n /\ cols_of p = None) /\
  (forall n, In n (snd ef) <-> exists p, In p (g_eprops g) /\ p_name p = n /\ cols_of p = None) /\
  (forall n, In n (map fst (fst nf)) -> In n (all_colnames (node_idcols g) (g_nprops g))) /\
  (forall n, In n (map fst (fst ef)) -> In n (all_colnames (edge_idcols g) (g_eprops g))).
Proof.
  intros [Hn He]. cbv zeta.
  destruct (table_rows_warnings _ _ _ (node_idcols_rows g) Hn) as [A [B C]].
  destruct (table_rows_warnings _ _ _ (edge_idcols_rows g) He) as [A' [B' C']].
  repeat split; try assumption; try apply B; try apply B'.
Qed.

(* the full statement (no condition on names) and its refutation *)
Definition frames_full : Prop := forall g, wf_graph g -> frames_ok g.

Definition collide_graph : graph :=
  mkGraph [10; 11]%Z [mkProp "id" [2%nat] [5; 6]%Z None] [] [].

Lemma collide_graph_wf : wf_graph collide_graph.
Proof.
  split; [|constructor]. constructor; [|constructor].
  split; [exists []; reflexivity|]. split; [reflexivity|]. intros m H. discriminate.
Qed.

Lemma frames_full_refuted : ~ frames_full.
Proof.
  intro H. destruct (H collide_graph collide_graph_wf) as [Hn _].
  unfold table_ok in Hn. destruct (node_frame collide_graph) as [t w] eqn:E.
  destruct Hn as [_ [Hid _]].
  specialize (Hid ("id"%string, map Val [10; 11]%Z) (or_introl eq_refl)).
  vm_compute in E. inversion E; subst t w. vm_compute in Hid. discriminate.
Qed.

(* ------------------------------------------------------------------ *)
(* complete characterisation, no condition on names: a column holds    *)
(* the LAST source that claimed its name (python dict assignment)       *)
(* ------------------------------------------------------------------ *)
Definition last_of (cols : table) (n : string) : option (list cell) := lookup (rev cols) n.

Lemma lookup_dict_set d k v n :
  lookup (dict_set d k v) n = if String.eqb k n then Some v else lookup d n.
Proof.
  induction d as [|[k' v'] r IH]; cbn [dict_set lookup]; [reflexivity|].
  destruct (String.eqb k' k) eqn:E; cbn [lookup].
  - apply String.eqb_eq in E. subst k'. destruct (String.eqb k n); reflexivity.
  - destruct (String.eqb k' n) eqn:E2.
    + apply String.eqb_eq in E2. subst k'. rewrite String.eqb_sym in E. rewrite E. reflexivity.
    + exact IH.
Qed.

Lemma lookup_app a b n :
  lookup (a ++ b) n = match lookup a n with Some v => Some v | None => lookup b n end.
Proof.
  induction a as [|[k v] r IH]; cbn [app lookup]; [reflexivity|].
  destruct (String.eqb k n); [reflexivity | exact IH].
Qed.

Lemma fold_dict_set_lookup (cols : table) n : forall d,
  lookup (fold_left (fun d' c => dict_set d' (fst c) (snd c)) cols d) n =
  match last_of cols n with Some v => Some v | None => lookup d n end.
Proof.
  unfold last_of. induction cols as [|[k v] r IH]; intro d; cbn [fold_left rev]; [reflexivity|].
  rewrite IH, lookup_app, lookup_dict_set. cbn [fst snd lookup].
  destruct (lookup (rev r) n); [reflexivity|]. destruct (String.eqb k n); reflexivity.
Qed.

Lemma export_loop_as_fold props : forall d w,
  fst (fold_left export_prop props (d, w)) =
  fold_left (fun d' c => dict_set d' (fst c) (snd c)) (flat_map spec_columns props) d.
Proof.
  induction props as [|p r IH]; intros d w; cbn [fold_left flat_map]; [reflexivity|].
  rewrite export_prop_as_cols, IH, fold_left_app. reflexivity.
Qed.

Lemma option_eta {A} (o : option A) : match o with Some v => Some v | None => None end = o.
Proof. destruct o; reflexivity. Qed.

Lemma export_lookup_last idcols props n :
  lookup (fst (export idcols props)) n = last_of (idcols ++ flat_map spec_columns props) n.
Proof.
  unfold export, init_dict. rewrite export_loop_as_fold, <- fold_left_app, fold_dict_set_lookup.
  cbn [lookup]. apply option_eta.
Qed.

(* ------------------------------------------------------------------ *)
(* f"{name}_{i}" is injective in i: the columns of one property never collide *)
(* ------------------------------------------------------------------ *)
Lemma decimal_inj a b : decimal a = decimal b -> a = b.
Proof.
  unfold decimal. intro H.
  apply (f_equal NilEmpty.uint_of_string) in H. rewrite !NilEmpty.usu in H. inversion H as [H'].
  apply (f_equal Nat.of_uint) in H'. rewrite !Unsigned.of_to in H'. exact H'.
Qed.

Lemma string_app_inv_head (s a b : string) : (s ++ a = s ++ b)%string -> a = b.
Proof. induction s as [|c s IH]; cbn; intro H; [exact H|]. inversion H. apply IH. assumption. Qed.

Lemma colname_inj name a b : colname name a = colname name b -> a = b.
Proof.
  unfold colname. intro H. apply string_app_inv_head in H. apply string_app_inv_head in H.
  apply decimal_inj. exact H.
Qed.

Lemma cols_of_NoDup p names : cols_of p = Some names -> NoDup names.
Proof.
  unfold cols_of. destruct (trailing p) as [|k [|k2 r]]; intro H; inversion H; subst.
  - constructor; [intros []|constructor].
  - apply Injective_map_NoDup; [|apply seq_NoDup]. intros a b. apply colname_inj.
Qed.

(* ------------------------------------------------------------------ *)
(* geff_to_csv                                                         *)
(* ------------------------------------------------------------------ *)
(* without overwrite: what was there stays; success iff nothing was there *)
Lemma csv_keeps_existing s g :
  let r := geff_to_csv s g false in
  (forall t, fs_nodes s = Some t -> fs_nodes (fst r) = Some t) /\
  (forall t, fs_edges s = Some t -> fs_edges (fst r) = Some t) /\
  (snd r = Ok tt <-> fs_nodes s = None /\ fs_edges s = None) /\
  (snd r <> Ok tt -> snd r = Err FileExistsError).
Proof.
  cbv zeta. unfold geff_to_csv, to_csv. destruct s as [[n|] [e|]]; cbn [fs_nodes fs_edges fst snd].
  - split; [intros t H; exact H|]. split; [intros t H; exact H|]. split.
    + split; [intro H; discriminate | intros [H _]; discriminate].
    + intros _. reflexivity.
  - split; [intros t H; exact H|]. split; [intros t H; discriminate|]. split.
    + split; [intro H; discriminate | intros [H _]; discriminate].
    + intros _. reflexivity.
  - split; [intros t H; discriminate|]. split; [intros t H; exact H|]. split.
    + split; [intro H; discriminate | intros [_ H]; discriminate].
    + intros _. reflexivity.
  - split; [intros t H; discriminate|]. split; [intros t H; discriminate|]. split.
    + split; [intros _; split; reflexivity | intros _; reflexivity].
    + intro H. exfalso. apply H. reflexivity.
Qed.

(* a successful call leaves exactly the two exported tables; with overwrite it always succeeds *)
Lemma csv_writes s g ov :
  let r := geff_to_csv s g ov in
  (snd r = Ok tt -> fs_nodes (fst r) = Some (fst (node_frame g)) /\ fs_edges (fst r) = Some (fst (edge_frame g))) /\
  (ov = true -> snd r = Ok tt).
Proof.
  cbv zeta. unfold geff_to_csv, to_csv. destruct ov; cbn.
  - split; [intros _; split; reflexivity | reflexivity].
  - destruct s as [[n|] [e|]]; cbn; split; intro H; try discriminate; split; reflexivity.
Qed.

Lemma cli_keeps_existing s g :
  let r := cli_convert_to_csv s g in
  (forall t, fs_nodes s = Some t -> fs_nodes (fst r) = Some t) /\
  (forall t, fs_edges s = Some t -> fs_edges (fst r) = Some t).
Proof.
  cbv zeta. unfold cli_convert_to_csv. destruct (csv_keeps_existing s g) as [A [B _]]. split; assumption.
Qed.

(* ---- C06 for the two-file target (as repaired: both files are checked before either is written) ---- *)
(* without overwrite, an export onto a target of which EITHER file exists raises FileExistsError and the two files are
   what they were *)
Lemma csv_refuse s g : csv_occupied s = true -> geff_to_csv s g false = (s, Err FileExistsError).
Proof. intros H. unfold geff_to_csv. cbn [negb andb]. rewrite H. reflexivity. Qed.

(* ... and only then *)
Lemma csv_refuse_iff s g : snd (geff_to_csv s g false) = Err FileExistsError <-> csv_occupied s = true.
Proof.
  split; [|intros H; rewrite (csv_refuse s g H); reflexivity].
  unfold geff_to_csv, to_csv, csv_occupied. destruct s as [[n|] [e|]]; cbn; intro H; try reflexivity; discriminate.
Qed.

(* with overwrite the result does not depend on what was there: it is the export onto the empty target *)
Lemma csv_replace s g :
  geff_to_csv s g true = (mkFs (Some (fst (node_frame g))) (Some (fst (edge_frame g))), Ok tt).
Proof. reflexivity. Qed.

Lemma csv_overwrite_as_fresh s g ov : geff_to_csv s g true = geff_to_csv (mkFs None None) g ov.
Proof. destruct ov; reflexivity. Qed.

(* the state is never half-written: afterwards it is the state before or the complete export *)
Lemma csv_all_or_nothing s g ov :
  let r := geff_to_csv s g ov in
  (snd r <> Ok tt /\ fst r = s) \/
  (snd r = Ok tt /\ fst r = mkFs (Some (fst (node_frame g))) (Some (fst (edge_frame g)))).
Proof.
  cbv zeta. destruct ov; [right; split; reflexivity|].
  unfold geff_to_csv, to_csv, csv_occupied. destruct s as [[n|] [e|]]; cbn;
    first [left; split; [discriminate | reflexivity] | right; split; reflexivity].
Qed.
