(* CtcLemmas.v -- proofs about Ctc.v used by props/C15.v.
   Part 1 generic list facts; 2 node numbering; 3 the tracks dict; 4 the edge list against its
   declarative description; 5 graph validation; 6 the tracklet definition; 7 the write/read pipeline;
   8 paths and the label-volume shape. *)
From Coq Require Import Relations Sorting.Sorted Permutation.
From Geff Require Import Base Dtype DtypeLemmas Vlen VlenLemmas Tree TreeLemmas Validate Write Read RoundTrip WriteLemmas
  ReadLemmas ValidateLayout C01Lemmas GraphVal GraphValLemmas Reach Tracks TracksLemmas Ctc.
From Geff.Gen Require Import Consts.
Open Scope string_scope.
Open Scope list_scope.
Open Scope Z_scope.

(* ================= 1. lists ================= *)
Lemma filter_split {A} (p : A -> bool) (ns : list A) : forall pre a post,
  filter p ns = pre ++ a :: post ->
  exists l1 l2, ns = l1 ++ a :: l2 /\ filter p l1 = pre /\ filter p l2 = post /\ p a = true.
Proof.
  induction ns as [|x r IH]; intros pre a post H; cbn in H.
  - destruct pre; discriminate.
  - destruct (p x) eqn:Ex.
    + destruct pre as [|y pre']; cbn in H.
      * inversion H; subst. exists [], r. cbn. repeat split; auto.
      * inversion H; subst. destruct (IH pre' a post H2) as [l1 [l2 [H1 [H3 [H4 H5]]]]].
        exists (y :: l1), l2. subst r. cbn. rewrite Ex, H3. repeat split; auto.
    + destruct (IH pre a post H) as [l1 [l2 [H1 [H3 [H4 H5]]]]].
      exists (x :: l1), l2. subst r. cbn. rewrite Ex. repeat split; auto.
Qed.

Lemma NoDup_split_unique {A} (a : A) l1 l2 l1' l2' :
  NoDup (l1 ++ a :: l2) -> l1 ++ a :: l2 = l1' ++ a :: l2' -> l1 = l1' /\ l2 = l2'.
Proof.
  revert l1'. induction l1 as [|x r IH]; intros l1' Hn He.
  - destruct l1' as [|y r']; cbn in He.
    + inversion He. auto.
    + inversion He; subst. exfalso. cbn in Hn. inversion Hn as [|? ? Hnot _]; subst.
      apply Hnot. apply in_or_app. right. left. reflexivity.
  - destruct l1' as [|y r']; cbn in He.
    + inversion He; subst. exfalso. cbn in Hn. inversion Hn as [|? ? Hnot _]; subst.
      apply Hnot. apply in_or_app. right. left. reflexivity.
    + inversion He; subst. cbn in Hn. inversion Hn as [|? ? _ Hr]; subst.
      destruct (IH r' Hr H1) as [-> ->]. auto.
Qed.

Lemma consec_In {A} (F : list A) a b :
  In (a, b) (consec F) <-> exists pre post, F = pre ++ a :: b :: post.
Proof.
  induction F as [|x r IH]; cbn.
  - split; [intros [] | intros [pre [post H]]; destruct pre; discriminate].
  - destruct r as [|y r'].
    + split; [intros [] | intros [pre [post H]]].
      destruct pre as [|z [|z' pre']]; cbn in H; inversion H.
    + split.
      * intros [H|H].
        -- inversion H; subst. exists [], r'. reflexivity.
        -- apply IH in H. destruct H as [pre [post H]]. exists (x :: pre), post. cbn. rewrite H. reflexivity.
      * intros [pre [post H]]. destruct pre as [|z pre']; cbn in H.
        -- inversion H; subst. left. reflexivity.
        -- inversion H; subst. right. apply IH. exists pre', post. assumption.
Qed.

Lemma consec_map {A B} (f : A -> B) (F : list A) :
  consec (map f F) = map (fun p => (f (fst p), f (snd p))) (consec F).
Proof.
  induction F as [|x r IH]; [reflexivity|]. destruct r as [|y r']; [reflexivity|].
  change (map f (x :: y :: r')) with (f x :: f y :: map f r').
  change (consec (f x :: f y :: map f r')) with ((f x, f y) :: consec (map f (y :: r'))).
  rewrite IH. reflexivity.
Qed.

Lemma consec_fst {A} (F : list A) : map fst (consec F) = removelast F.
Proof.
  induction F as [|x r IH]; [reflexivity|]. destruct r as [|y r']; [reflexivity|].
  change (consec (x :: y :: r')) with ((x, y) :: consec (y :: r')).
  cbn [map fst]. rewrite IH. reflexivity.
Qed.

Lemma In_removelast {A} (l : list A) x : In x (removelast l) -> In x l.
Proof.
  induction l as [|a r IH]; [intros []|]. destruct r as [|b r']; [intros []|].
  change (removelast (a :: b :: r')) with (a :: removelast (b :: r')). intros [->|H]; [left; reflexivity|].
  right. apply IH. exact H.
Qed.

Lemma NoDup_removelast {A} (l : list A) : NoDup l -> NoDup (removelast l).
Proof.
  induction l as [|x r IH]; intros H; [constructor|].
  destruct r as [|y r']; [constructor|]. inversion H as [|? ? Hx Hr]; subst.
  change (removelast (x :: y :: r')) with (x :: removelast (y :: r')). constructor.
  - intro Hin. apply Hx. apply In_removelast. exact Hin.
  - apply IH. exact Hr.
Qed.

Lemma NoDup_of_map {A B} (f : A -> B) (l : list A) : NoDup (map f l) -> NoDup l.
Proof.
  induction l as [|x r IH]; intros H; [constructor|]. inversion H as [|? ? Hx Hr]; subst.
  constructor; [|apply IH; exact Hr]. intro Hin. apply Hx. apply in_map. exact Hin.
Qed.

Lemma NoDup_consec {A} (F : list A) : NoDup F -> NoDup (consec F).
Proof. intros H. apply (NoDup_of_map fst). rewrite consec_fst. apply NoDup_removelast. exact H. Qed.

Lemma NoDup_map_on {A B} (f : A -> B) (l : list A) :
  NoDup l -> (forall x y, In x l -> In y l -> f x = f y -> x = y) -> NoDup (map f l).
Proof.
  induction l as [|x r IH]; intros Hn Hinj; [constructor|]. inversion Hn as [|? ? Hx Hr]; subst.
  cbn. constructor.
  - intro Hin. apply in_map_iff in Hin. destruct Hin as [y [Hy Hyin]].
    assert (y = x) by (apply Hinj; [right; exact Hyin | left; reflexivity | exact Hy]). subst. contradiction.
  - apply IH; [exact Hr|]. intros a b Ha Hb. apply Hinj; right; assumption.
Qed.

Lemma NoDup_flat_map {A B} (f : A -> list B) (l : list A) :
  NoDup l -> (forall x, In x l -> NoDup (f x)) ->
  (forall x y b, In x l -> In y l -> In b (f x) -> In b (f y) -> x = y) ->
  NoDup (flat_map f l).
Proof.
  induction l as [|x r IH]; intros Hn Hf Hd; [constructor|]. inversion Hn as [|? ? Hx Hr]; subst.
  cbn. apply NoDup_app_intro.
  - apply Hf. left. reflexivity.
  - apply IH; [exact Hr | intros; apply Hf; right; assumption | intros a b c Ha Hb; apply Hd; right; assumption].
  - intros b Hb Hin. apply in_flat_map in Hin. destruct Hin as [y [Hy Hby]].
    assert (x = y) by (apply (Hd x y b); [left; reflexivity | right; exact Hy | exact Hb | exact Hby]).
    subst. contradiction.
Qed.

Lemma NoDup_app_parts {A} (l l' : list A) : NoDup (l ++ l') -> NoDup l /\ NoDup l' /\ forall x, In x l -> ~ In x l'.
Proof.
  induction l as [|a l IH]; cbn; intros H.
  - split; [constructor|]. split; [exact H|]. intros x [].
  - inversion H as [|? ? Ha Hr]; subst. destruct (IH Hr) as [H1 [H2 H3]]. split; [|split; [exact H2|]].
    + constructor; [|exact H1]. intro Hin. apply Ha. apply in_or_app. left. exact Hin.
    + intros x [<-|Hx]; [|apply H3; exact Hx]. intro Hin. apply Ha. apply in_or_app. right. exact Hin.
Qed.

Lemma length_one_of {A} (l : list A) v : NoDup l -> In v l -> (forall x, In x l -> x = v) -> length l = 1%nat.
Proof.
  destruct l as [|a [|b r]]; intros Hn Hv Hall; [destruct Hv | reflexivity | exfalso].
  assert (a = v) by (apply Hall; left; reflexivity). assert (b = v) by (apply Hall; right; left; reflexivity). subst.
  inversion Hn as [|? ? Hx _]; subst. apply Hx. left. reflexivity.
Qed.

Lemma length_not_one {A} (l : list A) v w : In v l -> In w l -> v <> w -> length l <> 1%nat.
Proof.
  destruct l as [|a [|b r]]; intros Hv Hw Hne.
  - destruct Hv.
  - destruct Hv as [<-|[]]. destruct Hw as [<-|[]]. congruence.
  - cbn. discriminate.
Qed.

Lemma mapM_ok_map {A B} (f : A -> res B) (g : A -> B) (l : list A) :
  (forall x, In x l -> f x = Ok (g x)) -> mapM f l = Ok (map g l).
Proof.
  induction l as [|x r IH]; intros H; [reflexivity|]. cbn. rewrite (H x (or_introl eq_refl)).
  rewrite IH; [reflexivity|]. intros y Hy. apply H. right. exact Hy.
Qed.

Lemma last_app_single {A} (l : list A) a d : last (l ++ [a]) d = a.
Proof. induction l as [|x r IH]; [reflexivity|]. cbn. destruct (r ++ [a]) eqn:E; [destruct r; discriminate|]. exact IH. Qed.

Lemma StronglySorted_app_inv {A} (R : A -> A -> Prop) l1 l2 :
  StronglySorted R (l1 ++ l2) -> StronglySorted R l1 /\ StronglySorted R l2 /\ forall a b, In a l1 -> In b l2 -> R a b.
Proof.
  induction l1 as [|x r IH]; cbn; intros H.
  - split; [constructor|]. split; [exact H|]. intros a b [].
  - inversion H as [|? ? Hs Hf]; subst. destruct (IH Hs) as [H1 [H2 H3]]. rewrite Forall_forall in Hf.
    split; [|split; [exact H2|]].
    + constructor; [exact H1|]. apply Forall_forall. intros y Hy. apply Hf. apply in_or_app. left. exact Hy.
    + intros a b [<-|Ha] Hb; [apply Hf; apply in_or_app; right; exact Hb | apply H3; assumption].
Qed.

Lemma StronglySorted_app {A} (R : A -> A -> Prop) l1 l2 :
  StronglySorted R l1 -> StronglySorted R l2 -> (forall a b, In a l1 -> In b l2 -> R a b) -> StronglySorted R (l1 ++ l2).
Proof.
  induction l1 as [|x r IH]; cbn; intros H1 H2 H3; [exact H2|]. inversion H1 as [|? ? Hs Hf]; subst. constructor.
  - apply IH; [exact Hs | exact H2 | intros a b Ha Hb; apply H3; [right; exact Ha | exact Hb]].
  - rewrite Forall_forall in *. intros y Hy. apply in_app_iff in Hy. destruct Hy as [Hy|Hy]; [apply Hf; exact Hy|].
    apply H3; [left; reflexivity | exact Hy].
Qed.

Lemma sorted_pair {A} (R : A -> A -> Prop) l1 a l2 b l3 :
  StronglySorted R (l1 ++ a :: l2 ++ b :: l3) -> R a b.
Proof.
  intros H. apply StronglySorted_app_inv in H. destruct H as [_ [H _]].
  inversion H as [|? ? _ Hf]; subst. rewrite Forall_forall in Hf. apply Hf. apply in_or_app. right. left. reflexivity.
Qed.

(* ================= 2. node numbering ================= *)
Fixpoint zseq (s : Z) (n : nat) : list Z := match n with O => [] | S k => s :: zseq (s + 1) k end.

Lemma zseq_In s n x : In x (zseq s n) <-> s <= x < s + Z.of_nat n.
Proof.
  revert s. induction n as [|n IH]; intros s; cbn [zseq In].
  - split; [intros [] | lia].
  - rewrite IH. lia.
Qed.
Lemma zseq_NoDup s n : NoDup (zseq s n).
Proof. revert s. induction n as [|n IH]; intros s; cbn; constructor; [rewrite zseq_In; lia | apply IH]. Qed.
Lemma zseq_app s n m : zseq s (n + m) = zseq s n ++ zseq (s + Z.of_nat n) m.
Proof.
  revert s. induction n as [|n IH]; intros s.
  - cbn. f_equal. lia.
  - cbn [Nat.add zseq app]. rewrite IH. replace (s + Z.of_nat (S n)) with (s + 1 + Z.of_nat n) by lia. reflexivity.
Qed.
Lemma zseq_length s n : length (zseq s n) = n.
Proof. revert s. induction n as [|n IH]; intros s; cbn; [reflexivity | rewrite IH; reflexivity]. Qed.

Lemma enum_frame_length t id f : length (enum_frame t id f) = length f.
Proof. revert id. induction f as [|[l c] r IH]; intros id; cbn; [reflexivity | rewrite IH; reflexivity]. Qed.
Lemma enum_frame_ids t id f : map n_id (enum_frame t id f) = zseq id (length f).
Proof. revert id. induction f as [|[l c] r IH]; intros id; cbn; [reflexivity | rewrite IH; reflexivity]. Qed.
Lemma enum_frames_ids t id fs : map n_id (enum_frames t id fs) = zseq id (length (enum_frames t id fs)).
Proof.
  revert t id. induction fs as [|f r IH]; intros t id; cbn [enum_frames]; [reflexivity|].
  rewrite map_app, app_length, zseq_app, enum_frame_ids, enum_frame_length, IH. reflexivity.
Qed.

Lemma nodes_ids fs : map n_id (nodes_of fs) = zseq 0 (length (nodes_of fs)).
Proof. apply enum_frames_ids. Qed.
Lemma nodes_ids_NoDup fs : NoDup (map n_id (nodes_of fs)).
Proof. rewrite nodes_ids. apply zseq_NoDup. Qed.

(* time, label and centroid columns: the frames, flattened in frame-then-region order *)
Definition node_row (n : cnode) : Z * Z * cent := (n_t n, n_lab n, n_c n).
Lemma enum_frame_rows t id f : map node_row (enum_frame t id f) = map (fun r => (t, fst r, snd r)) f.
Proof. revert id. induction f as [|[l c] r IH]; intros id; cbn; [reflexivity | rewrite IH; reflexivity]. Qed.
Lemma enum_frames_rows t id fs :
  map node_row (enum_frames t id fs)
  = flat_map (fun tf => map (fun r => (fst tf, fst r, snd r)) (snd tf)) (combine (zseq t (length fs)) fs).
Proof.
  revert t id. induction fs as [|f r IH]; intros t id; [reflexivity|].
  cbn [enum_frames length zseq combine flat_map fst snd]. rewrite map_app, enum_frame_rows, IH. reflexivity.
Qed.

(* membership *)
Lemma enum_frame_In t id f n : In n (enum_frame t id f) -> n_t n = t /\ In (n_lab n, n_c n) f.
Proof.
  revert id. induction f as [|[l c] r IH]; intros id; cbn; [intros []|].
  intros [<-|H]; [cbn; auto|]. destruct (IH _ H) as [H1 H2]. auto.
Qed.
Lemma enum_frame_has t id f l c : In (l, c) f -> exists n, In n (enum_frame t id f) /\ n_t n = t /\ n_lab n = l /\ n_c n = c.
Proof.
  revert id. induction f as [|[l' c'] r IH]; intros id; cbn; [intros []|].
  intros [H|H].
  - inversion H; subst. eexists. split; [left; reflexivity|]. cbn. auto.
  - destruct (IH (id + 1) H) as [n [Hn Hr]]. exists n. split; [right; exact Hn | exact Hr].
Qed.
Lemma enum_frames_In t id fs n : In n (enum_frames t id fs) ->
  exists k f, nth_error fs k = Some f /\ n_t n = t + Z.of_nat k /\ In (n_lab n, n_c n) f.
Proof.
  revert t id. induction fs as [|f r IH]; intros t id; cbn [enum_frames]; [intros []|].
  intros H. apply in_app_iff in H. destruct H as [H|H].
  - apply enum_frame_In in H. exists 0%nat, f. cbn. split; [reflexivity|]. split; [lia | tauto].
  - destruct (IH _ _ H) as [k [f' [H1 [H2 H3]]]]. exists (S k), f'. cbn [nth_error]. split; [exact H1|]. split; [lia | exact H3].
Qed.
Lemma enum_frames_has t id fs k f l c : nth_error fs k = Some f -> In (l, c) f ->
  exists n, In n (enum_frames t id fs) /\ n_t n = t + Z.of_nat k /\ n_lab n = l /\ n_c n = c.
Proof.
  revert t id k. induction fs as [|f0 r IH]; intros t id k Hk Hin; [destruct k; discriminate|].
  destruct k as [|k]; cbn [nth_error] in Hk; cbn [enum_frames].
  - inversion Hk; subst. destruct (enum_frame_has t id f l c Hin) as [n [Hn [H1 H2]]].
    exists n. split; [apply in_or_app; left; exact Hn|]. split; [lia | exact H2].
  - destruct (IH (t + 1) (id + Z.of_nat (length f0)) k Hk Hin) as [n [Hn [H1 H2]]].
    exists n. split; [apply in_or_app; right; exact Hn|]. split; [lia | exact H2].
Qed.

(* label l is present in frame t (frames are numbered from 0 in file order) *)
Definition occurs (fs : list frame) (t l : Z) : Prop :=
  0 <= t /\ exists f, nth_error fs (Z.to_nat t) = Some f /\ In l (map fst f).

Lemma occurs_node fs t l : occurs fs t l <-> exists n, In n (nodes_of fs) /\ n_t n = t /\ n_lab n = l.
Proof.
  unfold nodes_of. split.
  - intros [Ht [f [Hf Hl]]]. apply in_map_iff in Hl. destruct Hl as [[l' c] [Hl' Hin]]. cbn in Hl'. subst l'.
    destruct (enum_frames_has 0 0 fs _ f l c Hf Hin) as [n [Hn [H1 [H2 _]]]]. exists n. split; [exact Hn|]. split; [lia | exact H2].
  - intros [n [Hn [Ht Hl]]]. destruct (enum_frames_In 0 0 fs n Hn) as [k [f [H1 [H2 H3]]]].
    split; [lia|]. exists f. split.
    + rewrite <- Ht, H2. replace (Z.to_nat (0 + Z.of_nat k)) with k by lia. exact H1.
    + apply in_map_iff. exists (n_lab n, n_c n). split; [exact Hl | exact H3].
Qed.

(* order: time never decreases along the node list, and one frame never repeats a label *)
Definition Rt (a b : cnode) : Prop := n_t a <= n_t b /\ (n_t a = n_t b -> n_lab a <> n_lab b).
Definition frames_ok (fs : list frame) : Prop := forall f, In f fs -> NoDup (map fst f).

Lemma enum_frame_sorted t id f : NoDup (map fst f) -> StronglySorted Rt (enum_frame t id f).
Proof.
  revert id. induction f as [|[l c] r IH]; intros id Hn; cbn; [constructor|].
  cbn in Hn. inversion Hn as [|? ? Hl Hr]; subst. constructor; [apply IH; exact Hr|].
  apply Forall_forall. intros m Hm. apply enum_frame_In in Hm. destruct Hm as [Ht Hin]. split; cbn; [lia|].
  intros _ Heq. apply Hl. apply in_map_iff. exists (n_lab m, n_c m). split; [cbn; congruence | exact Hin].
Qed.
Lemma enum_frames_ge t id fs n : In n (enum_frames t id fs) -> t <= n_t n.
Proof. intros H. destruct (enum_frames_In _ _ _ _ H) as [k [f [_ [H2 _]]]]. lia. Qed.
Lemma enum_frames_sorted t id fs : frames_ok fs -> StronglySorted Rt (enum_frames t id fs).
Proof.
  revert t id. induction fs as [|f r IH]; intros t id Hok; cbn [enum_frames]; [constructor|].
  apply StronglySorted_app.
  - apply enum_frame_sorted. apply Hok. left. reflexivity.
  - apply IH. intros f' Hf'. apply Hok. right. exact Hf'.
  - intros a b Ha Hb. apply enum_frame_In in Ha. apply enum_frames_ge in Hb. destruct Ha as [Ha _]. split; lia.
Qed.
Lemma nodes_sorted fs : frames_ok fs -> StronglySorted Rt (nodes_of fs).
Proof. apply enum_frames_sorted. Qed.

(* ================= 3. the tracks dict ================= *)
Definition has_lab (l : Z) (n : cnode) : bool := n_lab n =? l.
Definition occn (ns : list cnode) (l : Z) : list cnode := filter (has_lab l) ns.
Definition occ_ids (ns : list cnode) (l : Z) : list Z := map n_id (occn ns l).

Lemma tlookup_track_add tr l id k :
  tlookup k (track_add tr l id) =
  if k =? l then Some (match tlookup l tr with Some ids => ids ++ [id] | None => [id] end) else tlookup k tr.
Proof.
  induction tr as [|[k0 ids] r IH]; cbn [track_add tlookup].
  - rewrite (Z.eqb_sym l k). destruct (k =? l); reflexivity.
  - destruct (k0 =? l) eqn:E0; cbn [tlookup].
    + apply Z.eqb_eq in E0. subst k0. rewrite (Z.eqb_sym l k). destruct (k =? l); reflexivity.
    + rewrite IH. destruct (k0 =? k) eqn:E1; [|reflexivity].
      apply Z.eqb_eq in E1. subst k0. rewrite E0. reflexivity.
Qed.

Definition add_node (tr : tracks) (n : cnode) : tracks := track_add tr (n_lab n) (n_id n).

Lemma occ_ids_cons n r k : occ_ids (n :: r) k = if n_lab n =? k then n_id n :: occ_ids r k else occ_ids r k.
Proof. unfold occ_ids, occn. cbn [filter]. unfold has_lab at 1. destruct (n_lab n =? k); reflexivity. Qed.

Lemma tlookup_fold ns : forall tr k,
  tlookup k (fold_left add_node ns tr) =
  match tlookup k tr with
  | Some ids => Some (ids ++ occ_ids ns k)
  | None => match occ_ids ns k with [] => None | o => Some o end
  end.
Proof.
  induction ns as [|n r IH]; intros tr k; cbn [fold_left].
  - unfold occ_ids, occn. cbn. destruct (tlookup k tr); [rewrite app_nil_r|]; reflexivity.
  - rewrite IH. unfold add_node. rewrite tlookup_track_add, occ_ids_cons. rewrite (Z.eqb_sym (n_lab n) k).
    destruct (k =? n_lab n) eqn:E.
    + apply Z.eqb_eq in E. subst k. destruct (tlookup (n_lab n) tr) as [ids|].
      * rewrite <- app_assoc. reflexivity.
      * reflexivity.
    + destruct (tlookup k tr); reflexivity.
Qed.

Lemma build_lookup ns k :
  tlookup k (build_tracks ns) = match occ_ids ns k with [] => None | o => Some o end.
Proof. unfold build_tracks. apply (tlookup_fold ns [] k). Qed.

Lemma track_add_keys tr l id k : In k (map fst (track_add tr l id)) <-> k = l \/ In k (map fst tr).
Proof.
  induction tr as [|[k0 ids] r IH]; cbn [track_add].
  - cbn. intuition.
  - destruct (k0 =? l) eqn:E; cbn [map fst In].
    + apply Z.eqb_eq in E. subst. intuition.
    + rewrite IH. intuition.
Qed.
Lemma track_add_NoDup tr l id : NoDup (map fst tr) -> NoDup (map fst (track_add tr l id)).
Proof.
  induction tr as [|[k0 ids] r IH]; cbn [track_add]; intros H.
  - cbn. constructor; [intros []|constructor].
  - cbn in H. inversion H as [|? ? Hk Hr]; subst. destruct (k0 =? l) eqn:E; cbn [map fst].
    + constructor; assumption.
    + constructor; [|apply IH; exact Hr]. rewrite track_add_keys. intros [->|Hin]; [rewrite Z.eqb_refl in E; discriminate | contradiction].
Qed.
Lemma fold_keys_NoDup ns : forall tr, NoDup (map fst tr) -> NoDup (map fst (fold_left add_node ns tr)).
Proof. induction ns as [|n r IH]; intros tr H; cbn; [exact H|]. apply IH. apply track_add_NoDup. exact H. Qed.
Lemma build_keys_NoDup ns : NoDup (map fst (build_tracks ns)).
Proof. apply fold_keys_NoDup. constructor. Qed.

Lemma tlookup_In tr k ids : tlookup k tr = Some ids -> In (k, ids) tr.
Proof.
  induction tr as [|[k0 i0] r IH]; cbn; [discriminate|]. destruct (k0 =? k) eqn:E.
  - intros H. inversion H; subst. apply Z.eqb_eq in E. subst. left. reflexivity.
  - intros H. right. apply IH. exact H.
Qed.
Lemma In_tlookup tr k ids : NoDup (map fst tr) -> In (k, ids) tr -> tlookup k tr = Some ids.
Proof.
  induction tr as [|[k0 i0] r IH]; cbn; intros Hn Hin; [destruct Hin|].
  inversion Hn as [|? ? Hk Hr]; subst. destruct Hin as [Heq|Hin].
  - inversion Heq; subst. rewrite Z.eqb_refl. reflexivity.
  - destruct (k0 =? k) eqn:E; [|apply IH; assumption]. apply Z.eqb_eq in E. subst. exfalso. apply Hk.
    apply in_map_iff. exists (k, ids). split; [reflexivity | exact Hin].
Qed.

Lemma build_In ns k ids : In (k, ids) (build_tracks ns) <-> ids = occ_ids ns k /\ ids <> [].
Proof.
  split.
  - intros H. apply (In_tlookup _ _ _ (build_keys_NoDup ns)) in H. rewrite build_lookup in H.
    destruct (occ_ids ns k) eqn:E; [discriminate|]. inversion H; subst. split; [reflexivity | discriminate].
  - intros [-> Hne]. apply tlookup_In. rewrite build_lookup. destruct (occ_ids ns k); [contradiction | reflexivity].
Qed.

Lemma build_NoDup ns : NoDup (build_tracks ns).
Proof. apply (NoDup_of_map fst). apply build_keys_NoDup. Qed.

(* ================= 4. the edge list ================= *)
(* declarative vocabulary over the node sequence (which is in time order) *)
Definition first_occ (ns : list cnode) (l : Z) (a : cnode) : Prop :=
  exists l1 l2, ns = l1 ++ a :: l2 /\ n_lab a = l /\ forall m, In m l1 -> n_lab m <> l.
Definition last_occ (ns : list cnode) (l : Z) (a : cnode) : Prop :=
  exists l1 l2, ns = l1 ++ a :: l2 /\ n_lab a = l /\ forall m, In m l2 -> n_lab m <> l.
(* b is the next appearance of a's label after a *)
Definition next_occ (ns : list cnode) (a b : cnode) : Prop :=
  exists l1 l2 l3, ns = l1 ++ a :: l2 ++ b :: l3 /\ n_lab a = n_lab b /\ forall m, In m l2 -> n_lab m <> n_lab a.

Definition edge_spec (ns : list cnode) (rows : list row) (u v : Z) : Prop :=
  (exists a b, next_occ ns a b /\ u = n_id a /\ v = n_id b) \/
  (exists r a b, In r rows /\ 0 < r_P r /\ last_occ ns (r_P r) a /\ first_occ ns (r_L r) b /\ u = n_id a /\ v = n_id b).

Lemma occn_none l k : occn l k = [] <-> forall m, In m l -> n_lab m <> k.
Proof.
  unfold occn. rewrite filter_nil_iff. unfold has_lab. split; intros H m Hm; specialize (H m Hm).
  - apply Z.eqb_neq. exact H.
  - apply Z.eqb_neq. exact H.
Qed.
Lemma occn_app l1 l2 k : occn (l1 ++ l2) k = occn l1 k ++ occn l2 k.
Proof. unfold occn. apply filter_app. Qed.
Lemma occn_cons_yes a l k : n_lab a = k -> occn (a :: l) k = a :: occn l k.
Proof. intros H. unfold occn. cbn. unfold has_lab at 1. rewrite H, Z.eqb_refl. reflexivity. Qed.
Lemma occn_In ns k a : In a (occn ns k) <-> In a ns /\ n_lab a = k.
Proof. unfold occn. rewrite filter_In. unfold has_lab. rewrite Z.eqb_eq. reflexivity. Qed.

Lemma first_occ_iff ns l a : first_occ ns l a <-> exists post, occn ns l = a :: post.
Proof.
  split.
  - intros [l1 [l2 [-> [Ha Hl1]]]]. exists (occn l2 l). rewrite occn_app, (proj2 (occn_none l1 l) Hl1), (occn_cons_yes _ _ _ Ha). reflexivity.
  - intros [post H]. destruct (filter_split _ ns [] a post H) as [l1 [l2 [-> [H1 [_ Ha]]]]].
    exists l1, l2. split; [reflexivity|]. split; [apply Z.eqb_eq; exact Ha | apply occn_none; exact H1].
Qed.
Lemma last_occ_iff ns l a : last_occ ns l a <-> exists pre, occn ns l = pre ++ [a].
Proof.
  split.
  - intros [l1 [l2 [-> [Ha Hl2]]]]. exists (occn l1 l). rewrite occn_app, (occn_cons_yes _ _ _ Ha), (proj2 (occn_none l2 l) Hl2). reflexivity.
  - intros [pre H]. destruct (filter_split _ ns pre a [] H) as [l1 [l2 [-> [_ [H2 Ha]]]]].
    exists l1, l2. split; [reflexivity|]. split; [apply Z.eqb_eq; exact Ha | apply occn_none; exact H2].
Qed.
Lemma next_occ_iff ns a b :
  next_occ ns a b <-> n_lab a = n_lab b /\ exists pre post, occn ns (n_lab a) = pre ++ a :: b :: post.
Proof.
  split.
  - intros [l1 [l2 [l3 [-> [Hab Hl2]]]]]. split; [exact Hab|]. exists (occn l1 (n_lab a)), (occn l3 (n_lab a)).
    rewrite occn_app, (occn_cons_yes _ _ _ eq_refl), occn_app, (proj2 (occn_none l2 _) Hl2).
    rewrite (occn_cons_yes b _ _ (eq_sym Hab)). reflexivity.
  - intros [Hab [pre [post H]]]. destruct (filter_split _ ns pre a (b :: post) H) as [l1 [l2 [-> [_ [H2 _]]]]].
    destruct (filter_split _ l2 [] b post H2) as [l2a [l2b [-> [H3 _]]]].
    exists l1, l2a, l2b. split; [reflexivity|]. split; [exact Hab | apply occn_none; exact H3].
Qed.

Lemma occn_NoDup ns k : NoDup (map n_id ns) -> NoDup (occn ns k).
Proof. intros H. unfold occn. apply NoDup_filter. apply (NoDup_of_map n_id). exact H. Qed.
Lemma occ_ids_NoDup ns k : NoDup (map n_id ns) -> NoDup (occ_ids ns k).
Proof. intros H. unfold occ_ids, occn. apply NoDup_map_filter. exact H. Qed.

Lemma id_inj ns a b : NoDup (map n_id ns) -> In a ns -> In b ns -> n_id a = n_id b -> a = b.
Proof.
  induction ns as [|x r IH]; intros Hn Ha Hb He; [destruct Ha|]. cbn in Hn. inversion Hn as [|? ? Hx Hr]; subst.
  destruct Ha as [<-|Ha], Hb as [<-|Hb]; auto.
  - exfalso. apply Hx. rewrite He. apply in_map. exact Hb.
  - exfalso. apply Hx. rewrite <- He. apply in_map. exact Ha.
Qed.

(* edges inside the tracks *)
Lemma track_edges_In ns u v :
  In (u, v) (track_edges (build_tracks ns)) <-> exists a b, next_occ ns a b /\ u = n_id a /\ v = n_id b.
Proof.
  unfold track_edges. rewrite in_flat_map. split.
  - intros [[k ids] [Hin He]]. cbn [snd] in He. apply build_In in Hin. destruct Hin as [-> _].
    unfold occ_ids in He. rewrite consec_map, in_map_iff in He. destruct He as [[a b] [Heq Hc]]. cbn [fst snd] in Heq.
    inversion Heq; subst. exists a, b. split; [|auto]. apply consec_In in Hc. destruct Hc as [pre [post Hc]].
    assert (Ha : n_lab a = k) by (apply (occn_In ns k a); rewrite Hc; apply in_or_app; right; left; reflexivity).
    assert (Hb : n_lab b = k) by (apply (occn_In ns k b); rewrite Hc; apply in_or_app; right; right; left; reflexivity).
    apply next_occ_iff. split; [congruence|]. exists pre, post. rewrite Ha. exact Hc.
  - intros [a [b [Hn [-> ->]]]]. apply next_occ_iff in Hn. destruct Hn as [Hab [pre [post Hc]]].
    exists (n_lab a, occ_ids ns (n_lab a)). split.
    + apply build_In. split; [reflexivity|]. unfold occ_ids. rewrite Hc. destruct pre; discriminate.
    + cbn [snd]. unfold occ_ids. rewrite consec_map, in_map_iff. exists (a, b). split; [reflexivity|].
      apply consec_In. exists pre, post. exact Hc.
Qed.

Lemma track_edges_NoDup ns : NoDup (map n_id ns) -> NoDup (track_edges (build_tracks ns)).
Proof.
  intros Hn. unfold track_edges. apply NoDup_flat_map.
  - apply build_NoDup.
  - intros [k ids] Hin. apply build_In in Hin. destruct Hin as [-> _]. cbn [snd]. apply NoDup_consec. apply occ_ids_NoDup. exact Hn.
  - intros [k ids] [k' ids'] [u v] Hx Hy Hu Hv. apply build_In in Hx, Hy. destruct Hx as [-> _], Hy as [-> _]. cbn [snd] in Hu, Hv.
    assert (Hk : forall q, In (u, v) (consec (occ_ids ns q)) -> exists a, In a ns /\ n_lab a = q /\ n_id a = u).
    { intros q H. unfold occ_ids in H. rewrite consec_map, in_map_iff in H. destruct H as [[a b] [Heq Hc]]. cbn in Heq. inversion Heq; subst.
      apply consec_In in Hc. destruct Hc as [pre [post Hc]].
      assert (Ha : In a (occn ns q)) by (rewrite Hc; apply in_or_app; right; left; reflexivity).
      apply occn_In in Ha. exists a. tauto. }
    destruct (Hk k Hu) as [a [Ha [Hla Hia]]]. destruct (Hk k' Hv) as [a' [Ha' [Hla' Hia']]].
    assert (a = a') by (apply (id_inj ns); auto; congruence). subst a'. congruence.
Qed.

(* edges from the table *)
Definition link_of (ns : list cnode) (r : row) : edge := (last (occ_ids ns (r_P r)) 0, hd 0 (occ_ids ns (r_L r))).

Lemma link_edge_ok ns r : occn ns (r_L r) <> [] -> occn ns (r_P r) <> [] ->
  link_edge (build_tracks ns) r = Ok (link_of ns r).
Proof.
  intros HL HP. unfold link_edge, link_of. rewrite !build_lookup. unfold occ_ids.
  destruct (occn ns (r_L r)) as [|a la]; [contradiction|]. destruct (occn ns (r_P r)) as [|b lb]; [contradiction|]. reflexivity.
Qed.
Lemma link_edge_inv ns r e : link_edge (build_tracks ns) r = Ok e ->
  occn ns (r_L r) <> [] /\ occn ns (r_P r) <> [] /\ e = link_of ns r.
Proof.
  unfold link_edge, link_of. rewrite !build_lookup. unfold occ_ids.
  destruct (occn ns (r_L r)) as [|a la]; [discriminate|]. destruct (occn ns (r_P r)) as [|b lb]; [discriminate|].
  cbn [map]. intros H. inversion H. repeat split; discriminate.
Qed.
Lemma link_edge_err ns r e : link_edge (build_tracks ns) r = Err e -> e = KeyError /\ (occn ns (r_L r) = [] \/ occn ns (r_P r) = []).
Proof.
  unfold link_edge. rewrite !build_lookup. unfold occ_ids.
  destruct (occn ns (r_L r)) as [|a la]; cbn [map]; [intros H; inversion H; auto|].
  destruct (occn ns (r_P r)) as [|b lb]; cbn [map]; [intros H; inversion H; auto | discriminate].
Qed.

Lemma mapM_inv {A B} (f : A -> res B) l : forall ys, mapM f l = Ok ys -> Forall2 (fun x y => f x = Ok y) l ys.
Proof.
  induction l as [|x r IH]; intros ys H; cbn in H.
  - inversion H. constructor.
  - destruct (f x) eqn:E; [|discriminate]. destruct (mapM f r) eqn:Er; [|discriminate]. inversion H; subst.
    constructor; [exact E | apply IH; reflexivity].
Qed.
Lemma mapM_err {A B} (f : A -> res B) l e : mapM f l = Err e -> exists x, In x l /\ f x = Err e.
Proof.
  induction l as [|x r IH]; cbn; [discriminate|]. destruct (f x) eqn:E.
  - destruct (mapM f r) eqn:Er; [discriminate|]. intros H. inversion H; subst. destruct (IH eq_refl) as [y [Hy Hf]]. exists y. auto.
  - intros H. inversion H; subst. exists x. auto.
Qed.

Lemma links_eq ns rows links : mapM (link_edge (build_tracks ns)) rows = Ok links ->
  links = map (link_of ns) rows /\ forall r, In r rows -> occn ns (r_L r) <> [] /\ occn ns (r_P r) <> [].
Proof.
  intros H. apply mapM_inv in H. induction H as [|r e rows' links' Hre _ IH].
  - split; [reflexivity | intros r []].
  - destruct IH as [-> IH2]. destruct (link_edge_inv _ _ _ Hre) as [H1 [H2 ->]]. split; [reflexivity|].
    intros r0 [<-|Hr0]; [auto | apply IH2; exact Hr0].
Qed.

Lemma with_parent_In rows r : In r (with_parent rows) <-> In r rows /\ 0 < r_P r.
Proof. unfold with_parent. rewrite filter_In, Z.ltb_lt. reflexivity. Qed.

Lemma link_of_spec ns r : occn ns (r_L r) <> [] -> occn ns (r_P r) <> [] ->
  exists a b, last_occ ns (r_P r) a /\ first_occ ns (r_L r) b /\ link_of ns r = (n_id a, n_id b).
Proof.
  intros HL HP. unfold link_of, occ_ids.
  destruct (occn ns (r_L r)) as [|b post] eqn:EL; [contradiction|].
  destruct (exists_last HP) as [pre [a EP]]. exists a, b. split; [apply last_occ_iff; exists pre; exact EP|].
  split; [apply first_occ_iff; exists post; exact EL|]. rewrite EP, map_app. cbn [map hd]. rewrite last_app_single. reflexivity.
Qed.

Lemma first_occ_unique ns l a a' : first_occ ns l a -> first_occ ns l a' -> a = a'.
Proof. rewrite !first_occ_iff. intros [p H] [p' H']. rewrite H in H'. inversion H'. reflexivity. Qed.
Lemma last_occ_unique ns l a a' : last_occ ns l a -> last_occ ns l a' -> a = a'.
Proof. rewrite !last_occ_iff. intros [p H] [p' H']. rewrite H in H'. apply app_inj_tail in H'. tauto. Qed.

(* the edge list is exactly the described one *)
Theorem graph_edges_spec ns rows es : graph_edges ns rows = Ok es ->
  forall u v, In (u, v) es <-> edge_spec ns rows u v.
Proof.
  unfold graph_edges. destruct (mapM (link_edge (build_tracks ns)) (with_parent rows)) as [links|] eqn:Em; [|discriminate].
  intros H. inversion H; subst es. clear H. destruct (links_eq _ _ _ Em) as [-> Hocc]. intros u v.
  rewrite in_app_iff, track_edges_In. unfold edge_spec. split.
  - intros [H|H]; [left; exact H|]. right. apply in_map_iff in H. destruct H as [r [Hr Hin]].
    destruct (Hocc r Hin) as [HL HP]. destruct (link_of_spec ns r HL HP) as [a [b [Ha [Hb Heq]]]].
    apply with_parent_In in Hin. rewrite Heq in Hr. inversion Hr; subst. exists r, a, b. tauto.
  - intros [H|H]; [left; exact H|]. right. destruct H as [r [a [b [Hr [HP [Ha [Hb [-> ->]]]]]]]].
    assert (Hin : In r (with_parent rows)) by (apply with_parent_In; auto).
    apply in_map_iff. exists r. split; [|exact Hin]. destruct (Hocc r Hin) as [HL HPn].
    destruct (link_of_spec ns r HL HPn) as [a' [b' [Ha' [Hb' Heq]]]].
    rewrite (last_occ_unique _ _ _ _ Ha Ha'), (first_occ_unique _ _ _ _ Hb Hb'). exact Heq.
Qed.

(* the table part fails exactly with KeyError on a parented row whose child or parent label has no node *)
Theorem graph_edges_ok_iff ns rows :
  (exists es, graph_edges ns rows = Ok es) <->
  forall r, In r rows -> 0 < r_P r -> occn ns (r_L r) <> [] /\ occn ns (r_P r) <> [].
Proof.
  unfold graph_edges. split.
  - intros [es H]. destruct (mapM _ _) as [links|] eqn:Em; [|discriminate]. destruct (links_eq _ _ _ Em) as [_ Hocc].
    intros r Hr HP. apply Hocc. apply with_parent_In. auto.
  - intros H. rewrite (mapM_ok_map _ (link_of ns)); [eexists; reflexivity|].
    intros r Hr. apply with_parent_In in Hr. destruct Hr as [Hr HP]. destruct (H r Hr HP). apply link_edge_ok; assumption.
Qed.
Theorem graph_edges_err ns rows e : graph_edges ns rows = Err e -> e = KeyError.
Proof.
  unfold graph_edges. destruct (mapM _ _) as [links|] eqn:Em; [discriminate|]. intros H. inversion H; subst.
  destruct (mapM_err _ _ _ Em) as [r [_ Hr]]. apply link_edge_err in Hr. tauto.
Qed.

(* ================= 5. consistent datasets; graph validation ================= *)
Definition table_of (d : ctc) : list row := match d_table d with Some r => r | None => [] end.

(* A consistent Cell Tracking Challenge result: the table has one row L B E P per label; label L is present in
   frame B, in frame E and in no frame outside B..E (gaps inside are allowed); P is 0 or the label of a track that
   ended before B; a frame shows each label once; at least one label is present. *)
Record consistent (d : ctc) : Prop := {
  cs_dir : d_dir d = true;
  cs_table : d_table d <> None;
  cs_frames : frames_ok (d_frames d);
  cs_nonempty : exists t l, occurs (d_frames d) t l;
  cs_rows : NoDup (map r_L (table_of d));
  cs_labels : forall t l, occurs (d_frames d) t l -> In l (map r_L (table_of d));
  cs_span : forall r, In r (table_of d) ->
      occurs (d_frames d) (r_B r) (r_L r) /\ occurs (d_frames d) (r_E r) (r_L r) /\
      forall t, occurs (d_frames d) t (r_L r) -> r_B r <= t <= r_E r;
  cs_parent : forall r, In r (table_of d) -> r_P r <> 0 ->
      0 < r_P r /\ exists p, In p (table_of d) /\ r_L p = r_P r /\ r_E p < r_B r }.

Lemma map_inj_on {A B} (f : A -> B) l x y : NoDup (map f l) -> In x l -> In y l -> f x = f y -> x = y.
Proof.
  induction l as [|z r IH]; intros Hn Hx Hy He; [destruct Hx|]. cbn in Hn. inversion Hn as [|? ? Hz Hr]; subst.
  destruct Hx as [<-|Hx], Hy as [<-|Hy]; auto.
  - exfalso. apply Hz. rewrite He. apply in_map. exact Hy.
  - exfalso. apply Hz. rewrite <- He. apply in_map. exact Hx.
Qed.

Lemma first_occ_In ns l a : first_occ ns l a -> In a ns /\ n_lab a = l.
Proof. intros [l1 [l2 [-> [H _]]]]. split; [apply in_or_app; right; left; reflexivity | exact H]. Qed.
Lemma last_occ_In ns l a : last_occ ns l a -> In a ns /\ n_lab a = l.
Proof. intros [l1 [l2 [-> [H _]]]]. split; [apply in_or_app; right; left; reflexivity | exact H]. Qed.
Lemma next_occ_In ns a b : next_occ ns a b -> In a ns /\ In b ns /\ n_lab a = n_lab b.
Proof.
  intros [l1 [l2 [l3 [-> [H _]]]]]. split; [apply in_or_app; right; left; reflexivity|]. split; [|exact H].
  apply in_or_app; right; right. apply in_or_app; right; left; reflexivity.
Qed.

Lemma first_occ_le ns l a n : StronglySorted Rt ns -> first_occ ns l a -> In n ns -> n_lab n = l -> n_t a <= n_t n.
Proof.
  intros Hs [l1 [l2 [-> [Ha Hl1]]]] Hn Hl. apply in_app_iff in Hn. destruct Hn as [Hn|[<-|Hn]].
  - exfalso. apply (Hl1 n Hn Hl).
  - lia.
  - apply StronglySorted_app_inv in Hs. destruct Hs as [_ [Hs _]]. inversion Hs as [|? ? _ Hf]; subst.
    rewrite Forall_forall in Hf. apply (Hf n Hn).
Qed.
Lemma last_occ_ge ns l a n : StronglySorted Rt ns -> last_occ ns l a -> In n ns -> n_lab n = l -> n_t n <= n_t a.
Proof.
  intros Hs [l1 [l2 [-> [Ha Hl2]]]] Hn Hl. apply in_app_iff in Hn. destruct Hn as [Hn|[<-|Hn]].
  - apply StronglySorted_app_inv in Hs. destruct Hs as [_ [_ Hs]]. apply (Hs n a Hn). left. reflexivity.
  - lia.
  - exfalso. apply (Hl2 n Hn Hl).
Qed.
Lemma next_occ_lt ns a b : StronglySorted Rt ns -> next_occ ns a b -> n_t a < n_t b.
Proof.
  intros Hs [l1 [l2 [l3 [-> [Hab _]]]]]. apply sorted_pair in Hs. destruct Hs as [H1 H2].
  destruct (Z.eq_dec (n_t a) (n_t b)) as [E|E]; [exfalso; apply (H2 E Hab) | lia].
Qed.

Lemma cs_first_time d r a : consistent d -> In r (table_of d) -> first_occ (nodes_of (d_frames d)) (r_L r) a -> n_t a = r_B r.
Proof.
  intros Hc Hr Ha. pose proof (nodes_sorted _ (cs_frames d Hc)) as Hs.
  destruct (cs_span d Hc r Hr) as [HB [_ Hall]]. destruct (first_occ_In _ _ _ Ha) as [Hin Hl].
  assert (H1 : r_B r <= n_t a) by (apply Hall; apply occurs_node; exists a; auto).
  apply occurs_node in HB. destruct HB as [n [Hn [Ht Hln]]].
  pose proof (first_occ_le _ _ _ n Hs Ha Hn Hln). lia.
Qed.
Lemma cs_last_time d r a : consistent d -> In r (table_of d) -> last_occ (nodes_of (d_frames d)) (r_L r) a -> n_t a = r_E r.
Proof.
  intros Hc Hr Ha. pose proof (nodes_sorted _ (cs_frames d Hc)) as Hs.
  destruct (cs_span d Hc r Hr) as [_ [HE Hall]]. destruct (last_occ_In _ _ _ Ha) as [Hin Hl].
  assert (H1 : n_t a <= r_E r) by (apply Hall; apply occurs_node; exists a; auto).
  apply occurs_node in HE. destruct HE as [n [Hn [Ht Hln]]].
  pose proof (last_occ_ge _ _ _ n Hs Ha Hn Hln). lia.
Qed.

Lemma cs_row_occn d r : consistent d -> In r (table_of d) -> occn (nodes_of (d_frames d)) (r_L r) <> [].
Proof.
  intros Hc Hr. destruct (cs_span d Hc r Hr) as [HB _]. apply occurs_node in HB. destruct HB as [n [Hn [_ Hl]]].
  intro E. assert (Hin : In n (occn (nodes_of (d_frames d)) (r_L r))) by (apply occn_In; auto). rewrite E in Hin. destruct Hin.
Qed.

(* every edge points strictly forward in time *)
Lemma edge_forward d u v : consistent d -> edge_spec (nodes_of (d_frames d)) (table_of d) u v ->
  exists a b, In a (nodes_of (d_frames d)) /\ In b (nodes_of (d_frames d)) /\ u = n_id a /\ v = n_id b /\ n_t a < n_t b /\
              (n_lab a = n_lab b <-> next_occ (nodes_of (d_frames d)) a b).
Proof.
  intros Hc. pose proof (nodes_sorted _ (cs_frames d Hc)) as Hs. intros [[a [b [Hn [-> ->]]]]|[r [a [b [Hr [HP [Ha [Hb [-> ->]]]]]]]]].
  - destruct (next_occ_In _ _ _ Hn) as [H1 [H2 H3]]. exists a, b.
    split; [exact H1|]. split; [exact H2|]. split; [reflexivity|]. split; [reflexivity|].
    split; [apply (next_occ_lt _ _ _ Hs Hn) | tauto].
  - destruct (last_occ_In _ _ _ Ha) as [H1 H2]. destruct (first_occ_In _ _ _ Hb) as [H3 H4].
    destruct (cs_parent d Hc r Hr) as [_ [p [Hp [HLp HE]]]]; [lia|].
    rewrite <- HLp in Ha. pose proof (cs_first_time d r b Hc Hr Hb) as Hb'.
    assert (Hlt : n_t a < n_t b) by (rewrite (cs_last_time d p a Hc Hp Ha); lia).
    exists a, b. split; [exact H1|]. split; [exact H3|]. split; [reflexivity|]. split; [reflexivity|]. split; [exact Hlt|]. split.
    + intros Heq. exfalso. (* same label: the parent row is the row itself, which ended before it began *)
      assert (p = r) by (apply (map_inj_on r_L (table_of d)); [apply (cs_rows d Hc) | exact Hp | exact Hr | congruence]). subst p.
      destruct (cs_span d Hc r Hr) as [HB [_ Hall]]. specialize (Hall _ HB). lia.
    + intros Hn. destruct (next_occ_In _ _ _ Hn) as [_ [_ Heq]]. exact Heq.
Qed.

Lemma cs_edges_exist d : consistent d -> exists es, graph_edges (nodes_of (d_frames d)) (table_of d) = Ok es.
Proof.
  intros Hc. apply graph_edges_ok_iff. intros r Hr HP. split; [apply (cs_row_occn d r Hc Hr)|].
  destruct (cs_parent d Hc r Hr) as [_ [p [Hp [HLp _]]]]; [lia|]. rewrite <- HLp. apply (cs_row_occn d p Hc Hp).
Qed.

Lemma cs_edges_NoDup d es : consistent d -> graph_edges (nodes_of (d_frames d)) (table_of d) = Ok es -> NoDup es.
Proof.
  intros Hc He. pose proof (graph_edges_spec _ _ _ He) as Hspec. set (ns := nodes_of (d_frames d)) in *.
  pose proof (nodes_ids_NoDup (d_frames d)) as Hids. fold ns in Hids.
  unfold graph_edges in He. destruct (mapM _ _) as [links|] eqn:Em; [|discriminate]. inversion He; subst es. clear He.
  destruct (links_eq _ _ _ Em) as [-> Hocc]. apply NoDup_app_intro.
  - apply track_edges_NoDup. exact Hids.
  - assert (Hrows : NoDup (with_parent (table_of d))).
    { unfold with_parent. apply NoDup_filter. apply (NoDup_of_map r_L). apply (cs_rows d Hc). }
    apply NoDup_map_on; [exact Hrows|]. intros r r' Hr Hr' Heq.
    destruct (Hocc r Hr) as [HL HP]. destruct (Hocc r' Hr') as [HL' HP'].
    destruct (link_of_spec ns r HL HP) as [a [b [Ha [Hb E1]]]]. destruct (link_of_spec ns r' HL' HP') as [a' [b' [Ha' [Hb' E2]]]].
    rewrite E1, E2 in Heq. inversion Heq as [[Hia Hib]].
    destruct (first_occ_In _ _ _ Hb) as [Hbin Hbl]. destruct (first_occ_In _ _ _ Hb') as [Hbin' Hbl'].
    assert (b = b') by (apply (id_inj ns); assumption). subst b'.
    apply with_parent_In in Hr, Hr'. apply (map_inj_on r_L (table_of d)); [apply (cs_rows d Hc) | tauto | tauto | congruence].
  - intros [u v] Ht Hl.
    assert (H1 : edge_spec ns (table_of d) u v) by (apply Hspec; apply in_or_app; left; exact Ht).
    apply track_edges_In in Ht. destruct Ht as [a [b [Hn [-> ->]]]]. destruct (next_occ_In _ _ _ Hn) as [Hain [Hbin Hab]].
    apply in_map_iff in Hl. destruct Hl as [r [Heq Hr]]. destruct (Hocc r Hr) as [HL HP].
    destruct (link_of_spec ns r HL HP) as [a' [b' [Ha' [Hb' E1]]]]. rewrite E1 in Heq. inversion Heq as [[Hia Hib]].
    destruct (last_occ_In _ _ _ Ha') as [Hain' Hal']. destruct (first_occ_In _ _ _ Hb') as [Hbin' Hbl'].
    assert (a' = a) by (apply (id_inj ns); assumption). assert (b' = b) by (apply (id_inj ns); assumption). subst a' b'.
    apply with_parent_In in Hr. destruct Hr as [Hr HPpos].
    assert (Hsp : edge_spec ns (table_of d) (n_id a) (n_id b)).
    { right. exists r, a, b. tauto. }
    destruct (edge_forward d _ _ Hc Hsp) as [a2 [b2 [Ha2 [Hb2 [Hia2 [Hib2 [Hlt Hiff]]]]]]].
    assert (a2 = a) by (apply (id_inj ns); auto). assert (b2 = b) by (apply (id_inj ns); auto). subst a2 b2.
    (* the link (last of P, first of L) with P = L: impossible, the parent row would be the row itself *)
    destruct (cs_parent d Hc r Hr) as [_ [p [Hp [HLp HE]]]]; [lia|].
    assert (p = r) by (apply (map_inj_on r_L (table_of d)); [apply (cs_rows d Hc) | exact Hp | exact Hr | congruence]). subst p.
    destruct (cs_span d Hc r Hr) as [HB [_ Hall]]. specialize (Hall _ HB). lia.
Qed.

Theorem ctc_graph_valid d es : consistent d -> graph_edges (nodes_of (d_frames d)) (table_of d) = Ok es ->
  graph_check true (map n_id (nodes_of (d_frames d))) es = None.
Proof.
  intros Hc He. apply graph_check_none_iff. pose proof (graph_edges_spec _ _ _ He) as Hspec.
  split; [apply nodes_ids_NoDup|]. split; [|split].
  - intros [u v] Hin. apply Hspec in Hin. destruct (edge_forward d u v Hc Hin) as [a [b [Ha [Hb [-> [-> _]]]]]].
    cbn [fst snd]. split; apply in_map; assumption.
  - intros [u v] Hin. apply Hspec in Hin. destruct (edge_forward d u v Hc Hin) as [a [b [Ha [Hb [-> [-> [Hlt _]]]]]]].
    cbn [fst snd]. intro Heq. assert (a = b) by (apply (id_inj (nodes_of (d_frames d))); auto using nodes_ids_NoDup). subst. lia.
  - apply (cs_edges_NoDup d es Hc He).
Qed.

(* ================= 6. the tracklet definition ================= *)
(* every parent in the table has at least two children *)
Definition no_single_child (rows : list row) : Prop :=
  forall r, In r rows -> 0 < r_P r -> exists r', In r' rows /\ r_P r' = r_P r /\ r_L r' <> r_L r.

Lemma labelled_nodes ns : Tracks.nodes_of (labelled ns) = map n_id ns.
Proof. unfold Tracks.nodes_of, labelled. rewrite map_map. reflexivity. Qed.
Lemma labelled_label ns a : NoDup (map n_id ns) -> In a ns -> label_of (labelled ns) (n_id a) = Some (n_lab a).
Proof.
  intros Hn Ha. apply In_label_of; [rewrite labelled_nodes; exact Hn|]. unfold labelled. apply in_map_iff. exists a. auto.
Qed.
Lemma labelled_class ns t : class_of (labelled ns) t = occ_ids ns t.
Proof.
  unfold class_of, labelled, occ_ids, occn. induction ns as [|n r IH]; [reflexivity|]. cbn [map filter snd]. unfold has_lab at 1.
  destruct (n_lab n =? t); cbn [map fst]; rewrite IH; reflexivity.
Qed.

Lemma next_occ_fun ns a b b' : NoDup (map n_id ns) -> next_occ ns a b -> next_occ ns a b' -> b = b'.
Proof.
  intros Hn H H'. apply next_occ_iff in H, H'. destruct H as [_ [pre [post H]]]. destruct H' as [_ [pre' [post' H']]].
  pose proof (occn_NoDup ns (n_lab a) Hn) as Hnd. rewrite H in Hnd, H'.
  destruct (NoDup_split_unique _ _ _ _ _ Hnd H') as [_ E]. inversion E. reflexivity.
Qed.
Lemma next_occ_inj ns a a' b : NoDup (map n_id ns) -> next_occ ns a b -> next_occ ns a' b -> a = a'.
Proof.
  intros Hn H H'. apply next_occ_iff in H, H'. destruct H as [Hab [pre [post H]]]. destruct H' as [Hab' [pre' [post' H']]].
  rewrite Hab', <- Hab in H'. pose proof (occn_NoDup ns (n_lab a) Hn) as Hnd. rewrite H in Hnd, H'.
  change (a :: b :: post) with ([a] ++ b :: post) in Hnd, H'. change (a' :: b :: post') with ([a'] ++ b :: post') in H'.
  rewrite app_assoc in Hnd. rewrite (app_assoc pre), (app_assoc pre') in H'.
  destruct (NoDup_split_unique _ _ _ _ _ Hnd H') as [E _]. apply app_inj_tail in E. tauto.
Qed.
Lemma next_not_last ns a b : NoDup (map n_id ns) -> next_occ ns a b -> ~ last_occ ns (n_lab a) a.
Proof.
  intros Hn H H'. apply next_occ_iff in H. apply last_occ_iff in H'. destruct H as [_ [pre [post H]]]. destruct H' as [pre' H'].
  pose proof (occn_NoDup ns (n_lab a) Hn) as Hnd. rewrite H in Hnd, H'.
  destruct (NoDup_split_unique _ _ _ _ _ Hnd H') as [_ E]. discriminate.
Qed.
Lemma next_not_first ns a b : NoDup (map n_id ns) -> next_occ ns a b -> ~ first_occ ns (n_lab b) b.
Proof.
  intros Hn H H'. apply next_occ_iff in H. apply first_occ_iff in H'. destruct H as [Hab [pre [post H]]]. destruct H' as [post' H'].
  rewrite <- Hab in H'. pose proof (occn_NoDup ns (n_lab a) Hn) as Hnd. rewrite H in Hnd, H'.
  change (a :: b :: post) with ([a] ++ b :: post) in Hnd, H'. rewrite app_assoc in Hnd, H'.
  change (b :: post') with ([] ++ b :: post') in H'.
  destruct (NoDup_split_unique _ _ _ _ _ Hnd H') as [E _]. destruct pre; discriminate.
Qed.

Lemma first_occ_exists ns l : occn ns l <> [] -> exists b, first_occ ns l b.
Proof. intros H. destruct (occn ns l) as [|b post] eqn:E; [contradiction|]. exists b. apply first_occ_iff. exists post. exact E. Qed.

(* an edge of the converted graph, seen at node level *)
Lemma edge_cases d es u v : consistent d -> graph_edges (nodes_of (d_frames d)) (table_of d) = Ok es -> In (u, v) es ->
  let ns := nodes_of (d_frames d) in
  exists a b, In a ns /\ In b ns /\ u = n_id a /\ v = n_id b /\
    ((n_lab a = n_lab b /\ next_occ ns a b) \/
     (n_lab a <> n_lab b /\ exists r, In r (table_of d) /\ 0 < r_P r /\ last_occ ns (r_P r) a /\ first_occ ns (r_L r) b)).
Proof.
  intros Hc He Hin ns. apply (graph_edges_spec _ _ _ He) in Hin.
  destruct (edge_forward d u v Hc Hin) as [a [b [Ha [Hb [Hu [Hv [_ Hiff]]]]]]]. exists a, b.
  split; [exact Ha|]. split; [exact Hb|]. split; [exact Hu|]. split; [exact Hv|].
  pose proof (nodes_ids_NoDup (d_frames d)) as Hn.
  destruct Hin as [[a' [b' [Hnx [Hu' Hv']]]]|[r [a' [b' [Hr [HP [Hla [Hfb [Hu' Hv']]]]]]]]].
  - destruct (next_occ_In _ _ _ Hnx) as [Ha' [Hb' _]].
    assert (a' = a) by (apply (id_inj (nodes_of (d_frames d))); auto; congruence).
    assert (b' = b) by (apply (id_inj (nodes_of (d_frames d))); auto; congruence). subst a' b'.
    left. split; [apply Hiff; exact Hnx | exact Hnx].
  - destruct (last_occ_In _ _ _ Hla) as [Ha' _]. destruct (first_occ_In _ _ _ Hfb) as [Hb' _].
    assert (a' = a) by (apply (id_inj (nodes_of (d_frames d))); auto; congruence).
    assert (b' = b) by (apply (id_inj (nodes_of (d_frames d))); auto; congruence). subst a' b'.
    destruct (Z.eq_dec (n_lab a) (n_lab b)) as [E|E].
    + left. split; [exact E | apply Hiff; exact E].
    + right. split; [exact E|]. exists r. tauto.
Qed.

(* an edge between consecutive appearances is the only edge leaving its source and the only one entering its target *)
Lemma next_linking d es a b : consistent d -> graph_edges (nodes_of (d_frames d)) (table_of d) = Ok es ->
  next_occ (nodes_of (d_frames d)) a b -> linking es (n_id a, n_id b).
Proof.
  intros Hc He Hn. pose proof (nodes_ids_NoDup (d_frames d)) as Hnd. set (ns := nodes_of (d_frames d)) in *.
  destruct (next_occ_In _ _ _ Hn) as [Ha [Hb Hab]].
  assert (Hin : In (n_id a, n_id b) es).
  { apply (graph_edges_spec _ _ _ He). left. exists a, b. auto. }
  split; cbn [fst snd].
  - apply (length_one_of _ (n_id b)); [apply succs_NoDup | apply succs_In; exact Hin|].
    intros v Hv. apply succs_In in Hv. destruct (edge_cases d es _ _ Hc He Hv) as [a' [b' [Ha' [Hb' [Hu [-> Hcase]]]]]].
    assert (a' = a) by (apply (id_inj ns); auto). subst a'.
    destruct Hcase as [[_ Hn']|[_ [r [_ [_ [Hl _]]]]]].
    + f_equal. apply (next_occ_fun ns a); assumption.
    + exfalso. destruct (last_occ_In _ _ _ Hl) as [_ Hlab]. rewrite <- Hlab in Hl. apply (next_not_last ns a b Hnd Hn Hl).
  - apply (length_one_of _ (n_id a)); [apply preds_NoDup | apply preds_In; exact Hin|].
    intros u Hu. apply preds_In in Hu. destruct (edge_cases d es _ _ Hc He Hu) as [a' [b' [Ha' [Hb' [-> [Hv Hcase]]]]]].
    assert (b' = b) by (apply (id_inj ns); auto). subst b'.
    destruct Hcase as [[_ Hn']|[_ [r [_ [_ [_ Hf]]]]]].
    + f_equal. apply (next_occ_inj ns a' a b); assumption.
    + exfalso. destruct (first_occ_In _ _ _ Hf) as [_ Hlab]. rewrite <- Hlab in Hf. apply (next_not_first ns a b Hnd Hn Hf).
Qed.

(* a parent link whose parent has a second child is not the only edge leaving its source *)
Lemma link_branching d es r r' a b : consistent d -> graph_edges (nodes_of (d_frames d)) (table_of d) = Ok es ->
  In r (table_of d) -> 0 < r_P r -> In r' (table_of d) -> r_P r' = r_P r -> r_L r' <> r_L r ->
  last_occ (nodes_of (d_frames d)) (r_P r) a -> first_occ (nodes_of (d_frames d)) (r_L r) b ->
  ~ linking es (n_id a, n_id b).
Proof.
  intros Hc He Hr HP Hr' HPP HLL Ha Hb [Hout _]. cbn [fst] in Hout. set (ns := nodes_of (d_frames d)) in *.
  pose proof (nodes_ids_NoDup (d_frames d)) as Hnd. fold ns in Hnd.
  destruct (first_occ_exists ns (r_L r') (cs_row_occn d r' Hc Hr')) as [b' Hb'].
  destruct (first_occ_In _ _ _ Hb) as [Hbin Hbl]. destruct (first_occ_In _ _ _ Hb') as [Hbin' Hbl'].
  revert Hout. apply (length_not_one _ (n_id b) (n_id b')).
  - apply succs_In. apply (graph_edges_spec _ _ _ He). right. exists r, a, b. tauto.
  - apply succs_In. apply (graph_edges_spec _ _ _ He). right. exists r', a, b'. rewrite HPP. repeat split; auto; lia.
  - intro E. assert (b = b') by (apply (id_inj ns); assumption). subst b'. congruence.
Qed.

(* a parent link to an only child is the only edge leaving its source and the only one entering its target *)
Lemma link_single d es r a b : consistent d -> graph_edges (nodes_of (d_frames d)) (table_of d) = Ok es ->
  In r (table_of d) -> 0 < r_P r -> (forall r', In r' (table_of d) -> r_P r' = r_P r -> r_L r' = r_L r) ->
  last_occ (nodes_of (d_frames d)) (r_P r) a -> first_occ (nodes_of (d_frames d)) (r_L r) b ->
  linking es (n_id a, n_id b).
Proof.
  intros Hc He Hr HP Honly Ha Hb. set (ns := nodes_of (d_frames d)) in *.
  pose proof (nodes_ids_NoDup (d_frames d)) as Hnd. fold ns in Hnd.
  destruct (last_occ_In _ _ _ Ha) as [Hain Hal]. destruct (first_occ_In _ _ _ Hb) as [Hbin Hbl].
  assert (Hin : In (n_id a, n_id b) es).
  { apply (graph_edges_spec _ _ _ He). right. exists r, a, b. tauto. }
  split; cbn [fst snd].
  - apply (length_one_of _ (n_id b)); [apply succs_NoDup | apply succs_In; exact Hin|].
    intros v Hv. apply succs_In in Hv. destruct (edge_cases d es _ _ Hc He Hv) as [a' [b' [Ha' [Hb' [Hu [-> Hcase]]]]]].
    assert (a' = a) by (apply (id_inj ns); auto). subst a'.
    destruct Hcase as [[_ Hn']|[_ [r2 [Hr2 [HP2 [Hl2 Hf2]]]]]].
    + exfalso. rewrite <- Hal in Ha. apply (next_not_last ns a b' Hnd Hn' Ha).
    + destruct (last_occ_In _ _ _ Hl2) as [_ Hl2lab].
      assert (HL : r_L r2 = r_L r) by (apply Honly; [exact Hr2 | congruence]).
      rewrite HL in Hf2. f_equal. apply (first_occ_unique ns (r_L r)); assumption.
  - apply (length_one_of _ (n_id a)); [apply preds_NoDup | apply preds_In; exact Hin|].
    intros u Hu. apply preds_In in Hu. destruct (edge_cases d es _ _ Hc He Hu) as [a' [b' [Ha' [Hb' [-> [Hv Hcase]]]]]].
    assert (b' = b) by (apply (id_inj ns); auto). subst b'.
    destruct Hcase as [[_ Hn']|[_ [r2 [Hr2 [HP2 [Hl2 Hf2]]]]]].
    + exfalso. rewrite <- Hbl in Hb. apply (next_not_first ns a' b Hnd Hn' Hb).
    + destruct (first_occ_In _ _ _ Hf2) as [_ Hf2lab].
      assert (r2 = r) by (apply (map_inj_on r_L (table_of d)); [apply (cs_rows d Hc) | exact Hr2 | exact Hr | congruence]). subst r2.
      f_equal. apply (last_occ_unique ns (r_P r)); assumption.
Qed.

Lemma other_child_dec rows r :
  (exists r', In r' rows /\ r_P r' = r_P r /\ r_L r' <> r_L r) \/ (forall r', In r' rows -> r_P r' = r_P r -> r_L r' = r_L r).
Proof.
  destruct (find (fun r' => (r_P r' =? r_P r) && negb (r_L r' =? r_L r)) rows) as [r'|] eqn:E.
  - left. apply find_some in E. destruct E as [Hin H]. apply andb_true_iff in H. destruct H as [H1 H2].
    apply Z.eqb_eq in H1. apply negb_true_iff, Z.eqb_neq in H2. exists r'. auto.
  - right. intros r' Hin HP. pose proof (find_none _ _ E r' Hin) as H. cbn in H. rewrite HP, Z.eqb_refl in H. cbn in H.
    apply negb_false_iff, Z.eqb_eq in H. exact H.
Qed.

(* the chain of consecutive appearances connects a class *)
Lemma chain_conn (E : list (Z * Z)) (T L : list Z) :
  (forall p, In p (consec L) -> In p E) -> incl L T -> forall x y, In x L -> In y L -> conn E T x y.
Proof.
  induction L as [|a r IH]; intros Hc Hi x y Hx Hy; [destruct Hx|].
  destruct r as [|b r'].
  - destruct Hx as [<-|[]]. destruct Hy as [<-|[]]. apply rt_refl.
  - assert (Hab : conn E T a b).
    { apply rt_step. split; [apply Hi; left; reflexivity|]. split; [apply Hi; right; left; reflexivity|].
      left. apply Hc. left. reflexivity. }
    assert (IH' : forall x y, In x (b :: r') -> In y (b :: r') -> conn E T x y).
    { apply IH; [intros p Hp; apply Hc; right; exact Hp | intros z Hz; apply Hi; right; exact Hz]. }
    destruct Hx as [<-|Hx], Hy as [<-|Hy].
    + apply rt_refl.
    + eapply conn_trans; [exact Hab | apply IH'; [left; reflexivity | exact Hy]].
    + apply conn_sym. eapply conn_trans; [exact Hab | apply IH'; [left; reflexivity | exact Hx]].
    + apply IH'; assumption.
Qed.

Lemma ctc_wf_labelled d es : consistent d -> graph_edges (nodes_of (d_frames d)) (table_of d) = Ok es ->
  wf_labelled es (labelled (nodes_of (d_frames d))).
Proof.
  intros Hc He. split; rewrite labelled_nodes; [apply nodes_ids_NoDup|].
  intros [u v] Hin. destruct (edge_cases d es u v Hc He Hin) as [a [b [Ha [Hb [-> [-> _]]]]]]. cbn [fst snd].
  split; apply in_map; assumption.
Qed.

Lemma ctc_C_spec d es : consistent d -> graph_edges (nodes_of (d_frames d)) (table_of d) = Ok es ->
  C_spec es (labelled (nodes_of (d_frames d))).
Proof.
  intros Hc He t u v. rewrite labelled_class. apply chain_conn; [|apply incl_refl].
  intros [x y] Hp. unfold occ_ids in Hp. rewrite consec_map, in_map_iff in Hp. destruct Hp as [[a b] [Heq Hcs]]. cbn [fst snd] in Heq.
  inversion Heq; subst. apply (graph_edges_spec _ _ _ He). left. exists a, b. split; [|auto].
  apply consec_In in Hcs. destruct Hcs as [pre [post Hcs]].
  assert (Ha : n_lab a = t) by (apply (occn_In (nodes_of (d_frames d)) t a); rewrite Hcs; apply in_or_app; right; left; reflexivity).
  assert (Hb : n_lab b = t) by (apply (occn_In (nodes_of (d_frames d)) t b); rewrite Hcs; apply in_or_app; right; right; left; reflexivity).
  apply next_occ_iff. split; [congruence|]. exists pre, post. rewrite Ha. exact Hcs.
Qed.

Lemma ctc_L_spec_iff d es : consistent d -> graph_edges (nodes_of (d_frames d)) (table_of d) = Ok es ->
  (L_spec es (labelled (nodes_of (d_frames d))) <-> no_single_child (table_of d)).
Proof.
  intros Hc He. pose proof (nodes_ids_NoDup (d_frames d)) as Hnd. set (ns := nodes_of (d_frames d)) in *. split.
  - intros HL r Hr HP. destruct (other_child_dec (table_of d) r) as [H|Honly]; [exact H|]. exfalso.
    destruct (cs_parent d Hc r Hr) as [_ [p [Hp [HLp HE]]]]; [lia|].
    destruct (exists_last (cs_row_occn d p Hc Hp)) as [pre [a Ea]]. fold ns in Ea.
    assert (Ha : last_occ ns (r_P r) a) by (rewrite <- HLp; apply last_occ_iff; exists pre; exact Ea).
    destruct (first_occ_exists ns (r_L r) (cs_row_occn d r Hc Hr)) as [b Hb].
    pose proof (link_single d es r a b Hc He Hr HP Honly Ha Hb) as Hlk.
    assert (Hin : In (n_id a, n_id b) es).
    { apply (graph_edges_spec _ _ _ He). right. exists r, a, b. tauto. }
    apply (HL _ Hin) in Hlk. cbn [fst snd] in Hlk.
    destruct (last_occ_In _ _ _ Ha) as [Hain Hal]. destruct (first_occ_In _ _ _ Hb) as [Hbin Hbl].
    rewrite (labelled_label ns a Hnd Hain), (labelled_label ns b Hnd Hbin) in Hlk. inversion Hlk as [Hlab].
    (* P = L: the parent row is the row itself *)
    assert (p = r) by (apply (map_inj_on r_L (table_of d)); [apply (cs_rows d Hc) | exact Hp | exact Hr | congruence]). subst p.
    destruct (cs_span d Hc r Hr) as [HB [_ Hall]]. specialize (Hall _ HB). lia.
  - intros Hns [u v] Hin. destruct (edge_cases d es u v Hc He Hin) as [a [b [Ha [Hb [-> [-> Hcase]]]]]]. cbn [fst snd].
    fold ns in Ha, Hb. rewrite (labelled_label ns a Hnd Ha), (labelled_label ns b Hnd Hb).
    destruct Hcase as [[Hlab Hn]|[Hlab [r [Hr [HP [Hl Hf]]]]]].
    + split; [intros _; apply (next_linking d es a b Hc He Hn) | intros _; congruence].
    + split; [intros H; inversion H; contradiction|]. intros Hlk. exfalso.
      destruct (Hns r Hr HP) as [r' [Hr' [HPP HLL]]].
      apply (link_branching d es r r' a b Hc He Hr HP Hr' HPP HLL Hl Hf Hlk).
Qed.

(* the declared tracklet annotation satisfies the tracklet definition exactly when no parent has a single child *)
Theorem ctc_tracklets_iff d es : consistent d -> graph_edges (nodes_of (d_frames d)) (table_of d) = Ok es ->
  (invalid_tracklets es (labelled (nodes_of (d_frames d))) = [] <-> no_single_child (table_of d)).
Proof.
  intros Hc He. rewrite (tracklets_iff _ _ (ctc_wf_labelled d es Hc He)), (ctc_L_spec_iff d es Hc He).
  pose proof (ctc_C_spec d es Hc He). tauto.
Qed.

(* ================= 7. the write / read pipeline ================= *)
Lemma col_encodable name dt f ns : valid_prop_dtype dt = true -> dtype_eqb dt DF16 = false -> name <> "" ->
  encodable (name, col dt f ns) /\ wf_prop (length ns) (col dt f ns).
Proof.
  intros Hv Hf Hn. split.
  - unfold encodable, col. cbn [fst snd]. unfold create_props_metadata, vlen_dtypes_uniform, cpm_core, encode_prop, upcast_prop, upcast_arr. cbn [p_vals p_missing a_dt].
    rewrite Hf. cbn [p_vals a_dt]. rewrite Hv. destruct (String.eqb name "") eqn:E; [apply String.eqb_eq in E; contradiction|].
    cbn. eexists. eexists. split; reflexivity.
  - split; cbn; [exists []; reflexivity | exact I].
Qed.

Lemma ctc_wf_input is3d ns es : ns <> [] -> wf_input (ctc_wgraph is3d ns es) (ctc_md is3d) (length ns) (length es).
Proof.
  intros Hne.
  assert (Hbf : backfill (w_nids (ctc_wgraph is3d ns es)) (ctc_md is3d) (w_nprops (ctc_wgraph is3d ns es)) = Some (ctc_props is3d ns)).
  { unfold backfill, ctc_wgraph, ctc_md. cbn [w_nids w_nprops md_axes len0 a_shape option_eqb].
    destruct ns as [|n r]; [contradiction|]. reflexivity. }
  constructor.
  - reflexivity.
  - reflexivity.
  - reflexivity.
  - reflexivity.
  - rewrite Hbf. intros ps Hps. inversion Hps; subst ps. split.
    + unfold ctc_props. destruct is3d; cbn; repeat constructor; cbn; intuition discriminate.
    + unfold ctc_props. destruct is3d; cbn [app]; repeat (apply Forall_cons; [apply col_encodable; [vm_compute; reflexivity | reflexivity | discriminate]|]); constructor.
  - intros ps Hps. inversion Hps; subst ps. split; constructor.
  - intros k0 [].
  - intros k0 [].
  - rewrite Hbf. intros axes Hax. exists (ctc_props is3d ns). split; [reflexivity|].
    unfold ctc_md in Hax. cbn [md_axes] in Hax. inversion Hax; subst axes. clear Hax.
    intros ax Hin. unfold ctc_axes, ctc_props in *. destruct is3d; cbn in Hin;
      repeat (destruct Hin as [<-|Hin]; [eexists; exists (length ns); split; [cbn; unfold col; tauto | reflexivity]|]); destruct Hin.
Qed.

Lemma zmin_some l : l <> [] -> exists m, zmin_list l = Some m.
Proof. destruct l; [contradiction|]. intros _. eexists. reflexivity. Qed.
Lemma zmax_some l : l <> [] -> exists m, zmax_list l = Some m.
Proof. destruct l; [contradiction|]. intros _. eexists. reflexivity. Qed.

Lemma minmax_col nprops name tok dt f ns : ns <> [] ->
  alookup name nprops = Some (col dt f ns) ->
  exists lo hi, minmax_axis nprops (mkax name None None tok) = Ok (mkax name (Some lo) (Some hi) tok).
Proof.
  intros Hne Hl. unfold minmax_axis. cbn [ax_name]. rewrite Hl. unfold col. cbn [p_vals len0 a_shape].
  destruct ns as [|n r]; [contradiction|]. cbn [length]. unfold axis_values. cbn [p_vals p_missing a_flat].
  cbn [map zmin_list zmax_list]. eexists. eexists. reflexivity.
Qed.

Lemma ctc_final_metadata is3d ns es : ns <> [] -> exists md', final_metadata (ctc_wgraph is3d ns es) (ctc_md is3d) = Ok md'.
Proof.
  intros Hne. unfold final_metadata.
  assert (Hbf : backfill (w_nids (ctc_wgraph is3d ns es)) (ctc_md is3d) (w_nprops (ctc_wgraph is3d ns es)) = Some (ctc_props is3d ns)).
  { unfold backfill, ctc_wgraph, ctc_md. cbn [w_nids w_nprops md_axes len0 a_shape option_eqb].
    destruct ns as [|n r]; [contradiction|]. reflexivity. }
  rewrite Hbf. cbn [w_eprops ctc_wgraph]. unfold compute_minmax. cbn [md_axes md_directed md_nprops md_eprops md_tok ctc_md].
  set (nps := map (fun kv : string * prop => (fst kv, upcast_prop (snd kv))) (ctc_props is3d ns)).
  assert (Ht : exists lo hi, minmax_axis nps (mkax "t" None None tok_time) = Ok (mkax "t" (Some lo) (Some hi) tok_time)).
  { apply (minmax_col nps "t" tok_time DI64 n_t ns Hne). subst nps. destruct is3d; reflexivity. }
  assert (Hy : exists lo hi, minmax_axis nps (mkax "y" None None tok_space) = Ok (mkax "y" (Some lo) (Some hi) tok_space)).
  { apply (minmax_col nps "y" tok_space DF64 (fun n => c_y (n_c n)) ns Hne). subst nps. destruct is3d; reflexivity. }
  assert (Hx : exists lo hi, minmax_axis nps (mkax "x" None None tok_space) = Ok (mkax "x" (Some lo) (Some hi) tok_space)).
  { apply (minmax_col nps "x" tok_space DF64 (fun n => c_x (n_c n)) ns Hne). subst nps. destruct is3d; reflexivity. }
  destruct Ht as [t0 [t1 Ht]]. destruct Hy as [y0 [y1 Hy]]. destruct Hx as [x0 [x1 Hx]].
  destruct is3d.
  - assert (Hz : exists lo hi, minmax_axis nps (mkax "z" None None tok_space) = Ok (mkax "z" (Some lo) (Some hi) tok_space)).
    { apply (minmax_col nps "z" tok_space DF64 (fun n => c_z (n_c n)) ns Hne). subst nps. reflexivity. }
    destruct Hz as [z0 [z1 Hz]].
    cbn [ctc_axes app mapM]. rewrite Ht, Hz, Hy, Hx. eexists. reflexivity.
  - cbn [ctc_axes app mapM]. rewrite Ht, Hy, Hx. eexists. reflexivity.
Qed.

(* the segmentation target is free, or may be overwritten *)
Definition seg_free (d : ctc) : Prop := seg_requested d = true -> d_seg_exists d = true -> d_overwrite d = true.

Lemma cs_nodes_nonempty d : consistent d -> nodes_of (d_frames d) <> [].
Proof.
  intros Hc. destruct (cs_nonempty d Hc) as [t [l H]]. apply occurs_node in H. destruct H as [n [Hn _]].
  intro E. rewrite E in Hn. destruct Hn.
Qed.

Lemma ctc_up_props is3d ns : up_props (Some (ctc_props is3d ns)) = ctc_props is3d ns.
Proof. destruct is3d; reflexivity. Qed.

Theorem ctc_pipeline d : consistent d -> seg_free d ->
  let ns := nodes_of (d_frames d) in
  exists es md' tr post,
    graph_edges ns (table_of d) = Ok es /\
    convert d = Ok (ctc_wgraph (d_is3d d) ns es, ctc_md (d_is3d d)) /\
    final_metadata (ctc_wgraph (d_is3d d) ns es) (ctc_md (d_is3d d)) = Ok md' /\
    from_ctc_to_geff d (init None) = (mkst (Some post) tr, Ok tt) /\
    validate_structure KPath (Some post) = Ok tt /\
    read_to_memory KPath (Some post) true None None =
      Ok (mkmg md' (mkarr DU64 [length ns] (map n_id ns)) (mkarr DU64 [length es; 2%nat] (flat_edges es))
               (ctc_props (d_is3d d) ns) []) /\
    graph_check true (map n_id ns) es = None.
Proof.
  intros Hc Hseg ns. destruct (cs_edges_exist d Hc) as [es He]. fold ns in He.
  pose proof (cs_nodes_nonempty d Hc) as Hne. fold ns in Hne.
  destruct (ctc_final_metadata (d_is3d d) ns es Hne) as [md' Hmd].
  assert (Hconv : convert d = Ok (ctc_wgraph (d_is3d d) ns es, ctc_md (d_is3d d))).
  { unfold convert. fold ns. destruct ns as [|n0 r0] eqn:Ens; [contradiction|]. rewrite <- Ens in *.
    unfold table_of in He. destruct (d_table d) as [rows|] eqn:Et; [|exfalso; apply (cs_table d Hc); exact Et].
    rewrite He. reflexivity. }
  destruct (write_then_read KPath None _ _ md' _ _ false I (ctc_wf_input (d_is3d d) ns es Hne) Hmd) as [tr [post [Hw [Hv Hr]]]].
  exists es, md', tr, post. split; [exact He|]. split; [exact Hconv|]. split; [exact Hmd|]. split; [|split; [exact Hv|split]].
  - unfold from_ctc_to_geff. rewrite (cs_dir d Hc). cbn [negb].
    destruct (d_table d) as [rows|] eqn:Et; [|exfalso; apply (cs_table d Hc); exact Et].
    unfold bind at 1. rewrite (check_for_geff_clean KPath None I). unfold bind at 1. unfold ret at 1.
    assert (Hg : seg_requested d && negb (match d_frames d with [] => true | _ => false end) && d_seg_exists d && negb (d_overwrite d) = false).
    { unfold seg_free in Hseg. destruct (seg_requested d), (d_seg_exists d), (d_overwrite d); cbn; try reflexivity; try (rewrite andb_false_r; reflexivity).
      specialize (Hseg eq_refl eq_refl). discriminate. }
    rewrite Hg. unfold bind at 1. unfold ret at 1. unfold bind at 1. unfold lift at 1. rewrite Hconv. cbn [fst snd]. exact Hw.
  - rewrite Hr. cbn [w_nids w_eids ctc_wgraph w_nprops w_eprops]. f_equal. f_equal.
    + assert (Hbf : backfill (mkarr DU64 [length ns] (map n_id ns)) (ctc_md (d_is3d d)) (Some (ctc_props (d_is3d d) ns)) = Some (ctc_props (d_is3d d) ns)).
      { unfold backfill, ctc_md. cbn [md_axes len0 a_shape option_eqb]. destruct ns as [|n r]; [contradiction|]. reflexivity. }
      rewrite Hbf. apply ctc_up_props.
  - apply (ctc_graph_valid d es Hc He).
Qed.

(* what final_metadata leaves of the converter's metadata: directed, the axis names in order, one entry per column *)
Lemma ctc_metadata is3d ns es md' : ns <> [] ->
  final_metadata (ctc_wgraph is3d ns es) (ctc_md is3d) = Ok md' ->
  md_directed md' = true /\
  option_map (map ax_name) (md_axes md') = Some ("t" :: (if is3d then ["z"] else []) ++ ["y"; "x"]) /\
  md_eprops md' = [] /\
  md_nprops md' = [("tracklet_id", new_pm DI64 false); ("t", new_pm DI64 false); ("x", new_pm DF64 false); ("y", new_pm DF64 false)]
                  ++ (if is3d then [("z", new_pm DF64 false)] else []).
Proof.
  intros Hne H. destruct (final_metadata_fields _ _ _ H) as [Hn [He [Hd [_ Ha]]]].
  assert (Hbf : backfill (w_nids (ctc_wgraph is3d ns es)) (ctc_md is3d) (w_nprops (ctc_wgraph is3d ns es)) = Some (ctc_props is3d ns)).
  { unfold backfill, ctc_wgraph, ctc_md. cbn [w_nids w_nprops md_axes len0 a_shape option_eqb].
    destruct ns as [|n r]; [contradiction|]. reflexivity. }
  split; [exact Hd|]. split; [rewrite Ha; destruct is3d; reflexivity|]. split; [exact He|].
  rewrite Hn. cbv zeta. rewrite Hbf. destruct is3d; vm_compute; reflexivity.
Qed.

(* one node per (frame, label) region *)
Lemma node_unique fs a b : frames_ok fs -> In a (nodes_of fs) -> In b (nodes_of fs) ->
  n_t a = n_t b -> n_lab a = n_lab b -> a = b.
Proof.
  intros Hok Ha Hb Ht Hl. pose proof (nodes_sorted fs Hok) as Hs. apply in_split in Ha. destruct Ha as [l1 [l2 E]].
  rewrite E in Hb, Hs. apply in_app_iff in Hb. destruct Hb as [Hb|[Hb|Hb]]; [|auto|].
  - exfalso. apply StronglySorted_app_inv in Hs. destruct Hs as [_ [_ Hs]]. destruct (Hs b a Hb (or_introl eq_refl)) as [_ H]. apply H; congruence.
  - exfalso. apply StronglySorted_app_inv in Hs. destruct Hs as [_ [Hs _]]. inversion Hs as [|? ? _ Hf]; subst.
    rewrite Forall_forall in Hf. destruct (Hf b Hb) as [_ H]. apply H; congruence.
Qed.

(* ================= 8. error paths, paths, label volume ================= *)
Lemma ctc_missing_input d s : d_dir d = false \/ d_table d = None -> from_ctc_to_geff d s = (s, Err FileNotFoundError).
Proof.
  intros [H|H]; unfold from_ctc_to_geff; [rewrite H; reflexivity|]. destruct (d_dir d); cbn [negb]; [rewrite H|]; reflexivity.
Qed.

Lemma ctc_exists_no_overwrite d a ch : d_dir d = true -> d_table d <> None -> d_overwrite d = false ->
  from_ctc_to_geff d (init (Some (ZG a ch))) = (init (Some (ZG a ch)), Err FileExistsError).
Proof.
  intros Hd Ht Ho. unfold from_ctc_to_geff. rewrite Hd. cbn [negb]. destruct (d_table d); [|contradiction]. rewrite Ho. reflexivity.
Qed.

Lemma ctc_seg_exists_no_overwrite d : d_dir d = true -> d_table d <> None -> d_overwrite d = false ->
  seg_requested d = true -> d_seg_exists d = true -> d_frames d <> [] ->
  from_ctc_to_geff d (init None) = (init None, Err FileExistsError).
Proof.
  intros Hd Ht Ho Hs He Hf. unfold from_ctc_to_geff. rewrite Hd. cbn [negb]. destruct (d_table d); [|contradiction].
  rewrite Ho, Hs, He. destruct (d_frames d); [contradiction|]. reflexivity.
Qed.

Lemma convert_no_nodes d : nodes_of (d_frames d) = [] -> convert d = Err ValueError.
Proof. intros H. unfold convert. rewrite H. reflexivity. Qed.

Lemma convert_err d e : convert d = Err e -> e = ValueError \/ e = FileNotFoundError \/ e = KeyError.
Proof.
  unfold convert. destruct (nodes_of (d_frames d)) eqn:En; [intros H; inversion H; auto|].
  destruct (d_table d); [|intros H; inversion H; auto]. destruct (graph_edges _ _) eqn:Eg; [discriminate|].
  intros H. inversion H; subst. apply graph_edges_err in Eg. auto.
Qed.

(* os.path.relpath and its resolution *)
Definition plain (p : list string) : Prop := forall c, In c p -> c <> "." /\ c <> "..".

Lemma fold_dotdot pre suf : fold_left norm_step (repeat ".." (length suf)) (pre ++ suf) = pre.
Proof.
  induction suf as [|x s IH] using rev_ind; [cbn; apply app_nil_r|].
  rewrite app_length, Nat.add_1_r. cbn [repeat fold_left]. unfold norm_step at 2.
  change (String.eqb ".." ".") with false. change (String.eqb ".." "..") with true. cbv iota.
  rewrite app_assoc, removelast_last. exact IH.
Qed.
Lemma fold_plain rest : forall acc, plain rest -> fold_left norm_step rest acc = acc ++ rest.
Proof.
  induction rest as [|c r IH]; intros acc Hp; cbn [fold_left]; [rewrite app_nil_r; reflexivity|].
  destruct (Hp c (or_introl eq_refl)) as [H1 H2]. unfold norm_step at 2.
  apply String.eqb_neq in H1, H2. rewrite H1, H2. rewrite IH; [rewrite <- app_assoc; reflexivity|].
  intros c' Hc'. apply Hp. right. exact Hc'.
Qed.
Lemma common_split a : forall b, exists pre sa sb, a = pre ++ sa /\ b = pre ++ sb /\ common_len a b = length pre.
Proof.
  induction a as [|x a' IH]; intros b.
  - exists [], [], b. auto.
  - destruct b as [|y b']; [exists [], (x :: a'), []; auto|]. cbn [common_len]. destruct (String.eqb x y) eqn:E.
    + apply String.eqb_eq in E. subst y. destruct (IH b') as [pre [sa [sb [H1 [H2 H3]]]]].
      exists (x :: pre), sa, sb. cbn. rewrite <- H1, <- H2, H3. auto.
    + exists [], (x :: a'), (y :: b'). auto.
Qed.

Theorem relpath_resolves path start : plain path -> resolve start (relpath path start) = path.
Proof.
  intros Hp. unfold relpath, resolve. destruct (common_split start path) as [pre [sa [sb [H1 [H2 H3]]]]]. rewrite H3.
  assert (Hk : (length start - length pre)%nat = length sa) by (rewrite H1, app_length; lia).
  assert (Hs : skipn (length pre) path = sb) by (rewrite H2, skipn_app, skipn_all, Nat.sub_diag; reflexivity).
  rewrite Hk, Hs.
  assert (Hsb : plain sb) by (intros c Hc; apply Hp; rewrite H2; apply in_or_app; right; exact Hc).
  destruct (repeat ".." (length sa) ++ sb) as [|c l] eqn:E.
  - apply app_eq_nil in E. destruct E as [E1 E2]. destruct sa; [|discriminate]. rewrite E2 in H2. cbn.
    rewrite H1, H2. reflexivity.
  - rewrite <- E, fold_left_app, H1, fold_dotdot, (fold_plain sb pre Hsb), H2. reflexivity.
Qed.

(* shape of the exported label volume: frames stacked along a new first axis; with tczyx, unit axes make it 5-D *)
Lemma seg_shape_plain d : d_tczyx d = false -> seg_shape d = length (d_frames d) :: d_fshape d.
Proof. intros H. unfold seg_shape. rewrite H. reflexivity. Qed.
Lemma seg_shape_tczyx d : d_tczyx d = true -> (length (d_fshape d) <= 4)%nat ->
  seg_shape d = length (d_frames d) :: repeat 1%nat (4 - length (d_fshape d)) ++ d_fshape d /\ length (seg_shape d) = 5%nat.
Proof.
  intros H Hn. unfold seg_shape. rewrite H. replace (5 - length (d_fshape d) - 1)%nat with (4 - length (d_fshape d))%nat by lia.
  split; [reflexivity|]. cbn [length]. rewrite app_length, repeat_length. lia.
Qed.

(* ================= 9. the statements of props/C15.v ================= *)
Lemma convert_inv d g md : convert d = Ok (g, md) ->
  exists es, graph_edges (nodes_of (d_frames d)) (table_of d) = Ok es /\
             g = ctc_wgraph (d_is3d d) (nodes_of (d_frames d)) es /\ md = ctc_md (d_is3d d) /\ nodes_of (d_frames d) <> [].
Proof.
  unfold convert, table_of. destruct (nodes_of (d_frames d)) as [|n0 r0] eqn:En; [discriminate|]. rewrite <- En.
  destruct (d_table d) as [rows|]; [|discriminate]. destruct (graph_edges _ rows) as [es|] eqn:Eg; [|discriminate].
  intros H. inversion H; subst. exists es. rewrite En. repeat split; discriminate.
Qed.

(* nodes: ids 0..N-1; the (time, label, centroid) rows are the frames flattened in frame-then-region order, so there is
   exactly one node per (frame, label) region; the columns t / tracklet_id / x / y / (z) are the projections of these rows *)
Theorem ctc_nodes d g md : consistent d -> convert d = Ok (g, md) ->
  let fs := d_frames d in
  let ns := nodes_of fs in
  w_nids g = mkarr DU64 [length ns] (zseq 0 (length ns)) /\
  map node_row ns = flat_map (fun tf => map (fun r => (fst tf, fst r, snd r)) (snd tf)) (combine (zseq 0 (length fs)) fs) /\
  (forall t l, occurs fs t l <-> exists n, In n ns /\ n_t n = t /\ n_lab n = l) /\
  (forall a b, In a ns -> In b ns -> n_t a = n_t b -> n_lab a = n_lab b -> a = b) /\
  exists ps, w_nprops g = Some ps /\
    akeys ps = ["tracklet_id"; "t"; "x"; "y"] ++ (if d_is3d d then ["z"] else []) /\
    alookup "t" ps = Some (col DI64 n_t ns) /\
    alookup "tracklet_id" ps = Some (col DI64 n_lab ns) /\
    alookup "x" ps = Some (col DF64 (fun n => c_x (n_c n)) ns) /\
    alookup "y" ps = Some (col DF64 (fun n => c_y (n_c n)) ns) /\
    (d_is3d d = true -> alookup "z" ps = Some (col DF64 (fun n => c_z (n_c n)) ns)).
Proof.
  intros Hc H fs ns. destruct (convert_inv d g md H) as [es [_ [-> [_ _]]]]. fold fs. fold ns.
  split; [unfold ctc_wgraph; cbn [w_nids]; unfold ns; rewrite nodes_ids; reflexivity|].
  split; [apply enum_frames_rows|]. split; [apply occurs_node|]. split; [intros a b; apply (node_unique fs a b (cs_frames d Hc))|].
  exists (ctc_props (d_is3d d) ns). split; [reflexivity|]. destruct (d_is3d d); cbn; repeat split; intros; try discriminate; reflexivity.
Qed.

(* edges: an (E,2) array listing each described edge exactly once *)
Theorem ctc_edges d g md : consistent d -> convert d = Ok (g, md) ->
  exists es, w_eids g = mkarr DU64 [length es; 2%nat] (flat_edges es) /\ NoDup es /\
             forall u v, In (u, v) es <-> edge_spec (nodes_of (d_frames d)) (table_of d) u v.
Proof.
  intros Hc H. destruct (convert_inv d g md H) as [es [He [-> [_ _]]]]. exists es.
  split; [reflexivity|]. split; [apply (cs_edges_NoDup d es Hc He) | apply (graph_edges_spec _ _ _ He)].
Qed.

(* every edge points strictly forward in time (so the graph is acyclic) *)
Theorem ctc_forward d u v : consistent d -> edge_spec (nodes_of (d_frames d)) (table_of d) u v ->
  exists a b, In a (nodes_of (d_frames d)) /\ In b (nodes_of (d_frames d)) /\ u = n_id a /\ v = n_id b /\ n_t a < n_t b.
Proof. intros Hc H. destruct (edge_forward d u v Hc H) as [a [b [H1 [H2 [H3 [H4 [H5 _]]]]]]]. exists a, b. auto. Qed.

(* metadata after the write: directed, axes t,(z),y,x, one entry per column *)
Theorem ctc_axes_written d md' : consistent d -> forall es,
  final_metadata (ctc_wgraph (d_is3d d) (nodes_of (d_frames d)) es) (ctc_md (d_is3d d)) = Ok md' ->
  md_directed md' = true /\
  option_map (map ax_name) (md_axes md') = Some ("t" :: (if d_is3d d then ["z"] else []) ++ ["y"; "x"]) /\
  option_map (map ax_tok) (md_axes md') = Some (tok_time :: (if d_is3d d then [tok_space] else []) ++ [tok_space; tok_space]).
Proof.
  intros Hc es H. destruct (ctc_metadata _ _ _ _ (cs_nodes_nonempty d Hc) H) as [H1 [H2 _]]. split; [exact H1|]. split; [exact H2|].
  unfold final_metadata in H. cbv zeta in H.
  destruct (backfill _ _ _) as [ps|]; [|inversion H; subst; destruct (d_is3d d); reflexivity].
  unfold compute_minmax in H. cbn [md_axes ctc_md] in H. destruct (mapM _ _) as [axes'|] eqn:Em; [|discriminate].
  inversion H; subst md'. cbn [md_axes option_map]. f_equal.
  assert (Htok : forall axes axes', mapM (minmax_axis (map (fun kv : string * prop => (fst kv, upcast_prop (snd kv))) ps)) axes = Ok axes' ->
                 map ax_tok axes' = map ax_tok axes).
  { clear. induction axes as [|ax r IH]; intros axes' H; cbn in H; [inversion H; reflexivity|].
    destruct (minmax_axis _ ax) as [ax'|] eqn:E; [|discriminate]. destruct (mapM _ r) as [r'|] eqn:Er; [|discriminate].
    inversion H; subst. cbn. rewrite (IH r' eq_refl). f_equal.
    unfold minmax_axis in E. destruct (alookup (ax_name ax) _) as [p|]; [|discriminate].
    destruct (p_vals p) as [a|]; [|discriminate]. destruct (len0 a) as [[|n]|]; try discriminate.
    - inversion E; reflexivity.
    - destruct (axis_values p); [|discriminate]. destruct (zmin_list l), (zmax_list l); try discriminate. inversion E; reflexivity. }
  rewrite (Htok _ _ Em). destruct (d_is3d d); reflexivity.
Qed.

(* the full tracklet statement, its refutation on the faithful model, and what holds *)
Definition tracklets_ok (d : ctc) : Prop :=
  forall es, graph_edges (nodes_of (d_frames d)) (table_of d) = Ok es ->
  wf_labelled es (labelled (nodes_of (d_frames d))) /\
  L_spec es (labelled (nodes_of (d_frames d))) /\ C_spec es (labelled (nodes_of (d_frames d))).

Theorem ctc_tracklets_partial d : consistent d -> no_single_child (table_of d) -> tracklets_ok d.
Proof.
  intros Hc Hns es He. split; [apply (ctc_wf_labelled d es Hc He)|]. split; [apply (ctc_L_spec_iff d es Hc He); exact Hns | apply (ctc_C_spec d es Hc He)].
Qed.
Theorem ctc_tracklets_exact d : consistent d -> (tracklets_ok d <-> no_single_child (table_of d)).
Proof.
  intros Hc. split; [|apply ctc_tracklets_partial; exact Hc]. intros H. destruct (cs_edges_exist d Hc) as [es He].
  destruct (H es He) as [_ [HL _]]. apply (ctc_L_spec_iff d es Hc He). exact HL.
Qed.
