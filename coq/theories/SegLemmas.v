(* SegLemmas.v -- the documented conditions of the five segmentation checks as
   propositions, and the proofs that Seg.v decides exactly them.  Used by props/C19.v. *)
From Coq Require Import ZifyBool.
From Geff Require Import Base Dtype Seg.
Open Scope Z_scope.
Open Scope list_scope.

(* ================================================================== *)
(* The documented conditions                                          *)
(* ================================================================== *)

(* --- has_valid_seg_id --- *)
Definition integer_dtypes : list dtype := [DI8; DI16; DI32; DI64; DU8; DU16; DU32; DU64].
Definition no_missing (m : option (list bool)) : Prop :=
  forall l, m = Some l -> forall b, In b l -> b = false.
Definition seg_id_spec (props : node_props) (key : string) : Prop :=
  exists dt miss, lookup key props = Some (dt, miss) /\ In dt integer_dtypes /\ no_missing miss.

(* --- axes_match_seg_dims --- *)
Definition axes_match_spec (axes : option (list axis)) (shape : list nat) : Prop :=
  exists l, axes = Some l /\ l <> [] /\ List.length l = List.length shape.

(* --- the IEEE order --- *)
(* a < b on extended numbers: nothing is below or above NaN, -inf is below everything else,
   +inf above everything else, finite values compare as integers (same denominator) *)
Inductive xlt : xnum -> xnum -> Prop :=
| xlt_fin a b : a < b -> xlt (XFin a) (XFin b)
| xlt_fin_pinf a : xlt (XFin a) XPInf
| xlt_ninf_fin b : xlt XNInf (XFin b)
| xlt_ninf_pinf : xlt XNInf XPInf.
Definition is_fin (x : xnum) : Prop := exists z, x = XFin z.

(* --- graph_is_in_seg_bounds --- *)
(* the maximum exists and lies strictly below size * scale (finite values in units 1/U) in the IEEE
   sense: a NaN maximum, a NaN scale, or an extent 0 * inf = NaN is not inside *)
Definition axis_inside (ax : axis) (n : nat) (s : xnum) : Prop :=
  exists m, ax_max ax = Some m /\ xlt m (extent n s).
Definition bounds_spec (axes : option (list axis)) (shape : list nat) (scale : option (list xnum)) : Prop :=
  let sc := scale_or_ones scale (List.length shape) in
  exists l, axes = Some l /\ l <> [] /\ List.length l = List.length shape /\
            List.length sc = List.length shape /\
            forall i ax n s, nth_error l i = Some ax -> nth_error shape i = Some n -> nth_error sc i = Some s ->
                             axis_inside ax n s.

(* --- has_seg_ids_at_time_points --- *)
Definition in_bounds (shape : list nat) (idx : list Z) : Prop :=
  Forall2 (fun i n => 0 <= i < Z.of_nat n) idx shape.
Definition time_axis_at (axes : list axis) (i : nat) : Prop :=
  exists a, nth_error axes i = Some a /\ ax_time a = true.
Definition unique_time_axis (axes : list axis) (i : nat) : Prop :=
  time_axis_at axes i /\ forall j, time_axis_at axes j -> j = i.
(* t is a valid index of axis k *)
Definition time_in_range (v : vol) (k : nat) (t : Z) : Prop :=
  exists n, nth_error (v_shape v) k = Some n /\ 0 <= t < Z.of_nat n.
(* label l is carried by some pixel whose k-th index is t *)
Definition occurs (v : vol) (k : nat) (t l : Z) : Prop :=
  exists idx, in_bounds (v_shape v) idx /\ nth_error idx k = Some t /\ v_px v idx = l.
Definition time_points_spec (v : vol) (k : nat) (tps ids : list Z) : Prop :=
  (forall t, In t tps -> time_in_range v k t) /\
  (forall t l, In (t, l) (combine tps ids) -> occurs v k t l).

(* --- has_seg_ids_at_coords --- *)
(* idx is the pixel holding coord scaled by sc: per axis, coordinate and scale factor are finite,
   i = floor(c*s) (the product c*s has denominator U*U) and 0 <= i < size; in particular one value
   per axis, and a NaN / infinite coordinate or scale factor has no pixel *)
Inductive pixel_of : list nat -> list xnum -> list xnum -> list Z -> Prop :=
| pixel_nil : pixel_of [] [] [] []
| pixel_cons n shape s sc c coord i idx :
    0 <= i < Z.of_nat n -> i * (U * U) <= c * s < (i + 1) * (U * U) ->
    pixel_of shape sc coord idx ->
    pixel_of (n :: shape) (XFin s :: sc) (XFin c :: coord) (i :: idx).
Definition coord_in_range (v : vol) (sc coord : list xnum) : Prop :=
  exists idx, pixel_of (v_shape v) sc coord idx.
Definition coord_ok (v : vol) (sc coord : list xnum) (l : Z) : Prop :=
  exists idx, pixel_of (v_shape v) sc coord idx /\ v_px v idx = l.
Definition coords_spec (v : vol) (coords : list (list xnum)) (ids : list Z) (scale : option (list xnum)) : Prop :=
  let sc := scale_or_ones scale (rank v) in
  List.length coords = List.length ids /\ List.length sc = rank v /\
  forall coord l, In (coord, l) (combine coords ids) -> coord_ok v sc coord l.

(* ================================================================== *)
(* Generalities                                                       *)
(* ================================================================== *)
Lemma UU_pos : 0 < U * U.
Proof. reflexivity. Qed.

Lemma accepts_Ok b e : accepts (Ok (b, e)) <-> b = true.
Proof. cbn. destruct b; split; intro H; try exact I; try reflexivity; try contradiction; discriminate. Qed.

Lemma is_nil_true {A} (l : list A) : is_nil l = true <-> l = [].
Proof. destruct l; cbn; split; intro H; try reflexivity; discriminate. Qed.

Lemma lookup_In {A} key (l : list (string * A)) a : lookup key l = Some a -> In (key, a) l.
Proof.
  induction l as [|[k x] r IH]; cbn; [discriminate|].
  destruct (String.eqb k key) eqn:E.
  - intros H. inversion H; subst. apply String.eqb_eq in E. subst. left; reflexivity.
  - intros H. right. apply IH. exact H.
Qed.
Lemma In_lookup {A} key (l : list (string * A)) a :
  NoDup (map fst l) -> In (key, a) l -> lookup key l = Some a.
Proof.
  induction l as [|[k x] r IH]; cbn; intros Hn Hin; [destruct Hin|].
  inversion Hn as [|? ? Hnot Hr]; subst.
  destruct Hin as [Heq|Hin].
  - inversion Heq; subst. rewrite String.eqb_refl. reflexivity.
  - destruct (String.eqb k key) eqn:E; [|apply IH; assumption].
    apply String.eqb_eq in E. subst. exfalso. apply Hnot. apply in_map_iff.
    exists (key, a). split; [reflexivity|exact Hin].
Qed.

Lemma In_combine_exists {A B} (x : A) (a : list A) : forall (b : list B),
  List.length a = List.length b -> In x a -> exists y, In (x, y) (combine a b).
Proof.
  induction a as [|x0 a IH]; intros [|y0 b] Hl Hin; cbn in *; try contradiction; try discriminate.
  destruct Hin as [->|Hin].
  - exists y0. left; reflexivity.
  - destruct (IH b) as [y Hy]; [lia|exact Hin|]. exists y. right. exact Hy.
Qed.

(* ================================================================== *)
(* IEEE multiplication and order                                      *)
(* ================================================================== *)
Lemma xltb_iff a b : xltb a b = true <-> xlt a b.
Proof.
  destruct a, b; cbn; split; intro H; try discriminate; try (inversion H; fail); try constructor; try reflexivity.
  - lia.
  - inversion H; subst. lia.
Qed.

Lemma xltb_false_iff a b : xltb a b = false <-> ~ xlt a b.
Proof.
  rewrite <- xltb_iff. destruct (xltb a b); split; intro H; try reflexivity; try discriminate.
  - exfalso. apply H. reflexivity.
Qed.

Lemma xlt_fin_iff a b : xlt (XFin a) (XFin b) <-> a < b.
Proof. split; intro H; [inversion H; assumption|constructor; exact H]. Qed.

(* 0 <= c in the IEEE sense, i.e. Python's `c >= 0` *)
Lemma xleb0_true c : xleb (XFin 0) c = true <-> (exists p, c = XFin p /\ 0 <= p) \/ c = XPInf.
Proof.
  destruct c; cbn; split; intro H.
  - left. exists z. split; [reflexivity|lia].
  - destruct H as [[p [Hp H0]]|H]; [inversion Hp; subst; lia|discriminate].
  - discriminate.
  - destruct H as [[p [Hp _]]|H]; discriminate.
  - right; reflexivity.
  - reflexivity.
  - discriminate.
  - destruct H as [[p [Hp _]]|H]; discriminate.
Qed.

(* a product is finite exactly when both factors are *)
Lemma xinf_not_fin b p : xinf b <> XFin p.
Proof. destruct b; discriminate. Qed.
Lemma xmul_inf_not_fin pos b p : xmul_inf pos b <> XFin p.
Proof. destruct b; cbn; try discriminate; try apply xinf_not_fin. destruct (z =? 0); [discriminate|apply xinf_not_fin]. Qed.
Lemma xmul_fin_inv a b p : xmul a b = XFin p -> exists x y, a = XFin x /\ b = XFin y /\ p = x * y.
Proof.
  destruct a as [x| | |].
  - destruct b as [y| | |].
    + cbn. intros H. inversion H; subst. exists x, y. repeat split.
    + discriminate.
    + intros H. exfalso. exact (xmul_inf_not_fin true (XFin x) p H).
    + intros H. exfalso. exact (xmul_inf_not_fin false (XFin x) p H).
  - discriminate.
  - intros H. exfalso. exact (xmul_inf_not_fin true b p H).
  - intros H. exfalso. exact (xmul_inf_not_fin false b p H).
Qed.
Lemma xmul_comm a b : xmul a b = xmul b a.
Proof.
  destruct a as [x| | |], b as [y| | |]; cbn; try reflexivity.
  rewrite Z.mul_comm. reflexivity.
Qed.
Lemma xmul_nan_l b : xmul XNaN b = XNaN.
Proof. reflexivity. Qed.
Lemma xmul_nan_r a : xmul a XNaN = XNaN.
Proof. destruct a; reflexivity. Qed.
(* inf * 0 = NaN; inf * (non-zero finite or infinite) = the infinity with the product of the signs *)
Lemma xmul_inf_zero : xmul XPInf (XFin 0) = XNaN /\ xmul XNInf (XFin 0) = XNaN.
Proof. split; reflexivity. Qed.
Lemma xmul_inf_fin y : y <> 0 ->
  xmul XPInf (XFin y) = (if 0 <? y then XPInf else XNInf) /\ xmul XNInf (XFin y) = (if 0 <? y then XNInf else XPInf).
Proof.
  intros Hy. cbn. replace (y =? 0) with false by lia. destruct (0 <? y); split; reflexivity.
Qed.
Lemma xmul_inf_inf :
  xmul XPInf XPInf = XPInf /\ xmul XNInf XNInf = XPInf /\ xmul XPInf XNInf = XNInf /\ xmul XNInf XPInf = XNInf.
Proof. repeat split; reflexivity. Qed.

(* nothing is below or above NaN; nothing is below -inf or above +inf *)
Lemma xlt_no_nan x : ~ xlt XNaN x /\ ~ xlt x XNaN /\ ~ xlt x XNInf /\ ~ xlt XPInf x.
Proof. repeat split; intro H; inversion H. Qed.

(* ================================================================== *)
(* has_valid_seg_id                                                   *)
(* ================================================================== *)
Lemma is_integer_iff dt : is_integer dt = true <-> In dt integer_dtypes.
Proof.
  unfold integer_dtypes. destruct dt; cbn; split; intro H; try reflexivity; try discriminate; try tauto;
    repeat (destruct H as [H|H]; [discriminate H|]); contradiction.
Qed.

Lemma existsb_id_false (m : list bool) : existsb (fun b => b) m = false <-> forall b, In b m -> b = false.
Proof.
  induction m as [|x r IH]; cbn.
  - split; [intros _ b []|reflexivity].
  - destruct x; cbn.
    + split; [discriminate|]. intros H. apply H. left; reflexivity.
    + rewrite IH. split.
      * intros H b [<-|Hb]; [reflexivity|apply H; exact Hb].
      * intros H b Hb. apply H. right; exact Hb.
Qed.

Lemma seg_id_iff props key : accepts (has_valid_seg_id props key) <-> seg_id_spec props key.
Proof.
  unfold has_valid_seg_id, seg_id_spec.
  destruct (lookup key props) as [[dt miss]|] eqn:L.
  - destruct (is_integer dt) eqn:HI; cbn [negb].
    + destruct miss as [m|].
      * destruct (existsb (fun b => b) m) eqn:E.
        -- cbn [accepts]. split; [contradiction|]. intros [dt' [miss' [H [_ Hm]]]]. inversion H; subst.
           assert (existsb (fun b => b) m = false) as E' by (apply existsb_id_false; apply (Hm m eq_refl)).
           congruence.
        -- cbn [accepts]. split; [|intros; exact I]. intros _. exists dt, (Some m). split; [reflexivity|].
           split; [apply is_integer_iff; exact HI|]. intros l Hl. inversion Hl; subst. apply existsb_id_false. exact E.
      * cbn [accepts]. split; [|intros; exact I]. intros _. exists dt, None. split; [reflexivity|].
        split; [apply is_integer_iff; exact HI|]. intros l Hl. discriminate.
    + cbn [accepts]. split; [contradiction|]. intros [dt' [miss' [H [Hi _]]]]. inversion H; subst.
      apply is_integer_iff in Hi. congruence.
  - cbn [accepts]. split; [contradiction|]. intros [dt' [miss' [H _]]]. discriminate.
Qed.

Lemma seg_id_total props key :
  accepts (has_valid_seg_id props key) \/ rejects_with_message (has_valid_seg_id props key).
Proof.
  unfold has_valid_seg_id.
  destruct (lookup key props) as [[dt [m|]]|]; cbn; try (right; exact I);
    destruct (is_integer dt); cbn; try (right; exact I); try (left; exact I).
  destruct (existsb (fun b => b) m); cbn; [right|left]; exact I.
Qed.

(* ================================================================== *)
(* axes_match_seg_dims                                                *)
(* ================================================================== *)
Lemma axes_match_iff axes shape : accepts (axes_match_seg_dims axes shape) <-> axes_match_spec axes shape.
Proof.
  unfold axes_match_seg_dims, axes_match_spec.
  destruct axes as [[|a r]|].
  - cbn. split; [contradiction|]. intros [l [H [Hn _]]]. inversion H; subst. contradiction.
  - rewrite accepts_Ok, Nat.eqb_eq. split.
    + intros H. exists (a :: r). split; [reflexivity|]. split; [discriminate|]. symmetry. exact H.
    + intros [l [H [_ Hl]]]. inversion H; subst. symmetry. exact Hl.
  - cbn. split; [contradiction|]. intros [l [H _]]. discriminate.
Qed.

Lemma axes_match_total axes shape : is_ok (axes_match_seg_dims axes shape) = true.
Proof. unfold axes_match_seg_dims. destruct axes as [[|a r]|]; reflexivity. Qed.

(* ================================================================== *)
(* graph_is_in_seg_bounds                                             *)
(* ================================================================== *)
Lemma nth_error_Some_ex {A} (l : list A) i : (i < List.length l)%nat -> exists x, nth_error l i = Some x.
Proof.
  intros H. destruct (nth_error l i) eqn:E; [eexists; reflexivity|].
  apply nth_error_None in E. lia.
Qed.

Lemma bounds_loop_spec l : forall shape sc i,
  (i + List.length l <= List.length shape)%nat -> (i + List.length l <= List.length sc)%nat ->
  (accepts (bounds_loop l shape sc i) \/ rejects_with_message (bounds_loop l shape sc i)) /\
  (accepts (bounds_loop l shape sc i) <->
   forall j ax n s, nth_error l j = Some ax -> nth_error shape (i + j) = Some n -> nth_error sc (i + j) = Some s ->
                    axis_inside ax n s).
Proof.
  induction l as [|ax r IH]; intros shape sc i Hs Hc; cbn [bounds_loop].
  - split; [left; exact I|]. cbn. split; [|intros; exact I]. intros _ j ax n s Hj. destruct j; discriminate.
  - cbn [List.length] in Hs, Hc.
    destruct (nth_error_Some_ex shape i) as [n Hn]; [lia|].
    destruct (nth_error_Some_ex sc i) as [s Hsi]; [lia|].
    destruct (ax_max ax) as [m|] eqn:M.
    + rewrite Hn, Hsi. destruct (xltb m (extent n s)) eqn:C; cbn [negb].
      * apply xltb_iff in C.
        destruct (IH shape sc (S i)) as [IHt IHa]; [lia|lia|]. split; [exact IHt|]. rewrite IHa. split.
        -- intros H j ax' n' s' Hj Hn' Hs'. destruct j as [|j].
           ++ cbn in Hj. inversion Hj; subst. rewrite Nat.add_0_r in Hn', Hs'.
              rewrite Hn in Hn'. rewrite Hsi in Hs'. inversion Hn'; inversion Hs'; subst.
              exists m. split; [exact M|exact C].
           ++ cbn in Hj. apply (H j); [exact Hj| |]; rewrite Nat.add_succ_l, <- Nat.add_succ_r; assumption.
        -- intros H j ax' n' s' Hj Hn' Hs'. apply (H (S j)); [exact Hj| |];
             rewrite Nat.add_succ_r, <- Nat.add_succ_l; assumption.
      * apply xltb_false_iff in C.
        split; [right; exact I|]. cbn. split; [contradiction|]. intros H.
        destruct (H 0%nat ax n s) as [m' [Hm' Hlt]]; [reflexivity|rewrite Nat.add_0_r; exact Hn|rewrite Nat.add_0_r; exact Hsi|].
        rewrite M in Hm'. inversion Hm'; subst. contradiction.
    + split; [right; exact I|]. cbn. split; [contradiction|]. intros H.
      destruct (H 0%nat ax n s) as [m' [Hm' _]]; [reflexivity|rewrite Nat.add_0_r; exact Hn|rewrite Nat.add_0_r; exact Hsi|].
      rewrite M in Hm'. discriminate.
Qed.

Lemma bounds_iff axes shape scale :
  accepts (graph_is_in_seg_bounds axes shape scale) <-> bounds_spec axes shape scale.
Proof.
  unfold graph_is_in_seg_bounds, bounds_spec. cbv zeta.
  set (sc := scale_or_ones scale (List.length shape)).
  destruct (Nat.eqb (List.length sc) (List.length shape)) eqn:E; cbn [negb].
  - apply Nat.eqb_eq in E. destruct axes as [[|a r]|].
    + cbn. split; [contradiction|]. intros [l [H [Hn _]]]. inversion H; subst. contradiction.
    + destruct (Nat.eqb (List.length (a :: r)) (List.length shape)) eqn:E2; cbn [negb].
      * apply Nat.eqb_eq in E2.
        destruct (bounds_loop_spec (a :: r) shape sc 0) as [_ Hacc]; [lia|lia|]. rewrite Hacc. split.
        -- intros H. exists (a :: r). split; [reflexivity|]. split; [discriminate|]. split; [exact E2|]. split; [exact E|].
           intros i ax n s Hi Hn Hs. apply (H i ax n s); assumption.
        -- intros [l [Hl [_ [_ [_ H]]]]]. inversion Hl; subst. intros j ax n s Hj Hn Hs. apply (H j ax n s); assumption.
      * apply Nat.eqb_neq in E2. cbn. split; [contradiction|]. intros [l [Hl [_ [Hlen _]]]]. inversion Hl; subst. contradiction.
    + cbn. split; [contradiction|]. intros [l [H _]]. discriminate.
  - apply Nat.eqb_neq in E. cbn. split; [contradiction|]. intros [l [_ [_ [_ [Hlen _]]]]]. contradiction.
Qed.

(* never an exception, and a false verdict always comes with a message *)
Lemma bounds_total axes shape scale :
  accepts (graph_is_in_seg_bounds axes shape scale) \/ rejects_with_message (graph_is_in_seg_bounds axes shape scale).
Proof.
  unfold graph_is_in_seg_bounds. cbv zeta.
  set (sc := scale_or_ones scale (List.length shape)).
  destruct (Nat.eqb (List.length sc) (List.length shape)) eqn:E; cbn [negb]; [|right; exact I].
  apply Nat.eqb_eq in E. destruct axes as [[|a r]|]; try (right; exact I).
  destruct (Nat.eqb (List.length (a :: r)) (List.length shape)) eqn:E2; cbn [negb]; [|right; exact I].
  apply Nat.eqb_eq in E2. apply (bounds_loop_spec (a :: r) shape sc 0); lia.
Qed.

(* the "Graph axis i is out of bounds" message names an axis whose maximum is not inside *)
Lemma bounds_loop_msg l : forall shape sc i b errs j,
  bounds_loop l shape sc i = Ok (b, errs) -> In (MAxisOob j) errs ->
  (i <= j)%nat /\ exists ax n s m, nth_error l (j - i) = Some ax /\ nth_error shape j = Some n /\ nth_error sc j = Some s /\
                                  ax_max ax = Some m /\ ~ xlt m (extent n s).
Proof.
  induction l as [|ax r IH]; intros shape sc i b errs j Heq Hin; cbn [bounds_loop] in Heq.
  - inversion Heq; subst. destruct Hin.
  - destruct (ax_max ax) as [m|] eqn:M.
    + destruct (nth_error shape i) as [n|] eqn:N; [|discriminate].
      destruct (nth_error sc i) as [s|] eqn:S'; [|discriminate].
      destruct (xltb m (extent n s)) eqn:C; cbn [negb] in Heq.
      2: { apply xltb_false_iff in C. inversion Heq; subst. destruct Hin as [Hj|[]]. inversion Hj; subst j.
           split; [lia|]. exists ax, n, s, m. rewrite Nat.sub_diag. cbn. repeat split; try assumption. }
      * destruct (IH _ _ _ _ _ _ Heq Hin) as [Hle [ax' [n' [s' [m' [H1 H2]]]]]].
        split; [lia|]. exists ax', n', s', m'. split; [|exact H2].
        replace (j - i)%nat with (S (j - S i)) by lia. exact H1.
    + inversion Heq; subst. destruct Hin as [Hj|[]]. discriminate.
Qed.

Lemma bounds_message axes shape scale b errs j :
  graph_is_in_seg_bounds axes shape scale = Ok (b, errs) -> In (MAxisOob j) errs ->
  exists l ax n s m, axes = Some l /\ nth_error l j = Some ax /\ nth_error shape j = Some n /\
                     nth_error (scale_or_ones scale (List.length shape)) j = Some s /\
                     ax_max ax = Some m /\ ~ xlt m (extent n s).
Proof.
  unfold graph_is_in_seg_bounds. cbv zeta.
  set (sc := scale_or_ones scale (List.length shape)).
  destruct (Nat.eqb (List.length sc) (List.length shape)); cbn [negb].
  - destruct axes as [[|a r]|].
    + intros H Hin. inversion H; subst. destruct Hin as [Hj|[]]; discriminate.
    + destruct (Nat.eqb (List.length (a :: r)) (List.length shape)); cbn [negb].
      * intros H Hin. destruct (bounds_loop_msg _ _ _ _ _ _ _ H Hin) as [_ [ax [n [s [m [H1 H2]]]]]].
        rewrite Nat.sub_0_r in H1. exists (a :: r), ax, n, s, m. split; [reflexivity|]. split; [exact H1|exact H2].
      * intros H Hin. inversion H; subst. destruct Hin as [Hj|[]]; discriminate.
    + intros H Hin. inversion H; subst. destruct Hin as [Hj|[]]; discriminate.
  - intros H Hin. inversion H; subst. destruct Hin as [Hj|[]]; discriminate.
Qed.

(* ================================================================== *)
(* which axis is the time axis                                        *)
(* ================================================================== *)
Lemma tpf_In axes : forall i j,
  In j (time_positions_from i axes) <-> (i <= j)%nat /\ time_axis_at axes (j - i).
Proof.
  induction axes as [|a r IH]; intros i j; cbn [time_positions_from].
  - split; [intros []|]. intros [_ [x [Hx _]]]. destruct (j - i)%nat; discriminate.
  - assert (In j (time_positions_from (S i) r) <-> (S i <= j)%nat /\ time_axis_at (a :: r) (j - i)) as Htail.
    { rewrite IH. split.
      - intros [Hle [x [Hx Ht]]]. split; [exact Hle|]. exists x. split; [|exact Ht].
        replace (j - i)%nat with (S (j - S i)) by lia. exact Hx.
      - intros [Hle [x [Hx Ht]]]. split; [exact Hle|]. exists x. split; [|exact Ht].
        replace (j - i)%nat with (S (j - S i)) in Hx by lia. exact Hx. }
    destruct (ax_time a) eqn:T.
    + cbn [In]. rewrite Htail. split.
      * intros [<-|[Hle H]]; [|split; [lia|exact H]]. split; [lia|]. rewrite Nat.sub_diag. exists a. split; [reflexivity|exact T].
      * intros [Hle H]. destruct (Nat.eq_dec i j) as [->|Hne]; [left; reflexivity|right]. split; [lia|exact H].
    + rewrite Htail. split.
      * intros [Hle H]. split; [lia|exact H].
      * intros [Hle H]. split; [|exact H]. destruct (Nat.eq_dec i j) as [->|Hne]; [|lia].
        exfalso. rewrite Nat.sub_diag in H. destruct H as [x [Hx Ht]]. cbn in Hx. inversion Hx; subst. congruence.
Qed.

Lemma tpf_NoDup axes : forall i, NoDup (time_positions_from i axes).
Proof.
  induction axes as [|a r IH]; intros i; cbn [time_positions_from]; [constructor|].
  destruct (ax_time a); [|apply IH]. constructor; [|apply IH].
  intros H. apply tpf_In in H. lia.
Qed.

Lemma tp0_In axes j : In j (time_positions_from 0 axes) <-> time_axis_at axes j.
Proof. rewrite tpf_In, Nat.sub_0_r. split; [intros [_ H]; exact H|intros H; split; [lia|exact H]]. Qed.

Lemma time_index_unique axes i : unique_time_axis axes i -> time_index (Some (Some axes)) = i.
Proof.
  intros [Hi Hu]. cbn [time_index].
  pose proof (tpf_NoDup axes 0) as Hnd.
  assert (forall j, In j (time_positions_from 0 axes) -> j = i) as Hall by (intros j Hj; apply Hu, tp0_In; exact Hj).
  apply tp0_In in Hi.
  destruct (time_positions_from 0 axes) as [|a [|b r]].
  - destruct Hi.
  - apply Hall. left; reflexivity.
  - exfalso. assert (a = i) by (apply Hall; left; reflexivity). assert (b = i) by (apply Hall; right; left; reflexivity).
    subst. inversion Hnd as [|? ? Hnot _]; subst. apply Hnot. left; reflexivity.
Qed.

Lemma time_index_default md :
  (forall axes, md = Some (Some axes) -> ~ exists i, unique_time_axis axes i) -> time_index md = 0%nat.
Proof.
  intros H. destruct md as [[axes|]|]; cbn [time_index]; try reflexivity.
  destruct (time_positions_from 0 axes) as [|a [|b r]] eqn:E; try reflexivity.
  exfalso. apply (H axes eq_refl). exists a. split.
  - apply tp0_In. rewrite E. left; reflexivity.
  - intros j Hj. apply tp0_In in Hj. rewrite E in Hj. destruct Hj as [<-|[]]. reflexivity.
Qed.

(* ================================================================== *)
(* index enumeration and np.take                                      *)
(* ================================================================== *)
Lemma zrange_In n i : In i (zrange n) <-> 0 <= i < Z.of_nat n.
Proof.
  unfold zrange. rewrite in_map_iff. split.
  - intros [k [<- Hk]]. apply in_seq in Hk. lia.
  - intros H. exists (Z.to_nat i). split; [lia|]. apply in_seq. lia.
Qed.

Lemma all_indices_In shape : forall idx, In idx (all_indices shape) <-> in_bounds shape idx.
Proof.
  unfold in_bounds. induction shape as [|n r IH]; intros idx; cbn [all_indices].
  - split.
    + intros [<-|[]]. constructor.
    + intros H. inversion H; subst. left; reflexivity.
  - rewrite in_flat_map. split.
    + intros [i [Hi Hm]]. apply in_map_iff in Hm. destruct Hm as [tl [<- Htl]].
      constructor; [apply zrange_In; exact Hi|apply IH; exact Htl].
    + intros H. inversion H as [|i n' tl r' Hi Htl]; subst. exists i. split; [apply zrange_In; exact Hi|].
      apply in_map_iff. exists tl. split; [reflexivity|apply IH; exact Htl].
Qed.

Lemma at_axis_true k t idx : at_axis k t idx = true <-> nth_error idx k = Some t.
Proof.
  unfold at_axis. destruct (nth_error idx k) as [i|].
  - rewrite Z.eqb_eq. split; [intros ->; reflexivity|intros H; inversion H; reflexivity].
  - split; discriminate.
Qed.

Lemma time_labels_Ok v k t labels :
  time_labels v k t = Ok labels -> time_in_range v k t /\ (forall l, In l labels <-> occurs v k t l).
Proof.
  unfold time_labels, np_take, norm_axis_index.
  destruct (nth_error (v_shape v) k) as [n|] eqn:N; [|discriminate].
  destruct ((0 <=? t) && (t <? Z.of_nat n)) eqn:R; [|discriminate].
  assert (0 <= t < Z.of_nat n) as Hr by lia.
  replace ((t <? - Z.of_nat n) || (Z.of_nat n <=? t)) with false by lia.
  replace (t <? 0) with false by lia.
  intros H. inversion H; subst labels. split; [exists n; split; [exact N|exact Hr]|].
  intros l. rewrite in_map_iff. unfold occurs. split.
  - intros [idx [Hpx Hin]]. apply filter_In in Hin. destruct Hin as [Hin Hat].
    exists idx. split; [apply all_indices_In; exact Hin|]. split; [apply at_axis_true; exact Hat|exact Hpx].
  - intros [idx [Hb [Hat Hpx]]]. exists idx. split; [exact Hpx|]. apply filter_In.
    split; [apply all_indices_In; exact Hb|apply at_axis_true; exact Hat].
Qed.

Lemma time_labels_Err v k t e :
  time_labels v k t = Err e -> e = IndexError /\ ~ time_in_range v k t.
Proof.
  unfold time_labels, np_take, norm_axis_index.
  destruct (nth_error (v_shape v) k) as [n|] eqn:N.
  - destruct ((0 <=? t) && (t <? Z.of_nat n)) eqn:R.
    + replace ((t <? - Z.of_nat n) || (Z.of_nat n <=? t)) with false by lia. discriminate.
    + intros H. inversion H; subst. split; [reflexivity|]. intros [n' [Hn' Hr]]. rewrite N in Hn'. inversion Hn'; subst. lia.
  - intros H. inversion H; subst. split; [reflexivity|]. intros [n' [Hn' _]]. rewrite N in Hn'. discriminate.
Qed.

(* ================================================================== *)
(* has_seg_ids_at_time_points                                         *)
(* ================================================================== *)
Lemma group_of_In tps ids t l : In l (group_of tps ids t) <-> In (t, l) (combine tps ids).
Proof.
  unfold group_of. rewrite in_map_iff. split.
  - intros [[a b] [Hb Hin]]. cbn [snd] in Hb. subst b. apply filter_In in Hin. destruct Hin as [Hin Ha].
    cbn [fst] in Ha. apply Z.eqb_eq in Ha. subst a. exact Hin.
  - intros H. exists (t, l). split; [reflexivity|]. apply filter_In. split; [exact H|]. cbn. apply Z.eqb_refl.
Qed.

Lemma absent_nil labels g :
  filter (fun l => negb (zmem l labels)) g = [] <-> forall l, In l g -> In l labels.
Proof.
  induction g as [|x r IH]; cbn [filter].
  - split; [intros _ l []|reflexivity].
  - destruct (zmem x labels) eqn:Z; cbn [negb].
    + apply zmem_In in Z. rewrite IH. split.
      * intros H l [<-|Hl]; [exact Z|apply H; exact Hl].
      * intros H l Hl. apply H. right; exact Hl.
    + split; [discriminate|]. intros H. exfalso.
      assert (zmem x labels = true) as Z' by (apply zmem_In, H; left; reflexivity). congruence.
Qed.

(* the loop: total; verdict; messages *)
Lemma tp_loop_spec v k all ids : forall tps errors missing,
  exists b errs, tp_loop v k all ids tps errors missing = Ok (b, errs) /\
    (b = true <-> missing = false /\ (forall t, In t tps -> time_in_range v k t) /\
                  (forall t l, In t tps -> In l (group_of all ids t) -> occurs v k t l)) /\
    ((missing = true -> errors <> []) -> b = false -> errs <> []) /\
    ((exists t, In t tps /\ ~ time_in_range v k t) ->
       exists t, In t tps /\ ~ time_in_range v k t /\ In (MTimeOob t) errs).
Proof.
  induction tps as [|t r IH]; intros errors missing; cbn [tp_loop].
  - exists (negb missing), errors. split; [reflexivity|]. split; [|split].
    + destruct missing; cbn.
      * split; [discriminate|intros [H _]; discriminate H].
      * split; [intros _|reflexivity]. split; [reflexivity|]. split; [intros t []|intros t l []].
    + intros Hinv Hb. apply Hinv. destruct missing; [reflexivity|discriminate].
    + intros [t [[] _]].
  - destruct (time_labels v k t) as [labels|e] eqn:TL.
    + apply time_labels_Ok in TL. destruct TL as [Hr Hl].
      set (absent := filter (fun l => negb (zmem l labels)) (group_of all ids t)).
      destruct (IH (errors ++ map (fun l => MMissingLabel l t) absent) (missing || negb (is_nil absent)))
        as [b [errs [Heq [Hv [Hm Ho]]]]].
      exists b, errs. split; [exact Heq|]. split; [|split].
      * rewrite Hv. rewrite orb_false_iff, negb_false_iff, is_nil_true. unfold absent. rewrite absent_nil. split.
        -- intros [[Hmiss Hab] [Hrange Hocc]]. split; [exact Hmiss|]. split.
           ++ intros t' [<-|Ht']; [exact Hr|apply Hrange; exact Ht'].
           ++ intros t' l [<-|Ht'] Hg; [apply Hl, Hab; exact Hg|apply Hocc; assumption].
        -- intros [Hmiss [Hrange Hocc]]. split; [split; [exact Hmiss|]|split].
           ++ intros l Hg. apply Hl. apply Hocc; [left; reflexivity|exact Hg].
           ++ intros t' Ht'. apply Hrange. right; exact Ht'.
           ++ intros t' l Ht' Hg. apply Hocc; [right; exact Ht'|exact Hg].
      * intros Hinv Hb. apply Hm; [|exact Hb]. intros Hor Happ. apply app_eq_nil in Happ. destruct Happ as [He Hmap].
        apply orb_true_iff in Hor. destruct Hor as [Hmt|Hab]; [apply Hinv; assumption|].
        apply map_eq_nil in Hmap. rewrite Hmap in Hab. discriminate.
      * intros [t' [[<-|Ht'] Hnr]]; [contradiction|]. destruct Ho as [t2 [H1 [H2 H3]]]; [exists t'; split; assumption|].
        exists t2. split; [right; exact H1|]. split; assumption.
    + apply time_labels_Err in TL. destruct TL as [-> Hnr].
      exists false, (errors ++ [MTimeOob t]). split; [reflexivity|]. split; [|split].
      * split; [discriminate|]. intros [_ [Hrange _]]. exfalso. apply Hnr, Hrange. left; reflexivity.
      * intros _ _ H. apply app_eq_nil in H. destruct H as [_ H]. discriminate.
      * intros _. exists t. split; [left; reflexivity|]. split; [exact Hnr|]. apply in_or_app. right. left; reflexivity.
Qed.

Lemma time_points_full v tps ids md :
  let k := time_index md in
  exists b errs, has_seg_ids_at_time_points v tps ids md = Ok (b, errs) /\
    (b = true <-> time_points_spec v k tps ids) /\
    (b = false -> errs <> []) /\
    ((exists t, In t tps /\ ~ time_in_range v k t) ->
       exists t, In t tps /\ ~ time_in_range v k t /\ In (MTimeOob t) errs).
Proof.
  cbv zeta. unfold has_seg_ids_at_time_points.
  destruct (tp_loop_spec v (time_index md) tps ids tps [] false) as [b [errs [Heq [Hv [Hm Ho]]]]].
  exists b, errs. split; [exact Heq|]. split; [|split].
  - rewrite Hv. unfold time_points_spec. split.
    + intros [_ [Hr Hocc]]. split; [exact Hr|]. intros t l Hin. apply Hocc.
      * apply in_combine_l in Hin. exact Hin.
      * apply group_of_In. exact Hin.
    + intros [Hr Hocc]. split; [reflexivity|]. split; [exact Hr|]. intros t l _ Hg. apply Hocc, group_of_In. exact Hg.
  - apply Hm. discriminate.
  - exact Ho.
Qed.

Lemma time_points_iff v tps ids md :
  accepts (has_seg_ids_at_time_points v tps ids md) <-> time_points_spec v (time_index md) tps ids.
Proof.
  destruct (time_points_full v tps ids md) as [b [errs [Heq [Hv _]]]]. rewrite Heq, accepts_Ok. exact Hv.
Qed.

Lemma time_points_total v tps ids md :
  accepts (has_seg_ids_at_time_points v tps ids md) \/ rejects_with_message (has_seg_ids_at_time_points v tps ids md).
Proof.
  destruct (time_points_full v tps ids md) as [b [errs [Heq [_ [Hm _]]]]]. rewrite Heq.
  destruct b; [left; exact I|right]. cbn. destruct errs; [exfalso; apply Hm; reflexivity|exact I].
Qed.

Lemma time_points_out_of_range v tps ids md :
  (exists t, In t tps /\ ~ time_in_range v (time_index md) t) ->
  exists errs t, has_seg_ids_at_time_points v tps ids md = Ok (false, errs) /\
                 In t tps /\ ~ time_in_range v (time_index md) t /\ In (MTimeOob t) errs.
Proof.
  intros H. destruct (time_points_full v tps ids md) as [b [errs [Heq [Hv [_ Ho]]]]].
  destruct (Ho H) as [t [H1 [H2 H3]]]. exists errs, t. split; [|split; [exact H1|split; [exact H2|exact H3]]].
  destruct b; [|exact Heq]. exfalso. destruct Hv as [Hv _]. destruct (Hv eq_refl) as [Hr _]. apply H2, Hr, H1.
Qed.

(* when every time point is in range, the "Missing seg_id l at time t" messages name exactly the
   listed (time point, label) pairs whose label does not occur at the time point *)
Lemma tp_loop_msgs v k all ids : forall tps errors missing b errs,
  tp_loop v k all ids tps errors missing = Ok (b, errs) ->
  (forall t, In t tps -> time_in_range v k t) ->
  forall l t, In (MMissingLabel l t) errs <->
              In (MMissingLabel l t) errors \/ (In t tps /\ In l (group_of all ids t) /\ ~ occurs v k t l).
Proof.
  induction tps as [|t0 r IH]; intros errors missing b errs Heq Hr l t; cbn [tp_loop] in Heq.
  - inversion Heq; subst. split; [intros H; left; exact H|]. intros [H|[[] _]]. exact H.
  - destruct (time_labels v k t0) as [labels|e] eqn:TL.
    + apply time_labels_Ok in TL. destruct TL as [_ Hl].
      rewrite (IH _ _ _ _ Heq) by (intros t' Ht'; apply Hr; right; exact Ht').
      rewrite in_app_iff, in_map_iff. split.
      * intros [[H|[l' [Hm Hin]]]|[Ht [Hg Hn]]].
        -- left; exact H.
        -- right. inversion Hm; subst. apply filter_In in Hin. destruct Hin as [Hg Hz].
           split; [left; reflexivity|]. split; [exact Hg|]. intros Ho. apply Hl, zmem_In in Ho. rewrite Ho in Hz. discriminate.
        -- right. split; [right; exact Ht|]. split; assumption.
      * intros [H|[[<-|Ht] [Hg Hn]]].
        -- left; left; exact H.
        -- left; right. exists l. split; [reflexivity|]. apply filter_In. split; [exact Hg|].
           destruct (zmem l labels) eqn:Z; [|reflexivity]. exfalso. apply Hn, Hl, zmem_In. exact Z.
        -- right. split; [exact Ht|]. split; assumption.
    + apply time_labels_Err in TL. destruct TL as [_ Hn]. exfalso. apply Hn, Hr. left; reflexivity.
Qed.

Lemma time_points_messages v tps ids md b errs :
  let k := time_index md in
  has_seg_ids_at_time_points v tps ids md = Ok (b, errs) ->
  (forall t, In t tps -> time_in_range v k t) ->
  forall l t, In (MMissingLabel l t) errs <-> In (t, l) (combine tps ids) /\ ~ occurs v k t l.
Proof.
  cbv zeta. unfold has_seg_ids_at_time_points. intros Heq Hr l t.
  rewrite (tp_loop_msgs _ _ _ _ _ _ _ _ _ Heq Hr). split.
  - intros [[]|[_ [Hg Hn]]]. split; [apply group_of_In; exact Hg|exact Hn].
  - intros [Hin Hn]. right. split; [apply in_combine_l in Hin; exact Hin|]. split; [apply group_of_In; exact Hin|exact Hn].
Qed.

(* ================================================================== *)
(* has_seg_ids_at_coords                                              *)
(* ================================================================== *)
Lemma pixel_of_length shape sc coord idx :
  pixel_of shape sc coord idx ->
  List.length coord = List.length shape /\ List.length sc = List.length shape /\ List.length idx = List.length shape.
Proof. induction 1 as [|n shape s sc c coord i idx _ _ _ [IH1 [IH2 IH3]]]; cbn; [auto|]. repeat split; congruence. Qed.

Lemma pixel_of_in_bounds shape sc coord idx : pixel_of shape sc coord idx -> in_bounds shape idx.
Proof. unfold in_bounds. induction 1; constructor; assumption. Qed.

Lemma floor_unique i j x : i * (U * U) <= x < (i + 1) * (U * U) -> j * (U * U) <= x < (j + 1) * (U * U) -> i = j.
Proof. pose proof UU_pos. set (M := U * U) in *. intros Hi Hj. nia. Qed.

(* the pixel of a coordinate is unique: "the pixel at the scaled coordinate" is well defined *)
Lemma pixel_of_fun shape sc coord idx : pixel_of shape sc coord idx -> forall idx', pixel_of shape sc coord idx' -> idx = idx'.
Proof.
  induction 1 as [|n shape s sc c coord i idx Hi Hf Hp IH]; intros idx' H'; inversion H'; subst; [reflexivity|].
  f_equal; [eapply floor_unique; eassumption|apply IH; assumption].
Qed.

Lemma zip_strict_Ok {A B} (a : list A) : forall (b : list B),
  List.length a = List.length b -> zip_strict a b = Ok (combine a b).
Proof.
  induction a as [|x a IH]; intros [|y b] Hl; cbn in *; try discriminate; [reflexivity|].
  rewrite IH by lia. reflexivity.
Qed.

Lemma trunc_floor p : 0 <= p -> trunc p * (U * U) <= p < (trunc p + 1) * (U * U) /\ 0 <= trunc p.
Proof.
  intros Hp. unfold trunc. pose proof UU_pos as HM. set (M := U * U) in *.
  rewrite Z.quot_div_nonneg by lia.
  pose proof (Z.div_mod p M ltac:(lia)). pose proof (Z.mod_pos_bound p M HM).
  pose proof (Z.div_pos p M Hp HM). split; [nia|lia].
Qed.

Definition scaled_of (coord sc : list xnum) : list xnum := map (fun p => xmul (fst p) (snd p)) (combine coord sc).

(* a coordinate has a pixel only if all its components and all scale factors are finite *)
Lemma pixel_of_finite shape sc coord idx :
  pixel_of shape sc coord idx -> Forall is_fin coord /\ Forall is_fin sc.
Proof.
  induction 1 as [|n shape s sc c coord i idx _ _ _ [IH1 IH2]]; [split; constructor|].
  split; constructor; try assumption; eexists; reflexivity.
Qed.

(* the sign test (`not c >= 0`), int() of every component, then integer indexing *)
Lemma index_of_scaled shape : forall sc coord,
  List.length coord = List.length shape -> List.length sc = List.length shape ->
  if existsb (fun c => negb (xleb (XFin 0) c)) (scaled_of coord sc)
  then ~ exists idx, pixel_of shape sc coord idx
  else match mapM xint (scaled_of coord sc) with
       | Err e => e = IndexError /\ ~ exists idx, pixel_of shape sc coord idx
       | Ok ints =>
           match norm_index shape ints with
           | Ok idx => pixel_of shape sc coord idx
           | Err e => e = IndexError /\ ~ exists idx, pixel_of shape sc coord idx
           end
       end.
Proof.
  induction shape as [|n shape IH]; intros [|s sc] [|c coord] Hc Hs; cbn in Hc, Hs; try discriminate.
  - cbn. constructor.
  - specialize (IH sc coord ltac:(lia) ltac:(lia)).
    unfold scaled_of in *. cbn [combine map existsb fst snd mapM].
    destruct (xmul c s) as [p| | |] eqn:P.
    + apply xmul_fin_inv in P. destruct P as [c' [s' [-> [-> ->]]]].
      change (xleb (XFin 0) (XFin (c' * s'))) with (0 <=? c' * s').
      change (xint (XFin (c' * s'))) with (@Ok Z (trunc (c' * s'))).
      destruct (0 <=? c' * s') eqn:Neg; cbn [negb orb].
      * assert (0 <= c' * s') as Hnn by lia.
        destruct (trunc_floor (c' * s') Hnn) as [Hfl Hq].
        destruct (existsb (fun c0 => negb (xleb (XFin 0) c0)) (map (fun p => xmul (fst p) (snd p)) (combine coord sc))) eqn:Ex.
        -- intros [idx H]. inversion H as [|? ? ? ? ? ? i idx' Hi Hf Hp]; subst. apply IH. exists idx'. exact Hp.
        -- destruct (mapM xint (map (fun p => xmul (fst p) (snd p)) (combine coord sc))) as [ints|e].
           ++ cbn [norm_index]. unfold norm_axis_index.
              replace (trunc (c' * s') <? - Z.of_nat n) with false by lia. cbn [orb].
              destruct (Z.of_nat n <=? trunc (c' * s')) eqn:Big.
              ** split; [reflexivity|]. intros [idx H]. inversion H as [|? ? ? ? ? ? i idx' Hi Hf Hp]; subst.
                 assert (i = trunc (c' * s')) by (eapply floor_unique; [exact Hf|exact Hfl]). lia.
              ** replace (trunc (c' * s') <? 0) with false by lia.
                 destruct (norm_index shape ints) as [idx'|e].
                 --- constructor; [lia|exact Hfl|exact IH].
                 --- destruct IH as [-> IH]. split; [reflexivity|]. intros [idx H].
                     inversion H as [|? ? ? ? ? ? i idx' Hi Hf Hp]; subst. apply IH. exists idx'. exact Hp.
           ++ destruct IH as [-> IH]. split; [reflexivity|]. intros [idx H].
              inversion H as [|? ? ? ? ? ? i idx' Hi Hf Hp]; subst. apply IH. exists idx'. exact Hp.
      * intros [idx H]. inversion H as [|? ? ? ? ? ? i idx' Hi Hf Hp]; subst.
        pose proof UU_pos. assert (0 <= i * (U * U)) by (apply Z.mul_nonneg_nonneg; lia). lia.
    + change (xleb (XFin 0) XNaN) with false. cbn [negb orb]. intros [idx H]. inversion H; subst. cbn in P. discriminate.
    + change (xleb (XFin 0) XPInf) with true. change (xint XPInf) with (@Err Z IndexError). cbn [negb orb].
      destruct (existsb (fun c0 => negb (xleb (XFin 0) c0)) (map (fun p => xmul (fst p) (snd p)) (combine coord sc))).
      * intros [idx H]. inversion H; subst. cbn in P. discriminate.
      * split; [reflexivity|]. intros [idx H]. inversion H; subst. cbn in P. discriminate.
    + change (xleb (XFin 0) XNInf) with false. cbn [negb orb]. intros [idx H]. inversion H; subst. cbn in P. discriminate.
Qed.

Lemma coord_value_spec v sc coord :
  List.length coord = rank v -> List.length sc = rank v ->
  match coord_value v coord sc with
  | Ok x => exists idx, pixel_of (v_shape v) sc coord idx /\ v_px v idx = x
  | Err e => e = IndexError /\ ~ coord_in_range v sc coord
  end.
Proof.
  unfold rank, coord_value, coord_in_range. intros Hc Hs.
  rewrite zip_strict_Ok by congruence.
  pose proof (index_of_scaled (v_shape v) sc coord Hc Hs) as H. unfold scaled_of in H.
  destruct (existsb (fun c => negb (xleb (XFin 0) c)) (map (fun p => xmul (fst p) (snd p)) (combine coord sc))).
  - split; [reflexivity|exact H].
  - destruct (mapM xint (map (fun p => xmul (fst p) (snd p)) (combine coord sc))) as [ints|e].
    + unfold np_getitem. destruct (norm_index (v_shape v) ints) as [idx|e].
      * exists idx. split; [exact H|reflexivity].
      * exact H.
    + exact H.
Qed.

Lemma coords_loop_spec v sc : List.length sc = rank v -> forall pairs k missing,
  exists b errs, coords_loop v sc pairs k missing = Ok (b, errs) /\
    (b = true <-> missing = false /\ forall coord l, In (coord, l) pairs -> coord_ok v sc coord l) /\
    ((exists coord l, In (coord, l) pairs /\ ~ coord_in_range v sc coord) -> b = false /\ errs <> []).
Proof.
  intros Hs. induction pairs as [|[coord l] r IH]; intros k missing; cbn [coords_loop].
  - exists (negb missing), []. split; [reflexivity|]. split.
    + destruct missing; cbn.
      * split; [discriminate|intros [H _]; discriminate H].
      * split; [intros _|reflexivity]. split; [reflexivity|intros c l []].
    + intros [c [l [[] _]]].
  - destruct (Nat.eqb (List.length coord) (rank v)) eqn:Ar; cbn [negb].
    + apply Nat.eqb_eq in Ar. pose proof (coord_value_spec v sc coord Ar Hs) as CV.
      destruct (coord_value v coord sc) as [x|e].
      * destruct CV as [idx [Hp Hx]].
        destruct (IH (S k) (missing || negb (x =? l))) as [b [errs [Heq [Hv Ho]]]].
        exists b, errs. split; [exact Heq|]. split.
        -- rewrite Hv, orb_false_iff, negb_false_iff, Z.eqb_eq. split.
           ++ intros [[Hm Hxl] Hall]. split; [exact Hm|]. intros c' l' [Heq'|Hin]; [|apply Hall; exact Hin].
              inversion Heq'; subst. exists idx. split; [exact Hp|reflexivity].
           ++ intros [Hm Hall]. split; [split; [exact Hm|]|].
              ** destruct (Hall coord l) as [idx' [Hp' Hx']]; [left; reflexivity|].
                 rewrite (pixel_of_fun _ _ _ _ Hp _ Hp') in Hx. congruence.
              ** intros c' l' Hin. apply Hall. right; exact Hin.
        -- intros [c' [l' [[Heq'|Hin] Hnr]]]; [|apply Ho; exists c', l'; split; assumption].
           inversion Heq'; subst. exfalso. apply Hnr. exists idx. exact Hp.
      * destruct CV as [-> Hnr]. exists false, [MCoordOob k]. split; [reflexivity|]. split.
        -- split; [discriminate|]. intros [_ Hall]. exfalso. destruct (Hall coord l) as [idx [Hp _]]; [left; reflexivity|].
           apply Hnr. exists idx. exact Hp.
        -- intros _. split; [reflexivity|discriminate].
    + apply Nat.eqb_neq in Ar. exists false, [MCoordArity k]. split; [reflexivity|]. split.
      * split; [discriminate|]. intros [_ Hall]. exfalso. destruct (Hall coord l) as [idx [Hp _]]; [left; reflexivity|].
        apply pixel_of_length in Hp. apply Ar. unfold rank. apply Hp.
      * intros _. split; [reflexivity|discriminate].
Qed.

Lemma coords_iff v coords ids scale :
  accepts (has_seg_ids_at_coords v coords ids scale) <-> coords_spec v coords ids scale.
Proof.
  unfold has_seg_ids_at_coords, coords_spec. cbv zeta.
  set (sc := scale_or_ones scale (rank v)).
  destruct (Nat.eqb (List.length coords) (List.length ids)) eqn:E1; cbn [negb].
  - apply Nat.eqb_eq in E1. destruct (Nat.eqb (List.length sc) (rank v)) eqn:E2; cbn [negb].
    + apply Nat.eqb_eq in E2.
      destruct (coords_loop_spec v sc E2 (combine coords ids) 0%nat false) as [b [errs [Heq [Hv _]]]].
      rewrite Heq, accepts_Ok, Hv. split.
      * intros [_ H]. split; [exact E1|]. split; [exact E2|exact H].
      * intros [_ [_ H]]. split; [reflexivity|exact H].
    + apply Nat.eqb_neq in E2. cbn. split; [contradiction|]. intros [_ [H _]]. contradiction.
  - apply Nat.eqb_neq in E1. cbn. split; [contradiction|]. intros [H _]. contradiction.
Qed.

Lemma coords_total v coords ids scale : is_ok (has_seg_ids_at_coords v coords ids scale) = true.
Proof.
  unfold has_seg_ids_at_coords. cbv zeta.
  set (sc := scale_or_ones scale (rank v)).
  destruct (Nat.eqb (List.length coords) (List.length ids)); cbn [negb]; [|reflexivity].
  destruct (Nat.eqb (List.length sc) (rank v)) eqn:E2; cbn [negb]; [|reflexivity].
  apply Nat.eqb_eq in E2.
  destruct (coords_loop_spec v sc E2 (combine coords ids) 0%nat false) as [b [errs [Heq _]]].
  rewrite Heq. reflexivity.
Qed.

Lemma coords_out_of_range v coords ids scale :
  (exists coord, In coord coords /\ ~ coord_in_range v (scale_or_ones scale (rank v)) coord) ->
  rejects_with_message (has_seg_ids_at_coords v coords ids scale).
Proof.
  intros [coord [Hin Hnr]]. unfold has_seg_ids_at_coords. cbv zeta.
  set (sc := scale_or_ones scale (rank v)) in *.
  destruct (Nat.eqb (List.length coords) (List.length ids)) eqn:E1; cbn [negb]; [|exact I].
  apply Nat.eqb_eq in E1. destruct (Nat.eqb (List.length sc) (rank v)) eqn:E2; cbn [negb]; [|exact I].
  apply Nat.eqb_eq in E2.
  destruct (coords_loop_spec v sc E2 (combine coords ids) 0%nat false) as [b [errs [Heq [_ Ho]]]].
  destruct (In_combine_exists coord coords ids E1 Hin) as [l Hl].
  destruct Ho as [-> Hne]; [exists coord, l; split; assumption|].
  rewrite Heq. cbn. destruct errs; [contradiction|exact I].
Qed.

(* ================================================================== *)
(* never an exception                                                 *)
(* ================================================================== *)
Lemma verdict_is_ok (r : res result) : accepts r \/ rejects_with_message r -> is_ok r = true.
Proof. destruct r as [[b e]|x]; cbn; [reflexivity|]. intros [[]|[]]. Qed.

Lemma never_raises :
  (forall props key, is_ok (has_valid_seg_id props key) = true) /\
  (forall axes shape, is_ok (axes_match_seg_dims axes shape) = true) /\
  (forall axes shape scale, is_ok (graph_is_in_seg_bounds axes shape scale) = true) /\
  (forall v tps ids md, is_ok (has_seg_ids_at_time_points v tps ids md) = true) /\
  (forall v coords ids scale, is_ok (has_seg_ids_at_coords v coords ids scale) = true).
Proof.
  repeat split; intros.
  - apply verdict_is_ok, seg_id_total.
  - apply axes_match_total.
  - apply verdict_is_ok, bounds_total.
  - apply verdict_is_ok, time_points_total.
  - apply coords_total.
Qed.

(* a false verdict of these three checks always carries a message *)
Lemma false_has_message :
  (forall props key, ~ accepts (has_valid_seg_id props key) -> rejects_with_message (has_valid_seg_id props key)) /\
  (forall axes shape scale, ~ accepts (graph_is_in_seg_bounds axes shape scale) ->
                            rejects_with_message (graph_is_in_seg_bounds axes shape scale)) /\
  (forall v tps ids md, ~ accepts (has_seg_ids_at_time_points v tps ids md) ->
                        rejects_with_message (has_seg_ids_at_time_points v tps ids md)).
Proof.
  repeat split; intros.
  - destruct (seg_id_total props key); [contradiction|assumption].
  - destruct (bounds_total axes shape scale); [contradiction|assumption].
  - destruct (time_points_total v tps ids md); [contradiction|assumption].
Qed.

Lemma lookup_dict {A} key (l : list (string * A)) a :
  NoDup (map fst l) -> (lookup key l = Some a <-> In (key, a) l).
Proof. intros H. split; [apply lookup_In|apply In_lookup; exact H]. Qed.

(* ================================================================== *)
(* non-finite numbers: corollaries                                    *)
(* ================================================================== *)
Lemma extent_fin n s : extent n (XFin s) = XFin (Z.of_nat n * s).
Proof. reflexivity. Qed.
Lemma extent_nan n : extent n XNaN = XNaN.
Proof. reflexivity. Qed.
(* size 0 times an infinite scale factor is NaN; a positive size keeps the infinity *)
Lemma extent_inf n :
  extent n XPInf = (if Nat.eqb n 0 then XNaN else XPInf) /\ extent n XNInf = (if Nat.eqb n 0 then XNaN else XNInf).
Proof.
  unfold extent. cbn. destruct n as [|n]; [split; reflexivity|].
  replace (Z.of_nat (S n) =? 0) with false by lia. replace (0 <? Z.of_nat (S n)) with true by lia. split; reflexivity.
Qed.

(* for finite maximum and scale factor the reported axis has size * scale <= max, as before *)
Lemma bounds_message_fin axes shape scale b errs j :
  graph_is_in_seg_bounds axes shape scale = Ok (b, errs) -> In (MAxisOob j) errs ->
  exists l ax n s m, axes = Some l /\ nth_error l j = Some ax /\ nth_error shape j = Some n /\
                     nth_error (scale_or_ones scale (List.length shape)) j = Some s /\
                     ax_max ax = Some m /\ ~ xlt m (extent n s) /\
                     (forall m' s', m = XFin m' -> s = XFin s' -> Z.of_nat n * s' <= m').
Proof.
  intros H Hin. destruct (bounds_message _ _ _ _ _ _ H Hin) as [l [ax [n [s [m [H1 [H2 [H3 [H4 [H5 H6]]]]]]]]]].
  exists l, ax, n, s, m. repeat split; try assumption.
  intros m' s' -> ->. rewrite extent_fin, xlt_fin_iff in H6. lia.
Qed.

(* an accepted axis has neither a NaN / +inf maximum nor a NaN / -inf extent *)
Lemma xlt_sides m e : xlt m e -> m <> XNaN /\ m <> XPInf /\ e <> XNaN /\ e <> XNInf.
Proof. intros H. inversion H; repeat split; discriminate. Qed.

Lemma bounds_nonfinite_rejects axes shape scale :
  (exists l i ax n s, axes = Some l /\ nth_error l i = Some ax /\ nth_error shape i = Some n /\
                      nth_error (scale_or_ones scale (List.length shape)) i = Some s /\
                      (ax_max ax = Some XNaN \/ ax_max ax = Some XPInf \/ extent n s = XNaN \/ extent n s = XNInf)) ->
  rejects_with_message (graph_is_in_seg_bounds axes shape scale).
Proof.
  intros [l [i [ax [n [s [Hl [Hi [Hn [Hs Hbad]]]]]]]]].
  destruct (bounds_total axes shape scale) as [Hacc|Hrej]; [|exact Hrej]. exfalso.
  apply bounds_iff in Hacc. destruct Hacc as [l' [Hl' [_ [_ [_ Hall]]]]]. rewrite Hl in Hl'. inversion Hl'; subst l'.
  destruct (Hall i ax n s Hi Hn Hs) as [m [Hm Hlt]]. apply xlt_sides in Hlt. destruct Hlt as [A [B [C D]]].
  destruct Hbad as [E|[E|[E|E]]]; try (rewrite Hm in E; inversion E; subst; contradiction); contradiction.
Qed.

(* a coordinate with a NaN / infinite component, or any coordinate under a scale vector with a NaN /
   infinite factor, has no pixel: False with a message *)
Lemma coords_nonfinite v coords ids scale :
  (exists coord x, In coord coords /\ In x coord /\ ~ is_fin x) \/
  (coords <> [] /\ exists s, In s (scale_or_ones scale (rank v)) /\ ~ is_fin s) ->
  rejects_with_message (has_seg_ids_at_coords v coords ids scale).
Proof.
  intros H. apply coords_out_of_range. destruct H as [[coord [x [Hc [Hx Hnf]]]]|[Hne [s [Hs Hnf]]]].
  - exists coord. split; [exact Hc|]. intros [idx Hp]. apply pixel_of_finite in Hp. destruct Hp as [Hp _].
    rewrite Forall_forall in Hp. apply Hnf, Hp, Hx.
  - destruct coords as [|coord r]; [contradiction|]. exists coord. split; [left; reflexivity|].
    intros [idx Hp]. apply pixel_of_finite in Hp. destruct Hp as [_ Hp].
    rewrite Forall_forall in Hp. apply Hnf, Hp, Hs.
Qed.

(* pixel_of without the induction: same lengths, and on every axis finite coordinate and scale factor,
   an index inside the axis, and index = floor of the product *)
Definition pixel_pointwise (shape : list nat) (sc coord : list xnum) (idx : list Z) : Prop :=
  List.length sc = List.length shape /\ List.length coord = List.length shape /\ List.length idx = List.length shape /\
  forall k n s c i, nth_error shape k = Some n -> nth_error sc k = Some s -> nth_error coord k = Some c ->
                    nth_error idx k = Some i ->
                    exists c' s', c = XFin c' /\ s = XFin s' /\ 0 <= i < Z.of_nat n /\
                                  i * (U * U) <= c' * s' < (i + 1) * (U * U).

Lemma pixel_of_pointwise shape : forall sc coord idx, pixel_of shape sc coord idx <-> pixel_pointwise shape sc coord idx.
Proof.
  unfold pixel_pointwise. induction shape as [|n shape IH]; intros sc coord idx; split.
  - intros H. inversion H; subst. repeat split; try reflexivity. intros k ? ? ? ? Hk. destruct k; discriminate.
  - intros [H1 [H2 [H3 _]]]. destruct sc, coord, idx; try discriminate. constructor.
  - intros H. inversion H as [|? ? s sc' c coord' i idx' Hi Hf Hp]; subst. apply IH in Hp.
    destruct Hp as [L1 [L2 [L3 Hall]]]. cbn [List.length]. repeat split; try congruence.
    intros k n0 s0 c0 i0 Hn Hs Hc Hi0. destruct k as [|k]; cbn in Hn, Hs, Hc, Hi0.
    + inversion Hn; inversion Hs; inversion Hc; inversion Hi0; subst. exists c, s. repeat split; try reflexivity; lia.
    + apply (Hall k); assumption.
  - intros [H1 [H2 [H3 Hall]]]. destruct sc as [|s sc], coord as [|c coord], idx as [|i idx]; try discriminate.
    cbn [List.length] in H1, H2, H3.
    destruct (Hall 0%nat n s c i eq_refl eq_refl eq_refl eq_refl) as [c' [s' [-> [-> [Hi Hf]]]]].
    constructor; [exact Hi|exact Hf|]. apply IH. repeat split; try lia.
    intros k n0 s0 c0 i0 Hn Hs Hc Hi0. apply (Hall (S k)); assumption.
Qed.
