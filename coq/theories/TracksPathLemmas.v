(* TracksPathLemmas.v -- "the classes are exactly the maximal unbranched paths", literally:
   a class passes the validator iff its nodes can be listed x1, ..., xk without repetition such that the edges of the
   graph among them are exactly x1->x2, ..., x(k-1)->xk (a simple directed path: no chord, no back edge, no self loop),
   every one of these edges is the only edge leaving its source and the only edge entering its target, and no such
   edge of the graph has exactly one end in the class. *)
From Coq Require Import Relations.
From Geff Require Import Base GraphVal GraphValLemmas Reach Tracks TracksLemmas TracksCyc TracksCycLemmas.
Open Scope Z_scope.
Open Scope list_scope.

Definition consecutive (a b : Z) (l : list Z) : Prop := exists l1 l2, l = l1 ++ a :: b :: l2.
Definition before (a b : Z) (l : list Z) : Prop := exists l1 l2 l3, l = l1 ++ a :: l2 ++ b :: l3.

(* the subgraph induced by T is the simple directed path l *)
Definition is_path (E : list (Z * Z)) (T : list Z) : Prop :=
  exists l, NoDup l /\ (forall x, In x l <-> In x T) /\
            (forall a b, In (a, b) (induced E T) <-> consecutive a b l).

Definition max_unbranched_path (E : list (Z * Z)) (T : list Z) : Prop :=
  is_path E T /\
  (forall e, In e (induced E T) -> linking E e) /\
  (forall e, In e E -> linking E e -> (In (fst e) T <-> In (snd e) T)).

(* ---------- lists without repetition ---------- *)
Lemma split_unique (a : Z) l1 : forall l2 m1 m2, NoDup (l1 ++ a :: l2) -> l1 ++ a :: l2 = m1 ++ a :: m2 -> l1 = m1 /\ l2 = m2.
Proof.
  induction l1 as [|x l1 IH]; intros l2 m1 m2 Hn He.
  - destruct m1 as [|y m1]; cbn in He.
    + inversion He. auto.
    + inversion He; subst. exfalso. inversion Hn as [|? ? Hx _]. apply Hx. apply in_or_app. right. left. reflexivity.
  - destruct m1 as [|y m1]; cbn in He.
    + inversion He; subst. exfalso. cbn in Hn. inversion Hn as [|? ? Hx _]. apply Hx. apply in_or_app. right. left. reflexivity.
    + inversion He; subst. cbn in Hn. inversion Hn as [|? ? _ Hn']. destruct (IH l2 m1 m2 Hn' H1) as [-> ->]. auto.
Qed.

Lemma consecutive_before a b l : consecutive a b l -> before a b l.
Proof. intros [l1 [l2 H]]. exists l1, [], l2. exact H. Qed.

Lemma before_trans a b c l : NoDup l -> before a b l -> before b c l -> before a c l.
Proof.
  intros Hn [l1 [l2 [l3 H1]]] [m1 [m2 [m3 H2]]].
  assert (H1' : l = (l1 ++ a :: l2) ++ b :: l3) by (rewrite H1, <- app_assoc; reflexivity).
  assert (H2' : (l1 ++ a :: l2) ++ b :: l3 = m1 ++ b :: (m2 ++ c :: m3)) by (rewrite <- H1'; exact H2).
  rewrite H1' in Hn. destruct (split_unique b _ _ _ _ Hn H2') as [_ H3].
  exists l1, (l2 ++ b :: m2), m3. rewrite H1, H3, <- app_assoc. reflexivity.
Qed.

Lemma before_irrefl a l : NoDup l -> ~ before a a l.
Proof.
  intros Hn [l1 [l2 [l3 H]]]. rewrite H in Hn. apply NoDup_remove_2 in Hn. apply Hn.
  apply in_or_app. right. apply in_or_app. right. left. reflexivity.
Qed.

Lemma consecutive_cons h a b l : consecutive a b l -> consecutive a b (h :: l).
Proof. intros [l1 [l2 H]]. exists (h :: l1), l2. rewrite H. reflexivity. Qed.

Lemma consecutive_In a b l : consecutive a b l -> In a l /\ In b l.
Proof.
  intros [l1 [l2 H]]. rewrite H. split; apply in_or_app; right; [left | right; left]; reflexivity.
Qed.

(* ---------- a path is acyclic and connected ---------- *)
Lemma path_tc_before (R : Z -> Z -> Prop) l : NoDup l -> (forall a b, R a b -> consecutive a b l) ->
  forall x y, clos_trans Z R x y -> before x y l.
Proof.
  intros Hn HR x y H. induction H as [x y Hxy | x y z _ IH1 _ IH2].
  - apply consecutive_before. apply HR. exact Hxy.
  - eapply before_trans; eassumption.
Qed.

Lemma path_conn (R : Z -> Z -> Prop) l : (forall a b, consecutive a b l -> R a b) ->
  forall x y, In x l -> In y l -> clos_refl_trans Z (fun u v => R u v \/ R v u) x y.
Proof.
  induction l as [|h t IH]; intros HR x y Hx Hy; [destruct Hx|].
  assert (IH' : forall x y, In x t -> In y t -> clos_refl_trans Z (fun u v => R u v \/ R v u) x y).
  { apply IH. intros a b Hab. apply HR. apply consecutive_cons. exact Hab. }
  assert (Hh : forall y, In y t -> clos_refl_trans Z (fun u v => R u v \/ R v u) h y).
  { intros y0 Hy0. destruct t as [|h2 t2]; [destruct Hy0|].
    eapply rt_trans; [apply rt_step; left; apply HR; exists [], t2; reflexivity|].
    apply IH'; [left; reflexivity | exact Hy0]. }
  destruct Hx as [<-|Hx], Hy as [<-|Hy].
  - apply rt_refl.
  - apply Hh. exact Hy.
  - destruct t as [|h2 t2]; [destruct Hx|].
    eapply rt_trans; [apply IH'; [exact Hx | left; reflexivity]|].
    apply rt_step. right. apply HR. exists [], t2. reflexivity.
  - apply IH'; assumption.
Qed.

Lemma is_path_acyclic E T : is_path E T -> ~ has_cycle (induced E T).
Proof.
  intros [l [Hn [_ He]]] [x Hx].
  apply (before_irrefl x l Hn). apply (path_tc_before (estep (induced E T)) l Hn); [|exact Hx].
  intros a b Hab. apply He. exact Hab.
Qed.

Lemma is_path_conn E T : is_path E T -> forall x y, In x T -> In y T -> conn E T x y.
Proof.
  intros [l [_ [Hl He]]] x y Hx Hy.
  apply (rt_mono (fun u v => In (u, v) (induced E T) \/ In (v, u) (induced E T))).
  - intros a b [H|H]; apply induced_In in H; cbn in H; unfold radj, adj; tauto.
  - apply (path_conn (fun u v => In (u, v) (induced E T)) l).
    + intros a b Hab. apply He. exact Hab.
    + apply Hl. exact Hx.
    + apply Hl. exact Hy.
Qed.

(* ---------- following the successors from the start node enumerates a class ---------- *)
Fixpoint walk (SE : list (Z * Z)) (u : Z) (n : nat) : list Z :=
  match n with
  | O => [u]
  | S n' => match succs SE u with [v] => u :: walk SE v n' | _ => [u] end
  end.

Lemma walk_hd SE u n : exists t, walk SE u n = u :: t.
Proof. destruct n; cbn; [eauto|]. destruct (succs SE u) as [|v [|w r]]; eauto. Qed.

Lemma single_not_consecutive (u a b : Z) l1 l2 : [u] = l1 ++ a :: b :: l2 -> False.
Proof. destruct l1 as [|x [|y l1]]; cbn; intros H; discriminate. Qed.

Lemma walk_consec SE n : forall u a b, consecutive a b (walk SE u n) -> In (a, b) SE.
Proof.
  induction n as [|n IH]; intros u a b [l1 [l2 H]]; cbn in H.
  - exfalso. eapply single_not_consecutive. exact H.
  - destruct (succs SE u) as [|v [|w r]] eqn:Es; try (exfalso; eapply single_not_consecutive; exact H).
    destruct l1 as [|x l1]; cbn in H.
    + destruct (walk_hd SE v n) as [t Ht]. rewrite Ht in H. inversion H; subst.
      apply succs_In. rewrite Es. left; reflexivity.
    + inversion H as [[Hx Ht]]. apply (IH v). exists l1, l2. exact Ht.
Qed.

Lemma walk_reach SE n : forall u x, In x (walk SE u n) -> clos_refl_trans Z (estep SE) u x.
Proof.
  induction n as [|n IH]; intros u x Hx; cbn in Hx.
  - destruct Hx as [<-|[]]. apply rt_refl.
  - destruct (succs SE u) as [|v [|w r]] eqn:Es; try (destruct Hx as [<-|[]]; apply rt_refl).
    destruct Hx as [<-|Hx]; [apply rt_refl|].
    eapply rt_trans; [apply rt_step; apply succs_In; rewrite Es; left; reflexivity | apply IH; exact Hx].
Qed.

Lemma walk_NoDup SE n : ~ has_cycle SE -> forall u, NoDup (walk SE u n).
Proof.
  intros Ha. induction n as [|n IH]; intros u; cbn; [repeat constructor; intros []|].
  destruct (succs SE u) as [|v [|w r]] eqn:Es; try (repeat constructor; intros []).
  constructor; [|apply IH]. intros Hin. apply Ha. exists u.
  eapply tc_rt_tc; [apply t_step; apply succs_In; rewrite Es; left; reflexivity | apply walk_reach with (n := n); exact Hin].
Qed.

Lemma walk_incl SE T n : closed_on SE T -> forall u, In u T -> incl (walk SE u n) T.
Proof.
  intros Hcl. induction n as [|n IH]; intros u Hu x Hx; cbn in Hx.
  - destruct Hx as [<-|[]]. exact Hu.
  - destruct (succs SE u) as [|v [|w r]] eqn:Es; try (destruct Hx as [<-|[]]; exact Hu).
    destruct Hx as [<-|Hx]; [exact Hu|]. apply (IH v); [|exact Hx].
    assert (He : In (u, v) SE) by (apply succs_In; rewrite Es; left; reflexivity).
    exact (proj2 (Hcl _ He)).
Qed.

Definition closed_walk (SE : list (Z * Z)) (l : list Z) : Prop :=
  forall a b, In a l -> In (a, b) SE -> consecutive a b l.

Lemma walk_full_or_closed SE n : (forall x, (List.length (succs SE x) <= 1)%nat) ->
  forall u, List.length (walk SE u n) = S n \/ closed_walk SE (walk SE u n).
Proof.
  intros Hout. induction n as [|n IH]; intros u; [left; reflexivity|]. cbn [walk].
  destruct (succs SE u) as [|v [|w r]] eqn:Es.
  - right. intros a b [<-|[]] Hab. apply succs_In in Hab. rewrite Es in Hab. destruct Hab.
  - destruct (IH v) as [Hl|Hc]; [left; cbn; rewrite Hl; reflexivity|]. right.
    intros a b Ha Hab. destruct Ha as [<-|Ha].
    + apply succs_In in Hab. rewrite Es in Hab. destruct Hab as [<-|[]].
      destruct (walk_hd SE v n) as [t Ht]. rewrite Ht. exists [], t. reflexivity.
    + apply consecutive_cons. apply Hc; assumption.
  - exfalso. specialize (Hout u). rewrite Es in Hout. cbn in Hout. lia.
Qed.

Lemma closed_walk_covers SE l u x : closed_walk SE l -> In u l -> clos_refl_trans Z (estep SE) u x -> In x l.
Proof.
  intros Hc Hu H. apply clos_rt_rt1n in H. induction H as [u | u w x Huw _ IH]; [exact Hu|].
  apply IH. exact (proj2 (consecutive_In _ _ _ (Hc u w Hu Huw))).
Qed.

Lemma deg_global E T : deg_ok (induced E T) T = true ->
  forall x, (List.length (succs (induced E T) x) <= 1)%nat /\ (List.length (preds (induced E T) x) <= 1)%nat.
Proof.
  intros Hdeg x. destruct (zmem x T) eqn:Ex.
  - apply zmem_In in Ex. apply (deg_ok_spec _ _ x Hdeg Ex).
  - assert (Hx : ~ In x T) by (intro H; apply zmem_In in H; congruence). split.
    + destruct (succs (induced E T) x) as [|w l] eqn:Es; [cbn; lia|]. exfalso. apply Hx.
      assert (He : In (x, w) (induced E T)) by (apply succs_In; rewrite Es; left; reflexivity).
      apply induced_In in He. cbn in He. tauto.
    + destruct (preds (induced E T) x) as [|w l] eqn:Es; [cbn; lia|]. exfalso. apply Hx.
      assert (He : In (w, x) (induced E T)) by (apply preds_In; rewrite Es; left; reflexivity).
      apply induced_In in He. cbn in He. tauto.
Qed.

(* degrees <= 1, weakly connected, no directed cycle  ->  a simple directed path *)
Theorem path_of_checks E r T' : NoDup (r :: T') ->
  deg_ok (induced E (r :: T')) (r :: T') = true ->
  (forall x y, In x (r :: T') -> In y (r :: T') -> conn E (r :: T') x y) ->
  ~ has_cycle (induced E (r :: T')) ->
  is_path E (r :: T').
Proof.
  intros Hn Hdeg Hconn Hac. set (T := r :: T') in *. set (SE := induced E T) in *.
  assert (Hne : T <> []) by discriminate.
  pose proof (induced_closed E T) as Hcl. fold SE in Hcl.
  destruct (dag_has_start SE T Hne Hcl (proj2 (is_dag_spec SE T Hcl) Hac)) as [st Hst].
  unfold start_node in Hst. apply find_some in Hst. destruct Hst as [HstT Hst0]. apply length0_nil in Hst0.
  pose proof (deg_global E T Hdeg) as Hdg. fold SE in Hdg.
  set (l := walk SE st (List.length T)).
  assert (HlN : NoDup l) by (apply walk_NoDup; exact Hac).
  assert (HlT : incl l T) by (apply (walk_incl SE T _ Hcl st HstT)).
  assert (Hclosed : closed_walk SE l).
  { destruct (walk_full_or_closed SE (List.length T) (fun x => proj1 (Hdg x)) st) as [Hlen|Hc]; [|exact Hc].
    exfalso. pose proof (NoDup_incl_length HlN HlT) as Hle. unfold l in Hle. rewrite Hlen in Hle. lia. }
  assert (Hst_in : In st l) by (unfold l; destruct (walk_hd SE st (List.length T)) as [t ->]; left; reflexivity).
  assert (Hdesc : forall x, In x T -> clos_refl_trans Z (estep SE) st x).
  { intros x Hx. apply (desc_closed (estep SE) st).
    - intros a b c Ha Hb. apply (le1_unique (preds SE c)); [exact (proj2 (Hdg c)) | apply preds_In; exact Ha | apply preds_In; exact Hb].
    - intros p Hp. apply preds_In in Hp. rewrite Hst0 in Hp. destruct Hp.
    - apply conn_sym_closure. apply Hconn; assumption. }
  exists l. split; [exact HlN|]. split.
  - intros x. split; [apply HlT|]. intros Hx. apply (closed_walk_covers SE l st x Hclosed Hst_in). apply Hdesc. exact Hx.
  - intros a b. split.
    + intros Hab. apply Hclosed; [|exact Hab]. apply (closed_walk_covers SE l st a Hclosed Hst_in). apply Hdesc.
      exact (proj1 (Hcl _ Hab)).
    + apply walk_consec.
Qed.

(* ---------- per class and for the whole labelling ---------- *)
Theorem path_class_iff E r T' : NoDup (r :: T') ->
  (class_ok_all E (r :: T') <-> max_unbranched_path E (r :: T')).
Proof.
  intros Hn. set (T := r :: T') in *. split.
  - intros [Hok Hac]. pose proof (check_class_complete E r T' Hn Hok) as Hc. fold T in Hc.
    rewrite check_class_unfold in Hc.
    apply andb_true_iff in Hc. destruct Hc as [Hc _]. apply andb_true_iff in Hc. destruct Hc as [Hc _].
    apply andb_true_iff in Hc. destruct Hc as [Hc _]. apply andb_true_iff in Hc. destruct Hc as [Hdeg _].
    destruct Hok as [Hconn [Hintra [Hfwd Hbwd]]]. split; [|split].
    + apply path_of_checks; assumption.
    + intros e He. apply induced_In in He. apply Hintra; tauto.
    + intros e He Hl. split; [apply Hfwd | apply Hbwd]; assumption.
  - intros [Hp [Hintra Hmax]]. split; [split; [|split; [|split]]|].
    + apply is_path_conn. exact Hp.
    + intros e He Hf Hs. apply Hintra. apply induced_In. tauto.
    + intros e He Hl. apply Hmax; assumption.
    + intros e He Hl. apply Hmax; assumption.
    + apply is_path_acyclic. exact Hp.
Qed.

(* every tracklet is a maximal unbranched path of the graph *)
Definition spec_paths (E : list (Z * Z)) (NL : nlabels) : Prop :=
  forall t, In t (labels_of NL) -> max_unbranched_path E (class_of NL t).

Theorem spec_all_paths E NL : wf_labelled E NL -> (spec_all E NL <-> spec_paths E NL).
Proof.
  intros Hwf. pose proof (proj1 Hwf) as Hnd. unfold spec_all, spec_paths. split.
  - intros [HL [HC HP]] t Ht.
    destruct (class_nonempty NL t Ht) as [r [T' Hc]]. pose proof (class_NoDup NL t Hnd) as Hn.
    pose proof (proj2 (all_classes_ok_iff E NL Hwf) (conj HL HC) t Ht) as Hok. pose proof (HP t) as Hac.
    rewrite Hc in *. apply path_class_iff; [exact Hn | split; assumption].
  - intros H.
    assert (Hall : forall t, In t (labels_of NL) -> class_ok_all E (class_of NL t)).
    { intros t Ht. specialize (H t Ht).
      destruct (class_nonempty NL t Ht) as [r [T' Hc]]. pose proof (class_NoDup NL t Hnd) as Hn.
      rewrite Hc in *. apply path_class_iff; assumption. }
    destruct (proj1 (all_classes_ok_iff E NL Hwf) (fun t Ht => proj1 (Hall t Ht))) as [HL HC].
    split; [exact HL|]. split; [exact HC|].
    intros t Hcy. exact (proj2 (Hall t (cycle_class_label E NL t Hcy)) Hcy).
Qed.

(* the validator accepts iff every tracklet is a maximal unbranched path *)
Theorem tracklets_iff_paths E NL : wf_labelled E NL ->
  (validate_tracklets E NL = Ok (true, []) <-> spec_paths E NL).
Proof. intros Hwf. rewrite (tracklets_iff_all E NL Hwf). apply spec_all_paths. exact Hwf. Qed.
