#!/bin/bash
# tools_seed_all.sh: re-evaluate every kept seed against its own check (quick tier); prints one line per seed
cd "$(dirname "$0")"
for d in seeded/C*/; do
  n=$(basename $d); c=${n%%-*}
  python3 tools_seed_eval.py $n $c 2>&1 | tail -1 | sed "s|^|$n: |"
done
