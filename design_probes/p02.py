import warnings, numpy as np, zarr
warnings.simplefilter("ignore")
from geff.core_io import read_to_memory
from geff import validate_structure
from zarr.storage import MemoryStore
def show(title,f):
    try: r=f(); print("==",title,"->",r)
    except Exception as e: print("==",title,"-> EXC",type(e).__name__,str(e)[:200].replace("\n"," | "))
def summ(g): return (g["node_ids"].tolist(), g["node_ids"].dtype.str, g["edge_ids"].tolist(), {k:(v["values"].dtype.str, v["values"].tolist() if v["values"].dtype!=object else [a.tolist() for a in v["values"]], None if v["missing"] is None else v["missing"].tolist()) for k,v in g["node_props"].items()}, {k:(v["values"].tolist()) for k,v in g["edge_props"].items()})
def build(fmt, chunks=None, compress=True, nodes_props=True, edges_props=True, missing_allfalse=False, big_endian=False, minimal_meta=True, foreign=True, order="C"):
    s=MemoryStore(); r=zarr.open_group(s,mode="w",zarr_format=fmt)
    kw={}
    if not compress: kw["compressors"]=None
    def mk(grp,name,data):
        data=np.asarray(data)
        if big_endian and fmt==2 and data.dtype.kind in "iuf" and data.dtype.itemsize>1: data=data.astype(data.dtype.newbyteorder(">"))
        ck = tuple(min(chunks,max(1,d)) if chunks else max(1,d) for d in data.shape) if data.ndim else ()
        a=grp.create_array(name,shape=data.shape,dtype=data.dtype,chunks=ck if data.ndim else None, **({"order":order} if fmt==2 else {}), **kw); a[...]=data; return a
    n=r.create_group("nodes"); e=r.create_group("edges")
    mk(n,"ids",np.array([7,3,9,4,5],np.int32)); mk(e,"ids",np.array([[7,3],[9,4],[4,5]],np.int32))
    md={"geff_version":"1.3","directed":True,"node_props_metadata":{},"edge_props_metadata":{}}
    if nodes_props:
        p=n.create_group("props")
        x=p.create_group("x"); mk(x,"values",np.array([1.5,2.5,3.5,4.5,5.5],np.float32)); md["node_props_metadata"]["x"]={"identifier":"x","dtype":"float32"}
        if missing_allfalse: mk(x,"missing",np.zeros(5,bool))
        c=p.create_group("c"); mk(c,"values",np.arange(20,dtype=np.int16).reshape(5,2,2)); mk(c,"missing",np.array([0,1,0,0,1],bool)); md["node_props_metadata"]["c"]={"identifier":"c","dtype":"int16"}
        v=p.create_group("v"); mk(v,"values",np.array([[0,2],[2,0],[2,1],[3,3],[6,0]],np.uint64)); mk(v,"data",np.array([1,2,3,4,5,6],np.int8)); md["node_props_metadata"]["v"]={"identifier":"v","dtype":"int8","varlength":True}
        sarr=p.create_group("s"); 
        try:
            mk(sarr,"values",np.array(["a","bb","","ü","e"])); md["node_props_metadata"]["s"]={"identifier":"s","dtype":"str"}
        except Exception as ex: print("   (string array creation failed:",type(ex).__name__,str(ex)[:80],")"); del p["s"]
    if edges_props:
        p=e.create_group("props"); w=p.create_group("w"); mk(w,"values",np.array([1,2,3],np.uint8)); md["edge_props_metadata"]["w"]={"identifier":"w","dtype":"uint8"}
    if not minimal_meta: md.update({"axes":[{"name":"x"}],"extra":{"a":1}})
    r.attrs["geff"]=md
    if foreign: r.attrs["other"]={"z":1}; r.create_group("sibling")["arr"]=np.arange(3)
    return s
for fmt in (2,3):
    show(f"fmt{fmt} default", lambda: summ(read_to_memory(build(fmt))))
    show(f"fmt{fmt} chunks=2 nocompress", lambda: summ(read_to_memory(build(fmt,chunks=2,compress=False)))==summ(read_to_memory(build(fmt))))
    show(f"fmt{fmt} chunks=1", lambda: summ(read_to_memory(build(fmt,chunks=1)))==summ(read_to_memory(build(fmt))))
    show(f"fmt{fmt} missing all-false", lambda: summ(read_to_memory(build(fmt,missing_allfalse=True)))[3]["x"])
    show(f"fmt{fmt} no edges props", lambda: summ(read_to_memory(build(fmt,edges_props=False)))[4])
    show(f"fmt{fmt} no nodes props", lambda: summ(read_to_memory(build(fmt,nodes_props=False)))[3])
    show(f"fmt{fmt} with axes", lambda: read_to_memory(build(fmt,minimal_meta=False))["metadata"].axes)
show("fmt2 big endian", lambda: summ(read_to_memory(build(2,big_endian=True)))==summ(read_to_memory(build(2))))
show("fmt2 big endian dtype", lambda: summ(read_to_memory(build(2,big_endian=True)))[1])
show("fmt2 order F", lambda: summ(read_to_memory(build(2,order="F")))==summ(read_to_memory(build(2))))
