import warnings, numpy as np, zarr
warnings.simplefilter("ignore")
from geff.core_io import write_arrays, read_to_memory, check_for_geff
from geff_spec import GeffMetadata
from zarr.storage import MemoryStore
def meta(): return GeffMetadata(directed=True, node_props_metadata={}, edge_props_metadata={})
def A(): return dict(node_ids=np.arange(3,dtype=np.uint16), node_props={}, edge_ids=np.array([[0,1]],np.uint16), edge_props={}, metadata=meta())
s=MemoryStore(); write_arrays(s, **A(), zarr_format=3)
print(sorted(s._store_dict.keys()))
print("check_for_geff default:", check_for_geff(s), " with fmt3:", check_for_geff(s, zarr_format=3))
print(sorted(s._store_dict.keys()))
try:
    write_arrays(s, **A(), zarr_format=3)
    print("second write w/o overwrite SUCCEEDED (no FileExistsError)")
except Exception as e: print(type(e).__name__, e)
