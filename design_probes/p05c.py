import warnings, numpy as np, zarr
warnings.simplefilter("ignore")
exec(open("p05.py").read().split("for fmt in (2,3):")[0])
inner=MemoryStore(); fs=FaultStore(inner); write_arrays(fs, **A(), zarr_format=3)
print("v3 fresh write trace:"); [print("   ",i,x) for i,x in enumerate(fs.log)]
# partial-state read semantics
from geff import validate_structure
def verdict(store):
    try: g=read_to_memory(store); return "OK ids=%s props=%s"%(g["node_ids"].tolist(), {k:v["values"].tolist() for k,v in g["node_props"].items()})
    except Exception as e: return "REJ %s: %s"%(type(e).__name__, str(e)[:80])
for fmt in (2,3):
    s=MemoryStore(); write_arrays(s, **A(), zarr_format=fmt); d=s._store_dict
    ck=[k for k in d if k.startswith("nodes/ids/") and not k.endswith((".zarray",".zattrs","zarr.json"))]
    print(fmt,"chunk keys",ck)
    s2=MemoryStore(); s2._store_dict.update({k:v for k,v in d.items() if k not in ck}); s2._is_open=True
    print(fmt,"ids chunk removed ->", verdict(s2))
    gk = "nodes/.zgroup" if fmt==2 else "nodes/zarr.json"
    s3=MemoryStore(); s3._store_dict.update({k:v for k,v in d.items() if k!=gk}); s3._is_open=True
    print(fmt,"nodes group meta removed ->", verdict(s3))
    if fmt==2:
        s4=MemoryStore(); s4._store_dict.update({k:v for k,v in d.items() if k!="nodes/.zattrs" and k!="nodes/props/.zattrs"}); s4._is_open=True
        print(fmt,"nodes .zattrs removed ->", verdict(s4))
        s5=MemoryStore(); s5._store_dict.update({k:v for k,v in d.items() if k!=".zgroup"}); s5._is_open=True
        print(fmt,"root .zgroup removed (attrs present) ->", verdict(s5))
