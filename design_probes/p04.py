import warnings, numpy as np, zarr
warnings.simplefilter("ignore")
import geff
from geff import validate_structure
from geff.core_io import write_arrays, read_to_memory
from geff_spec import GeffMetadata, Axis
from zarr.storage import MemoryStore
def show(title, f):
    try:
        r = f(); print("==", title, "-> ACCEPT", r if r is not None else "")
    except Exception as e:
        print("==", title, "-> EXC", type(e).__name__, str(e)[:160].replace("\n"," | "))
def base(fmt=2):
    s=MemoryStore()
    write_arrays(s, np.arange(3,dtype=np.uint16), {"x":{"values":np.arange(3.0),"missing":None},"p":{"values":np.arange(3),"missing":np.array([0,1,0],bool)}}, np.array([[0,1],[1,2]],np.uint16), {"w":{"values":np.arange(2.0),"missing":None}}, GeffMetadata(directed=True,node_props_metadata={},edge_props_metadata={},axes=[Axis(name="x")]), zarr_format=fmt)
    return s
for fmt in (2,3):
    print("#### fmt",fmt)
    def mut(fn):
        def f():
            s=base(fmt); root=zarr.open_group(s,mode="a"); fn(root); return validate_structure(s)
        return f
    def repl(root, path, arr):
        del root[path]; root[path]=arr
    show("base", mut(lambda r: None))
    show("node ids 2D", mut(lambda r: repl(r,"nodes/ids",np.zeros((3,2),np.uint16))))
    show("node ids 0D", mut(lambda r: repl(r,"nodes/ids",np.array(3,np.uint16))))
    show("node ids float", mut(lambda r: repl(r,"nodes/ids",np.zeros(3,np.float32))))
    show("node ids bool", mut(lambda r: repl(r,"nodes/ids",np.zeros(3,bool))))
    show("edge ids dtype differs", mut(lambda r: repl(r,"edges/ids",np.zeros((2,2),np.int64))))
    show("edge ids 1D", mut(lambda r: repl(r,"edges/ids",np.zeros((2,),np.uint16))))
    show("edge ids (2,3)", mut(lambda r: repl(r,"edges/ids",np.zeros((2,3),np.uint16))))
    show("edge ids 3D (2,1,2)", mut(lambda r: repl(r,"edges/ids",np.zeros((2,1,2),np.uint16))))
    show("edge ids 0D", mut(lambda r: repl(r,"edges/ids",np.array(1,np.uint16))))
    show("no nodes/props", mut(lambda r: (r["nodes"].__delitem__("props"), r.attrs.__setitem__("geff", {**r.attrs["geff"], "node_props_metadata":{}, "axes":None}))))
    show("no edges/props (meta keeps w)", mut(lambda r: r["edges"].__delitem__("props")))
    show("no edges/props (meta cleared)", mut(lambda r: (r["edges"].__delitem__("props"), r.attrs.__setitem__("geff", {**r.attrs["geff"], "edge_props_metadata":{}}))))
    show("values 0D", mut(lambda r: repl(r,"nodes/props/p/values",np.array(1))))
    show("missing 2D", mut(lambda r: repl(r,"nodes/props/p/missing",np.zeros((3,1),bool))))
    show("missing int", mut(lambda r: repl(r,"nodes/props/p/missing",np.zeros((3,),np.uint8))))
    show("missing 0D", mut(lambda r: repl(r,"nodes/props/p/missing",np.array(True))))
    show("values wrong dtype int32 vs int64", mut(lambda r: repl(r,"nodes/props/p/values",np.zeros(3,np.int32))))
    show("values group instead of array", mut(lambda r: (r["nodes/props/p"].__delitem__("values"), r["nodes/props/p"].create_group("values"))))
    show("prop is array not group", mut(lambda r: (r["nodes/props"].__delitem__("p"), r["nodes/props"].__setitem__("p", np.zeros(3)))))
    show("nodes is array", mut(lambda r: (r.__delitem__("nodes"), r.__setitem__("nodes", np.zeros(3)))))
    show("extra array in prop group", mut(lambda r: r["nodes/props/p"].__setitem__("other", np.zeros(3))))
    show("extra group in nodes", mut(lambda r: r["nodes"].create_group("other")))
    show("data array on non-varlength", mut(lambda r: r["nodes/props/p"].__setitem__("data", np.zeros(3))))
    show("axis x 2D", mut(lambda r: repl(r,"nodes/props/x/values",np.zeros((3,2)))))
    show("axis x has missing", mut(lambda r: r["nodes/props/x"].__setitem__("missing", np.zeros(3,bool))))
    show("geff attr not mapping", mut(lambda r: r.attrs.__setitem__("geff", [1,2])))
    show("geff attr missing directed", mut(lambda r: r.attrs.__setitem__("geff", {k:v for k,v in r.attrs["geff"].items() if k!="directed"})))
    show("no geff attr", mut(lambda r: r.attrs.__delitem__("geff")))
    show("varlength meta but no data", mut(lambda r: r.attrs.__setitem__("geff", {**r.attrs["geff"], "node_props_metadata":{**r.attrs["geff"]["node_props_metadata"], "p":{"identifier":"p","dtype":"int64","varlength":True}}})))
show("nonexistent path", lambda: validate_structure("/tmp/probe/does_not_exist.zarr"))
show("nonexistent path obj", lambda: validate_structure(__import__("pathlib").Path("/tmp/probe/does_not_exist.zarr")))
show("empty memorystore", lambda: validate_structure(MemoryStore()))
show("file not dir", lambda: validate_structure("/tmp/probe/p04.py"))
show("int store", lambda: validate_structure(5))
show("None store", lambda: validate_structure(None))
import os; os.makedirs("/tmp/probe/emptydir",exist_ok=True)
show("empty dir", lambda: validate_structure("/tmp/probe/emptydir"))
print(os.listdir("/tmp/probe/emptydir"))
