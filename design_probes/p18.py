import warnings, os, numpy as np, zarr, shutil, pathlib
warnings.simplefilter("ignore")
from geff_spec import GeffMetadata
from geff import validate_structure, GeffReader
from geff.core_io import read_to_memory, write_arrays
from zarr.storage import MemoryStore
for fn in [GeffMetadata.read, validate_structure, read_to_memory, GeffReader]:
    p="/tmp/probe/nonexist_%s.zarr"%fn.__name__
    try: fn(p)
    except Exception as e: print(fn.__name__, type(e).__name__, str(e)[:80])
    print("   exists after:", os.path.exists(p), os.listdir(p) if os.path.exists(p) else None)
    if os.path.exists(p): shutil.rmtree(p)
s=MemoryStore()
try: GeffMetadata.read(s)
except Exception as e: print(type(e).__name__)
print("memstore keys after read:", list(s._store_dict))
# non-geff zarr group
s=MemoryStore(); zarr.open_group(s,mode="a").create_group("x"); k0=dict(s._store_dict)
for fn in [GeffMetadata.read, validate_structure, read_to_memory]:
    try: fn(s)
    except Exception as e: pass
print("non-geff unchanged:", {k:v.to_bytes() for k,v in s._store_dict.items()}=={k:v.to_bytes() for k,v in k0.items()})
# CLI
from typer.testing import CliRunner
from geff._cli import app
r=CliRunner().invoke(app,["info","/tmp/probe/nonexist_cli.zarr"]); print("cli info exit",r.exit_code, os.path.exists("/tmp/probe/nonexist_cli.zarr"))
if os.path.exists("/tmp/probe/nonexist_cli.zarr"): shutil.rmtree("/tmp/probe/nonexist_cli.zarr")
# write-side: does write alter inputs?
from geff_spec import Axis
m=GeffMetadata(directed=True,node_props_metadata={},edge_props_metadata={},axes=[Axis(name="x",min=0,max=100)])
before=m.model_dump()
x=np.array([1.0,2.0],np.float16); props={"x":{"values":x,"missing":None}}
write_arrays(MemoryStore(), np.arange(2), props, np.empty((0,2),int), {}, m)
print("metadata unchanged:", m.model_dump()==before, " props dict values dtype now:", props["x"]["values"].dtype, "orig array dtype", x.dtype)
from geff_spec.utils import compute_and_add_axis_min_max, update_metadata_axes
m2=compute_and_add_axis_min_max(m, {"x":{"values":np.array([5.0,6.0]),"missing":None}})
print("compute_and_add mutates caller:", m.model_dump()!=before, m.axes[0].min)
