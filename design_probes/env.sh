export PYTHONPATH=/repo/packages/geff/src:/repo/packages/geff-spec/src
export PYTHONHASHSEED=0
