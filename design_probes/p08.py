import warnings, json, numpy as np, zarr
warnings.simplefilter("ignore")
from geff_spec import GeffMetadata, Axis, PropMetadata, DisplayHint, RelatedObject
from geff_spec._schema import _formatted_schema_json
from zarr.storage import MemoryStore
pub=json.load(open("/repo/geff-schema.json")); exp=json.loads(_formatted_schema_json())
print("published == exported:", pub==exp)
if pub!=exp:
    import difflib
    a=json.dumps(pub,indent=1,sort_keys=True).splitlines(); b=json.dumps(exp,indent=1,sort_keys=True).splitlines()
    print("\n".join(list(difflib.unified_diff(a,b,lineterm="",n=1))[:80]))
print(sorted(pub["$defs"].keys()))
def kw(o,acc):
    if isinstance(o,dict):
        for k,v in o.items(): acc.add(k); kw(v,acc)
    elif isinstance(o,list):
        for v in o: kw(v,acc)
    return acc
print(sorted(kw(pub,set()))[:200])
# attrs roundtrip with foreign attrs
for fmt in (2,3):
    s=MemoryStore(); g=zarr.open_group(s,mode="a",zarr_format=fmt); g.attrs["foreign"]={"a":[1,2]}
    m=GeffMetadata(directed=False,node_props_metadata={},edge_props_metadata={},extra={"n":{"x":[1,None,"ü"]},"f":1.5,"nan":float("nan")})
    try:
        m.write(s); m2=GeffMetadata.read(s); print(fmt, m2==m, dict(zarr.open_group(s,mode="r").attrs).keys(), m2.extra)
    except Exception as e: print(fmt,"EXC",type(e).__name__,e)
m=GeffMetadata(directed=False,node_props_metadata={},edge_props_metadata={},axes=[Axis(name="x",min=float("-inf"),max=float("inf"))])
print(m.model_dump_json())
try: print(GeffMetadata.model_validate_json(m.model_dump_json()))
except Exception as e: print("EXC", type(e).__name__, str(e)[:200])
