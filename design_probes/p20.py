import warnings, numpy as np, itertools
warnings.simplefilter("ignore")
from geff.testing.data import create_dummy_in_mem_geff, create_mock_geff
from geff.validate.data import validate_data, ValidationConfig
bad=[]
for directed in (False,True):
    for n in range(0,8):
        mx = n*(n-1) if directed else n*(n-1)//2
        for e in range(0, mx+3):
            try:
                g=create_dummy_in_mem_geff("uint8",{"position":"float64","time":"float64"},directed,n,e,include_t=n>=0)
            except Exception as ex:
                bad.append((directed,n,e,"EXC "+type(ex).__name__+": "+str(ex)[:60])); continue
            E=g["edge_ids"].tolist()
            want=min(e,mx)
            probs=[]
            if len(E)!=want: probs.append(f"count {len(E)}!={want}")
            if any(a==b for a,b in E): probs.append("self")
            key=(lambda a,b:(a,b)) if directed else (lambda a,b:(min(a,b),max(a,b)))
            if len({key(a,b) for a,b in E})!=len(E): probs.append("dup")
            if any(a>=n or b>=n for a,b in E): probs.append("endpoint")
            if probs: bad.append((directed,n,e,";".join(probs)))
print(len(bad)); 
for b in bad[:40]: print(b)
# include_missing forwarded?
s,g=create_mock_geff("uint8",{"position":"float64","time":"float64"},True,include_missing=True)
print("sparse_prop" in g["node_props"], "sparse_prop" in g["edge_props"])
g=create_dummy_in_mem_geff("uint8",{"position":"float64","time":"float64"},True,num_nodes=5,num_edges=3,include_missing=True)
print({k:(v["values"].shape, None if v["missing"] is None else v["missing"].shape) for k,v in g["edge_props"].items()})
