import warnings, numpy as np
warnings.simplefilter("ignore")
from geff.core_io import write_arrays, read_to_memory
from geff import GeffReader
from geff_spec import GeffMetadata
from zarr.storage import MemoryStore
def meta(): return GeffMetadata(directed=True, node_props_metadata={}, edge_props_metadata={})
def vl(seq, dtype, missing=None):
    v = np.empty(len(seq), dtype=object)
    for i,a in enumerate(seq): v[i]=np.asarray(a,dtype=dtype)
    return {"values": v, "missing": missing}
s=MemoryStore()
ids=np.array([10,20,30,40],dtype=np.uint16)
edges=np.array([[10,20],[20,30],[30,40],[40,10]],dtype=np.uint16)
write_arrays(s, ids, {"v": vl([[1],[2,2],[3,3,3],[4]], "int32", np.array([0,0,1,0],bool)), "x":{"values":np.arange(4.0),"missing":None}}, edges, {"w":{"values":np.array([1,2,3,4]),"missing":np.array([1,0,0,0],bool)}, "ve": vl([[1],[2,2],[3,3,3],[4]],"int8")}, meta())
for nm,em in [(None,None),(np.array([1,1,0,1],bool),None),(None,np.array([0,1,1,0],bool)),(np.array([1,1,1,0],bool),np.array([1,1,0,1],bool)), (np.zeros(4,bool),None)]:
    r=GeffReader(s); r.read_node_props(); r.read_edge_props()
    try:
        g=r.build(nm,em)
        print("mask",nm,em,"\n  nodes",g["node_ids"],"edges",g["edge_ids"].tolist(),"\n  v",[a.tolist() for a in g["node_props"]["v"]["values"]],g["node_props"]["v"]["missing"],"x",g["node_props"]["x"]["values"],"\n  w",g["edge_props"]["w"],"ve",[a.tolist() for a in g["edge_props"]["ve"]["values"]])
    except Exception as e:
        print("mask",nm,em,"EXC",type(e).__name__,e)
# duplicated names / unknown names
r=GeffReader(s); 
try: r.read_node_props(["nope"])
except Exception as e: print("unknown name:",type(e).__name__,e)
r=GeffReader(s); r.read_node_props(["x"]); g=r.build(); print(g["metadata"].node_props_metadata.keys(), g["metadata"].edge_props_metadata.keys(), g["node_props"].keys())
g=read_to_memory(s,node_props=[],edge_props=["w"]); print(g["metadata"].node_props_metadata.keys(), g["metadata"].edge_props_metadata.keys())
print("---- without varlength")
for nm,em in [(np.array([1,1,0,1],bool),None),(None,np.array([0,1,1,0],bool)),(np.array([1,1,1,0],bool),np.array([1,1,0,1],bool)), (np.zeros(4,bool),None)]:
    r=GeffReader(s); r.read_node_props(["x"]); r.read_edge_props(["w"])
    try:
        g=r.build(nm,em)
        print("mask",nm,em,"\n  nodes",g["node_ids"],"edges",g["edge_ids"].tolist(),"x",g["node_props"]["x"]["values"],"\n  w",g["edge_props"]["w"])
    except Exception as e:
        print("mask",nm,em,"EXC",type(e).__name__,e)
