import warnings, numpy as np, zarr, networkx as nx, rustworkx as rx
warnings.simplefilter("ignore")
import geff
from geff.core_io import write_arrays, read_to_memory
from geff_spec import GeffMetadata, Axis, PropMetadata, DisplayHint, RelatedObject
from zarr.storage import MemoryStore
def show(title,f):
    try: r=f(); print("==",title,"->",r)
    except Exception as e: print("==",title,"-> EXC",type(e).__name__,str(e)[:250].replace("\n"," | "))
def attrs(s): return dict(zarr.open_group(s,mode="r").attrs)["geff"]
m=GeffMetadata(directed=False,node_props_metadata={"x":PropMetadata(identifier="x",dtype="int8",unit="um",name="X",description="d",varlength=True),"stale":PropMetadata(identifier="stale",dtype="int8")},edge_props_metadata={},axes=[Axis(name="x",min=-100,max=100,unit="um",type="space",scale=2.0,scaled_unit="nm",offset=1.0)],extra={"k":[1]},related_objects=[RelatedObject(type="image",path="../i")],display_hints=DisplayHint(display_horizontal="x",display_vertical="x"),sphere="r",track_node_props={"lineage":"l"})
def t(sv):
    s=MemoryStore(); write_arrays(s,np.arange(3),{"x":{"values":np.array([3.0,1.0,2.0]),"missing":None}},np.empty((0,2),int),{},m,structure_validation=sv); return attrs(s)
show("stale with validation", lambda: t(True))
show("stale without validation", lambda: t(False))
# nx with metadata + axis overrides
g=nx.Graph(); g.add_node(1,x=1.0,y=5.0); g.add_node(2,x=-3.0,y=2.0)
m2=GeffMetadata(directed=True,node_props_metadata={},edge_props_metadata={},axes=[Axis(name="x",min=-100,max=100,unit="um")],extra={"k":1})
def t2(**kw):
    s=MemoryStore(); geff.write(g,s,metadata=m2,**kw); a=attrs(s); return a["directed"],a["axes"],a["extra"],list(a["node_props_metadata"])
show("nx metadata axes kept", lambda: t2())
show("nx axis override", lambda: t2(axis_names=["y","x"],axis_units=["nm",None],axis_types=["space","space"]))
# all missing axis
show("uint64 coordinate", lambda: (lambda s:(write_arrays(s,np.arange(2),{"x":{"values":np.array([2**64-1,2**53+1],np.uint64),"missing":None}},np.empty((0,2),int),{},GeffMetadata(directed=True,node_props_metadata={},edge_props_metadata={},axes=[Axis(name="x")])),attrs(s)["axes"]))(MemoryStore())[1])
show("nan coordinate", lambda: (lambda s:(write_arrays(s,np.arange(2),{"x":{"values":np.array([np.nan,1.0]),"missing":None}},np.empty((0,2),int),{},GeffMetadata(directed=True,node_props_metadata={},edge_props_metadata={},axes=[Axis(name="x")])),attrs(s)["axes"]))(MemoryStore())[1])
show("empty graph axes given", lambda: (lambda s:(write_arrays(s,np.arange(0),{},np.empty((0,2),int),{},GeffMetadata(directed=True,node_props_metadata={},edge_props_metadata={},axes=[Axis(name="x",min=1,max=2)])),attrs(s)["axes"],attrs(s)["node_props_metadata"]))(MemoryStore())[1:])
show("node_props None with axes", lambda: (lambda s:(write_arrays(s,np.arange(2),None,np.empty((0,2),int),None,GeffMetadata(directed=True,node_props_metadata={},edge_props_metadata={},axes=[Axis(name="x",min=1,max=2)])),attrs(s)["axes"]))(MemoryStore())[1])
# rx roundtrip with holes
G=rx.PyDiGraph(); a=G.add_node({"p":1}); b=G.add_node({"p":2}); c=G.add_node({}); G.add_edge(a,c,{"w":1.5}); G.remove_node(b)
def t3(**kw):
    s=MemoryStore(); geff.write(G,s,**kw); g2,_=geff.read(s,backend="rustworkx"); return list(g2.node_indices()), g2.nodes(), g2.weighted_edge_list(), g2.attrs["to_rx_id_map"]
show("rx holes", lambda: t3())
show("rx id map", lambda: t3(node_id_dict={0:100,2:2**63+7}))
import spatial_graph as sg
def t4():
    s=MemoryStore(); 
    gr=sg.create_graph(ndims=2,node_dtype="uint64",node_attr_dtypes={"position":"float64[2]","score":"float32"},edge_attr_dtypes={"w":"float64"},position_attr="position",directed=True)
    gr.add_nodes(np.array([3,9],np.uint64),position=np.array([[1.0,2.0],[3.0,4.0]]),score=np.array([.5,.25],np.float32)); gr.add_edges(np.array([[3,9]],np.uint64),w=np.array([7.0]))
    geff.write(gr,s,axis_names=["y","x"]); a=attrs(s)
    g2,_=geff.read(s,backend="spatial-graph"); g3,_=geff.read(s,backend="networkx")
    return a["axes"], g2.nodes, g2.node_attrs[g2.nodes].position, g2.edges, dict(g3.nodes(data=True)), list(g3.edges(data=True))
show("sg roundtrip + nx view", t4)
