import warnings, numpy as np, zarr, asyncio
warnings.simplefilter("ignore")
from zarr.storage import MemoryStore, WrapperStore
from geff.core_io import write_arrays, read_to_memory
from geff import validate_structure
from geff_spec import GeffMetadata
class Boom(Exception): pass
class FaultStore(WrapperStore):
    def __init__(self, store, fail_at=None):
        super().__init__(store); self.log=[]; self.fail_at=fail_at; self.n=0
    def _with_store(self, store): 
        r=type(self)(store, self.fail_at); r.log=self.log; return r
    def _tick(self, op, key):
        self.log.append((op,key))
        if self.fail_at is not None and len(self.log)-1==self.fail_at: raise OSError(f"injected at {op} {key}")
    async def set(self, key, value, byte_range=None):
        self._tick("set",key); return await self._store.set(key,value)
    async def set_if_not_exists(self, key, value):
        self._tick("setnx",key); return await self._store.set_if_not_exists(key,value)
    async def delete(self, key):
        self._tick("del",key); return await self._store.delete(key)
    async def delete_dir(self, prefix):
        self._tick("deldir",prefix); return await self._store.delete_dir(prefix)
def meta(): return GeffMetadata(directed=True, node_props_metadata={}, edge_props_metadata={})
def A(): return dict(node_ids=np.array([5,6,7],dtype=np.uint16), node_props={"a":{"values":np.arange(3.0),"missing":np.array([0,1,0],bool)}}, edge_ids=np.array([[5,6]],np.uint16), edge_props={"w":{"values":np.array([1.0]),"missing":None}}, metadata=meta())
def B(): return dict(node_ids=np.array([1,2],dtype=np.int64), node_props={"b":{"values":np.arange(2),"missing":None}}, edge_ids=np.empty((0,2),np.int64), edge_props={}, metadata=meta())
for fmt in (2,3):
    inner=MemoryStore(); fs=FaultStore(inner); write_arrays(fs, **A(), zarr_format=fmt)
    print("fmt",fmt,"fresh write trace:"); [print("   ",i,x) for i,x in enumerate(fs.log)]
    n=len(fs.log)
    fs2=FaultStore(inner); 
    try: write_arrays(fs2, **B(), zarr_format=fmt, overwrite=True)
    except Exception as e: print("overwrite EXC", type(e).__name__, e)
    print("overwrite trace:"); [print("   ",i,x) for i,x in enumerate(fs2.log)]
print("=========== crash sweep")
def same(g, spec):
    try:
        if not np.array_equal(g["node_ids"], spec["node_ids"]) or g["node_ids"].dtype!=spec["node_ids"].dtype: return False
        if not np.array_equal(g["edge_ids"], spec["edge_ids"]): return False
        if set(g["node_props"])!=set(spec["node_props"]) or set(g["edge_props"])!=set(spec["edge_props"]): return False
        for k in spec["node_props"]:
            if not np.array_equal(g["node_props"][k]["values"], spec["node_props"][k]["values"]): return False
        return True
    except Exception as e: return False
class PerKey(FaultStore):
    async def delete_dir(self, prefix):
        # generic per-key expansion
        if prefix and not prefix.endswith("/"): prefix+="/"
        keys=[k async for k in self._store.list_prefix(prefix)]
        for k in keys: await self.delete(k)
for cls in (FaultStore, PerKey):
  for fmt in (2,3):
    for pre in (False, True):
        # count ops
        inner=MemoryStore()
        if pre: write_arrays(inner, **A(), zarr_format=fmt)
        fs=cls(inner); write_arrays(fs, **B(), zarr_format=fmt, overwrite=pre); n=len(fs.log)
        outcomes={}
        for k in range(n):
            inner=MemoryStore()
            if pre: write_arrays(inner, **A(), zarr_format=fmt)
            fs=cls(inner, fail_at=k)
            try: write_arrays(fs, **B(), zarr_format=fmt, overwrite=pre); res="completed"
            except OSError as e: res="OSError"
            except Exception as e: res=type(e).__name__
            try:
                g=read_to_memory(inner); o = "NEW" if same(g,B()) else ("OLD" if pre and same(g,A()) else "WRONG:"+str(g["node_ids"].tolist())+str(list(g["node_props"])))
            except Exception as e: o="rejected"
            outcomes.setdefault((res,o),[]).append(k)
        print(cls.__name__,"fmt",fmt,"pre",pre,"n",n,{k:(v[0],v[-1],len(v)) for k,v in outcomes.items()})
