import warnings, numpy as np, traceback
warnings.simplefilter("ignore")
from geff.validate.shapes import validate_ellipsoid
from geff_spec import Axis
for shp in [(2,1),(2,1,1),(2,)]:
    try: validate_ellipsoid(np.ones(shp), [Axis(name="x",type="space")]); print(shp,"accepted")
    except Exception as e: print(shp,type(e).__name__,e)
exec(open("p16.py").read().split("spots=[sp(1,0,Q=0.5")[0])
import tempfile, pathlib, shutil
d=pathlib.Path(tempfile.mkdtemp(dir="/tmp/probe"))
spots2=[sp(1,0),sp(2,1),sp(3,0),sp(4,1),sp(5,0)]
(d/"in.xml").write_text(xml(spots2,{3:[E(1,2)],4:[E(3,4)]},[]))
try:
    from_trackmate_xml_to_geff(d/"in.xml", d/"out.geff", discard_filtered_tracks=True); print("conversion ok")
    g=read_to_memory(d/"out.geff"); print("read ok", g["node_ids"], list(g["node_props"]), g["metadata"].track_node_props, list(g["metadata"].node_props_metadata))
    read_to_memory(d/"out.geff", data_validation=ValidationConfig(lineage=True))
except Exception as e: traceback.print_exc()
shutil.rmtree(d)
