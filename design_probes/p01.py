import warnings, numpy as np, zarr, traceback
warnings.simplefilter("ignore")
from geff.core_io import write_arrays, read_to_memory
from geff_spec import GeffMetadata
from zarr.storage import MemoryStore

def meta(directed=True, axes=None):
    return GeffMetadata(directed=directed, node_props_metadata={}, edge_props_metadata={}, axes=axes)

def rt(node_ids, edge_ids, node_props, edge_props, fmt=2, **kw):
    s = MemoryStore()
    write_arrays(s, node_ids, node_props, edge_ids, edge_props, meta(), zarr_format=fmt, **kw)
    return s, read_to_memory(s)

def show(title, f):
    print("==", title)
    try:
        r = f()
        print("   ->", r)
    except Exception as e:
        print("   EXC", type(e).__name__, str(e)[:300])

# 1. basic ids at full range
for fmt in (2,3):
    def f():
        ids = np.array([0, 2**64-1, 2**63], dtype=np.uint64)
        e = np.array([[0, 2**64-1]], dtype=np.uint64)
        s, g = rt(ids, e, {}, {}, fmt)
        return g["node_ids"], g["node_ids"].dtype, g["edge_ids"], g["edge_ids"].dtype
    show(f"uint64 full range fmt{fmt}", f)

# 2. empty graph, node_props None
for fmt in (2,3):
    show(f"empty None props fmt{fmt}", lambda: rt(np.array([],dtype=np.int8), np.empty((0,2),dtype=np.int8), None, None, fmt)[1])
    show(f"empty {{}} props fmt{fmt}", lambda: rt(np.array([],dtype=np.int8), np.empty((0,2),dtype=np.int8), {}, {}, fmt)[1])

# 3. dtypes
for dt in ["bool","int8","uint8","int16","uint16","int32","uint32","int64","uint64","float16","float32","float64","str", "S3", "complex64", "datetime64[s]", "object"]:
    for fmt in (2,3):
        def f():
            if dt=="str": vals=np.array(["a","","héllo ☃"])
            elif dt=="S3": vals=np.array([b"a",b"bc",b""],dtype="S3")
            elif dt=="object": vals=np.array(["a",1,None],dtype=object)
            elif dt=="datetime64[s]": vals=np.array([1,2,3],dtype=dt)
            else: vals=np.array([0,1,1]).astype(dt)
            s,g = rt(np.arange(3,dtype=np.uint8), np.empty((0,2),dtype=np.uint8), {"p":{"values":vals,"missing":np.array([0,1,0],bool)}}, {}, fmt)
            p=g["node_props"]["p"]
            return p["values"].dtype, p["values"].tolist(), p["missing"], g["metadata"].node_props_metadata["p"].dtype
        show(f"dtype {dt} fmt{fmt}", f)
