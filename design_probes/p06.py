import warnings, numpy as np, zarr, tempfile, pathlib, shutil, os
warnings.simplefilter("ignore")
import geff, networkx as nx
from geff.core_io import write_arrays, read_to_memory
from geff_spec import GeffMetadata
from zarr.storage import MemoryStore, LocalStore
def meta(): return GeffMetadata(directed=True, node_props_metadata={}, edge_props_metadata={})
def A(): return dict(node_ids=np.arange(3,dtype=np.uint16), node_props={"a":{"values":np.arange(3.0),"missing":None},"b":{"values":np.arange(3),"missing":None}}, edge_ids=np.array([[0,1]],np.uint16), edge_props={"w":{"values":np.array([1.0]),"missing":None}}, metadata=meta())
def B(): return dict(node_ids=np.arange(2,dtype=np.int64), node_props={"a":{"values":np.arange(2),"missing":None}}, edge_ids=np.empty((0,2),np.int64), edge_props={}, metadata=meta())
async def _dump(store):
    out={}
    async for k in store.list():
        out[k]=(await store.get(k, prototype=zarr.core.buffer.default_buffer_prototype())).to_bytes()
    return out
def dump(store):
    import asyncio
    if isinstance(store,(str,pathlib.Path)):
        out={}
        for root,d,f in os.walk(store):
            for fn in f:
                p=os.path.join(root,fn); out[os.path.relpath(p,store)]=open(p,'rb').read()
        return out
    return zarr.core.sync.sync(_dump(store))
def show(title,f):
    try: r=f(); print("==",title,"->",r)
    except Exception as e: print("==",title,"-> EXC",type(e).__name__,str(e)[:200].replace("\n"," | "))

for f1 in (2,3):
  for f2 in (2,3):
    def t():
        s=MemoryStore(); write_arrays(s, **A(), zarr_format=f1)
        write_arrays(s, **B(), zarr_format=f2, overwrite=True)
        s2=MemoryStore(); write_arrays(s2, **B(), zarr_format=f2)
        d1,d2=dump(s),dump(s2)
        return "SAME" if d1==d2 else ("DIFF", sorted(set(d1)^set(d2)), [k for k in d1 if k in d2 and d1[k]!=d2[k]])
    show(f"mem overwrite fmt {f1}->{f2}", t)
    def t():
        d=tempfile.mkdtemp(dir="/tmp/probe"); p=pathlib.Path(d)/"g.zarr"
        try:
            write_arrays(p, **A(), zarr_format=f1)
            write_arrays(p, **B(), zarr_format=f2, overwrite=True)
            p2=pathlib.Path(d)/"h.zarr"; write_arrays(p2, **B(), zarr_format=f2)
            d1,d2=dump(p),dump(p2)
            return "SAME" if d1==d2 else ("DIFF", sorted(set(d1)^set(d2)), [k for k in d1 if k in d2 and d1[k]!=d2[k]])
        finally: shutil.rmtree(d)
    show(f"path overwrite fmt {f1}->{f2}", t)
    def t():
        d=tempfile.mkdtemp(dir="/tmp/probe"); p=pathlib.Path(d)/"c.zarr"
        try:
            root=zarr.open_group(p,mode="a",zarr_format=f1); root.create_group("sibling"); root["sibling/x"]=np.arange(3)
            gp=p/"g.geff"
            write_arrays(gp, **A(), zarr_format=f1)
            write_arrays(gp, **B(), zarr_format=f2, overwrite=True)
            g=read_to_memory(gp); 
            return g["node_ids"], list(g["node_props"]), sorted(os.listdir(p))
        finally: shutil.rmtree(d)
    show(f"path nested geff in container fmt {f1}->{f2}", t)
    def t():
        d=tempfile.mkdtemp(dir="/tmp/probe"); p=pathlib.Path(d)/"c.zarr"
        try:
            root=zarr.open_group(p,mode="a",zarr_format=f1); root.create_group("sibling"); root["sibling/x"]=np.arange(3)
            write_arrays(p, **A(), zarr_format=f1)
            write_arrays(p, **B(), zarr_format=f2, overwrite=True)
            g=read_to_memory(p); 
            return g["node_ids"], list(g["node_props"]), sorted(os.listdir(p))
        finally: shutil.rmtree(d)
    show(f"path geff at root with sibling fmt {f1}->{f2}", t)
    def t():
        d=tempfile.mkdtemp(dir="/tmp/probe"); p=pathlib.Path(d)/"c.zarr"
        try:
            root=zarr.open_group(p,mode="a",zarr_format=f1); root.create_group("sibling"); root["sibling/x"]=np.arange(3)
            g=nx.DiGraph(); g.add_node(1,a=1.0)
            geff.write(g, p, zarr_format=f1)
            g.add_node(2,a=2.0)
            geff.write(g, p, zarr_format=f2, overwrite=True)
            gg=read_to_memory(p); 
            return gg["node_ids"], list(gg["node_props"]), sorted(os.listdir(p))
        finally: shutil.rmtree(d)
    show(f"geff.write nx path with sibling fmt {f1}->{f2}", t)
    def t():
        s=MemoryStore()
        g=nx.DiGraph(); g.add_node(1,a=1.0)
        geff.write(g, s, zarr_format=f1)
        g.add_node(2,a=2.0)
        geff.write(g, s, zarr_format=f2, overwrite=True)
        gg=read_to_memory(s); 
        return gg["node_ids"], list(gg["node_props"])
    show(f"geff.write nx mem fmt {f1}->{f2}", t)
# refuse w/o overwrite leaves bytes unchanged
def t():
    s=MemoryStore(); write_arrays(s, **A()); d1=dump(s)
    try: write_arrays(s, **B())
    except FileExistsError as e: pass
    return dump(s)==d1
show("refused write unchanged (mem)", t)
