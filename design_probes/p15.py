import warnings, numpy as np, tempfile, pathlib, shutil, tifffile, traceback
warnings.simplefilter("ignore")
from geff.convert import from_ctc_to_geff
from geff.core_io import read_to_memory
from geff.validate.data import ValidationConfig
import zarr
def show(title,f):
    try: r=f(); print("==",title,"->",r)
    except Exception as e: print("==",title,"-> EXC",type(e).__name__,str(e)[:300].replace("\n"," | "))
def mkds(frames, table, name="man_track.txt"):
    d=pathlib.Path(tempfile.mkdtemp(dir="/tmp/probe"))
    for t,f in enumerate(frames): tifffile.imwrite(d/f"man_track{t:03d}.tif", f)
    with open(d/name,"w") as fh:
        for row in table: fh.write(" ".join(map(str,row))+"\n")
    return d
def conv(frames, table, seg=None, **kw):
    d=mkds(frames,table)
    try:
        out=d/"out.geff"
        segp = (d/"seg.zarr") if seg=="path" else None
        from_ctc_to_geff(d,out,segmentation_store=segp,**kw)
        g=read_to_memory(out, data_validation=ValidationConfig(graph=True,tracklet=True))
        r={"nodes":g["node_ids"].tolist(),"edges":g["edge_ids"].tolist(),"props":{k:v["values"].tolist() for k,v in g["node_props"].items()},"axes":[a.name for a in g["metadata"].axes],"rel":g["metadata"].related_objects}
        if segp: r["seg"]=zarr.open_array(segp,mode="r").shape
        return r
    finally: shutil.rmtree(d)
def fr2(*labs, shape=(6,6)):
    f=np.zeros(shape,np.uint16)
    for i,l in enumerate(labs): f[i, i]=l
    return f
show("2D basic div", lambda: conv([fr2(1),fr2(1),fr2(2,3)], [(1,0,1,0),(2,2,2,1),(3,2,2,1)]))
show("2D with seg path", lambda: conv([fr2(1),fr2(1),fr2(2,3)], [(1,0,1,0),(2,2,2,1),(3,2,2,1)], seg="path"))
show("one-row table", lambda: conv([fr2(1),fr2(1)], [(1,0,1,0)]))
show("single child continuation", lambda: conv([fr2(1),fr2(2)], [(1,0,0,0),(2,1,1,1)]))
show("gap", lambda: conv([fr2(1,2),fr2(2),fr2(1,2)], [(1,0,2,0),(2,0,2,0)]))
def fr3(*labs):
    f=np.zeros((3,6,6),np.uint16)
    for i,l in enumerate(labs): f[1,i,i]=l
    return f
show("3D no seg", lambda: conv([fr3(1),fr3(1,2)], [(1,0,1,0),(2,1,1,0)]))
show("3D with seg", lambda: conv([fr3(1),fr3(1,2)], [(1,0,1,0),(2,1,1,0)], seg="path"))
show("3D seg tczyx", lambda: conv([fr3(1),fr3(1,2)], [(1,0,1,0),(2,1,1,0)], seg="path", tczyx=True))
