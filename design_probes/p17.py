import warnings, numpy as np, tempfile, os
warnings.simplefilter("ignore")
from geff.core_io import write_arrays
from geff.convert import geff_to_dataframes, geff_to_csv
from geff_spec import GeffMetadata
from zarr.storage import MemoryStore
import pandas as pd
def meta(): return GeffMetadata(directed=True, node_props_metadata={}, edge_props_metadata={})
def show(title,f):
    try: r=f(); print("==",title,"->\n",r)
    except Exception as e: print("==",title,"-> EXC",type(e).__name__,str(e)[:200].replace("\n"," | "))
def mk(n, props, e=None, eprops=None):
    s=MemoryStore(); write_arrays(s, np.arange(n,dtype=np.uint8)+10, props, np.array(e if e else [],np.uint8).reshape(-1,2), eprops or {}, meta()); return s
show("N=1 with (1,3) prop", lambda: geff_to_dataframes(mk(1,{"p":{"values":np.array([[1,2,3]]),"missing":None},"q":{"values":np.array([5.0]),"missing":None}}))[0])
show("N=3 (3,1) prop", lambda: geff_to_dataframes(mk(3,{"p":{"values":np.array([[1],[2],[3]]),"missing":None}}))[0])
show("N=3 (3,1,2) prop", lambda: geff_to_dataframes(mk(3,{"p":{"values":np.arange(6).reshape(3,1,2),"missing":None}}))[0])
show("N=2 (2,2) w/ missing", lambda: geff_to_dataframes(mk(2,{"p":{"values":np.arange(4).reshape(2,2),"missing":np.array([1,0],bool)},"s":{"values":np.array(["a","b"]),"missing":np.array([0,1],bool)},"i":{"values":np.array([1,2]),"missing":np.array([0,1],bool)}}))[0])
show("N=0", lambda: geff_to_dataframes(mk(0,{"p":{"values":np.zeros((0,2)),"missing":None}})))
show("N=2 rank3 (2,2,2)", lambda: geff_to_dataframes(mk(2,{"p":{"values":np.zeros((2,2,2)),"missing":None}}))[0])
show("N=2, (2,1) missing all-false", lambda: geff_to_dataframes(mk(2,{"p":{"values":np.zeros((2,1)),"missing":np.zeros(2,bool)}}))[0])
show("N=1 scalar", lambda: geff_to_dataframes(mk(1,{"p":{"values":np.array([7]),"missing":None}}))[0])
show("N=1 scalar with missing", lambda: geff_to_dataframes(mk(1,{"p":{"values":np.array([7]),"missing":np.array([True])}}))[0])
show("edges", lambda: geff_to_dataframes(mk(3,{},[[10,11],[12,11]],{"w":{"values":np.array([[1,2],[3,4]]),"missing":np.array([0,1],bool)}}))[1])
def csvrt():
    d=tempfile.mkdtemp(dir="/tmp/probe"); s=mk(2,{"s":{"values":np.array(["a,b",'q"x']),"missing":None},"f":{"values":np.array([0.1,1e-320]),"missing":None},"big":{"values":np.array([2**64-1,1],np.uint64),"missing":None}})
    geff_to_csv(s, d+"/out.csv"); print(os.listdir(d)); print(open(d+"/out-nodes.csv").read()); df=pd.read_csv(d+"/out-nodes.csv"); print(df.dtypes); 
    try: geff_to_csv(s, d+"/out.csv")
    except Exception as e: print("second:",type(e).__name__)
    return df
show("csv", csvrt)
