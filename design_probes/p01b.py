import warnings, numpy as np, zarr, traceback, tempfile, pathlib, shutil
warnings.simplefilter("ignore")
from geff.core_io import write_arrays, read_to_memory, construct_var_len_props
from geff_spec import GeffMetadata
from zarr.storage import MemoryStore, LocalStore

def meta(directed=True, axes=None):
    return GeffMetadata(directed=directed, node_props_metadata={}, edge_props_metadata={}, axes=axes)
def rt(node_ids, edge_ids, node_props, edge_props, fmt=2, store=None, **kw):
    s = MemoryStore() if store is None else store
    write_arrays(s, node_ids, node_props, edge_ids, edge_props, meta(), zarr_format=fmt, **kw)
    return s, read_to_memory(s)
def show(title, f):
    print("==", title)
    try:
        r = f(); print("   ->", r)
    except Exception as e:
        print("   EXC", type(e).__name__, str(e)[:300])

def vl(seq, dtype, missing=None):
    v = np.empty(len(seq), dtype=object)
    for i,a in enumerate(seq): v[i]=np.asarray(a,dtype=dtype)
    return {"values": v, "missing": missing}

for fmt in (2,3):
    show(f"vlen rank1 fmt{fmt}", lambda: rt(np.arange(3,dtype=np.uint8), np.empty((0,2),np.uint8), {"p": vl([[1,2],[ ],[3]], "int16", np.array([0,1,0],bool))}, {}, fmt)[1]["node_props"]["p"])
    show(f"vlen rank2 with zero dims fmt{fmt}", lambda: rt(np.arange(3,dtype=np.uint8), np.empty((0,2),np.uint8), {"p": vl([np.zeros((2,0)),np.ones((1,2)),np.zeros((0,3))], "float32")}, {}, fmt)[1]["node_props"]["p"])
    show(f"vlen rank0 fmt{fmt}", lambda: rt(np.arange(2,dtype=np.uint8), np.empty((0,2),np.uint8), {"p": vl([np.float64(1.5), np.float64(2.5)], "float64")}, {}, fmt)[1]["node_props"]["p"])
    show(f"vlen all-empty float fmt{fmt}", lambda: rt(np.arange(2,dtype=np.uint8), np.empty((0,2),np.uint8), {"p": vl([[],[]], "float64")}, {}, fmt)[1]["node_props"]["p"])
    show(f"vlen N=0 fmt{fmt}", lambda: rt(np.arange(0,dtype=np.uint8), np.empty((0,2),np.uint8), {"p": {"values":np.empty(0,dtype=object),"missing":None}}, {}, fmt)[1]["node_props"]["p"])
    show(f"vlen bool fmt{fmt}", lambda: rt(np.arange(2,dtype=np.uint8), np.empty((0,2),np.uint8), {"p": vl([[True],[False,True]], "bool")}, {}, fmt)[1]["node_props"]["p"])
    show(f"vlen str fmt{fmt}", lambda: rt(np.arange(2,dtype=np.uint8), np.empty((0,2),np.uint8), {"p": vl([["a"],["bb","c"]], "str")}, {}, fmt)[1]["node_props"]["p"])
    show(f"rank3 float w/ nan fmt{fmt}", lambda: rt(np.arange(2,dtype=np.uint8), np.empty((0,2),np.uint8), {"p": {"values":np.array([[[np.nan,-0.0],[np.inf,-np.inf]]]*2,dtype="float32"),"missing":None}}, {}, fmt)[1]["node_props"]["p"])
    show(f"edge props fmt{fmt}", lambda: rt(np.arange(3,dtype=np.int64), np.array([[0,1],[2,1]],np.int64), {}, {"w":{"values":np.array([1.5,2.5]),"missing":np.array([True,False])}}, fmt)[1]["edge_props"])
    for name in ["a/b", " ", ".", "..", "values", "ünï☃", "a.b", "", "a\\b", "A"*300, "props", "\n", ".zarray", "zarr.json", "c/"]:
        show(f"name {name!r} fmt{fmt}", lambda: list(rt(np.arange(2,dtype=np.uint8), np.empty((0,2),np.uint8), {name: {"values":np.array([1,2]),"missing":None}}, {}, fmt)[1]["node_props"].keys()))
