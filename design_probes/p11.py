import warnings, numpy as np
warnings.simplefilter("ignore")
from geff.core_io import construct_var_len_props
from geff.core_io._serialization import serialize_vlen_property_data, deserialize_vlen_property_data
def show(title,f):
    try: r=f(); print("==",title,"->",r)
    except Exception as e: print("==",title,"-> EXC",type(e).__name__,str(e)[:200].replace("\n"," | "))
def norm(seq):
    d=construct_var_len_props(seq); return [(a.dtype.name,a.shape,a.tolist()) for a in d["values"]], d["missing"]
show("int8 then int64", lambda: norm([np.array([1],np.int8), np.array([2],np.int64)]))
show("int64 then int8", lambda: norm([np.array([2],np.int64), np.array([1],np.int8)]))
show("int then float", lambda: norm([[1,2],[1.5]]))
show("float then int", lambda: norm([[1.5],[1,2]]))
show("uint64 then int64", lambda: norm([np.array([1],np.uint64), np.array([2],np.int64)]))
show("int64 then uint64", lambda: norm([np.array([2],np.int64), np.array([1],np.uint64)]))
show("bool then int", lambda: norm([[True],[2]]))
show("int then bool", lambda: norm([[2],[True]]))
show("int then str", lambda: norm([[2],["a"]]))
show("str then int", lambda: norm([["a"],[2]]))
show("ranks mixed", lambda: norm([1,[2,3],[[4]],None]))
show("all none", lambda: norm([None,None]))
show("empty seq", lambda: norm([]))
show("empty list then int", lambda: norm([[],[1]]))
show("int then empty list", lambda: norm([[1],[]]))
show("int8,int16,int8 vs perm", lambda: (norm([np.int8(1),np.int16(2),np.int8(3)])[0][0][0], ))
show("int16,int8", lambda: norm([np.array([1],np.int16),np.array([1],np.int8)]))
show("f32,i32 ", lambda: norm([np.array([1],np.float32),np.array([1],np.int32)]))
show("i32,f32 ", lambda: norm([np.array([1],np.int32),np.array([1],np.float32)]))
show("i32,f64 ", lambda: norm([np.array([1],np.int32),np.array([1],np.float64)]))
show("i8,u8 ", lambda: norm([np.array([1],np.int8),np.array([1],np.uint8)]))
show("u8,i8 ", lambda: norm([np.array([1],np.uint8),np.array([1],np.int8)]))
show("u8,i16 ", lambda: norm([np.array([1],np.uint8),np.array([1],np.int16)]))
# serialize checks
def ser(seq,dtype,missing=None):
    v=np.empty(len(seq),object)
    for i,a in enumerate(seq): v[i]=np.asarray(a,dtype=dtype)
    vals,miss,data=serialize_vlen_property_data({"values":v,"missing":missing})
    d=deserialize_vlen_property_data(vals,miss,data)
    return vals.tolist(), data.dtype, data.tolist(), [(a.dtype.name,a.shape) for a in d["values"]]
show("ser basic", lambda: ser([[1,2],[],[3]],"int16"))
show("ser all empty float32", lambda: ser([[],[]],"float32"))
show("ser N=0", lambda: ser([],"float32"))
show("ser rank0", lambda: ser([1.0,2.0],"float64"))
show("ser rank2 zeros", lambda: ser([np.zeros((2,0)),np.zeros((0,3)),np.ones((1,1))],"uint8"))
show("ser non-ndarray elem", lambda: serialize_vlen_property_data({"values":np.array([[1,2],[3,4]]),"missing":None}))
