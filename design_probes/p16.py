import warnings, numpy as np, tempfile, pathlib, shutil
warnings.simplefilter("ignore")
from geff.convert import from_trackmate_xml_to_geff
from geff.core_io import read_to_memory
from geff.validate.data import ValidationConfig
def show(title,f):
    try: r=f(); print("==",title,"->",r)
    except Exception as e: print("==",title,"-> EXC",type(e).__name__,str(e)[:300].replace("\n"," | "))
def xml(spots, tracks, filtered, spot_feats=(("POSITION_X","false"),("POSITION_Y","false"),("POSITION_Z","false"),("POSITION_T","false"),("FRAME","true"),("Q","false"),("K","true")), edge_feats=(("SPOT_SOURCE_ID","true"),("SPOT_TARGET_ID","true"),("COST","false"),("EK","true")), settings=True, roi=False):
    s='<?xml version="1.0" encoding="UTF-8"?>\n<TrackMate version="7.0">\n<Log>log</Log>\n<Model spatialunits="micron" timeunits="sec">\n<FeatureDeclarations>\n<SpotFeatures>\n'
    for f,i in spot_feats: s+=f'<Feature feature="{f}" name="{f}" shortname="{f}" dimension="NONE" isint="{i}" />\n'
    s+='</SpotFeatures>\n<EdgeFeatures>\n'
    for f,i in edge_feats: s+=f'<Feature feature="{f}" name="{f}" shortname="{f}" dimension="NONE" isint="{i}" />\n'
    s+='</EdgeFeatures>\n<TrackFeatures>\n<Feature feature="TRACK_ID" name="T" shortname="T" dimension="NONE" isint="true" />\n</TrackFeatures>\n</FeatureDeclarations>\n'
    s+=f'<AllSpots nspots="{len(spots)}">\n'
    frames={}
    for sp in spots: frames.setdefault(sp["FRAME"],[]).append(sp)
    for fr,sps in sorted(frames.items()):
        s+=f'<SpotsInFrame frame="{fr}">\n'
        for sp in sps:
            attrs=" ".join(f'{k}="{v}"' for k,v in sp.items() if k!="_roi")
            if "_roi" in sp: s+=f'<Spot {attrs} ROI_N_POINTS="{len(sp["_roi"])//2}">{" ".join(map(str,sp["_roi"]))}</Spot>\n'
            else: s+=f'<Spot {attrs} />\n'
        s+='</SpotsInFrame>\n'
    s+='</AllSpots>\n<AllTracks>\n'
    for tid,edges in tracks.items():
        s+=f'<Track name="T{tid}" TRACK_ID="{tid}">\n'
        for e in edges: s+='<Edge '+" ".join(f'{k}="{v}"' for k,v in e.items())+' />\n'
        s+='</Track>\n'
    s+='</AllTracks>\n<FilteredTracks>\n'
    for t in filtered: s+=f'<TrackID TRACK_ID="{t}" />\n'
    s+='</FilteredTracks>\n</Model>\n'
    if settings: s+='<Settings><ImageData filename="a.tif" folder="/x" /></Settings>\n'
    s+='</TrackMate>\n'
    return s
def sp(i,fr,**kw): return {"ID":i,"name":f"ID{i}","POSITION_X":i*1.0,"POSITION_Y":0.5,"POSITION_Z":0.0,"POSITION_T":fr*1.0,"FRAME":fr,**kw}
def E(a,b,**kw): return {"SPOT_SOURCE_ID":a,"SPOT_TARGET_ID":b,**kw}
def conv(x, **kw):
    d=pathlib.Path(tempfile.mkdtemp(dir="/tmp/probe"))
    try:
        (d/"in.xml").write_text(x); from_trackmate_xml_to_geff(d/"in.xml", d/"out.geff", **kw)
        g=read_to_memory(d/"out.geff", data_validation=ValidationConfig(graph=True, lineage=kw.pop("_lin",True)))
        return {"nodes":g["node_ids"].tolist(),"edges":g["edge_ids"].tolist(),"np":{k:(v["values"].dtype.name, v["values"].tolist() if v["values"].dtype!=object else [a.tolist() for a in v["values"]], None if v["missing"] is None else v["missing"].tolist()) for k,v in g["node_props"].items()},"ep":{k:(v["values"].dtype.name,v["values"].tolist(),None if v["missing"] is None else v["missing"].tolist()) for k,v in g["edge_props"].items()}, "axes":[(a.name,a.unit,a.min,a.max) for a in g["metadata"].axes]}
    finally: shutil.rmtree(d)
spots=[sp(1,0,Q=0.5,K=3),sp(2,1,Q="NaN"),sp(3,1,K=4),sp(4,2),sp(5,0)]
tr={0:[E(1,2,COST=1.5,EK=2),E(1,3)],7:[E(3,4,COST=2.5)]}
show("basic with track 0 & lone spot 5", lambda: conv(xml(spots,{0:[E(1,2,COST=1.5,EK=2),E(1,3),E(3,4,COST=2.5)]},[0])))
show("no track 0, lone spot", lambda: conv(xml(spots,{3:[E(1,2,COST=1.5,EK=2),E(1,3),E(3,4,COST=2.5)]},[3])))
show("discard spots", lambda: conv(xml(spots,{3:[E(1,2,COST=1.5,EK=2),E(1,3),E(3,4,COST=2.5)]},[3]),discard_filtered_spots=True))
spots2=[sp(1,0),sp(2,1),sp(3,0),sp(4,1),sp(5,0)]
show("discard tracks keep 3", lambda: conv(xml(spots2,{3:[E(1,2)],4:[E(3,4)]},[3]),discard_filtered_tracks=True))
show("discard tracks keep none", lambda: conv(xml(spots2,{3:[E(1,2)],4:[E(3,4)]},[]),discard_filtered_tracks=True))
show("roi", lambda: conv(xml([dict(sp(1,0),_roi=[0,0,1,0,1,1]),dict(sp(2,1),_roi=[0,0,1,0,1,1,0,1])],{3:[E(1,2)]},[3])))
show("roi same size", lambda: conv(xml([dict(sp(1,0),_roi=[0,0,1,0,1,1]),dict(sp(2,1),_roi=[0,0,1,0,2,1])],{3:[E(1,2)]},[3])))
show("no settings", lambda: conv(xml(spots2,{3:[E(1,2)],4:[E(3,4)]},[3],settings=False)))
show("merge", lambda: conv(xml([sp(1,0),sp(2,0),sp(3,1)],{3:[E(1,3),E(2,3)]},[3])))
