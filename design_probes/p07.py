import warnings, copy, json
warnings.simplefilter("ignore")
from geff_spec import GeffMetadata, Axis, PropMetadata, DisplayHint, RelatedObject
def show(title,f):
    try: r=f(); print("==",title,"->",r)
    except Exception as e: print("==",title,"-> EXC",type(e).__name__,str(e)[:200].replace("\n"," | "))
def mk(): return GeffMetadata(directed=True, node_props_metadata={"a":PropMetadata(identifier="a",dtype="int8")}, edge_props_metadata={}, axes=[Axis(name="x"),Axis(name="y")], display_hints=DisplayHint(display_horizontal="x",display_vertical="y"))
m=mk(); before=m.model_dump()
def t():
    try: m.axes=[Axis(name="x"),Axis(name="x")]
    except Exception as e: print("   raised",type(e).__name__)
    return m.model_dump()==before, [a.name for a in m.axes]
show("dup axes assignment leaves object unchanged?", t)
m=mk(); before=m.model_dump()
def t():
    try: m.axes=[Axis(name="x")]
    except Exception as e: print("   raised",type(e).__name__)
    return m.model_dump()==before, [a.name for a in m.axes]
show("axes assignment breaking display hints", t)
m=mk(); before=m.model_dump()
def t():
    try: m.geff_version="abc"
    except Exception as e: print("   raised",type(e).__name__)
    return m.model_dump()==before, m.geff_version
show("bad version", t)
m=mk(); before=m.model_dump()
def t():
    try: m.node_props_metadata={"b":PropMetadata(identifier="a",dtype="int8")}
    except Exception as e: print("   raised",type(e).__name__)
    return m.model_dump()==before, m.node_props_metadata
show("key!=identifier", t)
m=mk(); before=m.model_dump()
def t():
    try: m.display_hints=DisplayHint(display_horizontal="q",display_vertical="y")
    except Exception as e: print("   raised",type(e).__name__)
    return m.model_dump()==before, m.display_hints
show("bad display hints", t)
m=mk(); before=m.model_dump()
def t():
    try: m.directed="notabool"
    except Exception as e: print("   raised",type(e).__name__)
    return m.model_dump()==before, m.directed
show("bad directed", t)
show("version 1.2x", lambda: GeffMetadata(geff_version="1.2x", directed=True,node_props_metadata={},edge_props_metadata={}).geff_version)
show("version 1.2.3.4.5", lambda: GeffMetadata(geff_version="1.2.3.4.5junk", directed=True,node_props_metadata={},edge_props_metadata={}).geff_version)
show("model_copy update invalid", lambda: mk().model_copy(update={"axes":[Axis(name="x"),Axis(name="x")]}).axes)
show("model_construct", lambda: GeffMetadata.model_construct(directed=True).model_dump())
show("axis min>max", lambda: Axis(name="x",min=2,max=1))
show("axis min only", lambda: Axis(name="x",min=2))
show("axis min nan", lambda: Axis(name="x",min=float("nan"),max=1))
show("axis scaled_unit w/o scale", lambda: Axis(name="x",scaled_unit="meter"))
show("axis scaled_unit '' w/o scale", lambda: Axis(name="x",scaled_unit=""))
show("relobj label_prop on image", lambda: RelatedObject(type="image",path="p",label_prop="l"))
show("propmeta dtype float16", lambda: PropMetadata(identifier="a",dtype="float16"))
show("propmeta dtype int", lambda: PropMetadata(identifier="a",dtype="int").dtype)
show("propmeta dtype <U5", lambda: PropMetadata(identifier="a",dtype="<U5").dtype)
show("propmeta dtype garbage", lambda: PropMetadata(identifier="a",dtype="garbage").dtype)
show("propmeta dtype object", lambda: PropMetadata(identifier="a",dtype="object").dtype)
show("extra unknown field", lambda: GeffMetadata(directed=True,node_props_metadata={},edge_props_metadata={},foo=1).model_dump().get("foo"))
show("deepcopy eq", lambda: copy.deepcopy(mk())==mk())
show("json roundtrip", lambda: GeffMetadata.model_validate_json(mk().model_dump_json())==mk())
show("dup axes via dict", lambda: GeffMetadata.model_validate({"directed":True,"node_props_metadata":{},"edge_props_metadata":{},"axes":[{"name":"x"},{"name":"x"}]}))
show("track_node_props bad key", lambda: GeffMetadata(directed=True,node_props_metadata={},edge_props_metadata={},track_node_props={"foo":"a"}))
