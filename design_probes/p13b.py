import itertools, networkx as nx
def labellings(n):
    # restricted growth strings
    def rec(i, cur, mx):
        if i==n: yield tuple(cur); return
        for v in range(mx+2):
            yield from rec(i+1, cur+[v], max(mx,v))
    yield from rec(0, [], -1)
def spec_partition(G):
    # maximal unbranched paths: components of linear-edge graph
    L=nx.Graph(); L.add_nodes_from(G.nodes)
    for u,v in G.edges:
        if G.out_degree(u)==1 and G.in_degree(v)==1: L.add_edge(u,v)
    return {frozenset(c) for c in nx.connected_components(L)}
def spec_valid(G, lab):
    classes={}
    for n,l in lab.items(): classes.setdefault(l,set()).add(n)
    return {frozenset(c) for c in classes.values()}==spec_partition(G)
def LC(G, lab):
    for u,v in G.edges:
        lin = G.out_degree(u)==1 and G.in_degree(v)==1
        if (lab[u]==lab[v])!=lin: return False
    classes={}
    for n,l in lab.items(): classes.setdefault(l,set()).add(n)
    for c in classes.values():
        if not nx.is_weakly_connected(G.subgraph(c)): return False
    return True
def patched(G, lab):
    classes={}
    for n,l in lab.items(): classes.setdefault(l,[]).append(n)
    for t,T in classes.items():
        S=G.subgraph(T)
        if max((d for _,d in S.in_degree),default=0)>1 or max((d for _,d in S.out_degree),default=0)>1: return False
        if not nx.is_directed_acyclic_graph(S): return False
        if not nx.is_weakly_connected(S): return False
        for n in T:
            if S.out_degree(n)>=1 and G.out_degree(n)!=1: return False
            if S.in_degree(n)>=1 and G.in_degree(n)!=1: return False
        for n in T:
            if S.in_degree(n)==0:
                p=list(G.predecessors(n))
                if len(p)==1 and G.out_degree(p[0])==1: return False
            if S.out_degree(n)==0:
                s=list(G.successors(n))
                if len(s)==1 and G.in_degree(s[0])==1: return False
    return True
from geff.validate.tracks import validate_tracklets
tot=0; bad=[]; cur_acc_invalid=0; cur_rej_valid=0
for n in range(1,5):
    pairs=[(i,j) for i in range(n) for j in range(n) if i!=j]
    for mask in range(1<<len(pairs)):
        E=[p for k,p in enumerate(pairs) if mask>>k&1]
        G=nx.DiGraph(); G.add_nodes_from(range(n)); G.add_edges_from(E)
        if not nx.is_directed_acyclic_graph(G): continue
        for labt in labellings(n):
            lab=dict(enumerate(labt)); tot+=1
            a,b,c=spec_valid(G,lab),LC(G,lab),patched(G,lab)
            if not (a==b==c): bad.append((n,E,labt,a,b,c))
            cur,_=validate_tracklets(list(range(n)), E if E else [], list(labt)) if E else (True,[])  # empty edges: code builds from generator; handle
            if E:
                if cur and not a: cur_acc_invalid+=1
                if (not cur) and a: cur_rej_valid+=1
print("cases",tot,"disagreements among spec/LC/patched:",len(bad)); print(bad[:5])
print("current code: accepts invalid:",cur_acc_invalid," rejects valid:",cur_rej_valid)
