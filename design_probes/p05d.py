import warnings, numpy as np, zarr, tempfile, pathlib, shutil, os
warnings.simplefilter("ignore")
from geff.core_io import write_arrays, write_dicts
from geff_spec import GeffMetadata, PropMetadata
from zarr.storage import MemoryStore, LocalStore
def meta(**kw): return GeffMetadata(directed=True, node_props_metadata=kw.get("np",{}), edge_props_metadata={})
bad=dict(node_ids=np.arange(3,dtype=np.uint16), node_props={"a":{"values":np.arange(2.0),"missing":None}}, edge_ids=np.empty((0,2),np.uint16), edge_props={}, metadata=meta())
bad2=dict(node_ids=np.arange(3,dtype=np.uint16), node_props={"a":{"values":np.arange(3.0),"missing":None}}, edge_ids=np.empty((0,2),np.uint16), edge_props={}, metadata=meta(np={"zz":PropMetadata(identifier="zz",dtype="int8")}))
bad3=dict(node_ids=np.arange(3,dtype=np.uint16), node_props={"a":{"values":np.arange(3.0).astype(complex),"missing":None}}, edge_ids=np.empty((0,2),np.uint16), edge_props={}, metadata=meta())
def tree(g,prefix=""):
    out=[]
    for k in sorted(g.keys()):
        out.append(prefix+k); 
        if isinstance(g[k], zarr.Group): out+=tree(g[k],prefix+k+"/")
    return out
for fmt in (2,3):
  for name,b in (("len mismatch",bad),("stale meta",bad2),("complex dtype",bad3)):
    for kind in ("mem","mem+sib","path","path+sib","local+sib"):
        d=tempfile.mkdtemp(dir="/tmp/probe")
        try:
            if kind.startswith("mem"): s=MemoryStore()
            elif kind.startswith("path"): s=pathlib.Path(d)/"c.zarr"
            else: s=LocalStore(pathlib.Path(d)/"c.zarr")
            if "+sib" in kind:
                r=zarr.open_group(s,mode="a",zarr_format=fmt); r.attrs["foreign"]=1; r.create_group("sib")["x"]=np.arange(3)
            try: write_arrays(s, **{k:(dict(v) if isinstance(v,dict) else v) for k,v in b.items()}, zarr_format=fmt); res="completed"
            except Exception as e: res=type(e).__name__
            try:
                r=zarr.open_group(s,mode="r"); state=(tree(r), dict(r.attrs))
            except Exception as e: state="no group: "+type(e).__name__
            print(fmt,name.ljust(14),kind.ljust(10),res.ljust(16),state)
        finally: shutil.rmtree(d)
