import warnings, numpy as np
warnings.simplefilter("ignore")
from geff.validate.segmentation import *
from geff_spec import GeffMetadata, Axis
def show(title,f):
    try: r=f(); print("==",title,"->",r)
    except Exception as e: print("==",title,"-> EXC",type(e).__name__,str(e)[:200].replace("\n"," | "))
seg=np.zeros((2,3,4),int); seg[0,1,1]=5; seg[1,2,3]=7
def mg(axes): return {"metadata":GeffMetadata(directed=True,node_props_metadata={},edge_props_metadata={},axes=axes),"node_ids":np.array([]),"edge_ids":np.empty((0,2)),"node_props":{},"edge_props":{}}
A=lambda n,mn,mx,t=None: Axis(name=n,min=mn,max=mx,type=t)
show("bounds ok", lambda: graph_is_in_seg_bounds(mg([A("t",0,1),A("y",0,2),A("x",0,3)]),seg))
show("bounds max==extent", lambda: graph_is_in_seg_bounds(mg([A("t",0,2),A("y",0,2),A("x",0,3)]),seg))
show("bounds max just inside 1.999", lambda: graph_is_in_seg_bounds(mg([A("t",0,1.999),A("y",0,2),A("x",0,3)]),seg))
show("bounds max 0", lambda: graph_is_in_seg_bounds(mg([A("t",0,0),A("y",0,2),A("x",0,3)]),seg))
show("bounds max negative", lambda: graph_is_in_seg_bounds(mg([A("t",-2,-1),A("y",0,2),A("x",0,3)]),seg))
show("bounds more axes than dims", lambda: graph_is_in_seg_bounds(mg([A("t",0,1),A("z",0,1),A("y",0,2),A("x",0,3)]),seg))
show("bounds fewer axes", lambda: graph_is_in_seg_bounds(mg([A("t",0,1),A("y",0,2)]),seg))
show("bounds scale", lambda: graph_is_in_seg_bounds(mg([A("t",0,1),A("y",0,5.9),A("x",0,3)]),seg,scale=[1,2,1]))
show("bounds min negative", lambda: graph_is_in_seg_bounds(mg([A("t",-5,1),A("y",0,2),A("x",0,3)]),seg))
show("tp ok", lambda: has_seg_ids_at_time_points(seg,[0,1],[5,7]))
show("tp negative t=-1 label 7", lambda: has_seg_ids_at_time_points(seg,[-1],[7]))
show("tp oob", lambda: has_seg_ids_at_time_points(seg,[2],[7]))
show("tp missing label", lambda: has_seg_ids_at_time_points(seg,[0],[7]))
show("tp dup time", lambda: has_seg_ids_at_time_points(seg,[0,0],[5,0]))
show("tp time axis last via metadata", lambda: has_seg_ids_at_time_points(np.moveaxis(seg,0,2),[0,1],[5,7],GeffMetadata(directed=True,node_props_metadata={},edge_props_metadata={},axes=[A("y",None,None,"space"),A("x",None,None,"space"),A("t",None,None,"time")])))
show("coords ok", lambda: has_seg_ids_at_coords(seg,[[0,1,1],[1,2,3]],[5,7]))
show("coords wrong label", lambda: has_seg_ids_at_coords(seg,[[0,1,1]],[6]))
show("coords negative wrap", lambda: has_seg_ids_at_coords(seg,[[-1,-1,-1]],[7]))
show("coords oob", lambda: has_seg_ids_at_coords(seg,[[0,3,0]],[0]))
show("coords scaled", lambda: has_seg_ids_at_coords(seg,[[0,2,2]],[5],scale=[1,0.5,0.5]))
show("coords float", lambda: has_seg_ids_at_coords(seg,[[0.9,1.9,1.2]],[5]))
show("coords len mismatch", lambda: has_seg_ids_at_coords(seg,[[0,1,1]],[5,6]))
show("coords wrong dim", lambda: has_seg_ids_at_coords(seg,[[0,1]],[5]))
show("axes match", lambda: (axes_match_seg_dims(mg([A("t",0,1),A("y",0,2),A("x",0,3)]),seg), axes_match_seg_dims(mg([A("t",0,1)]),seg), axes_match_seg_dims(mg(None),seg), axes_match_seg_dims(mg([]),seg)))
