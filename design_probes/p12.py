import warnings, numpy as np
warnings.simplefilter("ignore")
from geff.validate.graph import *
from geff.validate.shapes import validate_ellipsoid, validate_sphere
from geff.validate.data import validate_data, ValidationConfig
from geff_spec import GeffMetadata, Axis
def show(title,f):
    try: r=f(); print("==",title,"->",r)
    except Exception as e: print("==",title,"-> EXC",type(e).__name__,str(e)[:200].replace("\n"," | "))
M=2**64-1
show("unique uint64 extremes", lambda: validate_unique_node_ids(np.array([M,M-1,2**63,2**63],np.uint64)))
show("isin uint64 extremes", lambda: validate_nodes_for_edges(np.array([M,2**63],np.uint64), np.array([[M,2**63],[M-1,M],[2**63+1,M]],np.uint64)))
show("isin 2^53 neighbours", lambda: validate_nodes_for_edges(np.array([2**53],np.uint64), np.array([[2**53+1,2**53]],np.uint64)))
show("isin int64 min", lambda: validate_nodes_for_edges(np.array([-2**63,5],np.int64), np.array([[-2**63,5],[-2**63+1,5]],np.int64)))
show("self edges", lambda: validate_no_self_edges(np.array([[M,M],[1,2],[1,1],[1,1]],np.uint64)))
show("repeated", lambda: validate_no_repeated_edges(np.array([[M,1],[1,M],[M,1],[2,3],[2,3],[2,3]],np.uint64)))
show("empty edges", lambda: (validate_no_repeated_edges(np.empty((0,2),np.uint8)), validate_no_self_edges(np.empty((0,2),np.uint8)), validate_nodes_for_edges(np.array([],np.uint8),np.empty((0,2),np.uint8)), validate_unique_node_ids(np.array([],np.uint8))))
def mg(directed, nodes, edges, **kw):
    return {"metadata":GeffMetadata(directed=directed,node_props_metadata={},edge_props_metadata={},**kw),"node_ids":np.array(nodes,np.uint8),"edge_ids":np.array(edges,np.uint8).reshape(-1,2),"node_props":{},"edge_props":{}}
show("undirected dup reversed", lambda: validate_data(mg(False,[1,2],[[1,2],[2,1]]), ValidationConfig(graph=True)))
show("directed both orientations", lambda: validate_data(mg(True,[1,2],[[1,2],[2,1]]), ValidationConfig(graph=True)))
# sphere
show("sphere neg but missing", lambda: validate_data({**mg(True,[1,2],[],sphere="r"),"node_props":{"r":{"values":np.array([1.0,-1.0]),"missing":np.array([0,1],bool)}}}, ValidationConfig(sphere=True)))
show("sphere nan", lambda: validate_sphere(np.array([np.nan,1.0])))
show("sphere 2d", lambda: validate_sphere(np.array([[1.0]])))
show("sphere zero", lambda: validate_sphere(np.array([0.0])))
ax2=[Axis(name="y",type="space"),Axis(name="x",type="space")]
ax3=[Axis(name="z",type="space")]+ax2
ax1=[Axis(name="x",type="space")]
show("ell 2d ok", lambda: validate_ellipsoid(np.array([[[2.0,0.5],[0.5,1.0]]]), ax2))
show("ell 3d ok", lambda: validate_ellipsoid(np.array([np.eye(3)]), ax3))
show("ell 1d ok", lambda: validate_ellipsoid(np.array([[[2.0]]]), ax1))
show("ell 2 axes but 3x3", lambda: validate_ellipsoid(np.array([np.eye(3)]), ax2))
show("ell 2d not sym", lambda: validate_ellipsoid(np.array([[[2.0,0.5],[0.4,1.0]]]), ax2))
show("ell 2d not pd", lambda: validate_ellipsoid(np.array([[[1.0,2.0],[2.0,1.0]]]), ax2))
show("ell 2d semidef", lambda: validate_ellipsoid(np.array([[[1.0,1.0],[1.0,1.0]]]), ax2))
show("ell missing entry garbage", lambda: validate_data({**mg(True,[1,2],[],ellipsoid="c",axes=ax2),"node_props":{"c":{"values":np.array([np.eye(2),np.zeros((2,2))]),"missing":np.array([0,1],bool)},"x":{"values":np.zeros(2),"missing":None},"y":{"values":np.zeros(2),"missing":None}}}, ValidationConfig(ellipsoid=True)))
show("ell N=0", lambda: validate_ellipsoid(np.zeros((0,2,2)), ax2))
show("ell nonsquare", lambda: validate_ellipsoid(np.zeros((1,2,3)), ax2))
show("not enabled never raises", lambda: validate_data({**mg(True,[1,1],[[1,1]],sphere="r"),"node_props":{"r":{"values":np.array([-1.0,-1.0]),"missing":None}}}, ValidationConfig()))
show("sphere declared but prop absent", lambda: validate_data(mg(True,[1],[],sphere="r"), ValidationConfig(sphere=True)))
