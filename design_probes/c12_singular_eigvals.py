# C12 / fx0719-syl: what np.linalg.eigvals returns for exactly singular PSD integer matrices (which families give an exact 0.0).
# Run: /venv/bin/python design_probes/c12_singular_eigvals.py   (two probes concatenated)
import itertools, numpy as np
R=range(-6,11)
def ev(M, sgn=1):
    return np.linalg.eigvals(np.array(M,dtype="float64")[None]*sgn)[0]
# all 2x2 symmetric singular PSD
tot=acc=ex=0; badl=[]
for p,q,r in itertools.product(R,R,R):
    if p*r==q*q and p>=0 and r>=0:
        e=ev([[p,q],[q,r]]); tot+=1
        a=bool(np.all(e>0)); acc+=a; ex+=bool(np.any(e==0))
        if a or not np.any(e==0): badl.append(((p,q,r),e))
print("2x2 singular PSD: total",tot,"accepted",acc,"exact zero",ex); print(badl[:10])
# 3x3 with an isolated index i (row/col i zero off-diagonal), block 2x2 + 1x1, singular PSD overall
tot=acc=ex=0; badl=[]
R2=range(-3,6)
for i in range(3):
    rest=[k for k in range(3) if k!=i]
    for p,q,r,s in itertools.product(R2,R2,R2,R2):
        # 2x2 block [[p,q],[q,r]] at rest, s at i
        if s<0 or p<0 or r<0 or p*r-q*q<0: continue
        if not (s==0 or p*r==q*q): continue
        M=[[0]*3 for _ in range(3)]
        M[i][i]=s; M[rest[0]][rest[0]]=p; M[rest[1]][rest[1]]=r; M[rest[0]][rest[1]]=M[rest[1]][rest[0]]=q
        e=ev(M); tot+=1
        a=bool(np.all(e>0)); acc+=a; z=bool(np.any(e==0)); ex+=z
        if a or not z: badl.append((M,e))
print("3x3 decomposable singular PSD: total",tot,"accepted",acc,"exact zero",ex); print(badl[:10])
# dense 3x3 singular PSD (no isolated index), entries in -3..5: count accepted
tot=acc=ex=0; ex_acc=[]
for a,b,c,d,e_,f in itertools.product(R2,repeat=6):
    M=[[a,b,c],[b,d,e_],[c,e_,f]]
    if a<0 or d<0 or f<0: continue
    det=a*(d*f-e_*e_)-b*(b*f-e_*c)+c*(b*e_-d*c)
    if det!=0: continue
    e2=(a*d-b*b)+(a*f-c*c)+(d*f-e_*e_)
    if e2<0 or a*d-b*b<0 or a*f-c*c<0 or d*f-e_*e_<0: continue
    iso=any(all(M[i][j]==0 for j in range(3) if j!=i) for i in range(3))
    if iso: continue
    ee=ev(M); tot+=1; A=bool(np.all(ee>0)); acc+=A; ex+=bool(np.any(ee==0))
    if A and len(ex_acc)<5: ex_acc.append((M,ee))
print("3x3 dense singular PSD: total",tot,"accepted",acc,"exact zero",ex); print(ex_acc)
import itertools, numpy as np
def ev(M): return np.linalg.eigvals(np.array(M,dtype="float64")[None])[0]
# (a) zero row/col with arbitrary symmetric remaining block entries -3..5 (PSD or not)
R=range(-3,6)
tot=ex=0
for i in range(3):
    rest=[k for k in range(3) if k!=i]
    for p,q,r in itertools.product(R,R,R):
        M=[[0]*3 for _ in range(3)]
        M[rest[0]][rest[0]]=p; M[rest[1]][rest[1]]=r; M[rest[0]][rest[1]]=M[rest[1]][rest[0]]=q
        e=ev(M); tot+=1; ex+=bool(np.any(e==0))
print("3x3 zero row/col:",tot,ex)
tot=ex=0
for i in range(2):
    for p in R:
        M=[[0,0],[0,0]]; M[1-i][1-i]=p
        e=ev(M); tot+=1; ex+=bool(np.any(e==0))
print("2x2 zero row/col:",tot,ex)
# in a stack with others
A=np.array([[[2,1,0],[1,2,0],[0,0,0]],[[2,-1,0],[-1,2,-1],[0,-1,2]]],dtype=float)
print(np.linalg.eigvals(A))
# (b) rank one candidates
good=[];badl=[]
for n in (2,3):
    for v in itertools.product(range(-2,3),repeat=n):
        if not any(v) or 0 in v: continue
        M=[[a*b for b in v] for a in v]
        e=ev(M)
        (good if (np.any(e==0) and not np.all(e>0)) else badl).append(v)
print("exact:",good); print("inexact:",badl)
for M in ([[1,1,0],[1,1,0],[0,0,1]],[[1,0,0],[0,1,1],[0,1,1]],[[1,0,1],[0,2,0],[1,0,1]],[[2,0,0],[0,1,2],[0,2,4]],[[4,2,0],[2,1,0],[0,0,3]],[[1,1,1],[1,1,1],[1,1,1]],[[2,1,1],[1,2,1],[1,1,0]]):
    print(M, ev(M))
