"""Reference JSON-Schema validator for C08, run by `python3-vt` (the only interpreter that has `jsonschema`).

usage: python3-vt c08_jsonschema_worker.py <published.json> <exported.json>
stdin : one JSON document per line          stdout: "<verdict published> <verdict exported>" per line (1/0, E = the schema itself is unusable)
Knows nothing about geff or the harness.
"""
import json
import sys

import jsonschema


def main() -> None:
    vals = []
    for path in sys.argv[1:3]:
        schema = json.load(open(path))
        cls = jsonschema.Draft202012Validator
        try:
            cls.check_schema(schema)
            vals.append(cls(schema))
        except Exception:  # not a schema at all: every verdict under it is "E"
            vals.append(None)
    sys.stdout.write("ready\n")
    sys.stdout.flush()
    for line in sys.stdin:
        line = line.strip()
        if not line:
            continue
        doc = json.loads(line)
        out = []
        for v in vals:
            if v is None:
                out.append("E")
                continue
            try:
                out.append("1" if v.is_valid(doc) else "0")
            except Exception:
                out.append("E")
        sys.stdout.write(" ".join(out) + "\n")
        sys.stdout.flush()


if __name__ == "__main__":
    main()
