"""C14 -- lineage validation decides the documented lineage definition."""
from __future__ import annotations

import random

import numpy as np

from harness.common import Failure, clist, cz
from harness.tracks_gen import respell, LABEL_IDS, NODE_IDS, all_digraphs, classes, components, cpairs, named_ids, set_partitions

PROP = "C14"
RULE = ("exhaustive: every digraph (cycles allowed) on <=3 nodes x every labelling up to renaming, plus every such graph with one extra "
        "edge to/from an id absent from the node list; 4-node digraphs x labellings sampled (quick) / exhaustive (thorough); random "
        "digraphs on 5-7 nodes with labellings = component partition perturbed (split / join / move); "
        "non-trivial = at least one edge; distinct by structural input")
EXHAUSTIVE_BLOCKS = ["all digraphs on <=3 nodes x all labellings up to renaming (x absent-id variants)",
                     "thorough only: all digraphs on 4 nodes x all labellings"]
ASSUMPTIONS = ["networkx weakly_connected_components modelled by undirected reachability (Reach.v, proved sound and complete)",
               "node ids unique"]
ABSENT = [99, 98]
PARALLEL = True
RULE += ("; LINEAGE IDS FLAGGED MISSING (validate_data with a real missing mask; the flagged node stays in the graph unlabelled): exhaustive: every digraph on "
         "<=3 nodes x every labelling x every non-empty mask (2338 cases); 4-node digraphs x labellings x one or two flagged nodes sampled; 5-7 node graphs "
         "with the isolated nodes flagged (stays valid) or any node flagged, fill values = ids of other lineages; validator on the filtered node list (Coq: the "
         "same filtered list), validate_data and read_to_memory with the mask stored must agree with it")
EXHAUSTIVE_BLOCKS.append("all digraphs on <=3 nodes x all labellings up to renaming x all non-empty missing masks")


def generate(rng: random.Random, tier: str):
    r2 = random.Random(rng.random())
    for c in _generate(rng, tier):
        yield respell(r2, c)


def _generate(rng: random.Random, tier: str):
    for n in range(4):
        for edges in all_digraphs(n, loops=(n <= 2)):
            for labels in set_partitions(n):
                yield mk(n, edges, labels)
                if n >= 1:
                    # an edge mentioning an id that is not in the node list
                    a = rng.randrange(n)
                    yield mk(n, edges, labels, extra=[(a, n)] if rng.random() < 0.5 else [(n, a)])
    g4 = list(all_digraphs(4))
    if tier == "thorough":
        for edges in g4:
            for labels in set_partitions(4):
                yield mk(4, edges, labels)
    else:
        parts = list(set_partitions(4))
        for _ in range(2500):
            yield mk(4, rng.choice(g4), rng.choice(parts))
    for _ in range(500 if tier == "quick" else 6000):
        n = rng.choice([5, 6, 7])
        p = rng.choice([0.08, 0.15, 0.3])
        edges = [(a, b) for a in range(n) for b in range(n) if a != b and rng.random() < p]
        extra = []
        if rng.random() < 0.25:
            extra = [(rng.randrange(n), n)] + ([(n, n + 1)] if rng.random() < 0.3 else [])
        nodes = NODE_IDS[:n]
        ids = nodes + ABSENT
        es = [[ids[a], ids[b]] for a, b in edges + extra]
        comps = [c & set(nodes) for c in components(nodes, es)]
        comps = [c for c in comps if c]
        lab = {}
        for i, c in enumerate(comps):
            for x in c:
                lab[x] = i
        r = rng.random()
        if r < 0.25 and len(comps) >= 2:
            a, b = rng.sample(range(len(comps)), 2)
            for x in comps[b]:
                lab[x] = a
        elif r < 0.5:
            x = rng.choice(nodes)
            lab[x] = len(comps)
        elif r < 0.6:
            x = rng.choice(nodes)
            lab[x] = rng.randrange(len(comps))
        yield {"kind": "lineages", "nodes": nodes, "edges": es, "labels": [LABEL_IDS[lab[x] % len(LABEL_IDS)] for x in nodes],
               "via": "data" if rng.random() < 0.25 else "direct"}
    yield from _generate_masked(rng, tier)


def _generate_masked(rng: random.Random, tier: str):
    """Lineage ids flagged missing ("mask": one flag per node).  validate_data hands validate_lineages the nodes that are NOT flagged
    (_annotated_nodes) and ALL the edges: a flagged node with an edge becomes an id absent from the node list, so the component it lies in
    is no lineage (documented: a lineage is a weakly connected component of the graph; a node without an id belongs to none); a flagged
    isolated node disappears.  The label stored at a flagged position is a fill value (the label of another class or a fresh one).  The Coq
    input is the FILTERED node list with all the edges (ILineages can express it).  Expected verdict: the components of the FULL graph."""
    import itertools

    # exhaustive: every digraph on <=3 nodes (self loops for n<=2) x every labelling up to renaming x every non-empty mask
    for n in range(1, 4):
        for edges in all_digraphs(n, loops=(n <= 2)):
            for labels in set_partitions(n):
                for mask in itertools.product([False, True], repeat=n):
                    if any(mask):
                        yield dict(mk(n, edges, labels), mask=list(mask), via="data" if (n <= 2 or rng.random() < 0.2) else "direct")
    g4 = list(all_digraphs(4))
    parts4 = list(set_partitions(4))
    for _ in range(800 if tier == "quick" else 10000):
        mask = [False] * 4
        for i in rng.sample(range(4), rng.choice([1, 1, 2])):
            mask[i] = True
        yield dict(mk(4, rng.choice(g4), rng.choice(parts4)), mask=mask, via="data" if rng.random() < 0.3 else "direct")
    # larger graphs: the component partition (sometimes perturbed), isolated nodes flagged (stays valid) or any node flagged
    for _ in range(500 if tier == "quick" else 6000):
        n = rng.choice([5, 6, 7])
        p = rng.choice([0.08, 0.15, 0.3])
        edges = [(a, b) for a in range(n) for b in range(n) if a != b and rng.random() < p]
        nodes = NODE_IDS[:n]
        es = [[nodes[a], nodes[b]] for a, b in edges]
        comps = sorted(components(nodes, es), key=lambda cl: min(cl))
        lab = {x: i for i, cl in enumerate(comps) for x in cl}
        if rng.random() < 0.3:
            lab[rng.choice(nodes)] = rng.randrange(len(comps) + 1)
        lonely = [i for i, x in enumerate(nodes) if not any(x in e for e in es)]
        mask = [False] * n
        if lonely and rng.random() < 0.5:
            for i in lonely:
                mask[i] = rng.random() < 0.7
        else:
            for _k in range(rng.choice([1, 1, 2])):
                mask[rng.randrange(n)] = True
        labels = [LABEL_IDS[lab[x] % len(LABEL_IDS)] for x in nodes]
        for i in range(n):
            if mask[i] and rng.random() < 0.7:               # adversarial fill: the id of another lineage / a fresh id
                labels[i] = rng.choice(LABEL_IDS)
        yield {"kind": "lineages", "nodes": nodes, "edges": es, "labels": labels, "mask": mask, "via": "data" if rng.random() < 0.5 else "direct"}


def annotated(c):
    """(nodes, labels) restricted to the nodes whose lineage id is not flagged missing"""
    mask = c.get("mask") or [False] * len(c["nodes"])
    return ([x for x, m in zip(c["nodes"], mask) if not m], [l for l, m in zip(c["labels"], mask) if not m])


def mk(n, edges, labels, extra=()):
    ids = NODE_IDS[:n] + ABSENT
    return {"kind": "lineages", "nodes": NODE_IDS[:n], "edges": [[ids[a], ids[b]] for a, b in list(edges) + list(extra)],
            "labels": [LABEL_IDS[l] for l in labels]}


def run_impl(c):
    from geff.validate.tracks import validate_lineages

    nodes = np.array(c["nodes"], dtype="uint64")
    edges = np.array(c["edges"], dtype="uint64").reshape(-1, 2)
    labels = np.array(c["labels"], dtype="int64")
    missing = None
    a_nodes, a_labels = nodes, labels
    if c.get("mask") is not None:
        # the validator is given what validate_data must hand over: the nodes not flagged missing, and all the edges
        missing = np.array(c["mask"], dtype=bool)
        a_nodes, a_labels = np.array(annotated(c)[0], dtype="uint64"), np.array(annotated(c)[1], dtype="int64")
    try:
        valid, errors = validate_lineages(a_nodes, edges, a_labels)
    except Exception as e:
        return {"exc": type(e).__name__}
    out = {"valid": bool(valid), "named": named_ids(errors, "Lineage", set(c["labels"]))}
    if c.get("via") == "data":
        from geff.validate.data import ValidationConfig, validate_data
        from geff_spec import GeffMetadata

        md = GeffMetadata(directed=True, node_props_metadata={}, edge_props_metadata={}, track_node_props={"lineage": "lin"})
        g = {"metadata": md, "node_ids": nodes, "edge_ids": edges, "node_props": {"lin": {"values": labels, "missing": missing}}, "edge_props": {}}
        from harness.c12 import via_store

        out["data_store"] = via_store(g, ValidationConfig(lineage=True))
        for key, cfg in (("data", ValidationConfig(lineage=True)), ("data_off", ValidationConfig(lineage=False, tracklet=True))):
            try:
                validate_data(g, cfg)
                out[key] = "ok"
            except Exception as e:
                out[key] = type(e).__name__
        # both annotations declared and both validations requested, on acyclic graphs whose edges stay inside the node list; the
        # tracklet annotation is correct (maximal unbranched paths), so the outcome must be the lineage verdict
        from harness.c13 import reference_partition
        from harness.tracks_gen import is_dag

        idx = {x: i for i, x in enumerate(c["nodes"])}
        if all(a in idx and b in idx for a, b in c["edges"]) and is_dag(len(idx), [(idx[a], idx[b]) for a, b in {tuple(e) for e in c["edges"]}]):
            trk = {}
            for k, cc in enumerate(sorted(reference_partition(c["nodes"], c["edges"]), key=lambda s: min(s))):
                for x in cc:
                    trk[x] = k
            md2 = GeffMetadata(directed=True, node_props_metadata={}, edge_props_metadata={}, track_node_props={"tracklet": "trk", "lineage": "lin"})
            g2 = dict(g, metadata=md2, node_props={"lin": {"values": labels, "missing": missing},
                                                   "trk": {"values": np.array([trk[x] for x in c["nodes"]], dtype="int64"), "missing": None}})
            try:
                validate_data(g2, ValidationConfig(tracklet=True, lineage=True))
                out["data_both"] = "ok"
            except Exception as e:
                out["data_both"] = type(e).__name__
    return out


def coq_case(c, o):
    if "exc" in o or None in o["named"]:
        return None
    nl = cpairs(list(zip(*annotated(c))))        # with a mask: the nodes not flagged missing (all the edges stay)
    return f"(ILineages {cpairs(c['edges'])} {nl}, OInvalid {clist(o['named'], cz)})"


def oracle(c, o):
    if "exc" in o:
        return Failure(c, o, f"validate_lineages raised {o['exc']}", {"why": "raises"})
    comps = set(components(c["nodes"], c["edges"]))
    cl = classes(*annotated(c))                  # comps above: components of the full graph (flagged nodes stay, unlabelled)
    bad = [t for t, ns in cl.items() if frozenset(ns) not in comps]
    if o["valid"] != (not bad):
        kind = "accepts-invalid" if o["valid"] else "rejects-valid"
        return Failure(c, o, f"{kind}: lineages that are not exactly a weakly connected component: {bad}", {"why": kind})
    if None in o["named"]:
        return Failure(c, o, "an error message does not name its lineage", {"why": "unnamed"})
    if sorted(set(o["named"])) != sorted(bad):
        return Failure(c, o, f"messages name {o['named']}, invalid lineages are {bad}", {"why": "names"})
    if "data" in o:
        if (o["data"] == "ok") != o["valid"] or o["data"] not in ("ok", "ValueError"):
            return Failure(c, o, f"validate_data(lineage=True) gives {o['data']} but validator says valid={o['valid']}", {"why": "wiring"})
        if o.get("data_store") is not None and o["data_store"] != o["data"]:
            return Failure(c, o, f"read_to_memory(store, data_validation=ValidationConfig(lineage=True)) gives {o['data_store']} but "
                           f"validate_data gives {o['data']}", {"why": "wiring-read"})
        if o["data_off"] != "ok":
            return Failure(c, o, f"lineage validation disabled but validate_data raised {o['data_off']}", {"why": "disabled-raises"})
        if "data_both" in o and ((o["data_both"] == "ok") != o["valid"] or o["data_both"] not in ("ok", "ValueError")):
            return Failure(c, o, f"validate_data(tracklet=True, lineage=True) with a correct tracklet annotation gives {o['data_both']} "
                           f"but the lineage annotation is valid={o['valid']}", {"why": "wiring-both"})
    return None


def nontrivial(c, o):
    return bool(c["edges"])


def describe(c, o):
    return (f"n={len(c['nodes'])}:e={len(c['edges'])}:classes={len(set(c['labels']))}:{'valid' if o.get('valid') else 'invalid'}"
            + (":masked" if c.get("mask") is not None else ""))


def search(rng, budget):
    yield from generate(rng, "thorough")
