"""C14 -- lineage validation decides the documented lineage definition."""
from __future__ import annotations

import random

import numpy as np

from harness.common import Failure, clist, cz
from harness.tracks_gen import respell, LABEL_IDS, NODE_IDS, all_digraphs, classes, components, cpairs, named_ids, set_partitions

PROP = "C14"
RULE = ("exhaustive: every digraph (cycles allowed) on <=3 nodes x every labelling up to renaming, plus every such graph with one extra "
        "edge to/from an id absent from the node list; 4-node digraphs x labellings sampled (quick) / exhaustive (thorough); random "
        "digraphs on 5-7 nodes with labellings = component partition perturbed (split / join / move); "
        "non-trivial = at least one edge; distinct by structural input")
EXHAUSTIVE_BLOCKS = ["all digraphs on <=3 nodes x all labellings up to renaming (x absent-id variants)",
                     "thorough only: all digraphs on 4 nodes x all labellings"]
ASSUMPTIONS = ["networkx weakly_connected_components modelled by undirected reachability (Reach.v, proved sound and complete)",
               "node ids unique"]
ABSENT = [99, 98]


def generate(rng: random.Random, tier: str):
    r2 = random.Random(rng.random())
    for c in _generate(rng, tier):
        yield respell(r2, c)


def _generate(rng: random.Random, tier: str):
    for n in range(4):
        for edges in all_digraphs(n, loops=(n <= 2)):
            for labels in set_partitions(n):
                yield mk(n, edges, labels)
                if n >= 1:
                    # an edge mentioning an id that is not in the node list
                    a = rng.randrange(n)
                    yield mk(n, edges, labels, extra=[(a, n)] if rng.random() < 0.5 else [(n, a)])
    g4 = list(all_digraphs(4))
    if tier == "thorough":
        for edges in g4:
            for labels in set_partitions(4):
                yield mk(4, edges, labels)
    else:
        parts = list(set_partitions(4))
        for _ in range(2500):
            yield mk(4, rng.choice(g4), rng.choice(parts))
    for _ in range(500 if tier == "quick" else 6000):
        n = rng.choice([5, 6, 7])
        p = rng.choice([0.08, 0.15, 0.3])
        edges = [(a, b) for a in range(n) for b in range(n) if a != b and rng.random() < p]
        extra = []
        if rng.random() < 0.25:
            extra = [(rng.randrange(n), n)] + ([(n, n + 1)] if rng.random() < 0.3 else [])
        nodes = NODE_IDS[:n]
        ids = nodes + ABSENT
        es = [[ids[a], ids[b]] for a, b in edges + extra]
        comps = [c & set(nodes) for c in components(nodes, es)]
        comps = [c for c in comps if c]
        lab = {}
        for i, c in enumerate(comps):
            for x in c:
                lab[x] = i
        r = rng.random()
        if r < 0.25 and len(comps) >= 2:
            a, b = rng.sample(range(len(comps)), 2)
            for x in comps[b]:
                lab[x] = a
        elif r < 0.5:
            x = rng.choice(nodes)
            lab[x] = len(comps)
        elif r < 0.6:
            x = rng.choice(nodes)
            lab[x] = rng.randrange(len(comps))
        yield {"kind": "lineages", "nodes": nodes, "edges": es, "labels": [LABEL_IDS[lab[x] % len(LABEL_IDS)] for x in nodes],
               "via": "data" if rng.random() < 0.25 else "direct"}


def mk(n, edges, labels, extra=()):
    ids = NODE_IDS[:n] + ABSENT
    return {"kind": "lineages", "nodes": NODE_IDS[:n], "edges": [[ids[a], ids[b]] for a, b in list(edges) + list(extra)],
            "labels": [LABEL_IDS[l] for l in labels]}


def run_impl(c):
    from geff.validate.tracks import validate_lineages

    nodes = np.array(c["nodes"], dtype="uint64")
    edges = np.array(c["edges"], dtype="uint64").reshape(-1, 2)
    labels = np.array(c["labels"], dtype="int64")
    try:
        valid, errors = validate_lineages(nodes, edges, labels)
    except Exception as e:
        return {"exc": type(e).__name__}
    out = {"valid": bool(valid), "named": named_ids(errors, "Lineage")}
    if c.get("via") == "data":
        from geff.validate.data import ValidationConfig, validate_data
        from geff_spec import GeffMetadata

        md = GeffMetadata(directed=True, node_props_metadata={}, edge_props_metadata={}, track_node_props={"lineage": "lin"})
        g = {"metadata": md, "node_ids": nodes, "edge_ids": edges, "node_props": {"lin": {"values": labels, "missing": None}}, "edge_props": {}}
        from harness.c12 import via_store

        out["data_store"] = via_store(g, ValidationConfig(lineage=True))
        for key, cfg in (("data", ValidationConfig(lineage=True)), ("data_off", ValidationConfig(lineage=False, tracklet=True))):
            try:
                validate_data(g, cfg)
                out[key] = "ok"
            except Exception as e:
                out[key] = type(e).__name__
        # both annotations declared and both validations requested, on acyclic graphs whose edges stay inside the node list; the
        # tracklet annotation is correct (maximal unbranched paths), so the outcome must be the lineage verdict
        from harness.c13 import reference_partition
        from harness.tracks_gen import is_dag

        idx = {x: i for i, x in enumerate(c["nodes"])}
        if all(a in idx and b in idx for a, b in c["edges"]) and is_dag(len(idx), [(idx[a], idx[b]) for a, b in {tuple(e) for e in c["edges"]}]):
            trk = {}
            for k, cc in enumerate(sorted(reference_partition(c["nodes"], c["edges"]), key=lambda s: min(s))):
                for x in cc:
                    trk[x] = k
            md2 = GeffMetadata(directed=True, node_props_metadata={}, edge_props_metadata={}, track_node_props={"tracklet": "trk", "lineage": "lin"})
            g2 = dict(g, metadata=md2, node_props={"lin": {"values": labels, "missing": None},
                                                   "trk": {"values": np.array([trk[x] for x in c["nodes"]], dtype="int64"), "missing": None}})
            try:
                validate_data(g2, ValidationConfig(tracklet=True, lineage=True))
                out["data_both"] = "ok"
            except Exception as e:
                out["data_both"] = type(e).__name__
    return out


def coq_case(c, o):
    if "exc" in o or None in o["named"]:
        return None
    nl = cpairs(list(zip(c["nodes"], c["labels"])))
    return f"(ILineages {cpairs(c['edges'])} {nl}, OInvalid {clist(o['named'], cz)})"


def oracle(c, o):
    if "exc" in o:
        return Failure(c, o, f"validate_lineages raised {o['exc']}", {"why": "raises"})
    comps = set(components(c["nodes"], c["edges"]))
    cl = classes(c["nodes"], c["labels"])
    bad = [t for t, ns in cl.items() if frozenset(ns) not in comps]
    if o["valid"] != (not bad):
        kind = "accepts-invalid" if o["valid"] else "rejects-valid"
        return Failure(c, o, f"{kind}: lineages that are not exactly a weakly connected component: {bad}", {"why": kind})
    if None in o["named"]:
        return Failure(c, o, "an error message does not name its lineage", {"why": "unnamed"})
    if sorted(set(o["named"])) != sorted(bad):
        return Failure(c, o, f"messages name {o['named']}, invalid lineages are {bad}", {"why": "names"})
    if "data" in o:
        if (o["data"] == "ok") != o["valid"] or o["data"] not in ("ok", "ValueError"):
            return Failure(c, o, f"validate_data(lineage=True) gives {o['data']} but validator says valid={o['valid']}", {"why": "wiring"})
        if o.get("data_store") is not None and o["data_store"] != o["data"]:
            return Failure(c, o, f"read_to_memory(store, data_validation=ValidationConfig(lineage=True)) gives {o['data_store']} but "
                           f"validate_data gives {o['data']}", {"why": "wiring-read"})
        if o["data_off"] != "ok":
            return Failure(c, o, f"lineage validation disabled but validate_data raised {o['data_off']}", {"why": "disabled-raises"})
        if "data_both" in o and ((o["data_both"] == "ok") != o["valid"] or o["data_both"] not in ("ok", "ValueError")):
            return Failure(c, o, f"validate_data(tracklet=True, lineage=True) with a correct tracklet annotation gives {o['data_both']} "
                           f"but the lineage annotation is valid={o['valid']}", {"why": "wiring-both"})
    return None


def nontrivial(c, o):
    return bool(c["edges"])


def describe(c, o):
    return f"n={len(c['nodes'])}:e={len(c['edges'])}:classes={len(set(c['labels']))}:{'valid' if o.get('valid') else 'invalid'}"


def search(rng, budget):
    yield from generate(rng, "thorough")
