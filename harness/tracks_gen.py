"""Shared generators / helpers for C13 (tracklets) and C14 (lineages)."""
from __future__ import annotations

import itertools
import re

NODE_IDS = [10, 3, 7, 5, 12, 1, 8, 20, 15, 4, 9, 2, 30, 6]
LABEL_IDS = [4, 9, 2, 7, 0, 11, 5, 3, 8, 1, 6, 10, 13, 12]


def set_partitions(n):
    """Restricted growth strings = labellings up to renaming."""
    def rec(prefix, mx):
        if len(prefix) == n:
            yield list(prefix)
            return
        for v in range(mx + 2):
            yield from rec(prefix + [v], max(mx, v))
    if n == 0:
        yield []
        return
    yield from rec([0], 0)


def is_dag(n, edges):
    indeg = [0] * n
    adj = [[] for _ in range(n)]
    for a, b in edges:
        adj[a].append(b)
        indeg[b] += 1
    stack = [i for i in range(n) if indeg[i] == 0]
    seen = 0
    while stack:
        u = stack.pop()
        seen += 1
        for v in adj[u]:
            indeg[v] -= 1
            if indeg[v] == 0:
                stack.append(v)
    return seen == n


def all_digraphs(n, loops=False):
    pairs = [(a, b) for a in range(n) for b in range(n) if loops or a != b]
    for mask in range(1 << len(pairs)):
        yield [pairs[i] for i in range(len(pairs)) if mask >> i & 1]


def all_dags(n):
    for edges in all_digraphs(n):
        if is_dag(n, edges):
            yield edges


def mk_case(kind, n, edges, labels, extra_ids=()):
    ids = NODE_IDS[:n] + list(extra_ids)
    return {"kind": kind, "nodes": NODE_IDS[:n], "edges": [[ids[a], ids[b]] for a, b in edges],
            "labels": [LABEL_IDS[l] for l in labels]}


def named_ids(errors, word):
    out = []
    for e in errors:
        m = re.match(rf"{word} (-?\d+):", e)
        out.append(int(m.group(1)) if m else None)
    return out


def components(nodes, edges):
    parent = {}

    def find(x):
        parent.setdefault(x, x)
        while parent[x] != x:
            parent[x] = parent[parent[x]]
            x = parent[x]
        return x

    for x in nodes:
        find(x)
    for a, b in edges:
        ra, rb = find(a), find(b)
        if ra != rb:
            parent[ra] = rb
    comps = {}
    for x in list(parent):
        comps.setdefault(find(x), set()).add(x)
    return [frozenset(c) for c in comps.values()]


def classes(nodes, labels):
    d = {}
    for n, l in zip(nodes, labels):
        d.setdefault(l, []).append(n)
    return d


def cpairs(ps):
    from harness.common import clist, cz
    return clist(ps, lambda p: f"({cz(p[0])}, {cz(p[1])})")


LABEL_POOL = [-1, 0, 1, -2, 2**31, -2**31 - 1, 2**63 - 1, -2**63, 99, 98, 10, 3, 255, 256]
NODE_POOL = [0, 1, 2, 255, 256, 2**32, 2**53 + 1, 2**63 - 1, 2**63, 2**64 - 1, 97, 1000]


def respell(rng, c, p=0.4):
    """Rename labels (int64) and/or node ids (uint64, including ids that occur in edges only) injectively into values a validator might
    treat specially: -1, 0, dtype limits, ids equal to labels.  The graph and the partition are the same up to renaming."""
    c = dict(c)
    if rng.random() < p:
        labs = sorted(set(c["labels"]))
        new = rng.sample(LABEL_POOL, len(labs)) if len(labs) <= len(LABEL_POOL) else labs
        m = dict(zip(labs, new))
        c["labels"] = [m[l] for l in c["labels"]]
    if rng.random() < p / 2:
        ids = sorted(set(c["nodes"]) | {x for e in c["edges"] for x in e})
        if len(ids) <= len(NODE_POOL):
            m = dict(zip(ids, rng.sample(NODE_POOL, len(ids))))
            c["nodes"] = [m[x] for x in c["nodes"]]
            c["edges"] = [[m[a], m[b]] for a, b in c["edges"]]
    return c
