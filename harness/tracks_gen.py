"""Shared generators / helpers for C13 (tracklets) and C14 (lineages)."""
from __future__ import annotations

import itertools
import re

NODE_IDS = [10, 3, 7, 5, 12, 1, 8, 20, 15, 4, 9, 2, 30, 6]
LABEL_IDS = [4, 9, 2, 7, 0, 11, 5, 3, 8, 1, 6, 10, 13, 12]


def set_partitions(n):
    """Restricted growth strings = labellings up to renaming."""
    def rec(prefix, mx):
        if len(prefix) == n:
            yield list(prefix)
            return
        for v in range(mx + 2):
            yield from rec(prefix + [v], max(mx, v))
    if n == 0:
        yield []
        return
    yield from rec([0], 0)


def is_dag(n, edges):
    indeg = [0] * n
    adj = [[] for _ in range(n)]
    for a, b in edges:
        adj[a].append(b)
        indeg[b] += 1
    stack = [i for i in range(n) if indeg[i] == 0]
    seen = 0
    while stack:
        u = stack.pop()
        seen += 1
        for v in adj[u]:
            indeg[v] -= 1
            if indeg[v] == 0:
                stack.append(v)
    return seen == n


def all_digraphs(n, loops=False):
    pairs = [(a, b) for a in range(n) for b in range(n) if loops or a != b]
    for mask in range(1 << len(pairs)):
        yield [pairs[i] for i in range(len(pairs)) if mask >> i & 1]


def all_dags(n):
    for edges in all_digraphs(n):
        if is_dag(n, edges):
            yield edges


def mk_case(kind, n, edges, labels, extra_ids=()):
    ids = NODE_IDS[:n] + list(extra_ids)
    return {"kind": kind, "nodes": NODE_IDS[:n], "edges": [[ids[a], ids[b]] for a, b in edges],
            "labels": [LABEL_IDS[l] for l in labels]}


def named_ids(errors, word, labels=None):
    """the tracklet / lineage id each message names: the documented form `<word> <id>: ...`; when the wording differs and the labels of
    the case are given, the first integer in the message that is one of the labels (the property asks that the message NAMES the
    offender, not for a wording)"""
    out = []
    for e in errors:
        m = re.match(rf"{word} (-?\d+):", e)
        if m:
            out.append(int(m.group(1)))
            continue
        found = None
        if labels is not None:
            for tok in re.findall(r"-?\d+", e):
                if int(tok) in labels:
                    found = int(tok)
                    break
        out.append(found)
    return out


def components(nodes, edges):
    parent = {}

    def find(x):
        parent.setdefault(x, x)
        while parent[x] != x:
            parent[x] = parent[parent[x]]
            x = parent[x]
        return x

    for x in nodes:
        find(x)
    for a, b in edges:
        ra, rb = find(a), find(b)
        if ra != rb:
            parent[ra] = rb
    comps = {}
    for x in list(parent):
        comps.setdefault(find(x), set()).add(x)
    return [frozenset(c) for c in comps.values()]


def classes(nodes, labels):
    d = {}
    for n, l in zip(nodes, labels):
        d.setdefault(l, []).append(n)
    return d


def cpairs(ps):
    from harness.common import clist, cz
    return clist(ps, lambda p: f"({cz(p[0])}, {cz(p[1])})")


LABEL_POOL = [-1, 0, 1, -2, 2**31, -2**31 - 1, 2**63 - 1, -2**63, 99, 98, 10, 3, 255, 256]
NODE_POOL = [0, 1, 2, 255, 256, 2**32, 2**53 + 1, 2**63 - 1, 2**63, 2**64 - 1, 97, 1000]


def respell(rng, c, p=0.4):
    """Rename labels (int64) and/or node ids (uint64, including ids that occur in edges only) injectively into values a validator might
    treat specially: -1, 0, dtype limits, ids equal to labels.  The graph and the partition are the same up to renaming."""
    c = dict(c)
    if rng.random() < p:
        labs = sorted(set(c["labels"]))
        new = rng.sample(LABEL_POOL, len(labs)) if len(labs) <= len(LABEL_POOL) else labs
        m = dict(zip(labs, new))
        c["labels"] = [m[l] for l in c["labels"]]
    if rng.random() < p / 2:
        ids = sorted(set(c["nodes"]) | {x for e in c["edges"] for x in e})
        if len(ids) <= len(NODE_POOL):
            m = dict(zip(ids, rng.sample(NODE_POOL, len(ids))))
            c["nodes"] = [m[x] for x in c["nodes"]]
            c["edges"] = [[m[a], m[b]] for a, b in c["edges"]]
    return c


# ---------------------------------------------------------------- graphs with cycles (C13, second half)
MSG_KINDS = [
    (r"Invalid path structure \(branch or merge detected\)\.$", "RBranch", False),
    (r"Cycle detected\.$", "RCycle", False),
    (r"Not fully connected\.$", "RDisconnected", False),
    (r"Invalid path structure \(division or merge inside the tracklet\)\.$", "RDivMerge", False),
    (r"Not maximal\. Path can extend backward to node (-?\d+)\.$", "RBack", True),
    (r"Not maximal\. Path can extend forward to node (-?\d+)\.$", "RFwd", True),
]


def parsed_msgs(errors):
    """[tracklet id | None, reason constructor | None, node | None] per message of validate_tracklets"""
    out = []
    for e in errors:
        m = re.match(r"Tracklet (-?\d+): (.*)$", e)
        if not m:
            out.append([None, None, None])
            continue
        tid, rest = int(m.group(1)), m.group(2)
        for pat, name, has_node in MSG_KINDS:
            mm = re.match(pat, rest)
            if mm:
                out.append([tid, name, int(mm.group(1)) if has_node else None])
                break
        else:
            out.append([tid, None, None])
    return out


def has_directed_cycle(nodes, edges):
    """Directed cycle among `nodes` using only edges with both ends in `nodes` (self loop = cycle).
    Depth-first search with colours (deliberately not Kahn's algorithm, which is what networkx and the model use)."""
    nodes = set(nodes)
    adj = {n: [] for n in nodes}
    for a, b in edges:
        if a in nodes and b in nodes:
            adj[a].append(b)
    colour = dict.fromkeys(nodes, 0)
    for root in nodes:
        if colour[root]:
            continue
        colour[root] = 1
        stack = [(root, iter(adj[root]))]
        while stack:
            u, it = stack[-1]
            for v in it:
                if colour[v] == 1:
                    return True
                if colour[v] == 0:
                    colour[v] = 1
                    stack.append((v, iter(adj[v])))
                    break
            else:
                colour[u] = 2
                stack.pop()
    return False


def linking_components(nodes, edges):
    es = {tuple(e) for e in edges}
    outd = {n: len({b for a, b in es if a == n}) for n in nodes}
    ind = {n: len({a for a, b in es if b == n}) for n in nodes}
    linking = [(a, b) for a, b in es if outd[a] == 1 and ind[b] == 1]
    return components(nodes, linking)


def planted_cyclic(rng, n):
    """A forest-like DAG on n nodes (index edges) with 1-3 planted cycles: self loops, 2-cycles, 3-cycles, a tracklet closed
    into a ring (cycle INSIDE a tracklet), back edges through divisions / merges (cycle OUTSIDE the tracklets), isolated rings."""
    order = list(range(n))
    rng.shuffle(order)
    edges = []
    for j in range(1, n):
        if rng.random() < 0.8:
            edges.append((order[rng.randrange(max(0, j - 3), j)], order[j]))
        if rng.random() < 0.1:
            edges.append((order[rng.randrange(0, j)], order[j]))
    edges = list(dict.fromkeys(edges))
    what = []
    for _ in range(rng.choice([1, 1, 2, 3])):
        k = rng.choice(["self", "two", "two_edge", "three", "three_path", "close", "ring", "back"])
        if k == "self":
            a = rng.randrange(n)
            edges.append((a, a))
        elif k == "two" and n >= 2:
            a, b = rng.sample(range(n), 2)
            edges += [(a, b), (b, a)]
        elif k == "two_edge" and edges:
            a, b = rng.choice(edges)
            edges.append((b, a))
        elif k == "three" and n >= 3:
            a, b, c = rng.sample(range(n), 3)
            edges += [(a, b), (b, c), (c, a)]
        elif k == "three_path":
            two = [(a, b, c) for a, b in edges for b2, c in edges if b2 == b and c != a and a != b and b != c]
            if two:
                a, b, c = rng.choice(two)
                edges.append((c, a))
        elif k == "close":
            comps = [c for c in linking_components(list(range(n)), edges) if len(c) >= 2]
            if comps:
                c = rng.choice(sorted(comps, key=min))
                es = set(edges)
                heads = [x for x in c if not any((y, x) in es for y in c)]
                tails = [x for x in c if not any((x, y) in es for y in c)]
                if heads and tails:
                    edges.append((tails[0], heads[0]))
        elif k == "ring":
            free = [x for x in range(n) if not any(x in e for e in edges)]
            m = min(len(free), rng.choice([1, 2, 3, 4]))
            ring = free[:m]
            edges += [(ring[i], ring[(i + 1) % m]) for i in range(m)]
        elif k == "back" and edges:
            a, b = rng.choice(edges)
            desc = {b}
            for _ in range(n):
                desc |= {y for x, y in edges if x in desc}
            edges.append((rng.choice(sorted(desc)), a))
        what.append(k)
    edges = list(dict.fromkeys(edges))
    if rng.random() < 0.1 and edges:
        edges.append(rng.choice(edges))
    return edges, what
