"""C04 -- structural validation accepts exactly the spec-conformant stores (fault catalogue)."""
from __future__ import annotations

import copy
import json
import random

import numpy as np

from harness.common import Failure, exn_name
from harness.storelib import Interner, c_otree, dump_tree, tree_printable

PROP = "C04"
PARALLEL = True
RULE = ("valid base stores (library-written and independently written; with/without props groups, masks, var-length, axes; empty and "
        "non-empty; zarr 2 and 3) x EVERY single structural fault of the catalogue applied through the zarr API (delete / replace by "
        "the other kind / re-dtype / reshape to rank 0..3 and length N+-1 for every array; delete / replace / add members for every "
        "group; drop / retype / corrupt every metadata field; add, drop, retarget property-metadata entries and axes) and sampled pairs of "
        "faults; verdict = accept / exception class of geff.validate_structure, also through GeffReader(validate=True) and "
        "`geff validate`; non-trivial = a fault was applied; distinct by (base, format, fault list)")
EXHAUSTIVE_BLOCKS = ["every single fault of the catalogue on every base store x zarr format {2,3}"]
ASSUMPTIONS = ["the abstract dump (harness/storelib.dump_tree, zarr API only) is what the validator sees",
               "validity of the metadata document itself is decided by GeffMetadata.model_validate (C07); here it is one bit of the tree",
               "var-length reading: stated dtype applies to `data`, `values` holds uint64 offsets (as the code and docs/specification.md agree)"]


# --------------------------------------------------------------------------
# base stores
# --------------------------------------------------------------------------
def obj_arr(elems):
    o = np.empty(len(elems), dtype=object)
    for i, e in enumerate(elems):
        o[i] = e
    return o


def base_store(name: str, fmt: int):
    """A valid geff in a MemoryStore."""
    from zarr.storage import MemoryStore

    from geff.core_io import write_arrays
    from geff_spec import Axis, GeffMetadata

    st = MemoryStore()
    if name == "full":
        md = GeffMetadata(directed=True, node_props_metadata={}, edge_props_metadata={}, axes=[Axis(name="x", type="space")],
                          extra={"k": 1})
        write_arrays(st, np.array([5, 6, 7], "uint16"),
                     {"x": {"values": np.array([1.5, 2.0, 3.0]), "missing": None},
                      "m": {"values": np.arange(6, dtype="int32").reshape(3, 2), "missing": np.array([0, 1, 0], bool)},
                      "v": {"values": obj_arr([np.zeros((2, 2), "int8"), np.ones((0, 3), "int8"), np.full((1, 1), 7, "int8")]),
                            "missing": np.array([0, 0, 1], bool)},
                      "s": {"values": np.array(["a", "bcd", ""]), "missing": None}},
                     np.array([[5, 6], [6, 7]], "uint16"),
                     {"w": {"values": np.array([1.0, 2.0], "float32"), "missing": np.array([1, 0], bool)}}, md, zarr_format=fmt)
    elif name == "bare":  # no props groups at all
        md = GeffMetadata(directed=False, node_props_metadata={}, edge_props_metadata={})
        write_arrays(st, np.array([1, 2], "int64"), None, np.array([[1, 2]], "int64"), None, md, zarr_format=fmt)
    elif name == "empty":  # empty graph, empty props groups
        md = GeffMetadata(directed=True, node_props_metadata={}, edge_props_metadata={})
        write_arrays(st, np.empty(0, "uint8"), {}, np.empty((0, 2), "uint8"), {}, md, zarr_format=fmt)
    elif name == "single":
        md = GeffMetadata(directed=True, node_props_metadata={}, edge_props_metadata={}, axes=[Axis(name="t"), Axis(name="y")])
        write_arrays(st, np.array([9], "uint64"), {"t": {"values": np.array([3], "int32"), "missing": None},
                                                    "y": {"values": np.array([0.5], "float32"), "missing": None}},
                     np.empty((0, 2), "uint64"), {}, md, zarr_format=fmt)
    else:
        raise ValueError(name)
    return st


BASES = ["full", "bare", "empty", "single"]


def walk(node, prefix=""):
    """(path, 'A'|'G', zarr node) for every member below the root."""
    import zarr

    for k in sorted(node.keys()):
        child = node[k]
        p = f"{prefix}/{k}" if prefix else k
        if isinstance(child, zarr.Array):
            yield p, "A", child
        else:
            yield p, "G", child
            yield from walk(child, p)


DTYPE_SWAPS = ["float64", "int64", "uint64", "bool", "int8", "<U3", "uint16", "float32"]


def catalogue(base: str, fmt: int) -> list[list]:
    import zarr

    st = base_store(base, fmt)
    root = zarr.open_group(st, mode="r")
    faults: list[list] = []
    for path, kind, node in walk(root):
        if kind == "A":
            faults.append(["del", path])
            faults.append(["to_group", path])
            for dt in DTYPE_SWAPS:
                if np.dtype(dt) != node.dtype and not (np.dtype(dt).kind == "U" and node.dtype.kind in "UT"):
                    faults.append(["dtype", path, dt])
            n = node.shape[0] if node.ndim else 1
            tail = list(node.shape[1:])
            shapes = [[], [n], [n + 1], [max(n - 1, 0)] if n else [2], [n, 2], [n, 1], [n, 2, 2], [n + 1] + tail, [0], [n, 3]]
            seen = []
            for sh in shapes:
                if sh != list(node.shape) and sh not in seen:
                    seen.append(sh)
                    faults.append(["reshape", path, sh])
        else:
            faults.append(["del", path])
            faults.append(["to_array", path])
            faults.append(["add_group", path, "zzz"])
            faults.append(["add_array", path, "zzz"])
            if path.count("/") == 2:  # a property group: reserved names as the wrong kind
                for nm in ("missing", "data", "values"):
                    faults.append(["add_group", path, nm])
                faults.append(["add_array", path, "missing_2d"])
                faults.append(["add_array", path, "data"])
    faults += [["add_group", "", "zzz"], ["add_array", "", "zzz"], ["root_attr", "foo"]]
    md = dict(root.attrs["geff"])
    faults += [["md_drop_geff"], ["md_not_mapping"], ["md_set", "geff_version", "not-a-version"], ["md_set", "directed", "maybe"],
               ["md_del", "directed"], ["md_del", "node_props_metadata"], ["md_del", "edge_props_metadata"], ["md_del", "geff_version"],
               ["md_set", "axes", [{"name": "x"}, {"name": "x"}]], ["md_set", "axes", [{"name": "nope"}]], ["md_set", "axes", None], ["md_set", "axes", []],
               ["md_set", "unknown_key", 1], ["md_ghost", "node"], ["md_ghost", "edge"],
               # one fault per clause of the metadata model's own validators (documents stay well-typed JSON)
               ["md_set", "geff_version", "1"], ["md_set", "geff_version", "0.5.1.dev3+gabc"], ["md_set", "sphere", 7],
               ["md_set", "display_hints", {"display_horizontal": "nope", "display_vertical": "nope2"}],
               ["md_set", "track_node_props", {"clone": "x"}], ["md_set", "track_node_props", {"lineage": "anything"}],
               ["md_set", "related_objects", [{"type": "image", "path": "../im", "label_prop": "seg"}]],
               ["md_set", "related_objects", [{"type": "labels", "path": "../seg", "label_prop": "seg"}]],
               ["md_set", "related_objects", [{"type": "labels"}]], ["md_set", "extra", {"a": {"b": [1, None]}}], ["md_set", "extra", 3]]
    for i, ax in enumerate(md.get("axes") or []):
        for field, value in (("min", 5.0), ("min", None), ("type", "depth"), ("type", "channel"), ("scaled_unit", "nanometer"),
                             ("scale", 2.0), ("unit", "parsec"), ("offset", -1.5), ("name", 3)):
            faults.append(["md_axis_set", i, field, value])
        faults.append(["md_axis_range", i, 9.0, 1.0])
        faults.append(["md_hints_on", ax["name"]])
    for which in ("node_props_metadata", "edge_props_metadata"):
        for nm, pm in (md.get(which) or {}).items():
            faults.append(["md_prop_del", which, nm])
            faults.append(["md_prop_set", which, nm, "varlength", not pm.get("varlength", False)])
            for dt in ("int8", "float64", "str", "uint64"):
                if dt != pm["dtype"]:
                    faults.append(["md_prop_set", which, nm, "dtype", dt])
            faults.append(["md_prop_set", which, nm, "identifier", nm + "_x"])
            faults.append(["md_prop_set", which, nm, "identifier", ""])
            faults.append(["md_prop_set", which, nm, "unit", "furlong"])
            faults.append(["md_prop_set", which, nm, "dtype", ""])
            faults.append(["md_prop_set", which, nm, "dtype", {"int8": "i1", "int16": "<i2", "int32": "<i4", "int64": "<i8", "uint8": "u1", "uint16": "u2", "uint32": "u4", "uint64": ">u8", "float32": "<f4", "float64": "f8"}.get(pm["dtype"], pm["dtype"])])
            others = [o for o in (md.get(which) or {}) if o != nm]
            if others:
                faults.append(["md_prop_swap_ids", which, nm, others[0]])
            faults.append(["md_prop_set", which, nm, "dtype", "complex64"])
            # spellings outside the old finite table (numpy's one-letter / byte-order / sized forms) and the comma strings that numpy
            # answers with SyntaxError (a validation error since fix 84c3e01: validate_structure must report, not crash)
            for dt in (",", "i4,,", "01i4", "l", "=i4", "|u1", "U0", "i 4", "Int8"):
                faults.append(["md_prop_set", which, nm, "dtype", dt])
            faults.append(["md_axis_on", nm])
            # a metadata entry for a property that is NOT a member of the props group but whose name, read as a zarr PATH below the
            # group, reaches something that exists (a member of a real property group, the group itself): membership must be decided
            # on the member names, not by path lookup
            for ghost in (nm + "/values", nm + "/", "/" + nm, nm + "/missing", nm + "/data"):
                faults.append(["md_ghost_named", which, ghost])
        faults.append(["md_ghost_named", which, "/"])
    return faults


def apply_fault(st, fault: list) -> None:
    import zarr

    root = zarr.open_group(st, mode="a")
    kind = fault[0]
    if kind == "del":
        del root[fault[1]]
    elif kind == "to_group":
        del root[fault[1]]
        root.create_group(fault[1])
    elif kind == "to_array":
        del root[fault[1]]
        root[fault[1]] = np.arange(3)
    elif kind == "dtype":
        old = root[fault[1]]
        shape = old.shape
        del root[fault[1]]
        root[fault[1]] = np.zeros(shape, dtype=fault[2])
    elif kind == "reshape":
        old = root[fault[1]]
        dt = old.dtype
        del root[fault[1]]
        root[fault[1]] = np.zeros(tuple(fault[2]), dtype=dt if np.dtype(dt).kind not in "UT" else "<U2")
    elif kind == "add_group":
        parent = root[fault[1]] if fault[1] else root
        if fault[2] in parent:
            del parent[fault[2]]
        parent.create_group(fault[2])
    elif kind == "add_array":
        parent = root[fault[1]] if fault[1] else root
        nm = fault[2]
        if nm == "missing_2d":
            vals = parent["values"] if "values" in parent else None
            n = vals.shape[0] if vals is not None and vals.ndim else 1
            if "missing" in parent:
                del parent["missing"]
            parent["missing"] = np.zeros((n, 1), dtype=bool)
        else:
            if nm in parent:
                del parent[nm]
            parent[nm] = np.arange(2, dtype="int8")
    elif kind == "root_attr":
        root.attrs[fault[1]] = {"x": [1, 2]}
    elif kind == "md_drop_geff":
        del root.attrs["geff"]
    elif kind == "md_not_mapping":
        root.attrs["geff"] = [1, 2, 3]
    else:
        md = json.loads(json.dumps(dict(root.attrs["geff"])))
        if kind == "md_set":
            md[fault[1]] = fault[2]
        elif kind == "md_del":
            md.pop(fault[1], None)
        elif kind == "md_ghost":
            md[f"{fault[1]}_props_metadata"]["ghost"] = {"identifier": "ghost", "dtype": "int8"}
        elif kind == "md_ghost_named":
            md[fault[1]][fault[2]] = {"identifier": fault[2], "dtype": "int8"}
        elif kind == "md_prop_del":
            md[fault[1]].pop(fault[2], None)
        elif kind == "md_prop_set":
            md[fault[1]][fault[2]][fault[3]] = fault[4]
        elif kind == "md_axis_on":
            md["axes"] = [{"name": fault[1]}]
        elif kind == "md_axis_set":
            md["axes"][fault[1]][fault[2]] = fault[3]
        elif kind == "md_axis_range":
            md["axes"][fault[1]]["min"], md["axes"][fault[1]]["max"] = fault[2], fault[3]
        elif kind == "md_hints_on":
            md["display_hints"] = {"display_horizontal": fault[1], "display_vertical": fault[1]}
        elif kind == "md_prop_swap_ids":
            md[fault[1]][fault[2]]["identifier"], md[fault[1]][fault[3]]["identifier"] = fault[3], fault[2]
        else:
            raise ValueError(kind)
        root.attrs["geff"] = md


# --------------------------------------------------------------------------
def generate(rng: random.Random, tier: str):
    for fmt in (2, 3):
        for base in BASES:
            yield {"kind": "validate", "base": base, "fmt": fmt, "faults": []}
            cat = catalogue(base, fmt)
            for i, f in enumerate(cat):
                # every 6th fault (all of them in thorough) is also judged through the command line
                yield {"kind": "validate", "base": base, "fmt": fmt, "faults": [f], "cli": tier == "thorough" or i % 6 == 0}
            npairs = 40 if tier == "quick" else 600
            for _ in range(npairs):
                yield {"kind": "validate", "base": base, "fmt": fmt, "faults": [rng.choice(cat), rng.choice(cat)]}
    yield {"kind": "validate", "base": "absent-path", "fmt": 2, "faults": []}
    yield {"kind": "validate", "base": "empty-store", "fmt": 2, "faults": []}


def verdict(fn):
    try:
        fn()
        return ["ok"]
    except Exception as e:
        return ["err", exn_name(e), type(e).__name__, str(e)[:100]]


def run_impl(c):
    from zarr.storage import MemoryStore

    from geff import GeffReader, validate_structure

    it = Interner()
    obs = {}
    if c["base"] == "absent-path":
        p = "/verif/.work/definitely-absent.zarr"
        obs["v"] = verdict(lambda: validate_structure(p))
        obs["reader"] = verdict(lambda: GeffReader(p, validate=True))
        obs["coq"] = f"(IValidate KPath None, OVal {cres(obs['v'])})"
        obs["tree"] = None
        return obs
    if c["base"] == "empty-store":
        st = MemoryStore()
    else:
        st = base_store(c["base"], c["fmt"])
    applied = []
    for f in c["faults"]:
        try:
            apply_fault(st, f)
            applied.append(True)
        except Exception as e:  # the second fault of a pair may no longer apply
            applied.append(False)
    obs["applied"] = applied
    tree = dump_tree(st, it)
    obs["v"] = verdict(lambda: validate_structure(st))
    obs["reader"] = verdict(lambda: GeffReader(st))  # validation is the documented default of the reader
    if c.get("cli"):
        obs["cli"] = cli_exit(st)
    obs["tree"] = tree
    if tree_printable(tree):
        obs["coq"] = f"(IValidate KObj {c_otree(tree)}, OVal {cres(obs['v'])})"
        doc = doc_term(st)
        if doc is not None:
            obs["coq"] = f"(IValidateJ KObj {c_otree(tree)} {doc[0]} {doc[1]}, OVal {cres(obs['v'])})"
            obs["doc_tied"] = True
    return obs


_KNOWN_DTYPE_SPELLINGS = None


def known_dtype_spellings():
    """the dtype spellings the Coq metadata model knows (the finite np.dtype(...).name table of Meta.v)"""
    global _KNOWN_DTYPE_SPELLINGS
    if _KNOWN_DTYPE_SPELLINGS is None:
        import re

        from harness.common import COQ

        txt = (COQ / "theories" / "Meta.v").read_text()
        body = txt[txt.index("Definition np_names"):txt.index("Fixpoint assoc")]
        _KNOWN_DTYPE_SPELLINGS = set(re.findall(r'\("([^"]*)","[^"]*"\)', body))
    return _KNOWN_DTYPE_SPELLINGS


def doc_term(st):
    """(Coq string GEFF_VERSION, Coq jv term of the raw attrs['geff']) or None when the document is outside the metadata model's encoding
    (floats that are not multiples of 2^-10, dtype spellings outside the model's table, no geff attribute, root not a group)"""
    import zarr

    from geff_spec._schema import GEFF_VERSION
    from harness import c07
    from harness.common import cstr

    try:
        root = zarr.open_group(st, mode="r")
        if "geff" not in root.attrs:
            return None
        raw = json.loads(json.dumps(root.attrs["geff"]))
        if isinstance(raw, dict):
            for key in ("node_props_metadata", "edge_props_metadata"):
                pm = raw.get(key)
                if isinstance(pm, dict):
                    for e in pm.values():
                        if isinstance(e, dict) and isinstance(e.get("dtype"), str) and not c07.dtype_model_ok(e["dtype"]):
                            return None
        return cstr(GEFF_VERSION), c07.to_jv(c07.enc(raw))
    except Exception:
        return None


def cli_exit(st) -> int:
    """exit status of `geff validate <path>` on a directory copy of the store"""
    import os
    import shutil
    from pathlib import Path

    from typer.testing import CliRunner

    from geff._cli import app
    from harness.common import WORK

    p = WORK / f"c04-{os.getpid()}" / "s.zarr"
    shutil.rmtree(p.parent, ignore_errors=True)
    p.mkdir(parents=True)
    for k, v in st._store_dict.items():
        f = p / k
        f.parent.mkdir(parents=True, exist_ok=True)
        f.write_bytes(bytes(v.to_bytes()))
    try:
        return CliRunner().invoke(app, ["validate", str(p)]).exit_code
    finally:
        shutil.rmtree(p.parent, ignore_errors=True)


def cres(v):
    return "(Ok tt)" if v[0] == "ok" else f"(Err {v[1]})"


def coq_case(c, o):
    return o.get("coq")


# ---- independent oracle: `conformant` written from docs/specification.md and the property text, on the abstract dump ----
INT = {"int8", "int16", "int32", "int64", "uint8", "uint16", "uint32", "uint64"}


def member(g, name):
    if g is None or g["k"] != "G":
        return None
    for k, v in g["ch"]:
        if k == name:
            return v
    return None


def props_conform(pg, length, pmd) -> bool:
    if pg["k"] != "G":
        return False
    names = [k for k, _ in pg["ch"]]
    if set(names) != {k for k, _ in pmd}:
        return False
    md = dict(pmd)
    for name, grp in pg["ch"]:
        pm = md[name]
        if grp["k"] != "G":
            return False
        vals = member(grp, "values")
        if vals is None or vals["k"] != "A" or len(vals["shape"]) < 1 or vals["shape"][0] != length:
            return False
        data = member(grp, "data")
        if pm["varlength"]:
            if data is None or data["k"] != "A" or data["dt"] != pm["dtype"] or vals["dt"] != "uint64":
                return False
            if len(vals["shape"]) != 2 or len(data["shape"]) != 1:  # one (offset, *shape) row per element into a 1-D data array
                return False
        else:
            if data is not None or vals["dt"] != pm["dtype"]:
                return False
        miss = member(grp, "missing")
        if miss is not None and not (miss["k"] == "A" and miss["shape"] == [length] and miss["dt"] == "bool"):
            return False
    return True


def conformant(tree) -> bool:
    if tree is None or tree["k"] != "G":
        return False
    geff = [v for k, v in tree["attrs"] if k == "geff"]
    if not geff or geff[0].get("geff") is None:
        return False
    md = geff[0]["geff"]
    nodes, edges = member(tree, "nodes"), member(tree, "edges")
    if nodes is None or edges is None or nodes["k"] != "G" or edges["k"] != "G":
        return False
    nids, eids = member(nodes, "ids"), member(edges, "ids")
    if nids is None or eids is None or nids["k"] != "A" or eids["k"] != "A":
        return False
    if nids["dt"] not in INT or len(nids["shape"]) != 1:
        return False
    if len(eids["shape"]) != 2 or eids["shape"][1] != 2 or eids["dt"] != nids["dt"]:
        return False
    for grp, length, pmd in ((nodes, nids["shape"][0], md["nprops"]), (edges, eids["shape"][0], md["eprops"])):
        pg = member(grp, "props")
        if pg is None:
            if pmd:
                return False
        elif not props_conform(pg, length, pmd):
            return False
    if md["axes"]:  # every axis names a stored 1-D node property without missing values (nothing to check for an empty list)
        pg = member(nodes, "props")
        if pg is None or pg["k"] != "G":
            return False
        for ax in md["axes"]:
            ag = member(pg, ax["name"])
            vals = member(ag, "values")
            if ag is None or vals is None or vals["k"] != "A" or len(vals["shape"]) != 1 or member(ag, "missing") is not None:
                return False
    return True


def oracle(c, o):
    v = o["v"]
    if c["base"] == "absent-path":
        if v[0] == "ok" or v[1] != "FileNotFoundError":
            return Failure(c, slim(o), f"validating a path that does not exist gave {v}", {"why": "absent-path"})
        return None
    exp = conformant(o["tree"])
    if exp and v[0] != "ok":
        return Failure(c, slim(o), f"rejects a conformant store: {v}", {"why": "rejects-conformant", "fault": fault_tag(c)})
    if not exp and v[0] == "ok":
        return Failure(c, slim(o), "accepts a non-conformant store", {"why": "accepts-nonconformant", "fault": fault_tag(c)})
    if v[0] == "err" and v[1] != "ValueError":
        return Failure(c, slim(o), f"rejects with {v[2]} instead of ValueError: {v[3]}", {"why": "wrong-exception", "exc": v[2]})
    if "cli" in o and (o["cli"] == 0) != (v[0] == "ok"):
        return Failure(c, slim(o), f"`geff validate` exits {o['cli']} but validate_structure {v[:3]}", {"why": "cli-disagrees"})
    if o["reader"][0] != v[0] or (v[0] == "err" and o["reader"][1] != v[1]):
        return Failure(c, slim(o), f"GeffReader(validate=True) gives {o['reader'][:3]} but validate_structure {v[:3]}", {"why": "reader-disagrees"})
    return None


def fault_tag(c):
    return "+".join(f[0] for f in c["faults"]) or "none"


def slim(o):
    return {k: v for k, v in o.items() if k not in ("coq", "tree")}


def nontrivial(c, o):
    return bool(c["faults"])


def describe(c, o):
    return f"{c['base']}:v{c['fmt']}:{fault_tag(c)}:{o['v'][0] if o['v'][0] == 'ok' else o['v'][2]}"


def search(rng, budget):
    yield from generate(rng, "thorough")
